import ClusterVerif.Spec.C11
import ClusterVerif.Gen.C11

/-! Helper lemmas for Props/C11. -/
namespace CV.C11
open CV

/-! ### the strict reading of the options implies the code's reading -/

/-- a pair with a malformed escape never reaches `Get` -/
theorem getq_ne_garbled (q : List (String × QV)) (k : String) : getq q k ≠ .garbled := by
  unfold getq
  cases h : q.find? (fun p => p.1 == k && p.2 != .garbled) with
  | none => simp
  | some p =>
    have := List.find?_some h
    simp only [Bool.and_eq_true, bne_iff_ne, ne_eq] at this
    simpa using this.2

@[simp] theorem valid_bne_garbled (v : Val) : (QV.valid v != QV.garbled) = true := by simp
@[simp] theorem empty_bne_garbled : (QV.empty != QV.garbled) = true := by decide

/-- since b5b684c the code reads the options exactly as the strict reading does; what is left apart is a
    pin option whose value has a malformed escape: `Get` does not see it (the handlers that parse options refuse
    the whole query string instead, `hasGarbled`) -/
theorem carried_eq (q : List (String × QV)) (md : List (Nat × Nat)) :
    carried q md = if garbledOption q then none else fromQuery q md := rfl

theorem garbledOption_hasGarbled {q : List (String × QV)} (h : garbledOption q = true) : hasGarbled q = true := by
  unfold garbledOption at h; unfold hasGarbled
  obtain ⟨p, hp, hpp⟩ := List.any_eq_true.mp h
  simp only [Bool.and_eq_true] at hpp
  exact List.any_eq_true.mpr ⟨p, hp, hpp.1⟩

theorem fromQuery_of_carried {q : List (String × QV)} {md : List (Nat × Nat)} {o : Opts}
    (h : carried q md = some o) : fromQuery q md = some o := by
  rw [carried_eq] at h
  split at h
  · simp at h
  · exact h

theorem carried_of_fromQuery {q : List (String × QV)} {md : List (Nat × Nat)} {o : Opts}
    (hg : hasGarbled q = false) (h : fromQuery q md = some o) : carried q md = some o := by
  rw [carried_eq]
  have : garbledOption q = false := by
    cases hgo : garbledOption q with
    | false => rfl
    | true => rw [garbledOption_hasGarbled hgo] at hg; exact absurd hg (by decide)
  simp [this, h]

theorem carried_none_of_fromQuery_none {q : List (String × QV)} {md : List (Nat × Nat)}
    (h : fromQuery q md = none) : carried q md = none := by
  rw [carried_eq]; split <;> simp [h]

/-! ### handlers against the expectation of their route -/

/-- frozen: which expectation shape each handler function implements -/
def shapeOf : Handler → Option Shape
  | .id => some (.unit "Cluster.ID")
  | .version => some (.unit "Cluster.Version")
  | .peerList => some (.unit "Cluster.Peers")
  | .peerAdd => some (.pidBody "Cluster.PeerAdd")
  | .peerRemove => some (.pidVar "Cluster.PeerRemove")
  | .add => some .add
  | .allocations => some (.typeFilter "Cluster.Pins")
  | .allocation => some (.cidArg "Cluster.PinGet")
  | .statusAll => some (.statusFilter "Cluster.StatusAll" "Cluster.StatusAllLocal")
  | .recover => some (.localCid "Cluster.Recover" "Cluster.RecoverLocal")
  | .recoverAll => some (.localUnit "Cluster.RecoverAll" "Cluster.RecoverAllLocal")
  | .status => some (.localCid "Cluster.Status" "Cluster.StatusLocal")
  | .pin => some (.pin "Cluster.Pin")
  | .pinPath => some (.pinPath "Cluster.PinPath")
  | .unpin => some (.unpin "Cluster.Unpin")
  | .unpinPath => some (.unpinPath "Cluster.UnpinPath")
  | .repoGC => some (.localUnit "Cluster.RepoGC" "Cluster.RepoGCLocal")
  | .graph => some (.unit "Cluster.ConnectGraph")
  | .alerts => some (.unit "Cluster.Alerts")
  | .metrics => some (.nameVar "PeerMonitor.LatestMetrics")
  | .metricNames => some (.unit "PeerMonitor.MetricNames")
  | .notFound => none
  | .methodNotAllowed => none

/-- a response whose body is right for its status: empty for 204, one JSON document otherwise -/
def wellShaped (o : Resp) : Bool :=
  (o.status == 204 && o.body == .docs 0) || (o.status != 204 && !is3xx o.status && o.body == .docs 1)

theorem respond_ops (r : Req) (op : Op) (a b c d : Nat) : (respond r op a b c d).ops = [op] := by
  unfold respond; cases r.rpc <;> rfl

theorem performed_respond (w : Want) (r : Req) (op : Op) (a b c d : Nat) :
    performed w (respond r op a b c d) = w.ok op := by
  simp [performed, respond_ops]

theorem refused_refuse : refused (refuse 400) = true := by decide

theorem conforms_decide'_respond {j : Bool} {w : Want} {r : Req} {op : Op} {a b c d : Nat}
    (h : w.ok op = true) : conforms (decide' j w) (respond r op a b c d) = true := by
  unfold decide'; cases j <;> simp [conforms, performed_respond, h]

theorem conforms_either_refuse (w : Want) : conforms (.either w) (refuse 400) = true := by
  simp [conforms, refused_refuse]

theorem conforms_decide'_refuse (w : Want) : conforms (decide' true w) (refuse 400) = true := by
  simp [decide', conforms_either_refuse]

theorem conforms_malformed_refuse : conforms .malformed (refuse 400) = true := by
  simp [conforms, refused_refuse]

theorem wellShaped_refuse : wellShaped (refuse 400) = true := by decide

theorem wellShaped_respond (r : Req) (op : Op) {a b c d : Nat}
    (hok : (a = 204 ∧ b = 0) ∨ (a = 200 ∧ b = 1)) (hc : c = 500 ∨ c = 404) (hd : d = 500 ∨ d = 404) :
    wellShaped (respond r op a b c d) = true := by
  unfold respond
  cases r.rpc
  · rcases hok with ⟨rfl, rfl⟩ | ⟨rfl, rfl⟩ <;> simp [wellShaped, is3xx]
  · rcases hc with rfl | rfl <;> simp [wellShaped, is3xx]
  · rcases hd with rfl | rfl <;> simp [wellShaped, is3xx]

theorem wellShaped_call (r : Req) (n : String) (a : Arg) : wellShaped (call r n a) = true := by
  unfold call; exact wellShaped_respond r _ (Or.inr ⟨rfl, rfl⟩) (Or.inl rfl) (Or.inl rfl)

theorem optsBad_of_fromQuery_none {r : Req} (h : fromQuery r.query r.md = none) : optsBad r = true := by
  unfold optsBad
  cases hc : carried r.query r.md with
  | none => rfl
  | some o => rw [fromQuery_of_carried hc] at h; simp at h

theorem localNames_mem (r : Req) (op opl : String) :
    (if isLocal r = true then opl else op) ∈ localNames r op opl := by
  unfold localNames isLocal
  cases h : getq r.query "local" with
  | empty => simp
  | invalid => by_cases h' : op = opl <;> simp [h']
  | garbled => exact absurd h (getq_ne_garbled _ _)
  | valid v =>
    cases v with
    | bool b => cases b <;> simp
    | _ => simp

/-- the CID of the `{hash}` variable -/
abbrev cidOpt (r : Req) (pat : List PSeg) : Option Nat := (varSeg "hash" pat r.segs).bind (·.cid)

/-- the parse helper refused although the path part decoded: the query string does not parse, or an option does not -/
def queryRefused (r : Req) : Prop := hasGarbled r.query = true ∨ fromQuery r.query r.md = none

theorem parseCid_cases (r : Req) (pat : List PSeg) :
    (cidOpt r pat = none ∧ parseCid r pat = none) ∨
    (∃ c, cidOpt r pat = some c ∧ queryRefused r ∧ parseCid r pat = none) ∨
    (∃ c o, cidOpt r pat = some c ∧ hasGarbled r.query = false ∧ fromQuery r.query r.md = some o ∧
      parseCid r pat = some (pinWithOpts c o)) := by
  unfold parseCid cidOpt queryRefused
  cases hc : (varSeg "hash" pat r.segs).bind (·.cid) with
  | none => simp
  | some c =>
    cases hg : hasGarbled r.query with
    | true => simp
    | false =>
      cases hf : fromQuery r.query r.md with
      | none => simp
      | some o => simp

theorem parsePinPath_cases (r : Req) (pat : List PSeg) :
    (pathOf pat r.segs = none ∧ parsePinPath r pat = none) ∨
    (∃ p, pathOf pat r.segs = some p ∧ queryRefused r ∧ parsePinPath r pat = none) ∨
    (∃ p o, pathOf pat r.segs = some p ∧ hasGarbled r.query = false ∧ fromQuery r.query r.md = some o ∧
      parsePinPath r pat = some (p, o)) := by
  unfold parsePinPath queryRefused
  cases hc : pathOf pat r.segs with
  | none => simp
  | some c =>
    cases hg : hasGarbled r.query with
    | true => simp
    | false =>
      cases hf : fromQuery r.query r.md with
      | none => simp
      | some o => simp

theorem junk_of_refused {r : Req} (h : queryRefused r) :
    (optsBad r || localBad r || filterBad r || hasGarbled r.query) = true := by
  rcases h with h | h
  · simp [h]
  · simp [optsBad_of_fromQuery_none h]

/-- for the routes that carry pin options: a refused query is malformed for the strict reading, or junk -/
theorem pinVerdict_of_refused {r : Req} (h : queryRefused r) :
    carried r.query r.md = none ∨ (localBad r || filterBad r || hasGarbled r.query) = true := by
  rcases h with h | h
  · right; simp [h]
  · left; exact carried_none_of_fromQuery_none h

theorem ok_unit (e : Expect) (r : Req) (n : String) (hs : Shape.unit n = e.shape) :
    conforms (verdict e r) (call r n .unit) = true := by
  unfold verdict; rw [← hs]
  exact conforms_decide'_respond (by simp [Want.ok])

theorem ok_localUnit (e : Expect) (r : Req) (n nl : String) (hs : Shape.localUnit n nl = e.shape) :
    conforms (verdict e r) (call r (if isLocal r then nl else n) .unit) = true := by
  unfold verdict; rw [← hs]
  exact conforms_decide'_respond (by simp [Want.ok, localNames_mem])

theorem ok_typeFilter (e : Expect) (r : Req) (hs : Shape.typeFilter "Cluster.Pins" = e.shape) :
    conforms (verdict e r) (runHandler .allocations r e.pat) = true := by
  unfold verdict runHandler; rw [← hs]
  cases hf : getq r.query "filter" with
  | invalid =>
    have : filterBad r = true := by simp [filterBad, hf]
    simp only [this, Bool.or_true]; exact conforms_decide'_refuse _
  | garbled => exact absurd hf (getq_ne_garbled _ _)
  | empty => exact conforms_decide'_respond (by simp [Want.ok])
  | valid v => exact conforms_decide'_respond (by simp [Want.ok])

theorem ok_cidArg (e : Expect) (r : Req) (n : String) (a b c d : Nat) (hs : Shape.cidArg n = e.shape) :
    conforms (verdict e r)
      (match parseCid r e.pat with
       | some p => respond r ⟨n, .cid p.cid⟩ a b c d
       | none => refuse 400) = true := by
  unfold verdict; rw [← hs]
  rcases parseCid_cases r e.pat with ⟨hc, hp⟩ | ⟨c, hc, hf, hp⟩ | ⟨c, o, hc, _, hf, hp⟩
  · simp only [cidOpt] at hc; simp only [hc, hp]; exact conforms_malformed_refuse
  · simp only [cidOpt] at hc; simp only [hc, hp, junk_of_refused hf]; exact conforms_decide'_refuse _
  · simp only [cidOpt] at hc; simp only [hc, hp]
    exact conforms_decide'_respond (by simp [Want.ok, pinWithOpts])

theorem ok_localCid (e : Expect) (r : Req) (n nl : String) (hs : Shape.localCid n nl = e.shape) :
    conforms (verdict e r)
      (match parseCid r e.pat with
       | some p => call r (if isLocal r then nl else n) (.cid p.cid)
       | none => refuse 400) = true := by
  unfold verdict; rw [← hs]
  rcases parseCid_cases r e.pat with ⟨hc, hp⟩ | ⟨c, hc, hf, hp⟩ | ⟨c, o, hc, _, hf, hp⟩
  · simp only [cidOpt] at hc; simp only [hc, hp]; exact conforms_malformed_refuse
  · simp only [cidOpt] at hc; simp only [hc, hp, junk_of_refused hf]; exact conforms_decide'_refuse _
  · simp only [cidOpt] at hc; simp only [hc, hp]
    exact conforms_decide'_respond (by simp [Want.ok, pinWithOpts, localNames_mem])

theorem ok_unpin (e : Expect) (r : Req) (n : String) (a b c d : Nat) (hs : Shape.unpin n = e.shape) :
    conforms (verdict e r)
      (match parseCid r e.pat with
       | some p => respond r ⟨n, pinArg p⟩ a b c d
       | none => refuse 400) = true := by
  unfold verdict; rw [← hs]
  rcases parseCid_cases r e.pat with ⟨hc, hp⟩ | ⟨c, hc, hf, hp⟩ | ⟨c, o, hc, _, hf, hp⟩
  · simp only [cidOpt] at hc; simp only [hc, hp]; exact conforms_malformed_refuse
  · simp only [cidOpt] at hc; simp only [hc, hp, junk_of_refused hf]; exact conforms_decide'_refuse _
  · simp only [cidOpt] at hc; simp only [hc, hp]
    exact conforms_decide'_respond (by simp [Want.ok, pinArg, pinWithOpts])

theorem ok_pidVar (e : Expect) (r : Req) (hs : Shape.pidVar "Cluster.PeerRemove" = e.shape) :
    conforms (verdict e r) (runHandler .peerRemove r e.pat) = true := by
  unfold verdict runHandler; rw [← hs]
  cases hp : (varSeg "peer" e.pat r.segs).bind (·.pid) with
  | none => exact conforms_malformed_refuse
  | some p => exact conforms_decide'_respond (by simp [Want.ok])

theorem ok_pidBody (e : Expect) (r : Req) (hs : Shape.pidBody "Cluster.PeerAdd" = e.shape) :
    conforms (verdict e r) (runHandler .peerAdd r e.pat) = true := by
  unfold verdict runHandler; rw [← hs]
  cases hb : r.body with
  | none => exact conforms_malformed_refuse
  | bad => exact conforms_malformed_refuse
  | peerJson s =>
    cases hp : s.pid with
    | none => simp only [hp]; exact conforms_malformed_refuse
    | some p => simp only [hp]; exact conforms_decide'_respond (by simp [Want.ok])

theorem ok_nameVar (e : Expect) (r : Req) (hs : Shape.nameVar "PeerMonitor.LatestMetrics" = e.shape) :
    conforms (verdict e r) (runHandler .metrics r e.pat) = true := by
  unfold verdict runHandler; rw [← hs]
  cases hv : varSeg "name" e.pat r.segs <;> exact conforms_decide'_respond (by simp [Want.ok])

theorem ok_statusFilter (e : Expect) (r : Req)
    (hs : Shape.statusFilter "Cluster.StatusAll" "Cluster.StatusAllLocal" = e.shape) :
    conforms (verdict e r) (runHandler .statusAll r e.pat) = true := by
  unfold verdict runHandler; rw [← hs]
  cases hf : getq r.query "filter" with
  | invalid => exact conforms_either_refuse _
  | garbled => exact absurd hf (getq_ne_garbled _ _)
  | empty => exact conforms_decide'_respond (by simp [Want.ok, localNames_mem])
  | valid v =>
    cases v with
    | str m => exact conforms_decide'_respond (by simp [Want.ok, localNames_mem])
    | _ => simp only [conforms, performed_respond, call]; simp [Want.ok, localNames_mem]

theorem ok_add (e : Expect) (r : Req) (hs : Shape.add = e.shape) :
    conforms (verdict e r) (runHandler .add r e.pat) = true := by
  unfold verdict runHandler; rw [← hs]; exact conforms_malformed_refuse

/-- the CID pin route -/
theorem ok_pin (e : Expect) (r : Req) (hs : Shape.pin "Cluster.Pin" = e.shape) :
    conforms (verdict e r) (runHandler .pin r e.pat) = true := by
  unfold verdict runHandler; rw [← hs]
  rcases parseCid_cases r e.pat with ⟨hc, hp⟩ | ⟨c, hc, hf, hp⟩ | ⟨c, o, hc, hg, hf, hp⟩
  · simp only [cidOpt] at hc; simp only [hc, hp]; exact conforms_malformed_refuse
  · simp only [cidOpt] at hc
    rcases pinVerdict_of_refused hf with hcar | hj
    · simp only [hc, hp, hcar]; exact conforms_malformed_refuse
    · cases hcar : carried r.query r.md with
      | none => simp only [hc, hp]; exact conforms_malformed_refuse
      | some o => simp only [hc, hp, hj]; exact conforms_decide'_refuse _
  · simp only [cidOpt] at hc
    have hcar := carried_of_fromQuery hg hf
    simp only [hc, hp, hcar]
    refine conforms_decide'_respond ?_
    cases hmo : o.mode <;> simp [Want.ok, pinArg, pinWithOpts, depthToMode, modeToDepth, hmo]

theorem ok_pinPath (e : Expect) (r : Req) (hs : Shape.pinPath "Cluster.PinPath" = e.shape) :
    conforms (verdict e r) (runHandler .pinPath r e.pat) = true := by
  unfold verdict runHandler; rw [← hs]
  rcases parsePinPath_cases r e.pat with ⟨hc, hp⟩ | ⟨c, hc, hf, hp⟩ | ⟨c, o, hc, hg, hf, hp⟩
  · simp only [hc, hp]; exact conforms_malformed_refuse
  · rcases pinVerdict_of_refused hf with hcar | hj
    · simp only [hc, hp, hcar]; exact conforms_malformed_refuse
    · cases hcar : carried r.query r.md with
      | none => simp only [hc, hp]; exact conforms_malformed_refuse
      | some o => simp only [hc, hp, hj]; exact conforms_decide'_refuse _
  · have hcar := carried_of_fromQuery hg hf
    simp only [hc, hp, hcar]
    exact conforms_decide'_respond (by simp [Want.ok])

theorem ok_unpinPath (e : Expect) (r : Req) (hs : Shape.unpinPath "Cluster.UnpinPath" = e.shape) :
    conforms (verdict e r) (runHandler .unpinPath r e.pat) = true := by
  unfold verdict runHandler; rw [← hs]
  rcases parsePinPath_cases r e.pat with ⟨hc, hp⟩ | ⟨c, hc, hf, hp⟩ | ⟨c, o, hc, _, hf, hp⟩
  · simp only [hc, hp]; exact conforms_malformed_refuse
  · simp only [hc, hp, junk_of_refused hf]; exact conforms_decide'_refuse _
  · simp only [hc, hp]
    exact conforms_decide'_respond (by simp [Want.ok])

theorem wellShaped_handler (h : Handler) (r : Req) (pat : List PSeg) : wellShaped (runHandler h r pat) = true := by
  have w400 := wellShaped_refuse
  cases h <;> unfold runHandler <;> simp only []
  all_goals first
    | exact wellShaped_call _ _ _
    | exact w400
    | decide
    | (split <;> first | exact wellShaped_call _ _ _ | exact w400
                       | exact wellShaped_respond _ _ (Or.inl ⟨rfl, rfl⟩) (Or.inl rfl) (Or.inl rfl)
                       | exact wellShaped_respond _ _ (Or.inr ⟨rfl, rfl⟩) (Or.inr rfl) (Or.inr rfl)
                       | exact wellShaped_respond _ _ (Or.inr ⟨rfl, rfl⟩) (Or.inl rfl) (Or.inr rfl)
                       | (split <;> first | exact wellShaped_call _ _ _ | exact w400))

/-- every handler in the table, run on a request that reached it, conforms to the expectation of the
    shape it implements -/
theorem handler_ok (h : Handler) (e : Expect) (r : Req) (hs : shapeOf h = some e.shape) :
    conforms (verdict e r) (runHandler h r e.pat) = true := by
  cases h <;> simp only [shapeOf, Option.some.injEq] at hs
  case id => exact ok_unit e r _ hs
  case version => exact ok_unit e r _ hs
  case peerList => exact ok_unit e r _ hs
  case graph => exact ok_unit e r _ hs
  case alerts => exact ok_unit e r _ hs
  case metricNames => exact ok_unit e r _ hs
  case peerAdd => exact ok_pidBody e r hs
  case peerRemove => exact ok_pidVar e r hs
  case add => exact ok_add e r hs
  case allocations => exact ok_typeFilter e r hs
  case allocation => exact ok_cidArg e r _ _ _ _ _ hs
  case statusAll => exact ok_statusFilter e r hs
  case recover => exact ok_localCid e r _ _ hs
  case recoverAll => exact ok_localUnit e r _ _ hs
  case status => exact ok_localCid e r _ _ hs
  case pin => exact ok_pin e r hs
  case pinPath => exact ok_pinPath e r hs
  case unpin => exact ok_unpin e r _ _ _ _ _ hs
  case unpinPath => exact ok_unpinPath e r hs
  case repoGC => exact ok_localUnit e r _ _ hs
  case metrics => exact ok_nameVar e r hs
  case notFound => simp at hs
  case methodNotAllowed => simp at hs

/-! ### the table against the expectations -/

/-- the route table lines up with the expectation list: same methods and patterns in the same order,
    and each route's handler implements the expected shape -/
def aligned : List Route → List Expect → Bool
  | [], [] => true
  | rt :: t, e :: es =>
    rt.method == e.method && rt.pat == e.pat && ((Handler.ofName rt.handler).bind shapeOf == some e.shape) && aligned t es
  | _, _ => false

theorem find_aligned {p : String → List PSeg → Bool} :
    ∀ {t : List Route} {es : List Expect}, aligned t es = true → ∀ {rt : Route},
      t.find? (fun rt => p rt.method rt.pat) = some rt →
      ∃ e, e ∈ es ∧ p e.method e.pat = true ∧ e.pat = rt.pat ∧
        ∃ h, Handler.ofName rt.handler = some h ∧ shapeOf h = some e.shape
  | [], [], _, rt, hf => by simp at hf
  | [], _ :: _, ha, _, _ => by simp [aligned] at ha
  | _ :: _, [], ha, _, _ => by simp [aligned] at ha
  | r0 :: t, e0 :: es, ha, rt, hf => by
    simp only [aligned, Bool.and_eq_true, beq_iff_eq] at ha
    obtain ⟨⟨⟨hm, hp⟩, hh⟩, hrest⟩ := ha
    rw [List.find?_cons] at hf
    cases hpr : p r0.method r0.pat with
    | true =>
      simp only [hpr] at hf
      have : r0 = rt := by simpa using hf
      subst this
      refine ⟨e0, by simp, ?_, hp.symm, ?_⟩
      · rw [← hm, ← hp]; exact hpr
      · cases hn : Handler.ofName r0.handler with
        | none => simp [hn] at hh
        | some h => exact ⟨h, rfl, by simpa [hn] using hh⟩
    | false =>
      simp only [hpr] at hf
      obtain ⟨e, he, h1, h2, h3⟩ := find_aligned hrest hf
      exact ⟨e, by simp [he], h1, h2, h3⟩

theorem filter_aligned_nil {p : String → List PSeg → Bool} :
    ∀ {t : List Route} {es : List Expect}, aligned t es = true →
      t.find? (fun rt => p rt.method rt.pat) = none → es.filter (fun e => p e.method e.pat) = []
  | [], [], _, _ => rfl
  | [], _ :: _, ha, _ => by simp [aligned] at ha
  | _ :: _, [], ha, _ => by simp [aligned] at ha
  | r0 :: t, e0 :: es, ha, hf => by
    simp only [aligned, Bool.and_eq_true, beq_iff_eq] at ha
    obtain ⟨⟨⟨hm, hp⟩, _⟩, hrest⟩ := ha
    rw [List.find?_cons] at hf
    cases hpr : p r0.method r0.pat with
    | true => simp [hpr] at hf
    | false =>
      simp only [hpr] at hf
      have := filter_aligned_nil hrest hf
      rw [List.filter_cons]
      rw [← hm, ← hp, hpr]; simpa using this

theorem any_aligned {p : List PSeg → Bool} :
    ∀ {t : List Route} {es : List Expect}, aligned t es = true →
      t.any (fun rt => p rt.pat) = es.any (fun e => p e.pat)
  | [], [], _ => rfl
  | [], _ :: _, ha => by simp [aligned] at ha
  | _ :: _, [], ha => by simp [aligned] at ha
  | r0 :: t, e0 :: es, ha => by
    simp only [aligned, Bool.and_eq_true, beq_iff_eq] at ha
    obtain ⟨⟨⟨_, hp⟩, _⟩, hrest⟩ := ha
    simp only [List.any_cons, hp, any_aligned hrest]

/-! ### assembling the clauses -/

theorem holds_found {r : Req} {o : Resp} {e : Expect} (hauth : authorized r = true) (hpf : preflight r = false)
    (hhead : r.method ≠ "HEAD") (hnc : nonCanonical r = false)
    (he : e ∈ expectations) (ha : addresses e r = true) (hc : conforms (verdict e r) o = true)
    (hw : wellShaped o = true) : holds r o = true := by
  have hmem : e ∈ expectations.filter (fun e => addresses e r) := by simp [List.mem_filter, he, ha]
  have hne : (expectations.filter (fun e => addresses e r)).isEmpty = false := by
    cases hl : expectations.filter (fun e => addresses e r) with
    | nil => rw [hl] at hmem; simp at hmem
    | cons _ _ => rfl
  have hsd : singleDocument r o = true := by
    unfold singleDocument
    simp only [hhead, hpf, hnc, if_false, Bool.false_and, Bool.false_eq_true]
    unfold wellShaped at hw
    by_cases h204 : o.status = 204
    · simp_all
    · simp_all
  unfold holds clauses
  simp only [hauth, hpf, hnc, hne, hsd]
  simp only [List.all_append, List.all_cons, List.all_nil, Bool.true_or, Bool.and_true, Bool.not_true, Bool.false_or,
    Bool.false_and, if_false, Bool.false_eq_true, Bool.true_and]
  rw [Bool.and_eq_true]
  constructor
  · -- fail_closed
    cases hall : (expectations.filter (fun e => addresses e r)).all (fun e => isMalformed (verdict e r)) with
    | false => simp
    | true =>
      have := (List.all_eq_true.mp hall) e hmem
      cases hv : verdict e r with
      | malformed => rw [hv] at hc; simpa [conforms] using hc
      | perform w => rw [hv] at this; simp [isMalformed] at this
      | either w => rw [hv] at this; simp [isMalformed] at this
  · -- faithful
    rw [Bool.or_eq_true]; right
    exact List.any_eq_true.mpr ⟨e, hmem, hc⟩

theorem serve_gen (t : List Route) (r : Req) :
    serve (Gen.chain false) t r =
      if authorized r then (if preflight r then { status := 204, body := .docs 0, ops := [] } else router t r)
      else { status := 401, body := .docs 1, ops := [] } := by
  simp [Gen.chain, serve]

theorem serve_genTracing (t : List Route) (r : Req) : serve (Gen.chain true) t r = serve (Gen.chain false) t r := by
  simp [Gen.chain, serve]

/-- whatever cfg.Tracing is, the served chain behaves the same (the ochttp layer passes requests through, and it
    sits outside the credential check) -/
theorem handle_any_tracing (tr : Bool) (t : List Route) (r : Req) :
    handle (Gen.chain tr) t r = handle (Gen.chain false) t r := by
  cases tr
  · rfl
  · unfold handle; rw [serve_genTracing]

/-- a response that performs nothing and whose body is right for the request kind -/
theorem holds_unauthorized {r : Req} (h : authorized r = false) :
    holds r (headAdjust r { status := 401, body := .docs 1, ops := [] }) = true := by
  unfold holds clauses headAdjust singleDocument
  by_cases hh : r.method = "HEAD"
  · simp [h, hh]
  · by_cases hp : preflight r = true
    · simp [h, hh, hp]
    · simp [h, hh, hp, nonCanonical, is3xx]

theorem preflight_not_head {r : Req} (h : preflight r = true) : r.method ≠ "HEAD" := by
  unfold preflight at h
  intro hh; simp [hh] at h

theorem holds_preflight {r : Req} (ha : authorized r = true) (h : preflight r = true) :
    holds r (headAdjust r { status := 204, body := .docs 0, ops := [] }) = true := by
  have hh := preflight_not_head h
  unfold holds clauses headAdjust singleDocument
  simp [ha, h, hh]


theorem holds_redirect {r : Req} {b : BodyShape} (ha : authorized r = true) (hp : preflight r = false)
    (hn : nonCanonical r = true) :
    holds r (headAdjust r { status := 301, body := b, ops := [] }) = true := by
  unfold holds clauses headAdjust singleDocument
  by_cases hh : r.method = "HEAD"
  · simp [ha, hp, hn, hh, is3xx]
  · simp [ha, hp, hn, hh, is3xx]

/-- nothing addressed: 404 with the API's JSON error, or (HEAD) mux's bodiless 405 -/
theorem holds_unknown {r : Req} {st : Nat} {b : BodyShape} (ha : authorized r = true) (hp : preflight r = false)
    (hc : expectations.filter (fun e => addresses e r) = [])
    (hst : st = 404 ∨ st = 405) (hb : r.method ≠ "HEAD" → b = .docs 1) :
    holds r (headAdjust r { status := st, body := b, ops := [] }) = true := by
  unfold holds clauses headAdjust singleDocument
  by_cases hh : r.method = "HEAD"
  · rcases hst with rfl | rfl <;> simp [ha, hp, hh, hc, refused, is4xx, is3xx]
  · have := hb hh; subst this
    rcases hst with rfl | rfl <;> simp [ha, hp, hh, hc, refused, is4xx, is3xx]

theorem handler_ops_le_one (h : Handler) (r : Req) (pat : List PSeg) : (runHandler h r pat).ops.length ≤ 1 := by
  cases h <;> unfold runHandler <;> simp only []
  all_goals first
    | (simp [call, respond_ops, refuse]; done)
    | (split <;> first | (simp [call, respond_ops, refuse]; done)
                       | (split <;> simp [call, respond_ops, refuse]))

/-! ### where a request ends up -/

theorem expectations_no_head : expectations.all (fun e => e.method != "HEAD") = true := by decide

/-- For a table aligned with the expectations, an authorized non-preflight request is redirected
    (non-canonical path), or reaches the handler of an expectation it addresses, or addresses nothing
    and gets the API's 404, or matches only the path of some route and gets the API's JSON 405. -/
theorem router_cases (t : List Route) (hal : aligned t expectations = true) (r : Req)
    (ha : authorized r = true) (hp : preflight r = false) :
    (nonCanonical r = true ∧ ∃ b, (b = .docs 0 ∨ b = .junk 0) ∧
        handle (Gen.chain false) t r = headAdjust r { status := 301, body := b, ops := [] }) ∨
    (nonCanonical r = false ∧ r.method ≠ "HEAD" ∧ ∃ e h, e ∈ expectations ∧ addresses e r = true ∧
        shapeOf h = some e.shape ∧ handle (Gen.chain false) t r = runHandler h r e.pat) ∨
    (expectations.filter (fun e => addresses e r) = [] ∧
        handle (Gen.chain false) t r = headAdjust r { status := 404, body := .docs 1, ops := [] }) ∨
    (expectations.filter (fun e => addresses e r) = [] ∧
        expectations.any (fun e => matchPat e.pat r.segs r.slash) = true ∧
        handle (Gen.chain false) t r = headAdjust r { status := 405, body := .docs 1, ops := [] }) := by
  unfold handle
  rw [serve_gen]
  simp only [ha, hp, if_true, Bool.false_eq_true, if_false]
  unfold router
  cases hu' : unclean r with
  | true =>
    simp only [if_true]
    exact Or.inl ⟨by simp [nonCanonical, hu'], _, Or.inl rfl, rfl⟩
  | false =>
  simp only [Bool.false_eq_true, if_false]
  unfold route
  cases hf : t.find? (fun rt => rt.method == r.method && matchPat rt.pat r.segs r.slash) with
  | some rt =>
    simp only []
    cases hs' : r.slash with
    | true =>
      simp only [if_true]; unfold slashRedirect
      refine Or.inl ⟨by simp [nonCanonical, hs'], _, ?_, rfl⟩
      by_cases hg : r.method = "GET" <;> simp [hg]
    | false =>
    simp only [Bool.false_eq_true, if_false]
    obtain ⟨e, he, hpe, hpat, h, hn, hsh⟩ :=
      find_aligned (p := fun m pat => m == r.method && matchPat pat r.segs r.slash) hal hf
    have hpe' : (e.method == r.method && matchPat e.pat r.segs false) = true := by rw [← hs']; exact hpe
    have hadr : addresses e r = true := by unfold addresses; rw [hs']; exact hpe'
    have hhead : r.method ≠ "HEAD" := by
      have h1 := (List.all_eq_true.mp expectations_no_head) e he
      have h2 : e.method = r.method := by
        simp only [Bool.and_eq_true, beq_iff_eq] at hpe'; exact hpe'.1
      rw [← h2]; simpa using h1
    simp only [hn]
    have hha : headAdjust r (runHandler h r rt.pat) = runHandler h r rt.pat := by
      unfold headAdjust; simp [hhead]
    rw [hha, ← hpat]
    exact Or.inr (Or.inl ⟨by simp [nonCanonical, hs', hu'], hhead, e, h, he, hadr, hsh, rfl⟩)
  | none =>
    simp only []
    have hnil : expectations.filter (fun e => addresses e r) = [] :=
      filter_aligned_nil (p := fun m pat => m == r.method && matchPat pat r.segs r.slash) hal hf
    cases hany : t.any (fun rt => matchPat rt.pat r.segs r.slash) with
    | false =>
      simp only [Bool.false_eq_true, if_false]
      exact Or.inr (Or.inr (Or.inl ⟨hnil, rfl⟩))
    | true =>
      simp only [if_true]
      have hany' : expectations.any (fun e => matchPat e.pat r.segs r.slash) = true := by
        rw [← any_aligned (p := fun pat => matchPat pat r.segs r.slash) hal]; exact hany
      exact Or.inr (Or.inr (Or.inr ⟨hnil, hany', by first | rfl | trivial⟩))

/-! ### the bundled client -/

theorem testBit_foldl_lor (l : List Nat) (a i : Nat) :
    (l.foldl (· ||| ·) a).testBit i = (a.testBit i || l.any (fun k => k.testBit i)) := by
  induction l generalizing a with
  | nil => simp
  | cons x xs ih => simp [List.foldl_cons, ih, Nat.testBit_or, Bool.or_assoc]

theorem and_two_pow_of_testBit {m i : Nat} (h : m.testBit i = true) : 2 ^ i &&& m = 2 ^ i := by
  apply Nat.eq_of_testBit_eq
  intro j
  rw [Nat.testBit_and, Nat.testBit_two_pow]
  by_cases hij : i = j
  · subst hij; simp [h]
  · simp [hij]

theorem two_pow_mem_named {i : Nat} (h1 : 1 ≤ i) (h2 : i ≤ 12) : 2 ^ i ∈ namedMasks := by
  have : i = 1 ∨ i = 2 ∨ i = 3 ∨ i = 4 ∨ i = 5 ∨ i = 6 ∨ i = 7 ∨ i = 8 ∨ i = 9 ∨ i = 10 ∨ i = 11 ∨ i = 12 := by omega
  rcases this with h | h | h | h | h | h | h | h | h | h | h | h <;> subst h <;> decide

/-- a filter made of known status bits (bits 1..12) is written and read back unchanged -/
theorem widen_known (m : Nat) (hlt : m < 8192) (heven : m % 2 = 0) : widen m = m := by
  unfold widen
  split
  · rfl
  · apply Nat.eq_of_testBit_eq
    intro i
    rw [testBit_foldl_lor]
    simp only [Nat.zero_testBit, Bool.false_or]
    cases hm : m.testBit i with
    | true =>
      have hi0 : i ≠ 0 := by
        intro h0; subst h0
        rw [Nat.testBit_zero] at hm
        simp [heven] at hm
      have hi12 : i ≤ 12 := by
        apply Classical.byContradiction
        intro hgt
        have : m < 2 ^ i := Nat.lt_of_lt_of_le hlt (by
          have : 2 ^ 13 ≤ 2 ^ i := Nat.pow_le_pow_right (by decide) (by omega)
          simpa using this)
        rw [Nat.testBit_lt_two_pow this] at hm
        exact absurd hm (by decide)
      refine List.any_eq_true.mpr ⟨2 ^ i, ?_, ?_⟩
      · simp only [List.mem_filter]
        exact ⟨two_pow_mem_named (by omega) hi12, by simp [and_two_pow_of_testBit hm]⟩
      · simp
    | false =>
      apply Bool.eq_false_iff.mpr
      intro hany
      obtain ⟨k, hk, hbit⟩ := List.any_eq_true.mp hany
      simp only [List.mem_filter, beq_iff_eq] at hk
      have : (k &&& m).testBit i = true := by rw [hk.2]; exact hbit
      rw [Nat.testBit_and, hm] at this
      simp at this

theorem metaOf_toQueryMeta (o : Opts) : metaOf (toQueryMeta o) = metaOf o.metadata := by
  simp [metaOf, toQueryMeta, List.filter_filter]

theorem query_roundtrip (o : Opts) : fromQuery (toQuery o) (toQueryMeta o) = some (normOpts o) := by
  unfold fromQuery
  rw [metaOf_toQueryMeta]
  unfold toQuery
  cases he : (o.expire == Expiry.zero) <;> cases hu : o.update <;> cases ho : o.origins.isEmpty <;>
    cases hn : (o.name == 0) <;> cases ha : o.ualloc.isEmpty <;>
    simp_all [assemble, getq, List.find?, M.mode, M.factors, M.ualloc, M.expiry, M.expireIn, hasGarbled, intParam, natParam,
      nameParam, optCidParam, natsParam, normOpts, List.filterMap_map]

theorem hasGarbled_toQuery (o : Opts) : hasGarbled (toQuery o) = false := by
  unfold toQuery hasGarbled
  cases he : (o.expire == Expiry.zero) <;> cases hu : o.update <;> cases ho : o.origins.isEmpty <;>
    cases hn : (o.name == 0) <;> cases ha : o.ualloc.isEmpty <;> simp_all

def segOK (s : Seg) : Prop := s.txt ≠ "" ∧ s.txt ≠ "recover" ∧ s.txt ≠ "." ∧ s.txt ≠ ".."

theorem handle_mkReq (cfg : CliCfg) (m : String) (segs : List Seg) (q : List (String × QV)) (md : List (Nat × Nat)) (b : Body)
    (hm : m ≠ "HEAD") :
    handle (Gen.chain false) Gen.routes (mkReq cfg m segs q md b) =
      if cliAuthorized cfg then router Gen.routes (mkReq cfg m segs q md b)
      else { status := 401, body := .docs 1, ops := [] } := by
  unfold handle headAdjust
  rw [serve_gen]
  simp [mkReq, hm, authorized, cliAuthorized, preflight]

/-- the common last step: the built request is routed to a handler that makes one call with the wanted operation -/
theorem follow_of_ne301 (chain : List String) (t : List Route) (r : Req) (o : Resp) (n : Nat)
    (h : o.status ≠ 301) : followRedirects chain t r o n = o := by
  cases n with
  | zero => rfl
  | succ k => simp [followRedirects, h]

theorem follow_any_tracing (tr : Bool) (t : List Route) :
    ∀ (n : Nat) (r : Req) (o : Resp), followRedirects (Gen.chain tr) t r o n = followRedirects (Gen.chain false) t r o n
  | 0, _, _ => rfl
  | n + 1, r, o => by
    unfold followRedirects
    split
    · simp only [handle_any_tracing tr]; exact follow_any_tracing tr t n _ _
    · rfl

theorem clientCall_any_tracing (tr : Bool) (t : List Route) (cfg : CliCfg) (c : Call) :
    clientCall (Gen.chain tr) t cfg c = clientCall (Gen.chain false) t cfg c := by
  unfold clientCall
  cases build cfg c with
  | none => rfl
  | some r => simp only [handle_any_tracing tr, follow_any_tracing tr]

theorem cli_ok_of_respond {cfg : CliCfg} {c : Call} {w : Want} {m : String} {segs : List Seg} {q : List (String × QV)}
    {md : List (Nat × Nat)} {b : Body} (op : Op) (okSt okDocs errSt nfSt : Nat)
    (hnc : callNonCanonical c = false)
    (hw : callWant c = some w) (hb : build cfg c = some (mkReq cfg m segs q md b)) (hm : m ≠ "HEAD")
    (hroute : router Gen.routes (mkReq cfg m segs q md b) = respond (mkReq cfg m segs q md b) op okSt okDocs errSt nfSt)
    (hok : w.ok op = true) (hst : (okSt = 200 ∨ okSt = 204) ∧ 400 ≤ errSt ∧ 400 ≤ nfSt)
    (hor : answerHasOrigins c = false) :
    cliHolds cfg c (clientCall (Gen.chain false) Gen.routes cfg c).1 (clientCall (Gen.chain false) Gen.routes cfg c).2 = true := by
  obtain ⟨h1, h2, h3⟩ := hst
  have hne : (handle (Gen.chain false) Gen.routes (mkReq cfg m segs q md b)).status ≠ 301 := by
    rw [handle_mkReq cfg m segs q md b hm]
    cases ha : cliAuthorized cfg
    · simp
    · simp only [if_true, hroute]
      unfold respond
      cases (mkReq cfg m segs q md b).rpc
      · rcases h1 with rfl | rfl <;> simp
      · simp; omega
      · simp; omega
  unfold clientCall
  rw [hb]
  simp only [follow_of_ne301 _ _ _ _ _ hne]
  simp only [handle_mkReq cfg m segs q md b hm]
  cases ha : cliAuthorized cfg
  · simp [cliHolds, cliClauses, hnc, hw, ha, clientRet]
  · simp only [if_true, hroute]
    have hrpc : (mkReq cfg m segs q md b).rpc = cfg.rpc := rfl
    unfold respond
    rw [hrpc]
    cases hr : cfg.rpc
    · rcases h1 with rfl | rfl <;> simp [cliHolds, cliClauses, hnc, hw, ha, clientRet, arrived, hok, hor, hr]
    · have : ¬ (errSt = 204 ∨ errSt = 202) := by omega
      simp [cliHolds, cliClauses, hnc, hw, ha, clientRet, arrived, hok, hr, isErrRet, h2, this]
    · have : ¬ (nfSt = 204 ∨ nfSt = 202) := by omega
      simp [cliHolds, cliClauses, hnc, hw, ha, clientRet, arrived, hok, hr, isErrRet, h3, this]

/-- routing of the requests the client builds: evaluated over the generated table -/
syntax "route_eval" : tactic
macro_rules
  | `(tactic| route_eval) =>
    `(tactic| simp [router, unclean, route, Gen.routes, matchPat, lit, Handler.ofName, mkReq, runHandler, call, isLocal, getq,
        boolQ, varSeg, parseCid, Option.bind, pick, fromQuery, assemble, M.mode, M.factors, M.ualloc, M.expiry, M.expireIn, hasGarbled, intParam, natParam, nameParam, optCidParam, natsParam, metaOf, normMeta, pinWithOpts, *])

def CliHolds (cfg : CliCfg) (c : Call) : Prop :=
  cliHolds cfg c (clientCall (Gen.chain false) Gen.routes cfg c).1 (clientCall (Gen.chain false) Gen.routes cfg c).2 = true


theorem ok3 : (200 = 200 ∨ 200 = 204) ∧ 400 ≤ 500 ∧ 400 ≤ 500 := by decide

theorem client_id (cfg : CliCfg) : CliHolds cfg .id :=
  cli_ok_of_respond ⟨"Cluster.ID", .unit⟩ 200 1 500 500 rfl rfl rfl (by decide) (by route_eval) (by decide) ok3 rfl
theorem client_version (cfg : CliCfg) : CliHolds cfg .version :=
  cli_ok_of_respond ⟨"Cluster.Version", .unit⟩ 200 1 500 500 rfl rfl rfl (by decide) (by route_eval) (by decide) ok3 rfl
theorem client_peers (cfg : CliCfg) : CliHolds cfg .peers :=
  cli_ok_of_respond ⟨"Cluster.Peers", .unit⟩ 200 1 500 500 rfl rfl rfl (by decide) (by route_eval) (by decide) ok3 rfl
theorem client_alerts (cfg : CliCfg) : CliHolds cfg .alerts :=
  cli_ok_of_respond ⟨"Cluster.Alerts", .unit⟩ 200 1 500 500 rfl rfl rfl (by decide) (by route_eval) (by decide) ok3 rfl
theorem client_graph (cfg : CliCfg) : CliHolds cfg .graph :=
  cli_ok_of_respond ⟨"Cluster.ConnectGraph", .unit⟩ 200 1 500 500 rfl rfl rfl (by decide) (by route_eval) (by decide) ok3 rfl
theorem client_metricNames (cfg : CliCfg) : CliHolds cfg .metricNames :=
  cli_ok_of_respond ⟨"PeerMonitor.MetricNames", .unit⟩ 200 1 500 500 rfl rfl rfl (by decide) (by route_eval) (by decide) ok3 rfl

theorem client_recoverAll (cfg : CliCfg) (l : Bool) : CliHolds cfg (.recoverAll l) :=
  cli_ok_of_respond ⟨pick l "Cluster.RecoverAll" "Cluster.RecoverAllLocal", .unit⟩ 200 1 500 500 rfl rfl rfl (by decide)
    (by cases l <;> route_eval) (by cases l <;> decide) ok3 rfl
theorem client_repoGC (cfg : CliCfg) (l : Bool) : CliHolds cfg (.repoGC l) :=
  cli_ok_of_respond ⟨pick l "Cluster.RepoGC" "Cluster.RepoGCLocal", .unit⟩ 200 1 500 500 rfl rfl rfl (by decide)
    (by cases l <;> route_eval) (by cases l <;> decide) ok3 rfl

theorem client_allocations (cfg : CliCfg) (m : Nat) : CliHolds cfg (.allocations m) :=
  cli_ok_of_respond ⟨"Cluster.Pins", .unit⟩ 200 1 500 500 rfl rfl rfl (by decide)
    (by by_cases hm : m = 0 <;> route_eval) (by decide) ok3 rfl

theorem client_statusAll (cfg : CliCfg) (m : Nat) (l : Bool) (hw : widen m = m) : CliHolds cfg (.statusAll m l) := by
  refine cli_ok_of_respond ⟨pick l "Cluster.StatusAll" "Cluster.StatusAllLocal", .num (toString m)⟩ 200 1 500 500 rfl rfl rfl (by decide)
    ?_ (by simp [Want.ok]) ok3 rfl
  have h0 : Nat.repr 0 = "0" := by decide
  by_cases hm : m = 0 <;> cases l <;> route_eval

theorem client_status (cfg : CliCfg) (s : Seg) (l : Bool) (hs : segOK s) (c : Nat) (hc : s.cid = some c) :
    CliHolds cfg (.status s l) := by
  obtain ⟨h1, h2, h3, h4⟩ := hs
  refine cli_ok_of_respond ⟨pick l "Cluster.Status" "Cluster.StatusLocal", .cid c⟩ 200 1 500 500 rfl
    (w := ⟨[pick l "Cluster.Status" "Cluster.StatusLocal"], .cid c⟩)
    (by simp [callWant, hc]) rfl (by decide) ?_ (by simp [Want.ok]) ok3 rfl
  cases l <;> route_eval

theorem client_recover (cfg : CliCfg) (s : Seg) (l : Bool) (hs : segOK s) (c : Nat) (hc : s.cid = some c) :
    CliHolds cfg (.recover s l) := by
  obtain ⟨h1, h2, h3, h4⟩ := hs
  refine cli_ok_of_respond ⟨pick l "Cluster.Recover" "Cluster.RecoverLocal", .cid c⟩ 200 1 500 500 rfl
    (w := ⟨[pick l "Cluster.Recover" "Cluster.RecoverLocal"], .cid c⟩)
    (by simp [callWant, hc]) rfl (by decide) ?_ (by simp [Want.ok]) ok3 rfl
  cases l <;> route_eval

theorem client_allocation (cfg : CliCfg) (s : Seg) (hs : segOK s) (c : Nat) (hc : s.cid = some c) :
    CliHolds cfg (.allocation s) := by
  obtain ⟨h1, h2, h3, h4⟩ := hs
  refine cli_ok_of_respond ⟨"Cluster.PinGet", .cid c⟩ 200 1 404 404 rfl (w := ⟨["Cluster.PinGet"], .cid c⟩)
    (by simp [callWant, hc]) rfl (by decide) ?_ (by simp [Want.ok]) (by decide) rfl
  route_eval

theorem client_unpin (cfg : CliCfg) (s : Seg) (hs : segOK s) (c : Nat) (hc : s.cid = some c) :
    CliHolds cfg (.unpin s) := by
  obtain ⟨h1, h2, h3, h4⟩ := hs
  refine cli_ok_of_respond ⟨"Cluster.Unpin", pinArg (pinWithOpts c (normOpts (pinCid 0).opts))⟩ 200 1 500 404 rfl
    (w := ⟨["Cluster.Unpin"], .cidOnly c⟩)
    (by simp [callWant, hc]) rfl (by decide) ?_ (by simp [Want.ok, pinArg, pinWithOpts]) (by decide) rfl
  route_eval
  simp [normOpts, pinCid, metaOf, normMeta]

theorem client_peerRm (cfg : CliCfg) (s : Seg) (hs : segOK s) (p : Nat) (hp : s.pid = some p) :
    CliHolds cfg (.peerRm s) := by
  obtain ⟨h1, h2, h3, h4⟩ := hs
  refine cli_ok_of_respond ⟨"Cluster.PeerRemove", .pid p⟩ 204 0 500 500 rfl (w := ⟨["Cluster.PeerRemove"], .pid p⟩)
    (by simp [callWant, hp]) rfl (by decide) ?_ (by simp [Want.ok]) (by decide) rfl
  route_eval

theorem client_peerAdd (cfg : CliCfg) (s : Seg) (p : Nat) (hp : s.pid = some p) :
    CliHolds cfg (.peerAdd s) := by
  refine cli_ok_of_respond ⟨"Cluster.PeerAdd", .pid p⟩ 200 1 500 500 rfl (w := ⟨["Cluster.PeerAdd"], .pid p⟩)
    (by simp [callWant, hp]) rfl (by decide) ?_ (by simp [Want.ok]) ok3 rfl
  route_eval

theorem client_metrics (cfg : CliCfg) (s : Seg) (hs : segOK s) : CliHolds cfg (.metrics s) := by
  obtain ⟨h1, h2, h3, h4⟩ := hs
  refine cli_ok_of_respond ⟨"PeerMonitor.LatestMetrics", .str s.txt⟩ 200 1 500 500 rfl (w := ⟨["PeerMonitor.LatestMetrics"], .str s.txt⟩)
    rfl rfl (by decide) ?_ (by simp [Want.ok]) ok3 rfl
  route_eval

syntax "route_eval_q" : tactic
macro_rules
  | `(tactic| route_eval_q) =>
    `(tactic| simp [router, unclean, route, Gen.routes, matchPat, lit, Handler.ofName, mkReq, runHandler, call,
        varSeg, restSegs, parseCid, parsePinPath, Option.bind, query_roundtrip, hasGarbled_toQuery, *])

theorem client_pin (cfg : CliCfg) (s : Seg) (o : Opts) (hs : segOK s) (c : Nat) (hc : s.cid = some c)
    (ho : o.origins = []) : CliHolds cfg (.pin s o) := by
  obtain ⟨h1, h2, h3, h4⟩ := hs
  refine cli_ok_of_respond ⟨"Cluster.Pin", pinArg (pinWithOpts c (normOpts o))⟩ 200 1 500 500 rfl
    (w := ⟨["Cluster.Pin"], .pin c (normOpts o)⟩)
    (by simp [callWant, hc]) rfl (by decide) ?_
    (by cases hmo : o.mode <;> simp [Want.ok, pinArg, pinWithOpts, depthToMode, modeToDepth, normOpts, hmo]) ok3
    (by simp [answerHasOrigins, ho])
  route_eval_q

theorem clientPath_some {p p' : List Seg} (h : clientPath p = some p') :
    ∃ k first more, p' = k :: first :: more ∧ (k.txt = "ipfs" ∨ k.txt = "ipns" ∨ k.txt = "ipld") ∧
      pathOf pinsPath (lit "pins" :: p') = some (pathString p') ∧ (∀ s ∈ p', s ∈ p ∨ s = lit "ipfs") := by
  unfold clientPath at h
  cases p with
  | nil => simp at h
  | cons k rest =>
    simp only at h
    by_cases hk : (k.txt == "ipfs" || k.txt == "ipld" || k.txt == "ipns") = true
    · simp only [hk, if_true] at h
      cases hp : pathOf [.alt "keyType" ["ipfs", "ipns", "ipld"], .rest "path"] (k :: rest) with
      | none => simp [hp] at h
      | some x =>
        simp only [hp, Option.some.injEq] at h
        subst h
        cases rest with
        | nil => simp [pathOf, varSeg, restSegs] at hp
        | cons first more =>
          refine ⟨k, first, more, rfl, ?_, ?_, fun s hs => Or.inl hs⟩
          · simp only [Bool.or_eq_true, beq_iff_eq] at hk
            rcases hk with (hk | hk) | hk
            · exact Or.inl hk
            · exact Or.inr (Or.inr hk)
            · exact Or.inr (Or.inl hk)
          · simp only [pathOf, varSeg, restSegs, pinsPath] at hp ⊢
            have hkt : (("keyType" : String) == "keyType") = true := by decide
            simp only [hkt, if_true] at hp ⊢
            generalize (if (k.txt == "ipfs" || k.txt == "ipld") = true then first.cid.isSome
              else if (k.txt == "ipns") = true then first.txt != "" else false) = cnd at hp ⊢
            cases cnd
            · simp at hp
            · simp [pathString]
    · have hk' : (k.txt == "ipfs" || k.txt == "ipld" || k.txt == "ipns") = false := by simpa using hk
      simp only [hk', Bool.false_eq_true, if_false] at h
      by_cases hc : k.cid.isSome = true
      · simp only [hc, if_true, Option.some.injEq] at h
        subst h
        refine ⟨lit "ipfs", k, rest, rfl, Or.inl rfl, ?_, ?_⟩
        · simp [pathOf, varSeg, restSegs, pinsPath, lit, hc, pathString]
        · intro s hs
          simp only [List.mem_cons] at hs ⊢
          rcases hs with rfl | hs
          · exact Or.inr rfl
          · exact Or.inl hs
      · simp [hc] at h

theorem unclean_mkReq_false (cfg : CliCfg) (m : String) (segs : List Seg) (q : List (String × QV)) (md : List (Nat × Nat)) (b : Body)
    (h : ∀ s ∈ segs, segOK s) : unclean (mkReq cfg m segs q md b) = false := by
  unfold unclean mkReq
  simp only [List.any_eq_false]
  intro s hs
  obtain ⟨h1, _, h3, h4⟩ := h s hs
  simp [h1, h3, h4]

theorem segOK_lit_pins : segOK (lit "pins") := by unfold segOK lit; decide
theorem segOK_lit_ipfs : segOK (lit "ipfs") := by unfold segOK lit; decide

/-- the request of a path call reaches the path handler of its method -/
theorem route_path (cfg : CliCfg) (m : String) (h : Handler) (hm : (m = "POST" ∧ h = .pinPath) ∨ (m = "DELETE" ∧ h = .unpinPath))
    (k first : Seg) (more : List Seg) (hk : k.txt = "ipfs" ∨ k.txt = "ipns" ∨ k.txt = "ipld")
    (hok : ∀ s ∈ k :: first :: more, segOK s) (q : List (String × QV)) (md : List (Nat × Nat)) :
    router Gen.routes (mkReq cfg m (lit "pins" :: k :: first :: more) q md .none) =
      runHandler h (mkReq cfg m (lit "pins" :: k :: first :: more) q md .none) pinsPath := by
  have hu := unclean_mkReq_false cfg m (lit "pins" :: k :: first :: more) q md .none (by
    intro s hs
    simp only [List.mem_cons] at hs
    rcases hs with rfl | hs
    · exact segOK_lit_pins
    · exact hok s (by simpa using hs))
  obtain ⟨hf1, hf2, _, _⟩ := hok first (by simp)
  obtain ⟨hk1, hk2, _, _⟩ := hok k (by simp)
  unfold router
  rw [hu]
  rcases hm with ⟨rfl, rfl⟩ | ⟨rfl, rfl⟩ <;> rcases hk with hk | hk | hk <;>
    simp [route, Gen.routes, matchPat, lit, Handler.ofName, mkReq, pinsPath, hk, hf1, hf2, hk1, hk2]

theorem canonical_of_segOK {p : List Seg} (hs : ∀ s ∈ p, segOK s) :
    p.any (fun s => s.txt == "" || s.txt == "." || s.txt == "..") = false := by
  simp only [List.any_eq_false]
  intro s hm
  obtain ⟨h1, _, h3, h4⟩ := hs s hm
  simp [h1, h3, h4]

theorem client_pinPath (cfg : CliCfg) (p : List Seg) (o : Opts) (hs : ∀ s ∈ p, segOK s) (ho : o.origins = []) :
    CliHolds cfg (.pinPath p o) := by
  have hnc : callNonCanonical (.pinPath p o) = false := canonical_of_segOK hs
  cases hp : clientPath p with
  | none =>
    simp [CliHolds, clientCall, build, hp, cliHolds, cliClauses, callWant, hnc]
  | some p' =>
    obtain ⟨k, first, more, rfl, hk, hpath, hmem⟩ := clientPath_some hp
    have hok : ∀ s ∈ k :: first :: more, segOK s := by
      intro s hs'
      rcases hmem s hs' with h | rfl
      · exact hs s h
      · exact segOK_lit_ipfs
    refine cli_ok_of_respond ⟨"Cluster.PinPath", .path (pathString (k :: first :: more)) (normOpts o)⟩ 200 1 500 500 hnc
      (w := ⟨["Cluster.PinPath"], .path (pathString (k :: first :: more)) (normOpts o)⟩)
      (m := "POST") (segs := lit "pins" :: k :: first :: more) (q := toQuery o) (md := toQueryMeta o) (b := .none)
      (by simp [callWant, hp]) (by simp [build, hp]) (by decide) ?_ (by simp [Want.ok]) ok3
      (by simp [answerHasOrigins, ho])
    rw [route_path cfg "POST" .pinPath (Or.inl ⟨rfl, rfl⟩) k first more hk hok]
    have hq : fromQuery (mkReq cfg "POST" (lit "pins" :: k :: first :: more) (toQuery o) (toQueryMeta o) .none).query
        (mkReq cfg "POST" (lit "pins" :: k :: first :: more) (toQuery o) (toQueryMeta o) .none).md = some (normOpts o) :=
      query_roundtrip o
    have hpo : pathOf pinsPath (mkReq cfg "POST" (lit "pins" :: k :: first :: more) (toQuery o) (toQueryMeta o) .none).segs =
        some (pathString (k :: first :: more)) := hpath
    have hg : hasGarbled (mkReq cfg "POST" (lit "pins" :: k :: first :: more) (toQuery o) (toQueryMeta o) .none).query = false :=
      hasGarbled_toQuery o
    simp [runHandler, parsePinPath, hq, hpo, hg, call]

theorem client_unpinPath (cfg : CliCfg) (p : List Seg) (hs : ∀ s ∈ p, segOK s) :
    CliHolds cfg (.unpinPath p) := by
  have hnc : callNonCanonical (.unpinPath p) = false := canonical_of_segOK hs
  cases hp : clientPath p with
  | none =>
    simp [CliHolds, clientCall, build, hp, cliHolds, cliClauses, callWant, hnc]
  | some p' =>
    obtain ⟨k, first, more, rfl, hk, hpath, hmem⟩ := clientPath_some hp
    have hok : ∀ s ∈ k :: first :: more, segOK s := by
      intro s hs'
      rcases hmem s hs' with h | rfl
      · exact hs s h
      · exact segOK_lit_ipfs
    refine cli_ok_of_respond ⟨"Cluster.UnpinPath", .path (pathString (k :: first :: more)) (normOpts (pinCid 0).opts)⟩ 200 1 500 404 hnc
      (w := ⟨["Cluster.UnpinPath"], .pathOnly (pathString (k :: first :: more))⟩)
      (m := "DELETE") (segs := lit "pins" :: k :: first :: more) (q := []) (md := []) (b := .none)
      (by simp [callWant, hp]) (by simp [build, hp]) (by decide) ?_ (by simp [Want.ok]) (by decide) rfl
    rw [route_path cfg "DELETE" .unpinPath (Or.inr ⟨rfl, rfl⟩) k first more hk hok]
    have hpo : pathOf pinsPath (mkReq cfg "DELETE" (lit "pins" :: k :: first :: more) [] [] .none).segs =
        some (pathString (k :: first :: more)) := hpath
    have hq : fromQuery (mkReq cfg "DELETE" (lit "pins" :: k :: first :: more) [] [] .none).query
        (mkReq cfg "DELETE" (lit "pins" :: k :: first :: more) [] [] .none).md = some (normOpts (pinCid 0).opts) := by
      simp [mkReq, fromQuery, assemble, M.mode, M.factors, M.ualloc, M.expiry, M.expireIn, hasGarbled, intParam, natParam, nameParam, optCidParam,
        natsParam, metaOf, normMeta, getq, normOpts, pinCid]
    have hg : hasGarbled (mkReq cfg "DELETE" (lit "pins" :: k :: first :: more) [] [] .none).query = false := rfl
    simp [runHandler, parsePinPath, hq, hpo, hg]

/-! ### small facts about the generated chain used by Props -/

theorem handle_unauthorized (t : List Route) (r : Req) (h : authorized r = false) :
    handle (Gen.chain false) t r = headAdjust r { status := 401, body := .docs 1, ops := [] } := by
  unfold handle; rw [serve_gen]; simp [h]

theorem handle_preflight (t : List Route) (r : Req) (ha : authorized r = true) (h : preflight r = true) :
    handle (Gen.chain false) t r = headAdjust r { status := 204, body := .docs 0, ops := [] } := by
  unfold handle; rw [serve_gen]; simp [ha, h]

/-- what `holds` says about the body -/
theorem holds_single {r : Req} {o : Resp} (h : holds r o = true) : singleDocument r o = true := by
  unfold holds clauses at h
  simp only [List.all_append, List.all_cons, Bool.and_eq_true] at h
  exact h.1.2.1

/-! ### the add endpoint -/

theorem addParams_opts {q : List (String × QV)} {md : List (Nat × Nat)} {p : AddParams} (h : addParams q md = some p) :
    ∃ o, fromQuery q md = some o ∧ p.opts = { o with update := none } := by
  unfold addParams at h
  split at h
  · rename_i o _ _ _ _ _ _ _ _ _ ho _ _ _ _ _ _ _ _ _
    split at h
    · simp only [Option.some.injEq] at h
      exact ⟨o, ho, by rw [← h]⟩
    · simp at h
  · simp at h

theorem boolCarried_of_param {v : QV} {d x : Bool} (h : boolParam v d = some x) : boolCarried v d x = true := by
  cases v with
  | empty => simp [boolParam] at h; simp [boolCarried, h]
  | valid w => cases w <;> simp [boolParam] at h <;> simp [boolCarried, h]
  | invalid => simp [boolCarried]
  | garbled => simp [boolCarried]

theorem wordCarried_of_param {v : QV} {x : String} (h : wordParam v = some x) : wordCarried v "" x = true := by
  cases v with
  | empty => simp [wordParam] at h; simp [wordCarried, h]
  | valid w => cases w <;> simp [wordParam] at h <;> simp [wordCarried, h]
  | invalid => simp [wordCarried]
  | garbled => simp [wordCarried]

theorem wordCarried_kept (v : QV) (d : String) : wordCarried v d (keptWord v d) = true := by
  cases v with
  | empty => simp [wordCarried, keptWord]
  | valid w => cases w <;> simp [wordCarried, keptWord]
  | invalid => simp [wordCarried]
  | garbled => simp [wordCarried]

theorem hashIsOther_eq (q : List (String × QV)) : hashIsOther q = otherHash q := rfl

theorem cidvCarried_of_eff {q : List (String × QV)} {c : Int}
    (h : (intParam (getq q "cid-version") 0).bind (effCidv q) = some c) : cidvCarried q c = true := by
  unfold cidvCarried
  rw [hashIsOther_eq]
  cases hv : getq q "cid-version" with
  | empty =>
    simp [hv, intParam, effCidv] at h
    cases ho : otherHash q <;> simp [ho] at h <;> simp [h]
  | valid w =>
    cases w <;> simp [hv, intParam] at h
    rename_i i
    simp only [effCidv, hv] at h
    split at h
    · simp at h
    · simp at h; simp [h]
  | invalid => simp
  | garbled => simp

/-- every field of the `AddParams` built from a query carries the query's add option exactly -/
theorem seenExact_of_addParams {q : List (String × QV)} {md : List (Nat × Nat)} {p : AddParams}
    (h : addParams q md = some p) : seenExact q p.seen = true := by
  unfold addParams at h
  split at h
  · rename_i o layout format loc recursive hidden wrap shard progress cidv ho hla hfo hlo hre hhi hwr hsh hpr hcv
    split at h
    · rename_i raw stream nocopy hra hst hnc
      simp only [Option.some.injEq] at h
      subst h
      simp only [seenExact, AddParams.seen, Bool.and_eq_true]
      refine ⟨⟨⟨⟨⟨⟨⟨⟨⟨⟨⟨⟨⟨?_, ?_⟩, ?_⟩, ?_⟩, ?_⟩, ?_⟩, ?_⟩, ?_⟩, ?_⟩, ?_⟩, ?_⟩, ?_⟩, ?_⟩, ?_⟩
      · exact wordCarried_of_param hla
      · exact wordCarried_kept _ _
      · exact wordCarried_kept _ _
      · exact wordCarried_of_param hfo
      · exact boolCarried_of_param hlo
      · exact boolCarried_of_param hre
      · exact boolCarried_of_param hhi
      · exact boolCarried_of_param hwr
      · exact boolCarried_of_param hsh
      · exact boolCarried_of_param hpr
      · exact cidvCarried_of_eff hcv
      · exact boolCarried_of_param hra
      · exact boolCarried_of_param hst
      · exact boolCarried_of_param hnc
    · simp at h
  · simp at h

theorem addParams_rawLeaves {q : List (String × QV)} {md : List (Nat × Nat)} {p : AddParams} {b : Bool}
    (h : addParams q md = some p) (hb : getq q "raw-leaves" = .valid (.bool b)) : p.rawLeaves = b := by
  have := seenExact_of_addParams h
  simp only [seenExact, Bool.and_eq_true] at this
  have h12 := this.1.1.2
  simpa [boolCarried, hb, AddParams.seen] using h12

/-- the leaf form of the model's answer is the one the request names -/
theorem leafExact_addHandle0 (r : AddReq) (p : AddParams) (hg : hasGarbled r.query = false)
    (hp : addParams r.query r.md = some p) : leafExact r.query (addHandle0 r).leaf = true := by
  unfold leafExact
  cases hv : getq r.query "raw-leaves" with
  | valid w =>
    cases w with
    | bool b =>
      have hb := addParams_rawLeaves hp hv
      unfold addHandle0
      simp only [hg, hp, Bool.false_eq_true, if_false]
      by_cases h1 : (r.creds && r.auth != .right) = true <;> by_cases h2 : (r.mp == Multipart.none) = true <;>
        by_cases h3 : lateFailure r p = true <;> by_cases h4 : (r.rpc != .ok) = true <;>
        simp [h1, h2, h3, h4, hb, errorAnswer] <;> (try (cases p.stream <;> simp)) <;> (try (cases b <;> simp))
    | _ => simp
  | _ => simp

theorem late_agrees {q : List (String × QV)} {md : List (Nat × Nat)} {p : AddParams}
    (h : addParams q md = some p) (hr : p.rawLeaves = true ∨ otherHash q = false ∨ getq q "cid-version" ≠ .empty) :
    (addParamsLate q md).map (·.seen) = some p.seen := by
  have hcv : ∃ c, (intParam (getq q "cid-version") 0).bind (effCidv q) = some c := by
    unfold addParams at h
    split at h
    · rename_i hcv; exact ⟨_, hcv⟩
    · simp at h
  obtain ⟨c, hc⟩ := hcv
  cases hi : intParam (getq q "cid-version") 0 with
  | none => simp [hi] at hc
  | some v0 =>
    simp only [addParamsLate, h, hi]
    by_cases hcond : (otherHash q && v0 == 0) = true
    · simp only [hcond, if_true, Option.map_some]
      rcases hr with hr | hr | hr
      · congr 1; simp [AddParams.seen, hr]
      · simp [hr] at hcond
      · exfalso
        simp only [hi, Option.bind_some, effCidv, hcond, if_true] at hc
        simp [hr] at hc
    · simp [hcond]

/-! ### the converse of `addp`: which queries `AddParamsFromQuery` accepts, and `parseClauses` of `seenOf` (round 8 final) -/

theorem boolParam_isSome (v : QV) (d d' : Bool) : (boolParam v d).isSome = (boolParam v d').isSome := by
  cases v with
  | valid x => cases x <;> rfl
  | _ => rfl

/-- every add option that `AddParamsFromQuery` itself decodes (the bools, layout, format, cid-version) decodes;
    chunker and hash are stored unchecked there -/
def addParseOk (q : List (String × QV)) : Bool :=
  addBoolKeys.all (fun k => (boolParam (getq q k) false).isSome) &&
  (wordParam (getq q "layout")).isSome && (wordParam (getq q "format")).isSome &&
  (intParam (getq q "cid-version") 0).isSome

/-- CID version 0 asked for by name with a hash function that is not sha2-256 (an unknown name included) -/
def v0OtherHash (q : List (String × QV)) : Bool := otherHash q && getq q "cid-version" == .valid (.int 0)

theorem cidv_isSome (q : List (String × QV)) :
    ((intParam (getq q "cid-version") 0).bind (effCidv q)).isSome =
      ((intParam (getq q "cid-version") 0).isSome && !v0OtherHash q) := by
  unfold effCidv v0OtherHash
  generalize otherHash q = b
  generalize getq q "cid-version" = v
  cases v with
  | empty => cases b <;> simp [intParam]
  | valid x =>
    cases x with
    | int i => by_cases hi : i = 0 <;> cases b <;> simp [intParam, hi]
    | _ => simp [intParam]
  | invalid => simp [intParam]
  | garbled => simp [intParam]

theorem addParams_isSome (q : List (String × QV)) (md : List (Nat × Nat)) :
    (addParams q md).isSome = ((fromQuery q md).isSome && addParseOk q && !v0OtherHash q) := by
  have hc := cidv_isSome q
  have hraw : ∀ d, (boolParam (getq q "raw-leaves") d).isSome = (boolParam (getq q "raw-leaves") false).isSome :=
    fun d => boolParam_isSome _ _ _
  have hstr : ∀ d, (boolParam (getq q "stream-channels") d).isSome = (boolParam (getq q "stream-channels") false).isSome :=
    fun d => boolParam_isSome _ _ _
  cases hR : ((fromQuery q md).isSome && addParseOk q && !v0OtherHash q) with
  | true =>
    simp only [addParseOk, addBoolKeys, List.all_cons, List.all_nil, Bool.and_true, Bool.and_eq_true] at hR
    obtain ⟨⟨h0, ⟨⟨⟨b1, b2, b3, b4, b5, b6, b7, b8, b9⟩, hl⟩, hf⟩, hi⟩, hv⟩ := hR
    have hcs : ((intParam (getq q "cid-version") 0).bind (effCidv q)).isSome = true := by rw [hc, hi, hv]; rfl
    obtain ⟨o, ho⟩ := Option.isSome_iff_exists.mp h0
    obtain ⟨x1, e1⟩ := Option.isSome_iff_exists.mp b1
    obtain ⟨x2, e2⟩ := Option.isSome_iff_exists.mp b2
    obtain ⟨x3, e3⟩ := Option.isSome_iff_exists.mp b3
    obtain ⟨x4, e4⟩ := Option.isSome_iff_exists.mp b4
    obtain ⟨x5, e5⟩ := Option.isSome_iff_exists.mp b5
    obtain ⟨x6, e6⟩ := Option.isSome_iff_exists.mp b6
    obtain ⟨x9, e9⟩ := Option.isSome_iff_exists.mp b9
    obtain ⟨xl, el⟩ := Option.isSome_iff_exists.mp hl
    obtain ⟨xf, ef⟩ := Option.isSome_iff_exists.mp hf
    obtain ⟨c, ec⟩ := Option.isSome_iff_exists.mp hcs
    obtain ⟨x7, e7⟩ := Option.isSome_iff_exists.mp ((hraw (decide (c > 0))).trans b7)
    obtain ⟨x8, e8⟩ := Option.isSome_iff_exists.mp ((hstr true).trans b8)
    simp [addParams, ho, e1, e2, e3, e4, e5, e6, e7, e8, e9, el, ef, ec]
  | false =>
    cases hp : addParams q md with
    | none => rfl
    | some p =>
      exfalso
      unfold addParams at hp
      split at hp
      · rename_i o layout format loc recursive hidden wrap shard progress cidv ho hl hf h1 h2 h3 h4 h5 h6 hcv
        split at hp
        · rename_i raw stream nocopy h7 h8 h9
          have h7' := hraw (decide (cidv > 0)); rw [h7] at h7'
          have h8' := hstr true; rw [h8] at h8'
          rw [hcv] at hc
          simp only [Option.isSome_some] at h7' h8' hc
          have hc' := hc.symm
          simp only [Bool.and_eq_true] at hc'
          simp [addParseOk, addBoolKeys, ho, hl, hf, h1, h2, h3, h4, h5, h6, h9, ← h7', ← h8', hc'.1, hc'.2] at hR
        · simp at hp
      · simp at hp


theorem addOptionsOk_eq (q : List (String × QV)) :
    addOptionsOk q = (addParseOk q && ((lateWord (getq q "chunker") "").isSome && (lateWord (getq q "hash") "").isSome)) := by
  unfold addOptionsOk addParseOk
  generalize (addBoolKeys.all fun k => (boolParam (getq q k) false).isSome) = a
  generalize (wordParam (getq q "layout")).isSome = b
  generalize (wordParam (getq q "format")).isSome = c
  generalize (lateWord (getq q "chunker") "").isSome = d
  generalize (lateWord (getq q "hash") "").isSome = e
  generalize (intParam (getq q "cid-version") 0).isSome = f
  cases a <;> cases b <;> cases c <;> cases d <;> cases e <;> cases f <;> rfl

/-- with a hash word that decodes, "version 0 by name with another hash function" is the spec's contradiction -/
theorem v0OtherHash_eq {q : List (String × QV)} (hh : (lateWord (getq q "hash") "").isSome = true) :
    v0OtherHash q = versionContradiction q := by
  unfold v0OtherHash versionContradiction otherHash
  generalize getq q "cid-version" = v
  revert hh
  generalize getq q "hash" = h
  intro hh
  cases h with
  | valid x => cases x <;> simp [lateWord] at hh ⊢ <;> exact Bool.and_comm _ _
  | empty => simp
  | _ => simp [lateWord] at hh

theorem carried_isSome {q : List (String × QV)} (md : List (Nat × Nat)) (hg : hasGarbled q = false) :
    (carried q md).isSome = (fromQuery q md).isSome := by
  rw [carried_eq]
  have : garbledOption q = false := by
    cases hgo : garbledOption q with
    | false => rfl
    | true => rw [garbledOption_hasGarbled hgo] at hg; exact absurd hg (by decide)
  simp [this]

/-- when chunker and hash decode, the spec's "the query is well-formed" is exactly "the model hands `AddParams` to the adder" -/
theorem addQueryOk_eq (q : List (String × QV)) (md : List (Nat × Nat))
    (hc : (lateWord (getq q "chunker") "").isSome = true) (hh : (lateWord (getq q "hash") "").isSome = true) :
    addQueryOk q md = (seenOf q md).isSome := by
  cases hg : hasGarbled q with
  | true => simp [addQueryOk, seenOf, hg]
  | false =>
    simp only [addQueryOk, seenOf, hg, carried_isSome md hg, addOptionsOk_eq, hc, hh]
    simp
    rw [addParams_isSome, v0OtherHash_eq hh]

theorem seenOf_some {q : List (String × QV)} {md : List (Nat × Nat)} {s : AddSeen} (h : seenOf q md = some s) :
    ∃ p, addParams q md = some p ∧ s = p.seen := by
  unfold seenOf at h
  split at h
  · simp at h
  · cases hp : addParams q md with
    | none => simp [hp] at h
    | some p => exact ⟨p, rfl, by simpa [hp] using h.symm⟩

theorem parseClauses_seenOf (q : List (String × QV)) (md : List (Nat × Nat)) :
    (parseClauses q md (seenOf q md)).all (·.2) = true := by
  unfold parseClauses
  split
  · rename_i hok
    have hoo : addOptionsOk q = true := by
      simp only [addQueryOk, Bool.and_eq_true] at hok; exact hok.1.1.2
    rw [addOptionsOk_eq] at hoo
    simp only [Bool.and_eq_true] at hoo
    rw [addQueryOk_eq q md hoo.2.1 hoo.2.2] at hok
    obtain ⟨s, hs⟩ := Option.isSome_iff_exists.mp hok
    obtain ⟨p, hp, rfl⟩ := seenOf_some hs
    simp [hs, seenExact_of_addParams hp]
  · rename_i hnok
    split
    · rfl
    · rename_i hlate
      have h1 : (lateWord (getq q "chunker") "").isSome = true := by
        cases hx : lateWord (getq q "chunker") "" <;> simp [hx] at hlate ⊢
      have h2 : (lateWord (getq q "hash") "").isSome = true := by
        cases hx : lateWord (getq q "hash") "" <;> simp [hx] at hlate ⊢
      rw [addQueryOk_eq q md h1 h2] at hnok
      simpa using hnok

/-! ### which add requests the spec calls malformed, against what the model refuses (for `add_model_holds`) -/

theorem lateWord_isSome (v : QV) (d d' : String) : (lateWord v d).isSome = (lateWord v d').isSome := by
  cases v with
  | valid x => cases x <;> rfl
  | _ => rfl

theorem addParams_fields {q : List (String × QV)} {md : List (Nat × Nat)} {p : AddParams} (h : addParams q md = some p) :
    wordParam (getq q "format") = some p.format ∧ boolParam (getq q "nocopy") false = some p.nocopy ∧
    boolParam (getq q "stream-channels") true = some p.stream := by
  unfold addParams at h
  split at h
  · rename_i o layout format loc recursive hidden wrap shard progress cidv ho hl hf h1 h2 h3 h4 h5 h6 hcv
    split at h
    · rename_i raw stream nocopy h7 h8 h9
      simp only [Option.some.injEq] at h
      subst h
      exact ⟨hf, h9, h8⟩
    · simp at h
  · simp at h

theorem addMalformed_of_refused (r : AddReq) (hp : addParams r.query r.md = none) : addMalformed r = true := by
  by_cases hg : hasGarbled r.query = true
  · simp [addMalformed, hg]
  · have hg' : hasGarbled r.query = false := by simpa using hg
    have h := addParams_isSome r.query r.md
    rw [hp] at h
    have hc := carried_isSome r.md hg'
    by_cases hh : (lateWord (getq r.query "hash") "").isSome = true
    · rw [v0OtherHash_eq hh] at h
      unfold addMalformed
      rw [addOptionsOk_eq]
      cases h1 : (fromQuery r.query r.md).isSome <;> cases h2 : addParseOk r.query <;>
        cases h3 : versionContradiction r.query <;> simp_all
    · unfold addMalformed; rw [addOptionsOk_eq]; simp [hh]

theorem addMalformed_of_accepted (r : AddReq) (p : AddParams) (hm : r.mp = .ok) (hg : hasGarbled r.query = false)
    (hp : addParams r.query r.md = some p) (hl : lateFailure r p = false) : addMalformed r = false := by
  have h := addParams_isSome r.query r.md
  rw [hp] at h
  have hc := carried_isSome r.md hg
  obtain ⟨hf, hn, _⟩ := addParams_fields hp
  simp only [lateFailure, Bool.or_eq_false_iff] at hl
  obtain ⟨⟨⟨⟨⟨_, hlc⟩, hlh⟩, hcar⟩, hnc⟩, _⟩ := hl
  have hlc' : (lateWord (getq r.query "chunker") "").isSome = true := by
    rw [lateWord_isSome _ "" "size-262144"]; cases hx : lateWord (getq r.query "chunker") "size-262144" <;> simp [hx] at hlc ⊢
  have hlh' : (lateWord (getq r.query "hash") "").isSome = true := by
    rw [lateWord_isSome _ "" "sha2-256"]; cases hx : lateWord (getq r.query "hash") "sha2-256" <;> simp [hx] at hlh ⊢
  rw [v0OtherHash_eq hlh'] at h
  have hbm : bodyMismatch r.query = false := by
    unfold bodyMismatch
    cases hfq : getq r.query "format" == .valid (.str "car") with
    | true => rw [eq_of_beq hfq] at hf; simp_all [wordParam]
    | false =>
      cases hnq : getq r.query "nocopy" == .valid (.bool true) with
      | true => rw [eq_of_beq hnq] at hn; simp_all [boolParam]
      | false => rfl
  unfold addMalformed
  rw [addOptionsOk_eq, hlc', hlh', hbm, hg, hm]
  have h' := h.symm
  simp only [Option.isSome_some, Bool.and_eq_true] at h'
  obtain ⟨⟨h1, h2⟩, h3⟩ := h'
  rw [h1] at hc
  cases hcc : carried r.query r.md with
  | none => simp [hcc] at hc
  | some w => simp [h2] ; simpa using h3


end CV.C11
