import ClusterVerif.Spec.C11
import ClusterVerif.Gen.C11

/-! Helper lemmas for Props/C11. -/
namespace CV.C11
open CV

/-! ### the strict reading of the options implies the code's reading -/

theorem mode_of_S {q : List (String × QV)} {m : Mode} (h : S.mode q = some m) : M.mode q = m := by
  unfold S.mode at h; unfold M.mode
  split at h <;> simp_all

theorem intParam_empty (d : Int) : intParam .empty d = some d := rfl

theorem factors_of_S {q : List (String × QV)} {f : Int × Int} (h : S.factors q = some f) : M.factors q = some f := by
  unfold S.factors at h; unfold M.factors
  split at h
  · rename_i a b ha hb
    split at h
    · rename_i hr; simp_all
    · rename_i i hr
      simp only [hr]
      simp_all [intParam]
    · simp at h
  · simp at h

theorem ualloc_of_S {q : List (String × QV)} {l : List Nat} (h : S.ualloc q = some l) : M.ualloc q = l := by
  unfold S.ualloc at h; unfold M.ualloc
  split at h
  · rename_i hq; simp_all
  · rename_i l' hq
    split at h <;> simp_all
  · simp at h

theorem expiry_of_S {q : List (String × QV)} {e : Expiry} (h : S.expiry q = some e) : M.expiry q = some e := by
  unfold S.expiry S.expireIn at h; unfold M.expiry
  split at h
  · simp at h
  · rename_i ein hein
    split at h
    · rename_i hat
      simp only [hat]
      split at hein
      · rename_i hin; injection hein with hein; subst hein; simp [hin] at h ⊢; exact h
      · rename_i k hin; injection hein with hein; subst hein; simp [hin] at h ⊢; exact h
      · simp at hein
    · rename_i e' hat; simp_all
    · simp at h

theorem fromQuery_of_carried {q : List (String × QV)} {md : List (Nat × Nat)} {o : Opts}
    (h : carried q md = some o) : fromQuery q md = some o := by
  unfold carried assemble at h
  split at h
  · rename_i m f sh ua e u og hm hf hsh hua he hu hog
    unfold fromQuery
    rw [factors_of_S hf, ualloc_of_S hua, expiry_of_S he, mode_of_S hm, hsh, hu, hog]
    simpa [assemble] using h
  · simp at h

/-- the code accepts options the strict reading calls undecodable (K09) -/
def lenient (r : Req) : Bool := (carried r.query r.md).isNone && (fromQuery r.query r.md).isSome

theorem fromQuery_none_of_carried_none {r : Req} (hl : lenient r = false)
    (h : carried r.query r.md = none) : fromQuery r.query r.md = none := by
  unfold lenient at hl
  cases hf : fromQuery r.query r.md with
  | none => rfl
  | some o => simp [h, hf] at hl

theorem carried_mode {q : List (String × QV)} {md : List (Nat × Nat)} {o : Opts}
    (h : carried q md = some o) : S.mode q = some o.mode := by
  unfold carried assemble at h
  split at h
  · rename_i m f sh ua e u og hm hf hsh hua he hu hog
    simp at h; subst h; simpa using hm
  · simp at h

/-! ### handlers against the expectation of their route -/

/-- frozen: which expectation shape each handler function implements -/
def shapeOf : Handler → Option Shape
  | .id => some (.unit "Cluster.ID")
  | .version => some (.unit "Cluster.Version")
  | .peerList => some (.unit "Cluster.Peers")
  | .peerAdd => some (.pidBody "Cluster.PeerAdd")
  | .peerRemove => some (.pidVar "Cluster.PeerRemove")
  | .add => some .add
  | .allocations => some (.typeFilter "Cluster.Pins")
  | .allocation => some (.cidArg "Cluster.PinGet")
  | .statusAll => some (.statusFilter "Cluster.StatusAll" "Cluster.StatusAllLocal")
  | .recover => some (.localCid "Cluster.Recover" "Cluster.RecoverLocal")
  | .recoverAll => some (.localUnit "Cluster.RecoverAll" "Cluster.RecoverAllLocal")
  | .status => some (.localCid "Cluster.Status" "Cluster.StatusLocal")
  | .pin => some (.pin "Cluster.Pin")
  | .pinPath => some (.pinPath "Cluster.PinPath")
  | .unpin => some (.unpin "Cluster.Unpin")
  | .unpinPath => some (.unpinPath "Cluster.UnpinPath")
  | .repoGC => some (.localUnit "Cluster.RepoGC" "Cluster.RepoGCLocal")
  | .graph => some (.unit "Cluster.ConnectGraph")
  | .alerts => some (.unit "Cluster.Alerts")
  | .metrics => some (.nameVar "PeerMonitor.LatestMetrics")
  | .metricNames => some (.unit "PeerMonitor.MetricNames")
  | .notFound => none

/-- a response whose body is right for its status: empty for 204, one JSON document otherwise -/
def wellShaped (o : Resp) : Bool :=
  (o.status == 204 && o.body == .docs 0) || (o.status != 204 && !is3xx o.status && o.body == .docs 1)

theorem respond_ops (r : Req) (op : Op) (a b c d : Nat) : (respond r op a b c d).ops = [op] := by
  unfold respond; cases r.rpc <;> rfl

theorem performed_respond (w : Want) (r : Req) (op : Op) (a b c d : Nat) :
    performed w (respond r op a b c d) = w.ok op := by
  simp [performed, respond_ops]

theorem refused_refuse : refused (refuse 400) = true := by decide

theorem conforms_decide'_respond {j : Bool} {w : Want} {r : Req} {op : Op} {a b c d : Nat}
    (h : w.ok op = true) : conforms (decide' j w) (respond r op a b c d) = true := by
  unfold decide'; cases j <;> simp [conforms, performed_respond, h]

theorem conforms_either_refuse (w : Want) : conforms (.either w) (refuse 400) = true := by
  simp [conforms, refused_refuse]

theorem conforms_decide'_refuse (w : Want) : conforms (decide' true w) (refuse 400) = true := by
  simp [decide', conforms_either_refuse]

theorem conforms_malformed_refuse : conforms .malformed (refuse 400) = true := by
  simp [conforms, refused_refuse]

theorem wellShaped_refuse : wellShaped (refuse 400) = true := by decide

theorem wellShaped_respond (r : Req) (op : Op) {a b c d : Nat}
    (hok : (a = 204 ∧ b = 0) ∨ (a = 200 ∧ b = 1)) (hc : c = 500 ∨ c = 404) (hd : d = 500 ∨ d = 404) :
    wellShaped (respond r op a b c d) = true := by
  unfold respond
  cases r.rpc
  · rcases hok with ⟨rfl, rfl⟩ | ⟨rfl, rfl⟩ <;> simp [wellShaped, is3xx]
  · rcases hc with rfl | rfl <;> simp [wellShaped, is3xx]
  · rcases hd with rfl | rfl <;> simp [wellShaped, is3xx]

theorem wellShaped_call (r : Req) (n : String) (a : Arg) : wellShaped (call r n a) = true := by
  unfold call; exact wellShaped_respond r _ (Or.inr ⟨rfl, rfl⟩) (Or.inl rfl) (Or.inl rfl)

theorem optsBad_of_fromQuery_none {r : Req} (h : fromQuery r.query r.md = none) : optsBad r = true := by
  unfold optsBad
  cases hc : carried r.query r.md with
  | none => rfl
  | some o => rw [fromQuery_of_carried hc] at h; simp at h

theorem localNames_mem (r : Req) (op opl : String) :
    (if isLocal r = true then opl else op) ∈ localNames r op opl := by
  unfold localNames isLocal
  cases h : getq r.query "local" with
  | empty => simp
  | invalid => by_cases h' : op = opl <;> simp [h']
  | valid v =>
    cases v with
    | bool b => cases b <;> simp
    | _ => simp

/-- the CID of the `{hash}` variable -/
abbrev cidOpt (r : Req) (pat : List PSeg) : Option Nat := (varSeg "hash" pat r.segs).bind (·.cid)

theorem parseCid_cases (r : Req) (pat : List PSeg) :
    (cidOpt r pat = none ∧ parseCid r pat = none) ∨
    (∃ c, cidOpt r pat = some c ∧ fromQuery r.query r.md = none ∧ parseCid r pat = none) ∨
    (∃ c o, cidOpt r pat = some c ∧ fromQuery r.query r.md = some o ∧
      parseCid r pat = some { pinWithOpts c o with depth := -1 }) := by
  unfold parseCid cidOpt
  cases hc : (varSeg "hash" pat r.segs).bind (·.cid) with
  | none => simp
  | some c =>
    cases hf : fromQuery r.query r.md with
    | none => simp
    | some o => simp

theorem parsePinPath_cases (r : Req) (pat : List PSeg) :
    (pathOf pat r.segs = none ∧ parsePinPath r pat = none) ∨
    (∃ p, pathOf pat r.segs = some p ∧ fromQuery r.query r.md = none ∧ parsePinPath r pat = none) ∨
    (∃ p o, pathOf pat r.segs = some p ∧ fromQuery r.query r.md = some o ∧ parsePinPath r pat = some (p, o)) := by
  unfold parsePinPath
  cases hc : pathOf pat r.segs with
  | none => simp
  | some c =>
    cases hf : fromQuery r.query r.md with
    | none => simp
    | some o => simp

theorem junk_of_fromQuery_none {r : Req} (h : fromQuery r.query r.md = none) :
    (optsBad r || localBad r || filterBad r) = true := by
  simp [optsBad_of_fromQuery_none h]

theorem ok_unit (e : Expect) (r : Req) (n : String) (hs : Shape.unit n = e.shape) :
    conforms (verdict e r) (call r n .unit) = true := by
  unfold verdict; rw [← hs]
  exact conforms_decide'_respond (by simp [Want.ok])

theorem ok_localUnit (e : Expect) (r : Req) (n nl : String) (hs : Shape.localUnit n nl = e.shape) :
    conforms (verdict e r) (call r (if isLocal r then nl else n) .unit) = true := by
  unfold verdict; rw [← hs]
  exact conforms_decide'_respond (by simp [Want.ok, localNames_mem])

theorem ok_typeFilter (e : Expect) (r : Req) (hs : Shape.typeFilter "Cluster.Pins" = e.shape) :
    conforms (verdict e r) (runHandler .allocations r e.pat) = true := by
  unfold verdict runHandler; rw [← hs]
  cases hf : getq r.query "filter" with
  | invalid =>
    have : filterBad r = true := by simp [filterBad, hf]
    simp only [this, Bool.or_true]; exact conforms_decide'_refuse _
  | empty => exact conforms_decide'_respond (by simp [Want.ok])
  | valid v => exact conforms_decide'_respond (by simp [Want.ok])

theorem ok_cidArg (e : Expect) (r : Req) (n : String) (a b c d : Nat) (hs : Shape.cidArg n = e.shape) :
    conforms (verdict e r)
      (match parseCid r e.pat with
       | some p => respond r ⟨n, .cid p.cid⟩ a b c d
       | none => refuse 400) = true := by
  unfold verdict; rw [← hs]
  rcases parseCid_cases r e.pat with ⟨hc, hp⟩ | ⟨c, hc, hf, hp⟩ | ⟨c, o, hc, hf, hp⟩
  · simp only [cidOpt] at hc; simp only [hc, hp]; exact conforms_malformed_refuse
  · simp only [cidOpt] at hc; simp only [hc, hp, junk_of_fromQuery_none hf]; exact conforms_decide'_refuse _
  · simp only [cidOpt] at hc; simp only [hc, hp]
    exact conforms_decide'_respond (by simp [Want.ok, pinWithOpts])

theorem ok_localCid (e : Expect) (r : Req) (n nl : String) (hs : Shape.localCid n nl = e.shape) :
    conforms (verdict e r)
      (match parseCid r e.pat with
       | some p => call r (if isLocal r then nl else n) (.cid p.cid)
       | none => refuse 400) = true := by
  unfold verdict; rw [← hs]
  rcases parseCid_cases r e.pat with ⟨hc, hp⟩ | ⟨c, hc, hf, hp⟩ | ⟨c, o, hc, hf, hp⟩
  · simp only [cidOpt] at hc; simp only [hc, hp]; exact conforms_malformed_refuse
  · simp only [cidOpt] at hc; simp only [hc, hp, junk_of_fromQuery_none hf]; exact conforms_decide'_refuse _
  · simp only [cidOpt] at hc; simp only [hc, hp]
    exact conforms_decide'_respond (by simp [Want.ok, pinWithOpts, localNames_mem])

theorem ok_unpin (e : Expect) (r : Req) (n : String) (a b c d : Nat) (hs : Shape.unpin n = e.shape) :
    conforms (verdict e r)
      (match parseCid r e.pat with
       | some p => respond r ⟨n, pinArg p⟩ a b c d
       | none => refuse 400) = true := by
  unfold verdict; rw [← hs]
  rcases parseCid_cases r e.pat with ⟨hc, hp⟩ | ⟨c, hc, hf, hp⟩ | ⟨c, o, hc, hf, hp⟩
  · simp only [cidOpt] at hc; simp only [hc, hp]; exact conforms_malformed_refuse
  · simp only [cidOpt] at hc; simp only [hc, hp, junk_of_fromQuery_none hf]; exact conforms_decide'_refuse _
  · simp only [cidOpt] at hc; simp only [hc, hp]
    exact conforms_decide'_respond (by simp [Want.ok, pinArg, pinWithOpts])

theorem ok_pidVar (e : Expect) (r : Req) (hs : Shape.pidVar "Cluster.PeerRemove" = e.shape) :
    conforms (verdict e r) (runHandler .peerRemove r e.pat) = true := by
  unfold verdict runHandler; rw [← hs]
  cases hp : (varSeg "peer" e.pat r.segs).bind (·.pid) with
  | none => exact conforms_malformed_refuse
  | some p => exact conforms_decide'_respond (by simp [Want.ok])

theorem ok_pidBody (e : Expect) (r : Req) (hs : Shape.pidBody "Cluster.PeerAdd" = e.shape) :
    conforms (verdict e r) (runHandler .peerAdd r e.pat) = true := by
  unfold verdict runHandler; rw [← hs]
  cases hb : r.body with
  | none => exact conforms_malformed_refuse
  | bad => exact conforms_malformed_refuse
  | peerJson s =>
    cases hp : s.pid with
    | none => simp only [hp]; exact conforms_malformed_refuse
    | some p => simp only [hp]; exact conforms_decide'_respond (by simp [Want.ok])

theorem ok_nameVar (e : Expect) (r : Req) (hs : Shape.nameVar "PeerMonitor.LatestMetrics" = e.shape) :
    conforms (verdict e r) (runHandler .metrics r e.pat) = true := by
  unfold verdict runHandler; rw [← hs]
  cases hv : varSeg "name" e.pat r.segs <;> exact conforms_decide'_respond (by simp [Want.ok])

theorem ok_statusFilter (e : Expect) (r : Req)
    (hs : Shape.statusFilter "Cluster.StatusAll" "Cluster.StatusAllLocal" = e.shape) :
    conforms (verdict e r) (runHandler .statusAll r e.pat) = true := by
  unfold verdict runHandler; rw [← hs]
  cases hf : getq r.query "filter" with
  | invalid => exact conforms_either_refuse _
  | empty => exact conforms_decide'_respond (by simp [Want.ok, localNames_mem])
  | valid v =>
    cases v with
    | str m => exact conforms_decide'_respond (by simp [Want.ok, localNames_mem])
    | _ => simp only [conforms, performed_respond, call]; simp [Want.ok, localNames_mem]

theorem ok_add (e : Expect) (r : Req) (hs : Shape.add = e.shape) :
    conforms (verdict e r) (runHandler .add r e.pat) = true := by
  unfold verdict runHandler; rw [← hs]; exact conforms_malformed_refuse

/-- the CID pin route: needs the options the strict reading accepts to be the ones the code reads
    (`lenient = false`, K09); it conforms unless the carried mode is `direct`, which does not survive (K07) -/
theorem ok_pin (e : Expect) (r : Req) (hs : Shape.pin "Cluster.Pin" = e.shape)
    (hl : lenient r = false) :
    conforms (verdict e r) (runHandler .pin r e.pat) = true ∨
    (S.mode r.query = some .direct ∧ isMalformed (verdict e r) = false) := by
  unfold verdict runHandler; rw [← hs]
  rcases parseCid_cases r e.pat with ⟨hc, hp⟩ | ⟨c, hc, hf, hp⟩ | ⟨c, o, hc, hf, hp⟩
  · simp only [cidOpt] at hc; simp only [hc, hp]; exact Or.inl conforms_malformed_refuse
  · simp only [cidOpt] at hc
    have hcar : carried r.query r.md = none := by
      cases hcar : carried r.query r.md with
      | none => rfl
      | some o => rw [fromQuery_of_carried hcar] at hf; simp at hf
    simp only [hc, hp, hcar]; exact Or.inl conforms_malformed_refuse
  · simp only [cidOpt] at hc
    cases hcar : carried r.query r.md with
    | none => rw [fromQuery_none_of_carried_none hl hcar] at hf; simp at hf
    | some o' =>
      have ho : o' = o := by rw [fromQuery_of_carried hcar] at hf; simpa using hf
      subst ho
      have hmode := carried_mode hcar
      simp only [hc, hp]
      cases hmo : o'.mode with
      | recursive =>
        exact Or.inl (conforms_decide'_respond (by simp [Want.ok, pinArg, pinWithOpts, depthToMode, hmo]))
      | direct =>
        right
        refine ⟨by rw [hmode, hmo], ?_⟩
        unfold decide'; split <;> rfl

theorem ok_pinPath (e : Expect) (r : Req) (hs : Shape.pinPath "Cluster.PinPath" = e.shape)
    (hl : lenient r = false) :
    conforms (verdict e r) (runHandler .pinPath r e.pat) = true := by
  unfold verdict runHandler; rw [← hs]
  rcases parsePinPath_cases r e.pat with ⟨hc, hp⟩ | ⟨c, hc, hf, hp⟩ | ⟨c, o, hc, hf, hp⟩
  · simp only [hc, hp]; exact conforms_malformed_refuse
  · have hcar : carried r.query r.md = none := by
      cases hcar : carried r.query r.md with
      | none => rfl
      | some o => rw [fromQuery_of_carried hcar] at hf; simp at hf
    simp only [hc, hp, hcar]; exact conforms_malformed_refuse
  · cases hcar : carried r.query r.md with
    | none => rw [fromQuery_none_of_carried_none hl hcar] at hf; simp at hf
    | some o' =>
      have ho : o' = o := by rw [fromQuery_of_carried hcar] at hf; simpa using hf
      subst ho
      simp only [hc, hp]
      exact conforms_decide'_respond (by simp [Want.ok])

theorem ok_unpinPath (e : Expect) (r : Req) (hs : Shape.unpinPath "Cluster.UnpinPath" = e.shape) :
    conforms (verdict e r) (runHandler .unpinPath r e.pat) = true := by
  unfold verdict runHandler; rw [← hs]
  rcases parsePinPath_cases r e.pat with ⟨hc, hp⟩ | ⟨c, hc, hf, hp⟩ | ⟨c, o, hc, hf, hp⟩
  · simp only [hc, hp]; exact conforms_malformed_refuse
  · simp only [hc, hp, junk_of_fromQuery_none hf]; exact conforms_decide'_refuse _
  · simp only [hc, hp]
    exact conforms_decide'_respond (by simp [Want.ok])

theorem wellShaped_handler (h : Handler) (r : Req) (pat : List PSeg) : wellShaped (runHandler h r pat) = true := by
  have w400 := wellShaped_refuse
  cases h <;> unfold runHandler <;> simp only []
  all_goals first
    | exact wellShaped_call _ _ _
    | exact w400
    | decide
    | (split <;> first | exact wellShaped_call _ _ _ | exact w400
                       | exact wellShaped_respond _ _ (Or.inl ⟨rfl, rfl⟩) (Or.inl rfl) (Or.inl rfl)
                       | exact wellShaped_respond _ _ (Or.inr ⟨rfl, rfl⟩) (Or.inr rfl) (Or.inr rfl)
                       | exact wellShaped_respond _ _ (Or.inr ⟨rfl, rfl⟩) (Or.inl rfl) (Or.inr rfl)
                       | (split <;> first | exact wellShaped_call _ _ _ | exact w400))

/-- every handler in the table, run on a request that reached it, conforms to the expectation of the
    shape it implements (K09 excluded by hypothesis) — except the pin handler when the carried mode is
    `direct` (K07) -/
theorem handler_ok' (h : Handler) (e : Expect) (r : Req) (hs : shapeOf h = some e.shape)
    (hl : lenient r = false) :
    conforms (verdict e r) (runHandler h r e.pat) = true ∨
    (h = .pin ∧ S.mode r.query = some .direct ∧ isMalformed (verdict e r) = false) := by
  cases h <;> simp only [shapeOf, Option.some.injEq] at hs
  case id => exact Or.inl (ok_unit e r _ hs)
  case version => exact Or.inl (ok_unit e r _ hs)
  case peerList => exact Or.inl (ok_unit e r _ hs)
  case graph => exact Or.inl (ok_unit e r _ hs)
  case alerts => exact Or.inl (ok_unit e r _ hs)
  case metricNames => exact Or.inl (ok_unit e r _ hs)
  case peerAdd => exact Or.inl (ok_pidBody e r hs)
  case peerRemove => exact Or.inl (ok_pidVar e r hs)
  case add => exact Or.inl (ok_add e r hs)
  case allocations => exact Or.inl (ok_typeFilter e r hs)
  case allocation => exact Or.inl (ok_cidArg e r _ _ _ _ _ hs)
  case statusAll => exact Or.inl (ok_statusFilter e r hs)
  case recover => exact Or.inl (ok_localCid e r _ _ hs)
  case recoverAll => exact Or.inl (ok_localUnit e r _ _ hs)
  case status => exact Or.inl (ok_localCid e r _ _ hs)
  case pin =>
    rcases ok_pin e r hs hl with h | ⟨h1, h2⟩
    · exact Or.inl h
    · exact Or.inr ⟨rfl, h1, h2⟩
  case pinPath => exact Or.inl (ok_pinPath e r hs hl)
  case unpin => exact Or.inl (ok_unpin e r _ _ _ _ _ hs)
  case unpinPath => exact Or.inl (ok_unpinPath e r hs)
  case repoGC => exact Or.inl (ok_localUnit e r _ _ hs)
  case metrics => exact Or.inl (ok_nameVar e r hs)
  case notFound => simp at hs

theorem handler_ok (h : Handler) (e : Expect) (r : Req) (hs : shapeOf h = some e.shape)
    (hl : lenient r = false) (h7 : h = .pin → S.mode r.query ≠ some .direct) :
    conforms (verdict e r) (runHandler h r e.pat) = true := by
  rcases handler_ok' h e r hs hl with hc | ⟨hp, hm, _⟩
  · exact hc
  · exact absurd hm (h7 hp)

/-! ### the table against the expectations -/

/-- the route table lines up with the expectation list: same methods and patterns in the same order,
    and each route's handler implements the expected shape -/
def aligned : List Route → List Expect → Bool
  | [], [] => true
  | rt :: t, e :: es =>
    rt.method == e.method && rt.pat == e.pat && ((Handler.ofName rt.handler).bind shapeOf == some e.shape) && aligned t es
  | _, _ => false

theorem find_aligned {p : String → List PSeg → Bool} :
    ∀ {t : List Route} {es : List Expect}, aligned t es = true → ∀ {rt : Route},
      t.find? (fun rt => p rt.method rt.pat) = some rt →
      ∃ e, e ∈ es ∧ p e.method e.pat = true ∧ e.pat = rt.pat ∧
        ∃ h, Handler.ofName rt.handler = some h ∧ shapeOf h = some e.shape
  | [], [], _, rt, hf => by simp at hf
  | [], _ :: _, ha, _, _ => by simp [aligned] at ha
  | _ :: _, [], ha, _, _ => by simp [aligned] at ha
  | r0 :: t, e0 :: es, ha, rt, hf => by
    simp only [aligned, Bool.and_eq_true, beq_iff_eq] at ha
    obtain ⟨⟨⟨hm, hp⟩, hh⟩, hrest⟩ := ha
    rw [List.find?_cons] at hf
    cases hpr : p r0.method r0.pat with
    | true =>
      simp only [hpr] at hf
      have : r0 = rt := by simpa using hf
      subst this
      refine ⟨e0, by simp, ?_, hp.symm, ?_⟩
      · rw [← hm, ← hp]; exact hpr
      · cases hn : Handler.ofName r0.handler with
        | none => simp [hn] at hh
        | some h => exact ⟨h, rfl, by simpa [hn] using hh⟩
    | false =>
      simp only [hpr] at hf
      obtain ⟨e, he, h1, h2, h3⟩ := find_aligned hrest hf
      exact ⟨e, by simp [he], h1, h2, h3⟩

theorem filter_aligned_nil {p : String → List PSeg → Bool} :
    ∀ {t : List Route} {es : List Expect}, aligned t es = true →
      t.find? (fun rt => p rt.method rt.pat) = none → es.filter (fun e => p e.method e.pat) = []
  | [], [], _, _ => rfl
  | [], _ :: _, ha, _ => by simp [aligned] at ha
  | _ :: _, [], ha, _ => by simp [aligned] at ha
  | r0 :: t, e0 :: es, ha, hf => by
    simp only [aligned, Bool.and_eq_true, beq_iff_eq] at ha
    obtain ⟨⟨⟨hm, hp⟩, _⟩, hrest⟩ := ha
    rw [List.find?_cons] at hf
    cases hpr : p r0.method r0.pat with
    | true => simp [hpr] at hf
    | false =>
      simp only [hpr] at hf
      have := filter_aligned_nil hrest hf
      rw [List.filter_cons]
      rw [← hm, ← hp, hpr]; simpa using this

theorem any_aligned {p : List PSeg → Bool} :
    ∀ {t : List Route} {es : List Expect}, aligned t es = true →
      t.any (fun rt => p rt.pat) = es.any (fun e => p e.pat)
  | [], [], _ => rfl
  | [], _ :: _, ha => by simp [aligned] at ha
  | _ :: _, [], ha => by simp [aligned] at ha
  | r0 :: t, e0 :: es, ha => by
    simp only [aligned, Bool.and_eq_true, beq_iff_eq] at ha
    obtain ⟨⟨⟨_, hp⟩, _⟩, hrest⟩ := ha
    simp only [List.any_cons, hp, any_aligned hrest]

/-! ### assembling the clauses -/

theorem holds_found {r : Req} {o : Resp} {e : Expect} (hauth : authorized r = true) (hpf : preflight r = false)
    (hhead : r.method ≠ "HEAD") (hnc : nonCanonical r = false)
    (he : e ∈ expectations) (ha : addresses e r = true) (hc : conforms (verdict e r) o = true)
    (hw : wellShaped o = true) : holds r o = true := by
  have hmem : e ∈ expectations.filter (fun e => addresses e r) := by simp [List.mem_filter, he, ha]
  have hne : (expectations.filter (fun e => addresses e r)).isEmpty = false := by
    cases hl : expectations.filter (fun e => addresses e r) with
    | nil => rw [hl] at hmem; simp at hmem
    | cons _ _ => rfl
  have hsd : singleDocument r o = true := by
    unfold singleDocument
    simp only [hhead, hpf, hnc, if_false, Bool.false_and, Bool.false_eq_true]
    unfold wellShaped at hw
    by_cases h204 : o.status = 204
    · simp_all
    · simp_all
  unfold holds clauses
  simp only [hauth, hpf, hnc, hne, hsd]
  simp only [List.all_append, List.all_cons, List.all_nil, Bool.true_or, Bool.and_true, Bool.not_true, Bool.false_or,
    Bool.false_and, if_false, Bool.false_eq_true, Bool.true_and]
  rw [Bool.and_eq_true]
  constructor
  · -- fail_closed
    cases hall : (expectations.filter (fun e => addresses e r)).all (fun e => isMalformed (verdict e r)) with
    | false => simp
    | true =>
      have := (List.all_eq_true.mp hall) e hmem
      cases hv : verdict e r with
      | malformed => rw [hv] at hc; simpa [conforms] using hc
      | perform w => rw [hv] at this; simp [isMalformed] at this
      | either w => rw [hv] at this; simp [isMalformed] at this
  · -- faithful
    rw [Bool.or_eq_true]; right
    exact List.any_eq_true.mpr ⟨e, hmem, hc⟩

theorem serve_gen (t : List Route) (r : Req) :
    serve Gen.chain t r =
      if authorized r then (if preflight r then { status := 204, body := .docs 0, ops := [] } else router t r)
      else { status := 401, body := .docs 1, ops := [] } := by
  simp [Gen.chain, serve]

theorem serve_genTracing (t : List Route) (r : Req) : serve Gen.chainTracing t r = serve Gen.chain t r := by
  simp [Gen.chain, Gen.chainTracing, serve]

/-- a response that performs nothing and whose body is right for the request kind -/
theorem holds_unauthorized {r : Req} (h : authorized r = false) :
    holds r (headAdjust r { status := 401, body := .docs 1, ops := [] }) = true := by
  unfold holds clauses headAdjust singleDocument
  by_cases hh : r.method = "HEAD"
  · simp [h, hh]
  · by_cases hp : preflight r = true
    · simp [h, hh, hp]
    · simp [h, hh, hp, nonCanonical, is3xx]

theorem preflight_not_head {r : Req} (h : preflight r = true) : r.method ≠ "HEAD" := by
  unfold preflight at h
  intro hh; simp [hh] at h

theorem holds_preflight {r : Req} (ha : authorized r = true) (h : preflight r = true) :
    holds r (headAdjust r { status := 204, body := .docs 0, ops := [] }) = true := by
  have hh := preflight_not_head h
  unfold holds clauses headAdjust singleDocument
  simp [ha, h, hh]


theorem holds_redirect {r : Req} {b : BodyShape} (ha : authorized r = true) (hp : preflight r = false)
    (hn : nonCanonical r = true) :
    holds r (headAdjust r { status := 301, body := b, ops := [] }) = true := by
  unfold holds clauses headAdjust singleDocument
  by_cases hh : r.method = "HEAD"
  · simp [ha, hp, hn, hh, is3xx]
  · simp [ha, hp, hn, hh, is3xx]

/-- nothing addressed: 404 with the API's JSON error, or (HEAD) mux's bodiless 405 -/
theorem holds_unknown {r : Req} {st : Nat} {b : BodyShape} (ha : authorized r = true) (hp : preflight r = false)
    (hc : expectations.filter (fun e => addresses e r) = [])
    (hst : st = 404 ∨ st = 405) (hb : r.method ≠ "HEAD" → b = .docs 1) :
    holds r (headAdjust r { status := st, body := b, ops := [] }) = true := by
  unfold holds clauses headAdjust singleDocument
  by_cases hh : r.method = "HEAD"
  · rcases hst with rfl | rfl <;> simp [ha, hp, hh, hc, refused, is4xx, is3xx]
  · have := hb hh; subst this
    rcases hst with rfl | rfl <;> simp [ha, hp, hh, hc, refused, is4xx, is3xx]

theorem handler_ops_le_one (h : Handler) (r : Req) (pat : List PSeg) : (runHandler h r pat).ops.length ≤ 1 := by
  cases h <;> unfold runHandler <;> simp only []
  all_goals first
    | (simp [call, respond_ops, refuse]; done)
    | (split <;> first | (simp [call, respond_ops, refuse]; done)
                       | (split <;> simp [call, respond_ops, refuse]))

/-! ### where a request ends up -/

theorem expectations_no_head : expectations.all (fun e => e.method != "HEAD") = true := by decide

/-- For a table aligned with the expectations, an authorized non-preflight request is redirected
    (non-canonical path), or reaches the handler of an expectation it addresses, or addresses nothing
    and gets the API's 404, or matches only the path of some route and gets mux's 405. -/
theorem router_cases (t : List Route) (hal : aligned t expectations = true) (r : Req)
    (ha : authorized r = true) (hp : preflight r = false) :
    (nonCanonical r = true ∧ ∃ b, (b = .docs 0 ∨ b = .junk 0) ∧
        handle Gen.chain t r = headAdjust r { status := 301, body := b, ops := [] }) ∨
    (nonCanonical r = false ∧ r.method ≠ "HEAD" ∧ ∃ e h, e ∈ expectations ∧ addresses e r = true ∧
        shapeOf h = some e.shape ∧ handle Gen.chain t r = runHandler h r e.pat) ∨
    (expectations.filter (fun e => addresses e r) = [] ∧
        handle Gen.chain t r = headAdjust r { status := 404, body := .docs 1, ops := [] }) ∨
    (expectations.filter (fun e => addresses e r) = [] ∧
        expectations.any (fun e => matchPat e.pat r.segs r.slash) = true ∧
        handle Gen.chain t r = headAdjust r { status := 405, body := .docs 0, ops := [] }) := by
  unfold handle
  rw [serve_gen]
  simp only [ha, hp, if_true, Bool.false_eq_true, if_false]
  unfold router
  cases hu' : unclean r with
  | true =>
    simp only [if_true]
    exact Or.inl ⟨by simp [nonCanonical, hu'], _, Or.inl rfl, rfl⟩
  | false =>
  simp only [Bool.false_eq_true, if_false]
  unfold route
  cases hf : t.find? (fun rt => rt.method == r.method && matchPat rt.pat r.segs r.slash) with
  | some rt =>
    simp only []
    cases hs' : r.slash with
    | true =>
      simp only [if_true]; unfold slashRedirect
      refine Or.inl ⟨by simp [nonCanonical, hs'], _, ?_, rfl⟩
      by_cases hg : r.method = "GET" <;> simp [hg]
    | false =>
    simp only [Bool.false_eq_true, if_false]
    obtain ⟨e, he, hpe, hpat, h, hn, hsh⟩ :=
      find_aligned (p := fun m pat => m == r.method && matchPat pat r.segs r.slash) hal hf
    have hpe' : (e.method == r.method && matchPat e.pat r.segs false) = true := by rw [← hs']; exact hpe
    have hadr : addresses e r = true := by unfold addresses; rw [hs']; exact hpe'
    have hhead : r.method ≠ "HEAD" := by
      have h1 := (List.all_eq_true.mp expectations_no_head) e he
      have h2 : e.method = r.method := by
        simp only [Bool.and_eq_true, beq_iff_eq] at hpe'; exact hpe'.1
      rw [← h2]; simpa using h1
    simp only [hn]
    have hha : headAdjust r (runHandler h r rt.pat) = runHandler h r rt.pat := by
      unfold headAdjust; simp [hhead]
    rw [hha, ← hpat]
    exact Or.inr (Or.inl ⟨by simp [nonCanonical, hs', hu'], hhead, e, h, he, hadr, hsh, rfl⟩)
  | none =>
    simp only []
    have hnil : expectations.filter (fun e => addresses e r) = [] :=
      filter_aligned_nil (p := fun m pat => m == r.method && matchPat pat r.segs r.slash) hal hf
    cases hany : t.any (fun rt => matchPat rt.pat r.segs r.slash) with
    | false =>
      simp only [Bool.false_eq_true, if_false]
      exact Or.inr (Or.inr (Or.inl ⟨hnil, rfl⟩))
    | true =>
      simp only [if_true]
      have hany' : expectations.any (fun e => matchPat e.pat r.segs r.slash) = true := by
        rw [← any_aligned (p := fun pat => matchPat pat r.segs r.slash) hal]; exact hany
      exact Or.inr (Or.inr (Or.inr ⟨hnil, hany', by first | rfl | trivial⟩))

end CV.C11
