import ClusterVerif.Model.C02Ctx
import ClusterVerif.Lemmas.C02
/-! helper lemmas for the caller's-context model (`Model/C02Ctx.lean`) -/
namespace CV.C02
namespace Ctx

theorem addOk_asIs (x : XSt) : addOk Layer.asIs x = true := by
  simp [addOk, Layer.asIs]

/-- projection of an extended run onto the worker state and the results -/
def proj (p : XSt × List Res) : St × List Res := (p.1.s, p.2)

theorem xrun_asIs_eq_run (cfg : Cfg) (evs : List XEv) : ∀ (x : XSt),
    (xrun cfg Layer.asIs x evs).map proj = run cfg x.s (erase evs) := by
  induction evs with
  | nil => intro x; simp [xrun, erase, run, proj]
  | cons e es ih =>
    intro x
    cases e with
    | cancel c =>
      have := ih { x with done := c :: x.done }
      simp only [xrun, xstep, toEv, erase]
      rw [← this]
      cases xrun cfg Layer.asIs { x with done := c :: x.done } es <;> simp [proj]
    | log o c =>
      simp only [xrun, xstep, toEv, erase, run]
      cases hs : step cfg x.s (.log o) with
      | none => simp
      | some p =>
        have := ih { x with s := p.1, ctxs := ctxsAfter x (.log o c) p.2 }
        simp only [Option.map_some]
        rw [← this]
        cases xrun cfg Layer.asIs { x with s := p.1, ctxs := ctxsAfter x (.log o c) p.2 } es <;> simp [proj]
    | take =>
      simp only [xrun, xstep, toEv, erase, run, addOk_asIs]
      cases hs : step cfg x.s (.take true) with
      | none => simp
      | some p =>
        have := ih { x with s := p.1, ctxs := ctxsAfter x .take p.2 }
        simp only [Option.map_some]
        rw [← this]
        cases xrun cfg Layer.asIs { x with s := p.1, ctxs := ctxsAfter x .take p.2 } es <;> simp [proj]
    | timerFire =>
      simp only [xrun, xstep, toEv, erase, run]
      cases hs : step cfg x.s .timerFire with
      | none => simp
      | some p =>
        have := ih { x with s := p.1, ctxs := ctxsAfter x .timerFire p.2 }
        simp only [Option.map_some]
        rw [← this]
        cases xrun cfg Layer.asIs { x with s := p.1, ctxs := ctxsAfter x .timerFire p.2 } es <;> simp [proj]
    | commit out =>
      simp only [xrun, xstep, toEv, erase, run]
      cases hs : step cfg x.s (.commit out) with
      | none => simp
      | some p =>
        have := ih { x with s := p.1, ctxs := ctxsAfter x (.commit out) p.2 }
        simp only [Option.map_some]
        rw [← this]
        cases xrun cfg Layer.asIs { x with s := p.1, ctxs := ctxsAfter x (.commit out) p.2 } es <;> simp [proj]

theorem erase_benign (evs : List XEv) (hb : ∀ e ∈ evs, XEv.benign e = true) :
    ∀ e ∈ erase evs, Ev.benign e = true := by
  induction evs with
  | nil => intro e he; simp [erase] at he
  | cons a as ih =>
    have ih' := ih (fun e he => hb e (List.mem_cons_of_mem _ he))
    have ha := hb a (List.mem_cons_self ..)
    intro e he
    cases a with
    | cancel c => exact ih' e (by simpa [erase] using he)
    | log o c =>
      simp only [erase, List.mem_cons] at he
      rcases he with rfl | he
      · rfl
      · exact ih' e he
    | take =>
      simp only [erase, List.mem_cons] at he
      rcases he with rfl | he
      · rfl
      · exact ih' e he
    | timerFire =>
      simp only [erase, List.mem_cons] at he
      rcases he with rfl | he
      · rfl
      · exact ih' e he
    | commit out =>
      simp only [erase, List.mem_cons] at he
      rcases he with rfl | he
      · cases out <;> first | rfl | (simp [XEv.benign] at ha)
      · exact ih' e he

/-! ### the worker never performs the nil-delta publish when no `Add/Rm` fails -/

def NoCrashInv (s : St) : Prop :=
  s.crashed = false ∧ (s.phase = .due true → s.timer = false) ∧
    ((s.timer = true ∨ s.phase ≠ .idle) → s.pend.isNil = false)

theorem publish_crashed (s : St) (out : Outcome) : (s.publish out).1.crashed = s.crashed := by
  cases out <;> simp [St.publish]

theorem step_noCrash (cfg : Cfg) (s s' : St) (ev : Ev) (res : Res) (hb : ev ≠ .take false)
    (hi : NoCrashInv s) (hs : step cfg s ev = some (s', res)) : NoCrashInv s' := by
  obtain ⟨hc, ht, hp⟩ := hi
  cases ev with
  | log o =>
    simp only [step] at hs
    repeat' split at hs
    all_goals first
      | (cases hs; done)
      | (simp only [Option.some.injEq, Prod.mk.injEq] at hs
         obtain ⟨rfl, rfl⟩ := hs
         exact ⟨hc, ht, hp⟩)
  | timerFire =>
    simp only [step] at hs
    repeat' split at hs
    all_goals first
      | (cases hs; done)
      | (simp only [Option.some.injEq, Prod.mk.injEq] at hs
         obtain ⟨rfl, rfl⟩ := hs
         exact ⟨hc, fun _ => rfl, fun _ => hp (Or.inl (by assumption))⟩)
  | take addOk =>
    cases addOk with
    | false => exact absurd rfl hb
    | true =>
      simp only [step] at hs
      split at hs
      · cases hs
      split at hs
      · rename_i o q hph hqu
        simp only [Bool.not_true, Bool.false_eq_true, if_false] at hs
        split at hs <;>
        · simp only [Option.some.injEq, Prod.mk.injEq] at hs
          obtain ⟨rfl, _⟩ := hs
          refine ⟨hc, fun h => ?_, fun _ => add_isNil _ _ _⟩
          first
            | (simp only at h; rw [hph] at h; cases h)
            | (cases h)
      · cases hs
  | commit out =>
    simp only [step] at hs
    split at hs
    · cases hs
    split at hs
    · cases hs
    · rename_i age hph
      have hnn : s.pend.isNil = false := hp (Or.inr (by rw [hph]; intro h; cases h))
      split at hs
      · rename_i hnil
        rw [hnn] at hnil; cases hnil
      · obtain ⟨f1, f2, f3, f4⟩ := publish_fields s out
        have fc := publish_crashed s out
        by_cases hok : out = .ok
        · subst hok
          cases age with
          | false =>
            simp only [Option.some.injEq, Prod.mk.injEq] at hs
            obtain ⟨rfl, rfl⟩ := hs
            refine ⟨by simpa [fc] using hc, (fun h => by cases h), fun h => ?_⟩
            rcases h with h | h
            · cases h
            · exact absurd rfl h
          | true =>
            simp only [Option.some.injEq, Prod.mk.injEq] at hs
            obtain ⟨rfl, rfl⟩ := hs
            have htf : s.timer = false := ht hph
            refine ⟨by simpa [fc] using hc, (fun h => by cases h), fun h => ?_⟩
            rcases h with h | h
            · simp only [f2, htf] at h; cases h
            · exact absurd rfl h
        · have hpe := f4 hok
          cases age with
          | false =>
            have hs' : s' = { (s.publish out).1 with phase := .idle } := by
              cases out <;> first | exact absurd rfl hok | (simp only [Option.some.injEq, Prod.mk.injEq] at hs; exact hs.1.symm)
            subst hs'
            exact ⟨by simpa [fc] using hc, (fun h => by cases h), fun _ => by simpa [hpe] using hnn⟩
          | true =>
            have hs' : s' = { (s.publish out).1 with timer := true, phase := .idle } := by
              cases out <;> first | exact absurd rfl hok | (simp only [Option.some.injEq, Prod.mk.injEq] at hs; exact hs.1.symm)
            subst hs'
            exact ⟨by simpa [fc] using hc, (fun h => by cases h), fun _ => by simpa [hpe] using hnn⟩

theorem run_noCrash (cfg : Cfg) (evs : List Ev) : ∀ (s s' : St) (rs : List Res),
    NoCrashInv s → (∀ e ∈ evs, e ≠ .take false) → run cfg s evs = some (s', rs) → NoCrashInv s' := by
  induction evs with
  | nil =>
    intro s s' rs hi _ hr
    simp only [run, Option.some.injEq, Prod.mk.injEq] at hr
    obtain ⟨rfl, _⟩ := hr
    exact hi
  | cons ev t ih =>
    intro s s' rs hi hb hr
    simp only [run] at hr
    split at hr
    · cases hr
    · rename_i s1 r1 hstep
      split at hr
      · cases hr
      · rename_i s2 rs2 hrun
        simp only [Option.some.injEq, Prod.mk.injEq] at hr
        obtain ⟨rfl, _⟩ := hr
        exact ih s1 s2 rs2 (step_noCrash cfg s s1 ev r1 (hb ev (List.mem_cons_self ..)) hi hstep)
          (fun e he => hb e (List.mem_cons_of_mem _ he)) hrun

theorem noCrash_init : NoCrashInv {} := by
  refine ⟨rfl, (fun h => by cases h), fun h => ?_⟩
  rcases h with h | h
  · cases h
  · exact absurd rfl h

theorem erase_no_failed_take (evs : List XEv) : ∀ e ∈ erase evs, e ≠ Ev.take false := by
  induction evs with
  | nil => intro e he; simp [erase] at he
  | cons a as ih =>
    intro e he
    cases a <;> simp only [erase, List.mem_cons] at he
    case cancel => exact ih e he
    all_goals
      rcases he with rfl | he
      · intro h; cases h
      · exact ih e he

end Ctx
end CV.C02
