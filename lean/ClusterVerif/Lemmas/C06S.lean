import ClusterVerif.Lemmas.C06F
import ClusterVerif.Spec.C06S
import ClusterVerif.Model.C06S

namespace CV.C06

theorem b2n_eq_one (b : Bool) : (b2n b == 1) = b := by cases b <;> rfl
theorem b2n_ne_zero (b : Bool) : (b2n b != 0) = b := by cases b <;> rfl
theorem b2n_eq_zero (b : Bool) : (b2n b == 0) = !b := by cases b <;> rfl
theorem some_b2n_eq_one (b : Bool) : (some (b2n b) == some 1) = b := by cases b <;> rfl

/-- the accumulator of the `status |= st` loop only grows by or -/
theorem parseToks_acc (toks : List (List Char)) (a : Nat) :
    toks.foldl orStep a = a ||| toks.foldl orStep 0 := by
  induction toks generalizing a with
  | nil => simp
  | cons t ts ih =>
    simp only [List.foldl_cons]
    rw [ih]
    conv => rhs; rw [ih]
    unfold orStep
    cases lookupName t <;> simp [Nat.or_assoc]

theorem splitOnC_ne_nil (sep : Char) (cs : List Char) : splitOnC sep cs ≠ [] := by
  induction cs with
  | nil => simp [splitOnC]
  | cons c cs ih =>
    simp only [splitOnC]
    split
    · simp
    · split <;> simp

theorem splitOnC_noSep (sep : Char) (t : List Char) (h : sep ∉ t) : splitOnC sep t = [t] := by
  induction t with
  | nil => rfl
  | cons c cs ih =>
    have hc : (c == sep) = false := by
      simp only [List.mem_cons, not_or] at h
      simp [beq_eq_false_iff_ne, Ne.symm h.1]
    have hcs : sep ∉ cs := fun hm => h (List.mem_cons_of_mem _ hm)
    simp [splitOnC, hc, ih hcs]

theorem splitOnC_append (sep : Char) (t rest : List Char) (h : sep ∉ t) :
    splitOnC sep (t ++ sep :: rest) = t :: splitOnC sep rest := by
  induction t with
  | nil => simp [splitOnC]
  | cons c cs ih =>
    have hc : (c == sep) = false := by
      simp only [List.mem_cons, not_or] at h
      simp [beq_eq_false_iff_ne, Ne.symm h.1]
    have hcs : sep ∉ cs := fun hm => h (List.mem_cons_of_mem _ hm)
    simp [splitOnC, hc, ih hcs]

/-- `strings.Split(strings.Join(toks, sep), sep) = toks` for a non-empty list of separator-free tokens -/
theorem splitOnC_joinC (sep : Char) : ∀ (toks : List (List Char)), toks ≠ [] → (∀ t ∈ toks, sep ∉ t) →
    splitOnC sep (joinC sep toks) = toks
  | [], h, _ => absurd rfl h
  | [t], _, hs => by simpa [joinC] using splitOnC_noSep sep t (hs t (by simp))
  | t :: u :: ts, _, hs => by
    have ht : sep ∉ t := hs t (by simp)
    have ih := splitOnC_joinC sep (u :: ts) (by simp) (fun x hx => hs x (List.mem_cons_of_mem _ hx))
    simp only [joinC]
    rw [splitOnC_append sep t _ ht, ih]

end CV.C06
