import ClusterVerif.Lemmas.C06F
import ClusterVerif.Spec.C06S
import ClusterVerif.Model.C06S

namespace CV.C06

theorem b2n_eq_one (b : Bool) : (b2n b == 1) = b := by cases b <;> rfl
theorem b2n_ne_zero (b : Bool) : (b2n b != 0) = b := by cases b <;> rfl
theorem b2n_eq_zero (b : Bool) : (b2n b == 0) = !b := by cases b <;> rfl
theorem some_b2n_eq_one (b : Bool) : (some (b2n b) == some 1) = b := by cases b <;> rfl

/-- the accumulator of the `status |= st` loop only grows by or -/
theorem parseToks_acc (toks : List (List Char)) (a : Nat) :
    toks.foldl orStep a = a ||| toks.foldl orStep 0 := by
  induction toks generalizing a with
  | nil => simp
  | cons t ts ih =>
    simp only [List.foldl_cons]
    rw [ih]
    conv => rhs; rw [ih]
    unfold orStep
    cases lookupName t <;> simp [Nat.or_assoc]

theorem splitOnC_ne_nil (sep : Char) (cs : List Char) : splitOnC sep cs ≠ [] := by
  induction cs with
  | nil => simp [splitOnC]
  | cons c cs ih =>
    simp only [splitOnC]
    split
    · simp
    · split <;> simp

theorem splitOnC_noSep (sep : Char) (t : List Char) (h : sep ∉ t) : splitOnC sep t = [t] := by
  induction t with
  | nil => rfl
  | cons c cs ih =>
    have hc : (c == sep) = false := by
      simp only [List.mem_cons, not_or] at h
      simp [beq_eq_false_iff_ne, Ne.symm h.1]
    have hcs : sep ∉ cs := fun hm => h (List.mem_cons_of_mem _ hm)
    simp [splitOnC, hc, ih hcs]

theorem splitOnC_append (sep : Char) (t rest : List Char) (h : sep ∉ t) :
    splitOnC sep (t ++ sep :: rest) = t :: splitOnC sep rest := by
  induction t with
  | nil => simp [splitOnC]
  | cons c cs ih =>
    have hc : (c == sep) = false := by
      simp only [List.mem_cons, not_or] at h
      simp [beq_eq_false_iff_ne, Ne.symm h.1]
    have hcs : sep ∉ cs := fun hm => h (List.mem_cons_of_mem _ hm)
    simp [splitOnC, hc, ih hcs]

/-- `strings.Split(strings.Join(toks, sep), sep) = toks` for a non-empty list of separator-free tokens -/
theorem splitOnC_joinC (sep : Char) : ∀ (toks : List (List Char)), toks ≠ [] → (∀ t ∈ toks, sep ∉ t) →
    splitOnC sep (joinC sep toks) = toks
  | [], h, _ => absurd rfl h
  | [t], _, hs => by simpa [joinC] using splitOnC_noSep sep t (hs t (by simp))
  | t :: u :: ts, _, hs => by
    have ht : sep ∉ t := hs t (by simp)
    have ih := splitOnC_joinC sep (u :: ts) (by simp) (fun x hx => hs x (List.mem_cons_of_mem _ hx))
    simp only [joinC]
    rw [splitOnC_append sep t _ ht, ih]


/-! ## round 8b — printing a filter and reading it back -/

/-- a bit of an or-fold is a bit of the start value or of one of the folded numbers -/
theorem foldl_or_testBit (l : List Nat) (a i : Nat) :
    (l.foldl (· ||| ·) a).testBit i = (a.testBit i || l.any (·.testBit i)) := by
  induction l generalizing a with
  | nil => simp
  | cons x xs ih => simp [List.foldl_cons, ih, Nat.testBit_or, Bool.or_assoc]

/-- reading table names back: the loop ors the values of the entries -/
theorem parseToks_names_acc (l : List (List Char × Nat)) (h : ∀ e ∈ l, lookupName e.1 = some e.2) (a : Nat) :
    (l.map (·.1)).foldl orStep a = (l.map (·.2)).foldl (· ||| ·) a := by
  induction l generalizing a with
  | nil => rfl
  | cons e es ih =>
    have he : lookupName e.1 = some e.2 := h e (by simp)
    simp only [List.map_cons, List.foldl_cons]
    rw [show orStep a e.1 = a ||| e.2 by simp [orStep, he]]
    exact ih (fun x hx => h x (List.mem_cons_of_mem _ hx)) _

theorem parseToks_names (l : List (List Char × Nat)) (h : ∀ e ∈ l, lookupName e.1 = some e.2) :
    parseToks (l.map (·.1)) = (l.map (·.2)).foldl (· ||| ·) 0 := parseToks_names_acc l h 0

theorem loopCond_iff (f k : Nat) : loopCond f k = true ↔ k ≠ 0 ∧ f &&& k = k := by
  simp [loopCond]

theorem and_eq_testBit {f k : Nat} (h : f &&& k = k) (i : Nat) (hk : k.testBit i = true) : f.testBit i = true := by
  have := congrArg (fun x => x.testBit i) h
  simp only [Nat.testBit_and, hk, Bool.and_true] at this
  exact this

theorem names_within : ∀ e ∈ namesC, e.2 &&& 8190 = e.2 := by decide
theorem names_single : ∀ i, i < 13 → (8190 : Nat).testBit i = true → ∃ e ∈ namesC, e.2 = 2 ^ i := by decide
theorem names_lookup : ∀ e ∈ namesC, lookupName e.1 = some e.2 := by decide

/-- THE BIT-LEVEL LEMMA: the or of all table values contained in `f` (whatever the order in which the map is
walked) is `f &&& 8190` — every named bit of `f` is itself a table value, and no table value has another bit. -/
theorem named_or (order : List (List Char × Nat)) (f : Nat) (hp : order.Perm namesC) :
    ((order.filter (fun e => loopCond f e.2)).map (·.2)).foldl (· ||| ·) 0 = f &&& 8190 := by
  apply Nat.eq_of_testBit_eq
  intro i
  rw [foldl_or_testBit, Nat.testBit_and]
  rw [Bool.eq_iff_iff]
  simp only [Nat.zero_testBit, Bool.false_or, List.any_eq_true, List.mem_map, List.mem_filter, Bool.and_eq_true]
  constructor
  · rintro ⟨k, ⟨e, ⟨hm, hc⟩, rfl⟩, hb⟩
    have hn : e ∈ namesC := hp.mem_iff.mp hm
    obtain ⟨_, hc2⟩ := (loopCond_iff f e.2).mp hc
    exact ⟨and_eq_testBit hc2 i hb, and_eq_testBit (by rw [Nat.and_comm]; exact names_within e hn) i hb⟩
  · rintro ⟨hf, h8⟩
    have hi : i < 13 := by
      apply Decidable.byContradiction
      intro hge
      have hlt : (8190 : Nat) < 2 ^ i := Nat.lt_of_lt_of_le (by decide : (8190 : Nat) < 2 ^ 13)
        (Nat.pow_le_pow_right (by decide) (Nat.le_of_not_lt hge))
      rw [Nat.testBit_lt_two_pow hlt] at h8
      cases h8
    obtain ⟨e, hn, he⟩ := names_single i hi h8
    refine ⟨e.2, ⟨e, ⟨hp.mem_iff.mpr hn, ?_⟩, rfl⟩, ?_⟩
    · rw [loopCond_iff, he]
      refine ⟨Nat.ne_of_gt (Nat.two_pow_pos i), ?_⟩
      apply Nat.eq_of_testBit_eq
      intro j
      rw [Nat.testBit_and, Nat.testBit_two_pow]
      by_cases hij : i = j
      · subst hij; simp [hf]
      · simp [hij]
    · rw [he]; exact Nat.testBit_two_pow_self

/-- the characters of a joined text are separators or characters of a token -/
theorem mem_joinC (sep : Char) : ∀ (toks : List (List Char)) (c : Char), c ∈ joinC sep toks → c = sep ∨ ∃ t ∈ toks, c ∈ t
  | [], c, h => by simp [joinC] at h
  | [t], c, h => Or.inr ⟨t, by simp, by simpa [joinC] using h⟩
  | t :: u :: ts, c, h => by
    simp only [joinC, List.mem_append, List.mem_cons] at h
    rcases h with h | h | h
    · exact Or.inr ⟨t, by simp, h⟩
    · exact Or.inl h
    · rcases mem_joinC sep (u :: ts) c h with h | ⟨x, hx, hc⟩
      · exact Or.inl h
      · exact Or.inr ⟨x, List.mem_cons_of_mem _ hx, hc⟩

theorem names_noStrip : ∀ e ∈ namesC, ∀ c ∈ e.1, (!Gen.fromStrip.toList.contains c) = true := by decide

theorem joinC_nil_iff (sep : Char) : ∀ (toks : List (List Char)), toks ≠ [] → (∀ t ∈ toks, t ≠ []) → joinC sep toks ≠ []
  | [], h, _ => absurd rfl h
  | [t], _, hs => by simpa [joinC] using hs t (by simp)
  | t :: u :: ts, _, _ => by simp [joinC]


/-! ## round 8b — the cluster-wide listing for every member set -/

/-- only peers of `ms` appear in the PeerMaps -/
def sliceIn (ms : List Nat) (m : List (Nat × List (Nat × Nat))) : Prop := ∀ e ∈ m, ∀ q ∈ keys e.2, q ∈ ms

theorem mem_keys_gAdd {m : List (Nat × Nat)} {p st q : Nat} (h : q ∈ keys (gAdd m p st)) : q = p ∨ q ∈ keys m := by
  rw [keys_gAdd] at h
  split at h
  · exact Or.inr h
  · rcases List.mem_append.mp h with h | h
    · exact Or.inr h
    · exact Or.inl (by simpa using h)

theorem sAdd_in {ms : List Nat} {m : List (Nat × List (Nat × Nat))} (h : sliceIn ms m) (c p st : Nat) (hp : p ∈ ms) :
    sliceIn ms (sAdd m c p st) := by
  unfold sAdd
  split
  · intro e he q hq
    obtain ⟨x, hx, rfl⟩ := List.mem_map.mp he
    split at hq
    · rcases mem_keys_gAdd hq with rfl | h'
      · exact hp
      · exact h x hx q h'
    · exact h x hx q hq
  · intro e he q hq
    rcases List.mem_append.mp he with he | he
    · exact h e he q hq
    · simp only [List.mem_singleton] at he
      subst he
      rcases mem_keys_gAdd (show q ∈ keys (gAdd [] p st) from hq) with rfl | h'
      · exact hp
      · simp [keys] at h'

theorem sliceIn_report {ms : List Nat} (p : Nat) (hp : p ∈ ms) (l : List (Nat × Nat)) :
    ∀ {m : List (Nat × List (Nat × Nat))}, sliceIn ms m → sliceIn ms (l.foldl (fun m e => sAdd m e.1 p e.2) m) := by
  induction l with
  | nil => intro m h; exact h
  | cons e t ih => intro m h; rw [List.foldl_cons]; exact ih (sAdd_in h e.1 p e.2 hp)

theorem sliceIn_members (t : List (Nat × Reply (List (Nat × Nat)))) (all : List Nat) (ms : List Nat)
    (hsub : ∀ p ∈ ms, p ∈ all) :
    ∀ {m : List (Nat × List (Nat × Nat))}, sliceIn all m →
    sliceIn all (ms.foldl (fun m p =>
      match replyOf t p with
      | .ok l => l.foldl (fun m e => sAdd m e.1 p e.2) m
      | _ => m) m) := by
  induction ms with
  | nil => intro m h; exact h
  | cons p ps ih =>
    intro m h
    rw [List.foldl_cons]
    apply ih (fun q hq => hsub q (List.mem_cons_of_mem _ hq))
    cases replyOf t p with
    | ok l => exact sliceIn_report p (hsub p (by simp)) l h
    | err => exact h
    | auth => exact h

theorem sliceIn_errors (all : List Nat) (ps : List Nat) (hsub : ∀ p ∈ ps, p ∈ all) :
    ∀ {m : List (Nat × List (Nat × Nat))}, sliceIn all m →
    sliceIn all (ps.foldl (fun m p => m.map (fun e => (e.1, gAdd e.2 p stClusterError))) m) := by
  induction ps with
  | nil => intro m h; exact h
  | cons p t ih =>
    intro m h
    rw [List.foldl_cons]
    apply ih (fun q hq => hsub q (List.mem_cons_of_mem _ hq))
    intro e he q hq
    obtain ⟨x, hx, rfl⟩ := List.mem_map.mp he
    rcases mem_keys_gAdd hq with rfl | h'
    · exact hsub _ (by simp)
    · exact h x hx q h'

theorem globalSlice_in (i : GSliceInput) :
    sliceIn (if i.follower then [i.self] else i.members) (globalSlice i) := by
  unfold globalSlice
  refine sliceIn_errors _ _ (fun p hp => (List.mem_filter.mp hp).1) ?_
  exact sliceIn_members _ _ _ (fun _ h => h) (fun _ h => by cases h)

/-- a member's listing of fresh, distinct CIDs is appended entry by entry -/
theorem report_fresh (p : Nat) : ∀ (l : List (Nat × Nat)) (m : List (Nat × List (Nat × Nat))),
    (l.map (·.1)).Nodup → (∀ e ∈ l, e.1 ∉ ckeys m) →
    l.foldl (fun m e => sAdd m e.1 p e.2) m = m ++ l.map (fun e => (e.1, [(p, e.2)]))
  | [], m, _, _ => by simp
  | e :: t, m, hn, hd => by
    rw [List.foldl_cons]
    have hfresh : ¬ (m.any (fun x => x.1 == e.1) = true) := by
      intro h
      rw [List.any_eq_true] at h
      obtain ⟨x, hx, hxe⟩ := h
      exact hd e (by simp) (by unfold ckeys; exact List.mem_map.mpr ⟨x, hx, by simpa using hxe⟩)
    have hs : sAdd m e.1 p e.2 = m ++ [(e.1, [(p, e.2)])] := by
      unfold sAdd; rw [if_neg hfresh]; simp [gAdd]
    rw [hs]
    rw [List.map_cons, List.nodup_cons] at hn
    rw [report_fresh p t _ hn.2 ?_]
    · simp
    · intro x hx hmem
      unfold ckeys at hmem
      rw [List.map_append, List.mem_append] at hmem
      rcases hmem with h | h
      · exact hd x (List.mem_cons_of_mem _ hx) h
      · simp only [List.map_cons, List.map_nil, List.mem_singleton] at h
        exact hn.1 (h ▸ List.mem_map.mpr ⟨x, hx, rfl⟩)

end CV.C06
