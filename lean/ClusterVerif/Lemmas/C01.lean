import ClusterVerif.Spec.C01
import ClusterVerif.Lemmas.PinMap
import Mathlib.Data.List.Basic

/-! Helper lemmas for C01: replay as a fold, per-key reading of `applyOp`, the "good content"
predicates (exact prefix / per-key present-or-future prefix) and the replica invariant. -/
namespace CV.C01
open CV

def Op.cid (o : Op) : Nat := o.thePin.cid

/-- the value an op leaves under its cid -/
def Op.val : Op → Option Pin
  | .pin p => some p.stored
  | .unpin _ => none

theorem wf_applyOp {m : PinMap} (hw : m.wf = true) (o : Op) : (applyOp m o).wf = true := by
  cases o with
  | pin p => exact wf_put hw _
  | unpin p => exact wf_erase hw _

theorem get_applyOp {m : PinMap} (hw : m.wf = true) (o : Op) (c : Nat) :
    (applyOp m o).get c = if o.cid = c then o.val else m.get c := by
  cases o with
  | pin p =>
    show (PinMap.put p.stored m).get c = _
    rw [get_put hw]
    rfl
  | unpin p =>
    show (PinMap.erase m p.cid).get c = _
    rw [get_erase]
    show _ = if p.cid = c then none else _
    by_cases h : c = p.cid
    · simp [h]
    · have : ¬ p.cid = c := fun h' => h h'.symm
      simp [h, this]

theorem wf_foldl_applyOp {m : PinMap} (hw : m.wf = true) (ops : List Op) : (ops.foldl applyOp m).wf = true := by
  induction ops generalizing m with
  | nil => exact hw
  | cons o t ih => exact ih (wf_applyOp hw o)

theorem wf_replay (ops : List Op) : (replay ops).wf = true :=
  wf_foldl_applyOp (by rfl) ops

theorem replay_take_succ (ops : List Op) (a : Nat) (op : Op) (h : ops[a]? = some op) :
    replay (ops.take (a + 1)) = applyOp (replay (ops.take a)) op := by
  unfold replay
  rw [List.take_add_one, List.foldl_append, h]
  rfl

theorem replay_take_length (ops : List Op) : replay (ops.take ops.length) = replay ops := by
  rw [List.take_length]

/-! ### content predicates -/

/-- every key holds its value from some prefix that is at least `a` entries long -/
def Fut (ops : List Op) (m : PinMap) (a : Nat) : Prop :=
  ∀ c, ∃ j, a ≤ j ∧ j ≤ ops.length ∧ m.get c = (replay (ops.take j)).get c

def Exact (ops : List Op) (m : PinMap) (a : Nat) : Prop := m = replay (ops.take a)

/-- `x = true`: exactly the prefix of length `a`; `x = false`: per key a present-or-future prefix -/
def Good (x : Bool) (ops : List Op) (m : PinMap) (a : Nat) : Prop :=
  m.wf = true ∧ a ≤ ops.length ∧ (if x = true then Exact ops m a else Fut ops m a)

theorem good_nil (x : Bool) (ops : List Op) : Good x ops [] 0 := by
  refine ⟨rfl, Nat.zero_le _, ?_⟩
  cases x with
  | true => simp [Exact, replay]
  | false =>
    simp only [Bool.false_eq_true, if_false]
    intro c
    exact ⟨0, Nat.le_refl _, Nat.zero_le _, by simp [replay]⟩

theorem good_apply {x : Bool} {ops : List Op} {m : PinMap} {a : Nat} {op : Op}
    (hg : Good x ops m a) (h : ops[a]? = some op) : Good x ops (applyOp m op) (a + 1) := by
  obtain ⟨hw, _, hx⟩ := hg
  have hlt : a < ops.length := by
    rcases List.getElem?_eq_some_iff.1 h with ⟨hl, _⟩
    exact hl
  refine ⟨wf_applyOp hw op, hlt, ?_⟩
  cases x with
  | true =>
    simp only [if_true] at hx ⊢
    unfold Exact at hx ⊢
    rw [replay_take_succ ops a op h, ← hx]
  | false =>
    simp only [Bool.false_eq_true, if_false] at hx ⊢
    intro c
    by_cases hc : op.cid = c
    · refine ⟨a + 1, Nat.le_refl _, hlt, ?_⟩
      rw [replay_take_succ ops a op h, get_applyOp hw, get_applyOp (wf_replay _), if_pos hc, if_pos hc]
    · obtain ⟨j, hj1, hj2, hj3⟩ := hx c
      by_cases hja : j = a
      · refine ⟨a + 1, Nat.le_refl _, hlt, ?_⟩
        rw [replay_take_succ ops a op h, get_applyOp hw, get_applyOp (wf_replay _), if_neg hc, if_neg hc, hj3, hja]
      · refine ⟨j, by omega, hj2, ?_⟩
        rw [get_applyOp hw, if_neg hc, hj3]

theorem good_weaken {ops : List Op} {m : PinMap} {a k : Nat} (hg : Good false ops m a) (hk : k ≤ a) :
    Good false ops m k := by
  obtain ⟨hw, hl, hx⟩ := hg
  refine ⟨hw, by omega, ?_⟩
  simp only [Bool.false_eq_true, if_false] at hx ⊢
  intro c
  obtain ⟨j, hj1, hj2, hj3⟩ := hx c
  exact ⟨j, by omega, hj2, hj3⟩

theorem good_fut {x : Bool} {ops : List Op} {m : PinMap} {a : Nat} (hg : Good x ops m a) : Fut ops m a := by
  obtain ⟨_, hl, hx⟩ := hg
  cases x with
  | true =>
    simp only [if_true] at hx
    intro c
    exact ⟨a, Nat.le_refl _, hl, by rw [hx]⟩
  | false => simpa using hx

theorem good_caught_up {x : Bool} {ops : List Op} {m : PinMap} (hg : Good x ops m ops.length) : m = replay ops := by
  have hf := good_fut hg
  apply ext_of_wf hg.1 (wf_replay _)
  intro c
  obtain ⟨j, hj1, hj2, hj3⟩ := hf c
  have : j = ops.length := by omega
  rw [hj3, this, replay_take_length]

theorem good_exact {ops : List Op} {m : PinMap} {a : Nat} (hg : Good true ops m a) : m = replay (ops.take a) := by
  simpa [Exact] using hg.2.2

theorem newest_mem {l : List Snap} {s : Snap} (h : newest l = some s) : s ∈ l := by
  induction l generalizing s with
  | nil => simp [newest] at h
  | cons a t ih =>
    unfold newest at h
    cases ht : newest t with
    | none => rw [ht] at h; simp at h; simp [h]
    | some u =>
      rw [ht] at h
      simp only at h
      by_cases hu : u.idx > a.idx
      · rw [if_pos hu] at h
        have := ih ht
        simp at h
        subst h
        exact List.mem_cons_of_mem _ this
      · rw [if_neg hu] at h
        simp at h
        simp [h]

/-! ### the replica invariant -/

def allDecodable (ops : List Op) : Prop := ∀ o ∈ ops, o.decodable = true

structure RInv (x : Bool) (ops : List Op) (r : Replica) : Prop where
  incons : r.inconsistent = false
  poison : r.poisoned = false
  good : Good x ops r.store r.applied
  uninit : r.initialized = false → r.store = []
  pend : ∀ k, r.pending = some k → k ≤ r.applied ∧ (x = true → k = r.applied)
  snaps : ∀ s ∈ r.snaps, Good x ops s.content s.idx

theorem rinv_fresh (x : Bool) (ops : List Op) : RInv x ops {} :=
  ⟨rfl, rfl, good_nil x ops, fun _ => rfl, (by intro k h; cases h), (by intro s h; cases h)⟩

theorem rinv_down {x : Bool} {ops : List Op} {r : Replica} (h : RInv x ops r) : RInv x ops (down r) :=
  ⟨h.incons, h.poison, h.good, h.uninit, (by intro k hk; cases hk), h.snaps⟩

/-- the schedule restriction, per step: in exact mode nothing is applied / installed while a snapshot is pending -/
def AtomicOK (x : Bool) (r : Replica) : Ev → Prop
  | .apply => x = true → r.pending = none
  | .install _ => x = true → r.pending = none
  | _ => True

theorem stepR_inv {x : Bool} {ops : List Op} (hdec : allDecodable ops) {r : Replica} (h : RInv x ops r)
    (src : Option Snap) (hsrc : ∀ s, src = some s → Good x ops s.content s.idx)
    (e : Ev) (hat : AtomicOK x r e) : RInv x ops (stepR ops r src e).1 := by
  cases e with
  | apply =>
    unfold stepR
    dsimp only
    by_cases hup : r.up = true
    · simp only [hup, Bool.not_true, Bool.false_eq_true, if_false]
      cases hop : ops[r.applied]? with
      | none => exact h
      | some op =>
        have hmem : op ∈ ops := List.mem_of_getElem? hop
        have hd : op.decodable = true := hdec op hmem
        simp only [hd, Bool.not_true, Bool.false_eq_true, if_false, h.poison, Bool.false_and]
        refine ⟨h.incons, rfl, good_apply h.good hop, ?_, ?_, h.snaps⟩
        · intro hi; cases hi
        · intro k hk
          have hk' : r.pending = some k := hk
          have := h.pend k hk'
          refine ⟨by show k ≤ r.applied + 1; omega, ?_⟩
          intro hx
          have hn := hat hx
          rw [hn] at hk'; cases hk'
    · have : r.up = false := by simpa using hup
      simp only [this, Bool.not_false, if_true]
      exact h
  | snapBegin =>
    unfold stepR
    dsimp only
    by_cases h1 : (!r.up || r.pending.isSome) = true
    · rw [if_pos h1]; exact h
    · rw [if_neg h1]
      by_cases h2 : (!r.canSnapshot) = true
      · rw [if_pos h2]; exact h
      · rw [if_neg h2]
        refine ⟨h.incons, h.poison, h.good, h.uninit, ?_, h.snaps⟩
        intro k hk
        have : k = r.applied := by simpa using hk.symm
        exact ⟨Nat.le_of_eq this, fun _ => this⟩
  | snapPersist =>
    unfold stepR
    dsimp only
    by_cases hup : (!r.up) = true
    · rw [if_pos hup]; exact h
    · rw [if_neg hup]
      cases hp : r.pending with
      | none => exact h
      | some k =>
        have hk := h.pend k hp
        refine ⟨h.incons, h.poison, h.good, h.uninit, ?_, ?_⟩
        · intro k' hk'; cases hk'
        · intro s hs
          rcases List.mem_cons.1 hs with rfl | hs
          · cases x with
            | true => have := hk.2 rfl; show Good true ops r.store k; rw [this]; exact h.good
            | false => exact good_weaken h.good hk.1
          · exact h.snaps s hs
  | install j =>
    unfold stepR
    dsimp only
    by_cases hup : (!r.up) = true
    · rw [if_pos hup]; exact h
    · rw [if_neg hup]
      cases hs : src with
      | none => exact h
      | some s =>
        by_cases hlt : s.idx < r.applied
        · simp only [hlt, if_true]; exact h
        · simp only [hlt, if_false]
          have hg := hsrc s hs
          refine ⟨rfl, h.poison, hg, ?_, ?_, ?_⟩
          · intro hi; cases hi
          · intro k hk
            have hk' : r.pending = some k := hk
            have := h.pend k hk'
            refine ⟨by show k ≤ s.idx; omega, ?_⟩
            intro hx
            have hn := hat hx
            rw [hn] at hk'; cases hk'
          · intro t ht
            rcases List.mem_cons.1 ht with rfl | ht
            · exact hg
            · exact h.snaps t ht
  | shutdown =>
    unfold stepR
    dsimp only
    by_cases hup : (!r.up) = true
    · rw [if_pos hup]; exact h
    · rw [if_neg hup]
      by_cases hc : r.canSnapshot = true
      · rw [if_pos hc]
        apply rinv_down
        refine ⟨h.incons, h.poison, h.good, h.uninit, h.pend, ?_⟩
        intro t ht
        rcases List.mem_cons.1 ht with rfl | ht
        · exact h.good
        · exact h.snaps t ht
      · rw [if_neg hc]; exact rinv_down h
  | kill =>
    unfold stepR
    dsimp only
    by_cases hup : (!r.up) = true
    · rw [if_pos hup]; exact h
    · rw [if_neg hup]; exact rinv_down h
  | restart =>
    unfold stepR
    dsimp only
    by_cases hup : r.up = true
    · rw [if_pos hup]; exact h
    · rw [if_neg hup]
      cases hn : newest r.snaps with
      | none =>
        refine ⟨rfl, rfl, good_nil x ops, fun _ => rfl, ?_, h.snaps⟩
        intro k hk; cases hk
      | some s =>
        have hg := h.snaps s (newest_mem hn)
        refine ⟨rfl, rfl, hg, ?_, ?_, h.snaps⟩
        · intro hi; cases hi
        · intro k hk; cases hk
  | offline =>
    unfold stepR
    dsimp only
    exact h

/-! ### the system invariant -/

def SInv (x : Bool) (ops : List Op) (s : Sys) : Prop := ∀ r ∈ s, RInv x ops r

theorem sinv_init (x : Bool) (ops : List Op) (n : Nat) : SInv x ops (initSys n) := by
  intro r hr
  have : r = {} := List.eq_of_mem_replicate hr
  rw [this]
  exact rinv_fresh x ops

theorem srcSnap_good {x : Bool} {ops : List Op} {s : Sys} (h : SInv x ops s) (e : Ev) :
    ∀ sn, srcSnapOf s e = some sn → Good x ops sn.content sn.idx := by
  intro sn hsn
  cases e with
  | install j =>
    unfold srcSnapOf at hsn
    dsimp only at hsn
    cases hj : s[j]? with
    | none => rw [hj] at hsn; cases hsn
    | some rj =>
      rw [hj] at hsn
      have hmem : rj ∈ s := List.mem_of_getElem? hj
      exact (h rj hmem).snaps sn (newest_mem hsn)
  | _ => cases hsn

theorem atomicStep_ok {s : Sys} {i : Nat} {e : Ev} {r : Replica} (hr : s[i]? = some r)
    (x : Bool) (h : x = true → atomicStep s i e = true) : AtomicOK x r e := by
  cases e with
  | apply =>
    intro hx
    have := h hx
    unfold atomicStep at this
    dsimp only at this
    rw [hr] at this
    simpa using this
  | install j =>
    intro hx
    have := h hx
    unfold atomicStep at this
    dsimp only at this
    rw [hr] at this
    simpa using this
  | _ => trivial

theorem step_inv {x : Bool} {ops : List Op} (hdec : allDecodable ops) {s : Sys} (h : SInv x ops s)
    (i : Nat) (e : Ev) (hat : x = true → atomicStep s i e = true) : SInv x ops (step ops s i e).1 := by
  unfold step
  cases hr : s[i]? with
  | none => exact h
  | some r =>
    dsimp only
    intro r' hr'
    rcases List.mem_or_eq_of_mem_set hr' with hm | rfl
    · exact h r' hm
    · exact stepR_inv hdec (h r (List.mem_of_getElem? hr)) _ (srcSnap_good h e) e (atomicStep_ok hr x hat)

theorem run_cons (ops : List Op) (s : Sys) (i : Nat) (e : Ev) (rest : List (Nat × Ev)) :
    run ops s ((i, e) :: rest) = run ops (step ops s i e).1 rest := rfl

theorem run_append (ops : List Op) (s : Sys) (a b : List (Nat × Ev)) :
    run ops s (a ++ b) = run ops (run ops s a) b := by
  unfold run
  rw [List.foldl_append]

theorem run_inv {x : Bool} {ops : List Op} (hdec : allDecodable ops) (evs : List (Nat × Ev)) {s : Sys}
    (h : SInv x ops s) (hat : x = true → atomicRun ops s evs = true) : SInv x ops (run ops s evs) := by
  induction evs generalizing s with
  | nil => exact h
  | cons ie rest ih =>
    obtain ⟨i, e⟩ := ie
    rw [run_cons]
    have h1 : x = true → atomicStep s i e = true := by
      intro hx
      have := hat hx
      unfold atomicRun at this
      exact (Bool.and_eq_true_iff.1 this).1
    have h2 : x = true → atomicRun ops (step ops s i e).1 rest = true := by
      intro hx
      have := hat hx
      unfold atomicRun at this
      exact (Bool.and_eq_true_iff.1 this).2
    exact ih (step_inv hdec h i e h1) h2

/-- what a peer with the invariant serves is its store -/
theorem view_of_inv {x : Bool} {ops : List Op} {r : Replica} (h : RInv x ops r) (hup : r.up = true) :
    r.view = .pins r.store := by
  unfold Replica.view
  simp only [hup, Bool.not_true, Bool.false_eq_true, if_false, h.incons]
  cases hi : r.initialized with
  | false => simp [h.uninit hi]
  | true => simp

/-! ### catching up is always possible -/

theorem step_at {ops : List Op} {s : Sys} {j : Nat} {r : Replica} (hr : s[j]? = some r) (e : Ev) :
    (step ops s j e).1[j]? = some (stepR ops r (srcSnapOf s e) e).1 := by
  unfold step
  rw [hr]
  dsimp only
  have hlt : j < s.length := (List.getElem?_eq_some_iff.1 hr).1
  simp [hlt]

theorem stepR_apply_progress {ops : List Op} (hdec : allDecodable ops) {r : Replica} (h : RInv false ops r)
    (hup : r.up = true) (src : Option Snap) :
    (stepR ops r src .apply).1.up = true ∧ (stepR ops r src .apply).1.applied = min (r.applied + 1) ops.length := by
  unfold stepR
  dsimp only
  simp only [hup, Bool.not_true, Bool.false_eq_true, if_false]
  have hle := h.good.2.1
  cases hop : ops[r.applied]? with
  | none =>
    have : ops.length ≤ r.applied := List.getElem?_eq_none_iff.1 hop
    refine ⟨by trivial, ?_⟩
    show r.applied = _
    omega
  | some op =>
    have hd : op.decodable = true := hdec op (List.mem_of_getElem? hop)
    have hlt : r.applied < ops.length := (List.getElem?_eq_some_iff.1 hop).1
    simp only [hd, Bool.not_true, Bool.false_eq_true, if_false, h.poison, Bool.false_and]
    refine ⟨by trivial, ?_⟩
    show r.applied + 1 = _
    omega

theorem applyN_reaches {ops : List Op} (hdec : allDecodable ops) (j k : Nat) {s : Sys} (h : SInv false ops s)
    {r : Replica} (hr : s[j]? = some r) (hup : r.up = true) :
    ∃ r', (run ops s (List.replicate k (j, Ev.apply)))[j]? = some r' ∧ r'.up = true ∧
          r'.applied = min (r.applied + k) ops.length := by
  induction k generalizing s r with
  | zero =>
    refine ⟨r, hr, hup, ?_⟩
    have := (h r (List.mem_of_getElem? hr)).good.2.1
    omega
  | succ k ih =>
    rw [List.replicate_succ, run_cons]
    have hs' : SInv false ops (step ops s j .apply).1 := step_inv hdec h j .apply (by intro hx; cases hx)
    have hr' := step_at (ops := ops) hr .apply
    have hp := stepR_apply_progress hdec (h r (List.mem_of_getElem? hr)) hup (srcSnapOf s .apply)
    obtain ⟨r'', h1, h2, h3⟩ := ih hs' hr' hp.1
    refine ⟨r'', h1, h2, ?_⟩
    rw [h3, hp.2]
    omega

/-- bring peer `j` back (if it is down) and let it apply what it has not applied yet -/
def recover (ops : List Op) (j : Nat) : List (Nat × Ev) :=
  (j, Ev.restart) :: List.replicate ops.length (j, Ev.apply)

theorem stepR_restart_up (ops : List Op) (r : Replica) (src : Option Snap) :
    (stepR ops r src .restart).1.up = true := by
  unfold stepR
  dsimp only
  by_cases hup : r.up = true
  · rw [if_pos hup]; exact hup
  · rw [if_neg hup]
    cases newest r.snaps <;> rfl

theorem recover_reaches {ops : List Op} (hdec : allDecodable ops) {s : Sys} (h : SInv false ops s)
    {j : Nat} (hj : j < s.length) :
    ∃ r', (run ops s (recover ops j))[j]? = some r' ∧ r'.up = true ∧ r'.applied = ops.length := by
  obtain ⟨r, hr⟩ : ∃ r, s[j]? = some r := ⟨s[j], List.getElem?_eq_getElem hj⟩
  unfold recover
  rw [run_cons]
  have hs' : SInv false ops (step ops s j .restart).1 := step_inv hdec h j .restart (by intro hx; cases hx)
  have hr' := step_at (ops := ops) hr .restart
  obtain ⟨r'', h1, h2, h3⟩ := applyN_reaches hdec j ops.length hs' hr' (stepR_restart_up ops r _)
  refine ⟨r'', h1, h2, ?_⟩
  rw [h3]
  omega

theorem step_length (ops : List Op) (s : Sys) (i : Nat) (e : Ev) : (step ops s i e).1.length = s.length := by
  unfold step
  cases s[i]? with
  | none => rfl
  | some r => simp

theorem run_length (ops : List Op) (s : Sys) (evs : List (Nat × Ev)) : (run ops s evs).length = s.length := by
  induction evs generalizing s with
  | nil => rfl
  | cons ie rest ih =>
    obtain ⟨i, e⟩ := ie
    rw [run_cons, ih, step_length]

/-! ### an acknowledged apply -/

theorem apply_ok {ops : List Op} {r : Replica} {src : Option Snap}
    (h : (stepR ops r src .apply).2.res = .ok) :
    r.up = true ∧ ∃ op, ops[r.applied]? = some op ∧
      stepR ops r src .apply =
        ({ r with store := applyOp r.store op, initialized := true, poisoned := false, applied := r.applied + 1 },
         { res := .ok, calls := [callOf op] }) := by
  unfold stepR at h ⊢
  dsimp only at h ⊢
  by_cases hup : r.up = true
  · refine ⟨hup, ?_⟩
    simp only [hup, Bool.not_true, Bool.false_eq_true, if_false] at h ⊢
    cases hop : ops[r.applied]? with
    | none => rw [hop] at h; cases h
    | some op =>
      rw [hop] at h
      dsimp only at h ⊢
      refine ⟨op, rfl, ?_⟩
      by_cases hd : (!op.decodable) = true
      · rw [if_pos hd] at h; cases h
      · rw [if_neg hd] at h ⊢
        by_cases hp : (r.poisoned && op.isPin) = true
        · rw [if_pos hp] at h; cases h
        · rw [if_neg hp]
  · have : r.up = false := by simpa using hup
    simp only [this, Bool.not_false, if_true] at h
    cases h

theorem stored_fields (p : Pin) :
    p.stored.cid = p.cid ∧ p.stored.type = p.type ∧ p.stored.depth = p.depth ∧ p.stored.allocs = p.allocs ∧
    p.stored.opts.mode = depthToMode p.depth := ⟨rfl, rfl, rfl, rfl, rfl⟩

/-! ### tracker calls of the model -/

theorem tracker_core (ops : List Op) (r : Replica) (hw : r.store.wf = true) (op : Op)
    (hop : ops[r.applied]? = some op) (i : Nat) :
    trackerOk ops { rep := i, ev := .apply, res := .ok, applied := r.applied + 1,
                    view := .pins (applyOp r.store op), calls := [callOf op] } = true := by
  unfold trackerOk isAck
  dsimp only
  have h1 : r.applied + 1 - 1 = r.applied := by omega
  simp only [beq_self_eq_true, Bool.and_self, if_true, h1, hop]
  cases op with
  | pin p =>
    have hg : (applyOp r.store (.pin p)).get p.cid = some p.stored := by
      show (PinMap.put p.stored r.store).get p.cid = some p.stored
      rw [get_put hw]
      simp [Pin.stored]
    simp only [callOf, hg]
    have hm : (!modeAgrees p || p.opts.mode == p.stored.opts.mode) = true := by
      cases hma : modeAgrees p with
      | false => rfl
      | true =>
        have : p.opts.mode = depthToMode p.depth := by simpa [modeAgrees] using hma
        simp [Pin.stored, this]
    simp [Pin.stored] at hm ⊢
    exact hm
  | unpin p =>
    have hg : (applyOp r.store (.unpin p)).get p.cid = none := by
      show (PinMap.erase r.store p.cid).get p.cid = none
      rw [get_erase]
      simp
    simp [callOf, hg]

theorem no_other_calls_core (ops : List Op) (r : Replica) (src : Option Snap) (e : Ev) :
    (stepR ops r src e).2.calls ≠ [] → e = .apply ∧ (stepR ops r src e).2.res = .ok := by
  intro h
  cases e with
  | apply =>
    refine ⟨rfl, ?_⟩
    unfold stepR at h ⊢
    dsimp only at h ⊢
    by_cases hup : (!r.up) = true
    · rw [if_pos hup] at h; exact absurd rfl h
    · rw [if_neg hup] at h ⊢
      cases hop : ops[r.applied]? with
      | none => rw [hop] at h; exact absurd rfl h
      | some op =>
        rw [hop] at h
        dsimp only at h ⊢
        by_cases hd : (!op.decodable) = true
        · rw [if_pos hd] at h; exact absurd rfl h
        · rw [if_neg hd] at h ⊢
          by_cases hp : (r.poisoned && op.isPin) = true
          · rw [if_pos hp] at h; exact absurd rfl h
          · rw [if_neg hp]
  | snapBegin =>
    exfalso; apply h; unfold stepR; dsimp only
    split <;> [rfl; (split <;> rfl)]
  | snapPersist =>
    exfalso; apply h; unfold stepR; dsimp only
    split
    · rfl
    · split <;> rfl
  | install j =>
    exfalso; apply h; unfold stepR; dsimp only
    split
    · rfl
    · split
      · rfl
      · split <;> rfl
  | shutdown =>
    exfalso; apply h; unfold stepR; dsimp only
    split
    · rfl
    · split <;> rfl
  | kill =>
    exfalso; apply h; unfold stepR; dsimp only
    split <;> rfl
  | restart =>
    exfalso; apply h; unfold stepR; dsimp only
    split
    · rfl
    · split <;> rfl
  | offline => exfalso; apply h; rfl

/-! ### the model's own observations satisfy the Spec clauses -/

/-- the observation the model predicts for event `e` on peer `i` in state `s` -/
def obsOf (ops : List Op) (s : Sys) (i : Nat) (e : Ev) : Obs :=
  let so := step ops s i e
  let r' := (so.1[i]?).getD {}
  { rep := i, ev := e, res := so.2.res, applied := (observe r' e).2, view := (observe r' e).1, calls := so.2.calls }

def modelTrace (ops : List Op) : Sys → List (Nat × Ev) → List Obs
  | _, [] => []
  | s, (i, e) :: rest => obsOf ops s i e :: modelTrace ops (step ops s i e).1 rest

theorem specReplay_eq (ops : List Op) : specReplay ops = replay ops := by
  have h : specApply = applyOp := by
    funext m o
    cases o <;> rfl
  unfold specReplay replay
  rw [h]

theorem sameMap_self (m : PinMap) : sameMap m m = true := by
  unfold sameMap
  exact beq_self_eq_true _

theorem prefixResult_self (ops : List Op) (lo hi a : Nat) (h1 : lo ≤ a) (h2 : a ≤ hi) :
    isPrefixResult ops lo hi (replay (ops.take a)) = true := by
  unfold isPrefixResult
  rw [List.any_eq_true]
  refine ⟨a - lo, ?_, ?_⟩
  · rw [List.mem_range]; omega
  · have : lo + (a - lo) = a := by omega
    rw [this, specReplay_eq]
    exact sameMap_self _

theorem observe_good {ops : List Op} {r : Replica} (h : RInv true ops r) (e : Ev) :
    (observe r e).1 = .down ∨
    ((observe r e).1 = .pins (replay (ops.take (observe r e).2)) ∧ (observe r e).2 ≤ ops.length) := by
  have hlive : r.up = true → (r.view = .pins (replay (ops.take r.applied)) ∧ r.applied ≤ ops.length) := by
    intro hup
    rw [view_of_inv h hup, ← good_exact h.good]
    exact ⟨rfl, h.good.2.1⟩
  have hdead : r.up = false → r.view = .down := by
    intro hup
    unfold Replica.view
    simp [hup]
  have hgen : r.view = .down ∨ (r.view = .pins (replay (ops.take r.applied)) ∧ r.applied ≤ ops.length) := by
    cases hup : r.up with
    | true => exact Or.inr (hlive hup)
    | false => exact Or.inl (hdead hup)
  cases e with
  | offline =>
    unfold observe
    dsimp only
    cases hup : r.up with
    | true => simpa using Or.inr (hlive hup)
    | false =>
      right
      simp only [Bool.false_eq_true, if_false]
      unfold Replica.offlineView Replica.offlineIdx
      cases hn : newest r.snaps with
      | none => simp [replay]
      | some sn =>
        have hg := h.snaps sn (newest_mem hn)
        simp only [Option.map_some, Option.getD_some]
        exact ⟨by rw [← good_exact hg], hg.2.1⟩
  | apply => exact hgen
  | snapBegin => exact hgen
  | snapPersist => exact hgen
  | install j => exact hgen
  | shutdown => exact hgen
  | kill => exact hgen
  | restart => exact hgen

def mkObs (i : Nat) (e : Ev) (p : Replica × StepOut) : Obs :=
  { rep := i, ev := e, res := p.2.res, applied := (observe p.1 e).2, view := (observe p.1 e).1, calls := p.2.calls }

theorem obsOf_eq {ops : List Op} {s : Sys} {i : Nat} {r : Replica} (hr : s[i]? = some r) (e : Ev) :
    obsOf ops s i e = mkObs i e (stepR ops r (srcSnapOf s e) e) := by
  have h1 := step_at (ops := ops) hr e
  unfold obsOf mkObs
  dsimp only
  rw [h1]
  have h2 : (step ops s i e).2 = (stepR ops r (srcSnapOf s e) e).2 := by
    unfold step
    rw [hr]
  rw [h2]
  rfl

/-- with decodable entries and a clean FSM an apply is acknowledged or there is nothing to apply -/
theorem apply_res {ops : List Op} (hdec : allDecodable ops) {r : Replica} (hp : r.poisoned = false) (src : Option Snap) :
    (stepR ops r src .apply).2.res = .ok ∨ (stepR ops r src .apply).2.res = .noop := by
  unfold stepR
  dsimp only
  by_cases hup : (!r.up) = true
  · rw [if_pos hup]; exact Or.inr rfl
  · rw [if_neg hup]
    cases hop : ops[r.applied]? with
    | none => exact Or.inr rfl
    | some op =>
      have hd : op.decodable = true := hdec op (List.mem_of_getElem? hop)
      simp [hd, hp]

/-- clauses of a non-acknowledging observation which shows nothing or an exact prefix -/
theorem quiet_clauses (ops : List Op) (o : Obs) (hnb : o.burst = false) (hnoack : isAck o = false)
    (hcalls : o.calls = []) (happ : appliedOk o = true)
    (hobs : o.view = .down ∨ (o.view = .pins (replay (ops.take o.applied)) ∧ o.applied ≤ ops.length)) :
    prefixOk ops o = true ∧ caughtUpOk ops o = true ∧ ackVisibleOk ops o = true ∧ ackDurableOk ops o = true ∧
    trackerOk ops o = true ∧ appliedOk o = true ∧ trackerOrderOk ops o = true := by
  have htr : trackerOk ops o = true := by
    unfold trackerOk
    rw [hnoack, hnb]
    simp [hcalls]
  have hto : trackerOrderOk ops o = true := by
    unfold trackerOrderOk
    rw [hnb]; rfl
  rcases hobs with hd | ⟨hv, hle⟩
  · refine ⟨?_, ?_, ?_, ?_, htr, happ, hto⟩
    · unfold prefixOk; rw [hd]
    · unfold caughtUpOk; rw [hd]
    · unfold ackVisibleOk; rw [hnoack]; rfl
    · unfold ackDurableOk; rw [hd]
  · refine ⟨?_, ?_, ?_, ?_, htr, happ, hto⟩
    · unfold prefixOk; rw [hv]
      exact prefixResult_self ops 0 ops.length _ (Nat.zero_le _) hle
    · unfold caughtUpOk; rw [hv]
      by_cases hall : o.applied = ops.length
      · rw [hall, List.take_length, specReplay_eq]; simp [sameMap_self]
      · simp [hall]
    · unfold ackVisibleOk; rw [hnoack]; rfl
    · unfold ackDurableOk; rw [hv]
      exact prefixResult_self ops _ ops.length _ (Nat.le_refl _) hle

theorem obs_clauses {ops : List Op} (hdec : allDecodable ops) {s : Sys} (hs : SInv true ops s) {i : Nat} {r : Replica}
    (hr : s[i]? = some r) (e : Ev) (hat : atomicStep s i e = true) :
    prefixOk ops (obsOf ops s i e) = true ∧ caughtUpOk ops (obsOf ops s i e) = true ∧
    ackVisibleOk ops (obsOf ops s i e) = true ∧ ackDurableOk ops (obsOf ops s i e) = true ∧
    trackerOk ops (obsOf ops s i e) = true ∧ appliedOk (obsOf ops s i e) = true ∧
    trackerOrderOk ops (obsOf ops s i e) = true := by
  have hrinv : RInv true ops r := hs r (List.mem_of_getElem? hr)
  have hr' : RInv true ops (stepR ops r (srcSnapOf s e) e).1 :=
    stepR_inv hdec hrinv _ (srcSnap_good hs e) e (atomicStep_ok hr true (fun _ => hat))
  have hobs := observe_good hr' e
  rw [obsOf_eq hr e]
  by_cases hack : e = .apply ∧ (stepR ops r (srcSnapOf s e) e).2.res = .ok
  · -- an acknowledged apply
    obtain ⟨he, hok⟩ := hack
    subst he
    obtain ⟨hup, op, hop, hstep⟩ := apply_ok hok
    have hth := tracker_core ops r hrinv.good.1 op hop
    rw [hstep] at hr' ⊢
    have hview := view_of_inv hr' hup
    have hex := good_exact hr'.good
    have hle := hr'.good.2.1
    dsimp only at hview hex hle
    have hobs_eq : mkObs i .apply
        ({ r with store := applyOp r.store op, initialized := true, poisoned := false, applied := r.applied + 1 },
         { res := .ok, calls := [callOf op] }) =
        { rep := i, ev := .apply, res := .ok, applied := r.applied + 1, view := .pins (applyOp r.store op),
          calls := [callOf op] } := by
      unfold mkObs observe
      dsimp only
      rw [hview]
    rw [hobs_eq]
    refine ⟨?_, ?_, ?_, ?_, ?_, ?_, rfl⟩
    · unfold prefixOk; dsimp only; rw [hex]; exact prefixResult_self ops 0 ops.length _ (Nat.zero_le _) hle
    · unfold caughtUpOk; dsimp only
      by_cases hall : r.applied + 1 = ops.length
      · rw [hex, hall, List.take_length, specReplay_eq]; simp [sameMap_self]
      · simp [hall]
    · unfold ackVisibleOk isAck; dsimp only
      rw [hex]
      simp [prefixResult_self ops (r.applied + 1) ops.length _ (Nat.le_refl _) hle]
    · unfold ackDurableOk; dsimp only; rw [hex]
      exact prefixResult_self ops (r.applied + 1) ops.length _ (Nat.le_refl _) hle
    · exact hth i
    · unfold appliedOk; simp
  · -- everything else: no tracker calls, the observation is a prefix result
    apply quiet_clauses
    · rfl
    · unfold isAck mkObs
      dsimp only
      by_cases he : e = .apply
      · have : (stepR ops r (srcSnapOf s e) e).2.res ≠ .ok := fun h => hack ⟨he, h⟩
        simp [he] at this ⊢
        exact this
      · simp [he]
    · by_contra hne
      exact hack (no_other_calls_core ops r _ e hne)
    · unfold appliedOk mkObs
      dsimp only
      by_cases he : e = .apply
      · subst he
        rcases apply_res hdec hrinv.poison (srcSnapOf s .apply) with h | h <;> simp [h]
      · simp [he]
    · exact hobs

theorem modelTrace_clauses {ops : List Op} (hdec : allDecodable ops) (evs : List (Nat × Ev)) {s : Sys}
    (hs : SInv true ops s) (hat : atomicRun ops s evs = true) (hidx : ∀ ie ∈ evs, ie.1 < s.length) :
    ∀ o ∈ modelTrace ops s evs,
      prefixOk ops o = true ∧ caughtUpOk ops o = true ∧ ackVisibleOk ops o = true ∧ ackDurableOk ops o = true ∧
      trackerOk ops o = true ∧ appliedOk o = true ∧ trackerOrderOk ops o = true := by
  induction evs generalizing s with
  | nil => intro o ho; cases ho
  | cons ie rest ih =>
    obtain ⟨i, e⟩ := ie
    unfold atomicRun at hat
    obtain ⟨h1, h2⟩ := Bool.and_eq_true_iff.1 hat
    have hi : i < s.length := hidx (i, e) List.mem_cons_self
    obtain ⟨r, hr⟩ : ∃ r, s[i]? = some r := ⟨s[i], List.getElem?_eq_getElem hi⟩
    intro o ho
    unfold modelTrace at ho
    rcases List.mem_cons.1 ho with rfl | ho
    · exact obs_clauses hdec hs hr e h1
    · refine ih (step_inv hdec hs i e (fun _ => h1)) h2 ?_ o ho
      intro ie hie
      rw [step_length]
      exact hidx ie (List.mem_cons_of_mem _ hie)

/-! ### arrival order of tracker calls -/

theorem filter_cid_length_le_one (l : List Call) (hn : (l.map Call.cid).Nodup) (c : Nat) :
    (l.filter (fun x => x.cid == c)).length ≤ 1 := by
  induction l with
  | nil => simp
  | cons x t ih =>
    rw [List.map_cons, List.nodup_cons] at hn
    by_cases hx : (x.cid == c) = true
    · rw [List.filter_cons_of_pos (p := fun y : Call => y.cid == c) hx]
      have hnone : t.filter (fun y => y.cid == c) = [] := by
        rw [List.filter_eq_nil_iff]
        intro y hy hyc
        have h1 : x.cid = c := by simpa using hx
        have h2 : y.cid = c := by simpa using hyc
        exact hn.1 (List.mem_map.2 ⟨y, hy, by rw [h2, h1]⟩)
      rw [hnone]; simp
    · rw [List.filter_cons_of_neg (p := fun y : Call => y.cid == c) hx]
      exact ih hn.2

theorem perCid_of_perm {d a : List Call} (h : a.Perm d) (hn : (d.map Call.cid).Nodup) (c : Nat) :
    perCid c a = perCid c d := by
  unfold perCid
  have hp : (a.filter (fun x => x.cid == c)).Perm (d.filter (fun x => x.cid == c)) := h.filter _
  have hl := filter_cid_length_le_one d hn c
  cases hd : d.filter (fun x => x.cid == c) with
  | nil => rw [hd] at hp; rw [List.perm_nil.1 hp]
  | cons y t =>
    rw [hd] at hl hp
    have ht : t = [] := by
      cases t with
      | nil => rfl
      | cons z u => simp at hl
    subst ht
    rw [List.perm_singleton.1 hp]

/-! ### synchronous hand-off: the tracker receives the applied entries in log order -/

theorem sentFor_zero (ops : List Op) (a : Nat) : sentFor ops a 0 = [] := by
  simp [sentFor]

theorem sentFor_one {ops : List Op} {a : Nat} {op : Op} (h : ops[a]? = some op) : sentFor ops a 1 = [callOf op] := by
  obtain ⟨hlt, hget⟩ := List.getElem?_eq_some_iff.1 h
  unfold sentFor
  rw [List.drop_eq_getElem_cons hlt, hget]
  simp

theorem sentFor_add (ops : List Op) (a k k' : Nat) :
    sentFor ops a (k + k') = sentFor ops a k ++ sentFor ops (a + k) k' := by
  unfold sentFor
  rw [List.take_add, List.map_append, List.drop_drop]

theorem step_other {ops : List Op} {s : Sys} {i j : Nat} (e : Ev) (h : j ≠ i) :
    (step ops s j e).1[i]? = s[i]? := by
  unfold step
  cases hj : s[j]? with
  | none => rfl
  | some r =>
    dsimp only
    rw [List.getElem?_set_ne h]

theorem step_out {ops : List Op} {s : Sys} {i : Nat} {r : Replica} (hr : s[i]? = some r) (e : Ev) :
    (step ops s i e).2 = (stepR ops r (srcSnapOf s e) e).2 := by
  unfold step
  rw [hr]

/-- one event on a peer that neither restarts it nor installs a snapshot: its Raft advances by `k ≤ 1`
    entries and the tracker has received exactly the calls of those entries when the event is over -/
theorem stepR_calls {ops : List Op} (hdec : allDecodable ops) {r : Replica} (h : RInv false ops r)
    (src : Option Snap) (e : Ev) (hne : e.isReset = false) :
    ∃ k, (stepR ops r src e).1.applied = r.applied + k ∧ (stepR ops r src e).2.calls = sentFor ops r.applied k := by
  cases e with
  | apply =>
    unfold stepR
    dsimp only
    by_cases hup : (!r.up) = true
    · rw [if_pos hup]; exact ⟨0, rfl, (sentFor_zero _ _).symm⟩
    · rw [if_neg hup]
      cases hop : ops[r.applied]? with
      | none => exact ⟨0, rfl, (sentFor_zero _ _).symm⟩
      | some op =>
        have hd : op.decodable = true := hdec op (List.mem_of_getElem? hop)
        simp only [hd, Bool.not_true, Bool.false_eq_true, if_false, h.poison, Bool.false_and]
        exact ⟨1, rfl, (sentFor_one hop).symm⟩
  | snapBegin =>
    refine ⟨0, ?_, ?_⟩
    · unfold stepR; dsimp only
      split
      · rfl
      · split <;> rfl
    · rw [sentFor_zero]
      by_contra hc
      exact absurd (no_other_calls_core ops r src _ hc).1 (by intro h'; cases h')
  | snapPersist =>
    refine ⟨0, ?_, ?_⟩
    · unfold stepR; dsimp only
      split
      · rfl
      · split <;> rfl
    · rw [sentFor_zero]
      by_contra hc
      exact absurd (no_other_calls_core ops r src _ hc).1 (by intro h'; cases h')
  | install j => cases hne
  | shutdown =>
    refine ⟨0, ?_, ?_⟩
    · unfold stepR; dsimp only
      split
      · rfl
      · split <;> rfl
    · rw [sentFor_zero]
      by_contra hc
      exact absurd (no_other_calls_core ops r src _ hc).1 (by intro h'; cases h')
  | kill =>
    refine ⟨0, ?_, ?_⟩
    · unfold stepR; dsimp only
      split <;> rfl
    · rw [sentFor_zero]
      by_contra hc
      exact absurd (no_other_calls_core ops r src _ hc).1 (by intro h'; cases h')
  | restart => cases hne
  | offline => exact ⟨0, rfl, (sentFor_zero _ _).symm⟩

theorem callsAt_spec {ops : List Op} (hdec : allDecodable ops) (i : Nat) (evs : List (Nat × Ev)) {s : Sys}
    (hs : SInv false ops s) (hq : noReset i evs = true) {r : Replica} (hr : s[i]? = some r) :
    ∃ k r', (run ops s evs)[i]? = some r' ∧ r'.applied = r.applied + k ∧
      callsAt ops i s evs = sentFor ops r.applied k := by
  induction evs generalizing s r with
  | nil => exact ⟨0, r, hr, rfl, (sentFor_zero _ _).symm⟩
  | cons je rest ih =>
    obtain ⟨j, e⟩ := je
    have hq' : (!(j == i && e.isReset)) = true ∧ noReset i rest = true := by
      unfold noReset at hq
      rw [List.all_cons, Bool.and_eq_true] at hq
      exact hq
    have hs' : SInv false ops (step ops s j e).1 := step_inv hdec hs j e (by intro hx; cases hx)
    rw [run_cons]
    unfold callsAt
    by_cases hji : j = i
    · subst hji
      have hne : e.isReset = false := by
        have := hq'.1
        simpa using this
      obtain ⟨k0, ha0, hc0⟩ := stepR_calls hdec (hs r (List.mem_of_getElem? hr)) (srcSnapOf s e) e hne
      obtain ⟨k', r', h1, h2, h3⟩ := ih hs' hq'.2 (step_at (ops := ops) hr e)
      refine ⟨k0 + k', r', h1, ?_, ?_⟩
      · rw [h2, ha0]; omega
      · rw [if_pos rfl, step_out hr e, hc0, h3, ha0, sentFor_add]
    · obtain ⟨k', r', h1, h2, h3⟩ := ih hs' hq'.2 (by rw [step_other e hji]; exact hr)
      refine ⟨k', r', h1, h2, ?_⟩
      rw [if_neg hji, List.nil_append, h3]

end CV.C01
