import ClusterVerif.Lemmas.C05
import ClusterVerif.Model.C05R

/-! Lemmas for the round-7 refinements of C05 (`Model/C05R.lean`): recover from the status listing. -/
namespace CV.C05

theorem statusR_true (s : State) (c : Nat) : statusR s true c = statusOf s c := by
  unfold statusR statusOf; rfl

theorem listingR_true (s : State) (c : Nat) : listingR s true c = statusAllOf s c := rfl
theorem listingR_false (s : State) (c : Nat) : listingR s false c = none := rfl

theorem recoverR_true (cfg : Cfg) (s : State) (c : Nat) : recoverR cfg s true c = recover cfg s c := by
  unfold recoverR recover; rw [statusR_true]

/-- the switch of `recoverWithPinInfo` depends on the status through `recAction` only -/
theorem recoverWith_eq (cfg : Cfg) (s : State) (c : Nat) (st : Status) :
    recoverWith cfg s c st =
      match recAction st with
      | some .pin => enqueue cfg s (recPin s c) .pin
      | some .unpin => enqueue cfg s (pinCid c) .unpin
      | _ => (s, .nil) := by
  cases st <;> rfl

theorem recAction_ne_remote (st : Status) : recAction st ≠ some .remote := by
  cases st <;> simp [recAction]

theorem recAction_opStatus {o : Op} {t : OpType} (h : recAction (opStatus o) = some t) :
    o.typ = t ∧ o.phase = .error := by
  cases h1 : o.typ <;> cases h2 : o.phase <;> simp [opStatus, recAction, h1, h2] at h ⊢ <;> exact h

/-- a status is sound for a pinset entry when the operation it makes recover re-issue is the one the pinset calls for -/
def StatusSound (sh : Option PinSpec) (st : Status) : Prop := ∀ t, recAction st = some t → wantTyp sh t

theorem statusR_sound {s : State} (h : Inv s) (ls : Bool) (c : Nat) : StatusSound (s.shared c) (statusR s ls c) := by
  intro t ht
  unfold statusR at ht
  cases hc : s.cur c with
  | some i =>
    rw [hc] at ht; simp only [] at ht
    obtain ⟨h1, _⟩ := recAction_opStatus ht
    have := h.curTyp c i hc
    rw [h1] at this; exact this
  | none =>
    rw [hc] at ht; simp only [] at ht
    cases hsh : s.shared c with
    | none => rw [hsh] at ht; simp [recAction] at ht
    | some p =>
      rw [hsh] at ht; simp only [] at ht
      cases hk : p.kind <;> simp only [hk] at ht
      · simp [recAction] at ht
      · simp [recAction] at ht
      · cases ls <;> simp only [Bool.false_eq_true, if_false, if_true] at ht
        · simp [recAction] at ht
        · split_ifs at ht <;> simp [recAction] at ht
          subst ht; simp [wantTyp, hk]

theorem statusAllOf_sound {s : State} (h : Inv s) {c : Nat} {st : Status} (hl : statusAllOf s c = some st) :
    StatusSound (s.shared c) st := by
  intro t ht
  unfold statusAllOf at hl
  cases hc : s.cur c with
  | some i =>
    rw [hc] at hl; simp only [Option.some.injEq] at hl
    subst hl
    obtain ⟨h1, _⟩ := recAction_opStatus ht
    have := h.curTyp c i hc
    rw [h1] at this; exact this
  | none =>
    rw [hc] at hl; simp only [] at hl
    cases hsh : s.shared c with
    | none => rw [hsh] at hl; cases hl
    | some p =>
      rw [hsh] at hl; simp only [] at hl
      cases hk : p.kind <;> simp only [hk, Option.some.injEq] at hl
      · subst hl; simp [recAction] at ht
      · subst hl; simp [recAction] at ht
      · split_ifs at hl <;> simp only [Option.some.injEq] at hl <;> subst hl <;> simp [recAction] at ht
        subst ht; simp [wantTyp, hk]

theorem listingR_sound {s : State} (h : Inv s) {ls : Bool} {c : Nat} {st : Status} (hl : listingR s ls c = some st) :
    StatusSound (s.shared c) st := by
  unfold listingR at hl
  cases ls <;> simp only [Bool.false_eq_true, if_false, if_true] at hl
  · cases hl
  · exact statusAllOf_sound h hl

/-- the recorded pin of a cid the pinset wants pinned here -/
theorem recPin_of_want {s : State} {c : Nat} (hw : wantTyp (s.shared c) .pin) : s.shared c = some (recPin s c) := by
  unfold wantTyp at hw
  unfold recPin
  cases hx : s.shared c with
  | none => rw [hx] at hw; cases hw
  | some p => rfl

/-- one entry of the loop preserves the invariant as long as its status is sound for what the pinset records NOW -/
theorem inv_recoverWith (cfg : Cfg) (s : State) (c : Nat) (st : Status) (h : Inv s)
    (hs : StatusSound (s.shared c) st) : Inv (recoverWith cfg s c st).1 := by
  rw [recoverWith_eq]
  cases ha : recAction st with
  | none => exact h
  | some t =>
    cases t with
    | pin => exact inv_enqueue_same cfg s h c _ (recPin_cid h c) .pin (by intro e; cases e) (hs .pin ha)
    | unpin => exact inv_enqueue_same cfg s h c _ rfl .unpin (by intro e; cases e) (hs .unpin ha)
    | remote => exact h

theorem enqueue_shared (cfg : Cfg) (s : State) (p : PinSpec) (typ : OpType) (ht : typ ≠ .remote) :
    (enqueue cfg s p typ).1.shared = s.shared := by
  rcases enqueue_cases cfg s p typ ht with ⟨i, _, _, _, _, h5⟩ | h5 | h5 <;> rw [h5] <;> rfl

theorem recoverWith_shared (cfg : Cfg) (s : State) (c : Nat) (st : Status) :
    (recoverWith cfg s c st).1.shared = s.shared := by
  rw [recoverWith_eq]
  cases ha : recAction st with
  | none => rfl
  | some t =>
    cases t with
    | pin => exact enqueue_shared cfg s _ .pin (by intro e; cases e)
    | unpin => exact enqueue_shared cfg s _ .unpin (by intro e; cases e)
    | remote => rfl

theorem startCall_shared (s : State) (i : Nat) (k : CallKind) : (startCall s i k).shared = s.shared := by
  unfold startCall; split_ifs <;> rfl

theorem internal_shared (cfg : Cfg) (s : State) (e : Ev) (he : internalOnly e = true) :
    (step cfg s e).shared = s.shared := by
  unfold step stepRet
  cases e <;> simp only [internalOnly, Bool.false_eq_true] at he <;> simp only []
  case deqPin =>
    unfold deqPin; split_ifs
    · cases s.pinQ with
      | nil => rfl
      | cons j rest => exact startCall_shared _ _ _
    · rfl
  case deqUnpin =>
    unfold deqUnpin; split_ifs
    · rfl
    · cases s.unpinQ with
      | nil => rfl
      | cons j rest => exact startCall_shared _ _ _
  case effect i =>
    unfold effect
    cases findCall s i with
    | none => rfl
    | some k => simp only []; split_ifs <;> rfl
  case retOk i =>
    unfold retOk
    cases findCall s i with
    | none => rfl
    | some k => simp only []; split_ifs <;> rfl
  case retErr i =>
    unfold retErr
    cases findCall s i with
    | none => rfl
    | some k => simp only []; split_ifs <;> rfl
  case reap i =>
    unfold reap
    cases findCall s i with
    | none => rfl
    | some k => simp only []; split_ifs <;> rfl
  case lose c => rfl

theorem inv_run (cfg : Cfg) : ∀ (es : List Ev) (s : State), Inv s → Inv (run cfg s es) := by
  intro es
  induction es with
  | nil => intro s h; exact h
  | cons e es ih => intro s h; exact ih (step cfg s e) (inv_step cfg s e h)

theorem run_internal_shared (cfg : Cfg) : ∀ (es : List Ev) (s : State), (∀ e ∈ es, internalOnly e = true) →
    (run cfg s es).shared = s.shared := by
  intro es
  induction es with
  | nil => intro s _; rfl
  | cons e es ih =>
    intro s he
    have := ih (step cfg s e) (fun e' h' => he e' (List.mem_cons_of_mem _ h'))
    show (run cfg (step cfg s e) es).shared = s.shared
    rw [this]; exact internal_shared cfg s e (he e List.mem_cons_self)

/-- `RecoverAll` with only worker / daemon activity in between (no other instruction) keeps the invariant -/
theorem inv_raLoop (cfg : Cfg) (L : Nat → Option Status) : ∀ (items : List (List Ev × Nat)) (s : State), Inv s →
    (∀ c st, L c = some st → StatusSound (s.shared c) st) →
    (∀ it ∈ items, ∀ e ∈ it.1, internalOnly e = true) → Inv (raLoop cfg L s items).1 := by
  intro items
  induction items with
  | nil => intro s h _ _; exact h
  | cons it rest ih =>
    intro s h hL hint
    obtain ⟨pre, c⟩ := it
    have h1 : Inv (run cfg s pre) := inv_run cfg pre s h
    have hsh : (run cfg s pre).shared = s.shared :=
      run_internal_shared cfg pre s (hint (pre, c) List.mem_cons_self)
    have hrest : ∀ it ∈ rest, ∀ e ∈ it.1, internalOnly e = true := fun it hi => hint it (List.mem_cons_of_mem _ hi)
    simp only [raLoop]
    cases hc : L c with
    | none => simp only []; exact ih _ h1 (by rw [hsh]; exact hL) hrest
    | some st =>
      simp only []
      have h2 : Inv (recoverWith cfg (run cfg s pre) c st).1 :=
        inv_recoverWith cfg _ c st h1 (by rw [hsh]; exact hL c st hc)
      split_ifs
      · exact h2
      · exact ih _ h2 (by rw [recoverWith_shared, hsh]; exact hL) hrest

/-! ### `recoverAll_covers`: an entry whose status calls for a repair gets a new operation of the right type -/

/-- the fields of an operation record that never change -/
def sameStatic (o o' : Op) : Prop := o'.cid = o.cid ∧ o'.typ = o.typ ∧ o'.pin = o.pin

theorem sameStatic_refl (o : Op) : sameStatic o o := ⟨rfl, rfl, rfl⟩

theorem replaceSt_static (s : State) (c : Nat) (o : Op) (pq uq : List Nat) (cl : List Call)
    (sh : Nat → Option PinSpec) (fl : Nat → Bool) (i : Nat) (hi : i < s.nextId) :
    sameStatic (s.ops i) ((replaceSt s c o pq uq cl sh fl).ops i) ∧ s.nextId ≤ (replaceSt s c o pq uq cl sh fl).nextId := by
  unfold replaceSt
  simp only [upd_apply, cancelCurOps_apply]
  have : i ≠ s.nextId := by omega
  simp only [this, if_false]
  refine ⟨?_, by omega⟩
  split_ifs <;> exact ⟨rfl, rfl, rfl⟩

theorem enqueue_static (cfg : Cfg) (s : State) (p : PinSpec) (typ : OpType) (ht : typ ≠ .remote) (i : Nat)
    (hi : i < s.nextId) :
    sameStatic (s.ops i) ((enqueue cfg s p typ).1.ops i) ∧ s.nextId ≤ (enqueue cfg s p typ).1.nextId := by
  rcases enqueue_cases cfg s p typ ht with ⟨j, _, _, _, _, h5⟩ | h5 | h5
  · rw [h5]; exact ⟨sameStatic_refl _, Nat.le_refl _⟩
  · rw [h5]; exact replaceSt_static s _ _ _ _ _ _ _ i hi
  · rw [h5]; exact replaceSt_static s _ _ _ _ _ _ _ i hi

theorem recoverWith_static (cfg : Cfg) (s : State) (c : Nat) (st : Status) (i : Nat) (hi : i < s.nextId) :
    sameStatic (s.ops i) ((recoverWith cfg s c st).1.ops i) ∧ s.nextId ≤ (recoverWith cfg s c st).1.nextId := by
  rw [recoverWith_eq]
  cases ha : recAction st with
  | none => exact ⟨sameStatic_refl _, Nat.le_refl _⟩
  | some t =>
    cases t with
    | pin => exact enqueue_static cfg s _ .pin (by intro e; cases e) i hi
    | unpin => exact enqueue_static cfg s _ .unpin (by intro e; cases e) i hi
    | remote => exact ⟨sameStatic_refl _, Nat.le_refl _⟩

theorem startCall_static (s : State) (j : Nat) (k : CallKind) (i : Nat) :
    sameStatic (s.ops i) ((startCall s j k).ops i) ∧ s.nextId ≤ (startCall s j k).nextId := by
  unfold startCall
  split_ifs
  · exact ⟨sameStatic_refl _, Nat.le_refl _⟩
  · simp only [upd_apply]
    refine ⟨?_, Nat.le_refl _⟩
    split_ifs with e
    · subst e; exact ⟨rfl, rfl, rfl⟩
    · exact sameStatic_refl _

/-- identity, type and pin of an operation never change, and operation ids are never reused -/
theorem static_step (cfg : Cfg) (s : State) (e : Ev) (i : Nat) (hi : i < s.nextId) :
    sameStatic (s.ops i) ((step cfg s e).ops i) ∧ s.nextId ≤ (step cfg s e).nextId := by
  have triv : sameStatic (s.ops i) (s.ops i) ∧ s.nextId ≤ s.nextId := ⟨sameStatic_refl _, Nat.le_refl _⟩
  unfold step stepRet
  cases e with
  | track p =>
    simp only [track]
    cases hk : p.kind with
    | here =>
      simp only [↓reduceIte]
      exact enqueue_static cfg { s with shared := _, failed := _ } p .pin (by intro e; cases e) i hi
    | sharded => simp only [reduceCtorEq, ↓reduceIte]; exact triv
    | remote =>
      simp only [reduceCtorEq, ↓reduceIte]
      rcases trackNew_cases { s with shared := upd s.shared p.cid (some p), failed := s.failed } p .remote .inProgress
        with ⟨j, _, _, _, _, h5⟩ | h5
      · rw [h5]; exact triv
      · rw [h5]
        exact replaceSt_static { s with shared := upd s.shared p.cid (some p), failed := s.failed } p.cid
          (newOpRec p .remote .inProgress false) [] [] [] (upd s.shared p.cid (some p)) s.failed i hi
  | untrack c =>
    simp only [untrack]
    exact enqueue_static cfg { s with shared := _, failed := _ } (pinCid c) .unpin (by intro e; cases e) i hi
  | recover c => exact recoverWith_static cfg s c _ i hi
  | deqPin =>
    simp only [deqPin]
    split_ifs
    · cases hq : s.pinQ with
      | nil => exact triv
      | cons j rest => exact startCall_static { s with pinQ := rest } j .pin i
    · exact triv
  | deqUnpin =>
    simp only [deqUnpin]
    split_ifs
    · exact triv
    · cases hq : s.unpinQ with
      | nil => exact triv
      | cons j rest => exact startCall_static { s with unpinQ := rest } j .unpin i
  | effect j =>
    simp only [effect]
    cases findCall s j <;> simp only [] <;> [exact triv; (split_ifs <;> exact triv)]
  | retOk j =>
    simp only [retOk]
    cases findCall s j with
    | none => exact triv
    | some k =>
      simp only []
      split_ifs
      all_goals first
        | exact triv
        | (refine ⟨?_, Nat.le_refl _⟩; simp only [upd_apply]; split_ifs with e
           · subst e; exact ⟨rfl, rfl, rfl⟩
           · exact sameStatic_refl _)
  | retErr j =>
    simp only [retErr]
    cases findCall s j with
    | none => exact triv
    | some k =>
      simp only []
      split_ifs
      all_goals first
        | exact triv
        | (refine ⟨?_, Nat.le_refl _⟩; simp only [upd_apply]; split_ifs with e
           · subst e; exact ⟨rfl, rfl, rfl⟩
           · exact sameStatic_refl _)
  | reap j =>
    simp only [reap]
    cases findCall s j <;> simp only [] <;> [exact triv; (split_ifs <;> exact triv)]
  | lose c => exact triv

theorem sameStatic_trans {a b c : Op} (h1 : sameStatic a b) (h2 : sameStatic b c) : sameStatic a c :=
  ⟨h2.1.trans h1.1, h2.2.1.trans h1.2.1, h2.2.2.trans h1.2.2⟩

theorem static_run (cfg : Cfg) : ∀ (es : List Ev) (s : State) (i : Nat), i < s.nextId →
    sameStatic (s.ops i) ((run cfg s es).ops i) ∧ s.nextId ≤ (run cfg s es).nextId := by
  intro es
  induction es with
  | nil => intro s i _; exact ⟨sameStatic_refl _, Nat.le_refl _⟩
  | cons e es ih =>
    intro s i hi
    obtain ⟨a1, a2⟩ := static_step cfg s e i hi
    obtain ⟨b1, b2⟩ := ih (step cfg s e) i (by omega)
    exact ⟨sameStatic_trans a1 b1, by show s.nextId ≤ (run cfg (step cfg s e) es).nextId; omega⟩

theorem static_raLoop (cfg : Cfg) (L : Nat → Option Status) : ∀ (items : List (List Ev × Nat)) (s : State) (i : Nat),
    i < s.nextId → sameStatic (s.ops i) ((raLoop cfg L s items).1.ops i) ∧ s.nextId ≤ (raLoop cfg L s items).1.nextId := by
  intro items
  induction items with
  | nil => intro s i _; exact ⟨sameStatic_refl _, Nat.le_refl _⟩
  | cons it rest ih =>
    intro s i hi
    obtain ⟨pre, c⟩ := it
    obtain ⟨a1, a2⟩ := static_run cfg pre s i hi
    simp only [raLoop]
    cases hc : L c with
    | none =>
      simp only []
      obtain ⟨b1, b2⟩ := ih (run cfg s pre) i (by omega)
      exact ⟨sameStatic_trans a1 b1, by omega⟩
    | some st =>
      simp only []
      obtain ⟨c1, c2⟩ := recoverWith_static cfg (run cfg s pre) c st i (by omega)
      split_ifs
      · exact ⟨sameStatic_trans a1 c1, by omega⟩
      · obtain ⟨b1, b2⟩ := ih (recoverWith cfg (run cfg s pre) c st).1 i (by omega)
        exact ⟨sameStatic_trans a1 (sameStatic_trans c1 b1), by omega⟩

theorem startLike_retErr {s : State} (i c : Nat) (hh : StartLike s c) : StartLike (retErr s i) c := by
  unfold retErr
  cases findCall s i with
  | none => exact hh
  | some k =>
    simp only []
    by_cases hcx : (s.ops i).cancelled = true
    · rw [if_pos hcx]; exact hh
    · rw [if_neg hcx]
      unfold StartLike at *
      simp only [upd_apply]
      rcases hh with hh | ⟨j, hj, hp⟩
      · exact Or.inl hh
      · right; refine ⟨j, hj, ?_⟩; split_ifs <;> simp [hp]

theorem startLike_internal {s : State} (cfg : Cfg) (h : Inv s) (e : Ev) (he : internalOnly e = true) (c : Nat)
    (hh : StartLike s c) : StartLike (step cfg s e) c := by
  unfold step stepRet
  cases e <;> simp only [internalOnly, Bool.false_eq_true] at he <;> simp only []
  case deqPin => exact startLike_deqPin cfg h c hh
  case deqUnpin => exact startLike_deqUnpin h c hh
  case effect i => exact startLike_effect i c hh
  case retOk i => exact startLike_retOk h i c hh
  case retErr i => exact startLike_retErr i c hh
  case reap i => exact startLike_reap i c hh
  case lose c' => exact hh

theorem startLike_run_internal (cfg : Cfg) (c : Nat) : ∀ (es : List Ev) (s : State), Inv s →
    (∀ e ∈ es, internalOnly e = true) → StartLike s c → StartLike (run cfg s es) c := by
  intro es
  induction es with
  | nil => intro s _ _ hh; exact hh
  | cons e es ih =>
    intro s h he hh
    exact ih (step cfg s e) (inv_step cfg s e h) (fun e' h' => he e' (List.mem_cons_of_mem _ h'))
      (startLike_internal cfg h e (he e List.mem_cons_self) c hh)

theorem startLike_recoverWith_other {s : State} (cfg : Cfg) (h : Inv s) (c c' : Nat) (hne : c ≠ c') (st : Status)
    (hh : StartLike s c) : StartLike (recoverWith cfg s c' st).1 c := by
  rw [recoverWith_eq]
  cases ha : recAction st with
  | none => exact hh
  | some t =>
    cases t with
    | pin => exact startLike_enqueue_other cfg h c _ .pin (by intro e; cases e) (by rw [recPin_cid h]; exact hne) hh
    | unpin => exact startLike_enqueue_other cfg h c _ .unpin (by intro e; cases e) hne hh
    | remote => exact hh

/-- a status that calls for a repair belongs to a cid without a live operation -/
theorem startLike_of_action {s : State} {c : Nat} {st : Status} {t : OpType} (hl : statusAllOf s c = some st)
    (ha : recAction st = some t) : StartLike s c := by
  unfold statusAllOf at hl
  cases hc : s.cur c with
  | none => exact Or.inl hc
  | some i =>
    rw [hc] at hl; simp only [Option.some.injEq] at hl
    subst hl
    exact Or.inr ⟨i, hc, (recAction_opStatus ha).2⟩

/-- the new operation one entry creates -/
theorem recoverWith_creates {s : State} (cfg : Cfg) (h : Inv s) (c : Nat) (st : Status) (t : OpType)
    (ha : recAction st = some t) (hs : StatusSound (s.shared c) st) (hh : StartLike s c)
    (hnf : (recoverWith cfg s c st).2 ≠ .full) :
    s.nextId < (recoverWith cfg s c st).1.nextId ∧ ((recoverWith cfg s c st).1.ops s.nextId).cid = c ∧
    ((recoverWith cfg s c st).1.ops s.nextId).typ = t ∧ ((recoverWith cfg s c st).1.ops s.nextId).phase = .queued ∧
    (recoverWith cfg s c st).1.cur c = some s.nextId ∧
    (t = .pin → s.shared c = some ((recoverWith cfg s c st).1.ops s.nextId).pin) := by
  rw [recoverWith_eq] at hnf ⊢
  have key : ∀ p, p.cid = c → t ≠ .remote → (enqueue cfg s p t).2 ≠ .full → (t = .pin → s.shared c = some p) →
      s.nextId < (enqueue cfg s p t).1.nextId ∧ ((enqueue cfg s p t).1.ops s.nextId).cid = c ∧
      ((enqueue cfg s p t).1.ops s.nextId).typ = t ∧ ((enqueue cfg s p t).1.ops s.nextId).phase = .queued ∧
      (enqueue cfg s p t).1.cur c = some s.nextId ∧
      (t = .pin → s.shared c = some ((enqueue cfg s p t).1.ops s.nextId).pin) := by
    intro p hp ht hnf hsh
    rcases enqueue_cases cfg s p t ht with ⟨i, h1, _, h3, _, _⟩ | h5 | h5
    · exfalso
      rw [hp] at h1
      rcases hh with hh | ⟨j, hj, hpj⟩
      · rw [hh] at h1; cases h1
      · rw [hj] at h1; cases h1; exact h3 hpj
    · rw [h5]
      refine ⟨?_, ?_, ?_, ?_, ?_, ?_⟩
      · simp [replaceSt]
      · simp [replaceSt, upd_apply, newOpRec, hp]
      · simp [replaceSt, upd_apply, newOpRec]
      · simp [replaceSt, upd_apply, newOpRec]
      · simp [replaceSt, upd_apply, hp]
      · intro ht'; simp only [replaceSt, upd_apply, if_true, newOpRec]; exact hsh ht'
    · rw [h5] at hnf; exact absurd rfl hnf
  cases t with
  | pin =>
    rw [ha] at hnf ⊢
    exact key _ (recPin_cid h c) (by intro e; cases e) hnf (fun _ => recPin_of_want (hs .pin ha))
  | unpin =>
    rw [ha] at hnf ⊢
    exact key _ rfl (by intro e; cases e) hnf (fun e => by cases e)
  | remote => exact absurd ha (recAction_ne_remote st)

theorem raLoop_covers (cfg : Cfg) (L : Nat → Option Status) (c : Nat) (st : Status) (t : OpType)
    (hL : L c = some st) (ha : recAction st = some t) :
    ∀ (items : List (List Ev × Nat)) (s : State), Inv s →
    (∀ c' st', L c' = some st' → StatusSound (s.shared c') st') →
    (∀ it ∈ items, ∀ e ∈ it.1, internalOnly e = true) → (items.map (·.2)).Nodup → c ∈ items.map (·.2) →
    StartLike s c → (raLoop cfg L s items).2 = .nil →
    ∃ j, s.nextId ≤ j ∧ j < (raLoop cfg L s items).1.nextId ∧ ((raLoop cfg L s items).1.ops j).cid = c ∧
      ((raLoop cfg L s items).1.ops j).typ = t ∧ (t = .pin → s.shared c = some ((raLoop cfg L s items).1.ops j).pin) := by
  intro items
  induction items with
  | nil => intro s _ _ _ _ hc; cases hc
  | cons it rest ih =>
    intro s h hS hint hnd hc hh hnil
    obtain ⟨pre, c'⟩ := it
    have hpre := hint (pre, c') List.mem_cons_self
    have h1 : Inv (run cfg s pre) := inv_run cfg pre s h
    have hsh : (run cfg s pre).shared = s.shared := run_internal_shared cfg pre s hpre
    have hh1 : StartLike (run cfg s pre) c := startLike_run_internal cfg c pre s h hpre hh
    have hrest : ∀ it ∈ rest, ∀ e ∈ it.1, internalOnly e = true := fun it hi => hint it (List.mem_cons_of_mem _ hi)
    have hlt : s.nextId ≤ (run cfg s pre).nextId := by
      rcases Nat.lt_or_ge 0 s.nextId with hpos | hz
      · exact (static_run cfg pre s 0 hpos).2
      · have : s.nextId = 0 := by omega
        omega
    simp only [List.map_cons, List.nodup_cons] at hnd
    simp only [raLoop] at hnil ⊢
    by_cases hcc : c' = c
    · subst hcc
      rw [hL] at hnil ⊢
      simp only [] at hnil ⊢
      by_cases hf : (recoverWith cfg (run cfg s pre) c' st).2 = .full
      · rw [if_pos hf] at hnil; rw [hf] at hnil; cases hnil
      · rw [if_neg hf] at hnil ⊢
        obtain ⟨g1, g2, g3, _, _, g6⟩ := recoverWith_creates cfg h1 c' st t ha (by rw [hsh]; exact hS c' st hL) hh1 hf
        obtain ⟨b1, b2⟩ := static_raLoop cfg L rest (recoverWith cfg (run cfg s pre) c' st).1 (run cfg s pre).nextId g1
        refine ⟨(run cfg s pre).nextId, hlt, by omega, ?_, ?_, ?_⟩
        · rw [b1.1]; exact g2
        · rw [b1.2.1]; exact g3
        · intro ht; rw [b1.2.2, ← hsh]; exact g6 ht
    · have hc' : c ∈ rest.map (·.2) := by
        simp only [List.map_cons, List.mem_cons] at hc
        rcases hc with e | e
        · exact absurd e.symm hcc
        · exact e
      cases hl' : L c' with
      | none =>
        rw [hl'] at hnil; simp only [] at hnil ⊢
        obtain ⟨j, j1, j2, j3, j4, j5⟩ := ih (run cfg s pre) h1 (by rw [hsh]; exact hS) hrest hnd.2 hc' hh1 hnil
        exact ⟨j, by omega, j2, j3, j4, by rw [← hsh]; exact j5⟩
      | some st' =>
        rw [hl'] at hnil; simp only [] at hnil ⊢
        by_cases hf : (recoverWith cfg (run cfg s pre) c' st').2 = .full
        · rw [if_pos hf] at hnil; rw [hf] at hnil; cases hnil
        · rw [if_neg hf] at hnil ⊢
          have h2 : Inv (recoverWith cfg (run cfg s pre) c' st').1 :=
            inv_recoverWith cfg _ c' st' h1 (by rw [hsh]; exact hS c' st' hl')
          have hsh2 : (recoverWith cfg (run cfg s pre) c' st').1.shared = s.shared := by
            rw [recoverWith_shared, hsh]
          have hh2 := startLike_recoverWith_other cfg h1 c c' (fun e => hcc e.symm) st' hh1
          have hlt2 : (run cfg s pre).nextId ≤ (recoverWith cfg (run cfg s pre) c' st').1.nextId := by
            rcases Nat.lt_or_ge 0 (run cfg s pre).nextId with hpos | hz
            · exact (recoverWith_static cfg (run cfg s pre) c' st' 0 hpos).2
            · omega
          obtain ⟨j, j1, j2, j3, j4, j5⟩ := ih _ h2 (by rw [hsh2]; exact hS) hrest hnd.2 hc' hh2 hnil
          exact ⟨j, by omega, j2, j3, j4, by rw [← hsh2]; exact j5⟩

/-! ### healthy cids are left alone -/

theorem noaction_of_healthy {s : State} {c : Nat} (hcur : s.cur c = none) (hm : daemonMatches (observe s) c = true)
    (ls : Bool) : recAction (statusR s ls c) = none ∧ ∀ st, listingR s ls c = some st → recAction st = none := by
  unfold daemonMatches daemonMode observe at hm
  simp only [] at hm
  unfold statusR listingR statusAllOf
  rw [hcur]
  cases hsh : s.shared c with
  | none => simp [recAction]
  | some p =>
    rw [hsh] at hm; simp only [] at hm ⊢
    cases hk : p.kind <;> simp only [hk] at hm ⊢
    · cases ls <;> simp [recAction]
    · cases ls <;> simp [recAction]
    · have : heldAs s c p.mode = true := by rw [heldAs_eq]; exact hm
      cases ls <;> simp [recAction, this]

/-! ### a healthy `RecoverAll` round heals -/

/-- a cid without a live operation whose listing status calls for no repair is already in the healed shape -/
theorem healed_of_noaction {s : State} (h : Inv s) {c : Nat} (hh : StartLike s c)
    (hna : ∀ st, statusAllOf s c = some st → recAction st = none) : Healed s c := by
  unfold statusAllOf at hna
  rcases hh with hcur | ⟨i, hcur, hp⟩
  · rw [hcur] at hna; simp only [] at hna
    refine ⟨?_, ?_, ?_, ?_⟩
    rotate_left
    · intro j hj; rw [hcur] at hj; cases hj
    · intro j hj; rw [hcur] at hj; cases hj
    · intro j hj; rw [hcur] at hj; cases hj
    intro _ p hsh hk
    rw [hsh] at hna; simp only [hk] at hna
    by_cases hx : heldAs s c p.mode = true
    · exact (heldAs_iff s c p.mode).1 hx
    · simp [hx, recAction] at hna
  · rw [hcur] at hna; simp only [] at hna
    have := hna _ rfl
    refine ⟨?_, ?_, ?_, ?_⟩
    · intro hn; rw [hn] at hcur; cases hcur
    · intro j hj; rw [hcur] at hj; cases hj
      cases ht : (s.ops i).typ
      · simp [opStatus, ht, hp, recAction] at this
      · simp [opStatus, ht, hp, recAction] at this
      · exact Or.inl rfl
    · intro j hj ht; rw [hcur] at hj; cases hj
      simp [opStatus, ht, hp, recAction] at this
    · intro j hj ht; rw [hcur] at hj; cases hj
      simp [opStatus, ht, hp, recAction] at this

theorem healed_recoverWith_self {s : State} (cfg : Cfg) (h : Inv s) (c : Nat) (st : Status) (t : OpType)
    (ha : recAction st = some t) (hs : StatusSound (s.shared c) st) (hh : Healed s c ∨ StartLike s c)
    (hnf : (recoverWith cfg s c st).2 ≠ .full) : Healed (recoverWith cfg s c st).1 c := by
  rw [recoverWith_eq] at hnf ⊢
  have key : ∀ p, p.cid = c → t ≠ .remote → (enqueue cfg s p t).2 ≠ .full → (t = .pin → s.shared c = some p) →
      Healed (enqueue cfg s p t).1 c := by
    intro p hp ht hnf hsh
    rcases enqueue_cases cfg s p t ht with ⟨i, h1, _, h3, _, h5⟩ | h5 | h5
    · rw [h5]
      rcases hh with hh | hh | ⟨j, hj, hpj⟩
      · exact hh
      · rw [hp, hh] at h1; cases h1
      · rw [hp, hj] at h1; cases h1; exact absurd hpj h3
    · rw [h5, hp]; exact healed_replace_self h c p t ht hsh _ _
    · rw [h5] at hnf; exact absurd rfl hnf
  cases t with
  | pin =>
    simp only [ha] at hnf ⊢
    exact key _ (recPin_cid h c) (by intro e; cases e) hnf (fun _ => recPin_of_want (hs .pin ha))
  | unpin =>
    simp only [ha] at hnf ⊢
    exact key _ rfl (by intro e; cases e) hnf (fun e => by cases e)
  | remote => exact absurd ha (recAction_ne_remote st)

theorem healed_recoverWith_other {s : State} (cfg : Cfg) (h : Inv s) (c c' : Nat) (hne : c ≠ c') (st : Status)
    (hh : Healed s c) : Healed (recoverWith cfg s c' st).1 c := by
  rw [recoverWith_eq]
  cases ha : recAction st with
  | none => exact hh
  | some t =>
    cases t with
    | pin => exact healed_enqueue_other cfg h c _ .pin (by intro e; cases e) (by rw [recPin_cid h]; exact hne) hh
    | unpin => exact healed_enqueue_other cfg h c _ .unpin (by intro e; cases e) hne hh
    | remote => exact hh

/-- worker steps and successful daemon calls -/
def healthyInternal (e : Ev) : Bool := healthyEv e && internalOnly e

theorem pre_run_healthy (cfg : Cfg) (c : Nat) : ∀ (es : List Ev) (s : State), Inv s →
    (∀ e ∈ es, healthyInternal e = true) →
    (Healed s c → Healed (run cfg s es) c) ∧ (StartLike s c → Healed (run cfg s es) c ∨ StartLike (run cfg s es) c) := by
  intro es
  induction es with
  | nil => intro s _ _; exact ⟨id, Or.inr⟩
  | cons e es ih =>
    intro s h he
    have hee := he e List.mem_cons_self
    simp only [healthyInternal, Bool.and_eq_true] at hee
    have hnf : (stepRet cfg s e).2 ≠ .full := by
      cases e <;> simp only [internalOnly, Bool.false_eq_true] at hee <;> simp [stepRet] <;> exact hee.2.elim
    obtain ⟨i1, i2⟩ := ih (step cfg s e) (inv_step cfg s e h) (fun e' h' => he e' (List.mem_cons_of_mem _ h'))
    refine ⟨fun hh => i1 (healed_step cfg h e hee.1 c hh hnf), fun hh => ?_⟩
    rcases pre_step cfg h e hee.1 c (Or.inr hh) hnf with g | g
    · exact Or.inl (i1 g)
    · exact i2 g

theorem raLoop_heals (cfg : Cfg) (n : Nat) (L : Nat → Option Status) :
    ∀ (items : List (List Ev × Nat)) (s : State), Inv s →
    (∀ c st, L c = some st → StatusSound (s.shared c) st) →
    (∀ it ∈ items, ∀ e ∈ it.1, healthyInternal e = true) →
    (∀ c, c < n → Healed s c ∨ (StartLike s c ∧ c ∈ items.map (·.2) ∧ ∃ st t, L c = some st ∧ recAction st = some t)) →
    (raLoop cfg L s items).2 = .nil →
    Inv (raLoop cfg L s items).1 ∧ ∀ c, c < n → Healed (raLoop cfg L s items).1 c := by
  intro items
  induction items with
  | nil =>
    intro s h _ _ hP _
    refine ⟨h, fun c hc => ?_⟩
    rcases hP c hc with g | ⟨_, g, _⟩
    · exact g
    · cases g
  | cons it rest ih =>
    intro s h hS hint hP hnil
    obtain ⟨pre, c'⟩ := it
    have hpre := hint (pre, c') List.mem_cons_self
    have hpreI : ∀ e ∈ pre, internalOnly e = true := fun e he => by
      have := hpre e he; simp only [healthyInternal, Bool.and_eq_true] at this; exact this.2
    have h1 : Inv (run cfg s pre) := inv_run cfg pre s h
    have hsh : (run cfg s pre).shared = s.shared := run_internal_shared cfg pre s hpreI
    have hrest : ∀ it ∈ rest, ∀ e ∈ it.1, healthyInternal e = true := fun it hi => hint it (List.mem_cons_of_mem _ hi)
    -- after the activity in between
    have hP1 : ∀ c, c < n → Healed (run cfg s pre) c ∨
        (StartLike (run cfg s pre) c ∧ c ∈ ((pre, c') :: rest).map (·.2) ∧ ∃ st t, L c = some st ∧ recAction st = some t) := by
      intro c hc
      obtain ⟨i1, i2⟩ := pre_run_healthy cfg c pre s h hpre
      rcases hP c hc with g | ⟨g1, g2, g3⟩
      · exact Or.inl (i1 g)
      · rcases i2 g1 with g | g
        · exact Or.inl g
        · exact Or.inr ⟨g, g2, g3⟩
    simp only [raLoop] at hnil ⊢
    cases hl' : L c' with
    | none =>
      rw [hl'] at hnil; simp only [] at hnil ⊢
      refine ih (run cfg s pre) h1 (by rw [hsh]; exact hS) hrest ?_ hnil
      intro c hc
      rcases hP1 c hc with g | ⟨g1, g2, st, t, g3, g4⟩
      · exact Or.inl g
      · right
        refine ⟨g1, ?_, st, t, g3, g4⟩
        simp only [List.map_cons, List.mem_cons] at g2
        rcases g2 with e | e
        · subst e; rw [hl'] at g3; cases g3
        · exact e
    | some st' =>
      rw [hl'] at hnil; simp only [] at hnil ⊢
      by_cases hf : (recoverWith cfg (run cfg s pre) c' st').2 = .full
      · rw [if_pos hf] at hnil; rw [hf] at hnil; cases hnil
      · rw [if_neg hf] at hnil ⊢
        have hs' : StatusSound ((run cfg s pre).shared c') st' := by rw [hsh]; exact hS c' st' hl'
        have h2 : Inv (recoverWith cfg (run cfg s pre) c' st').1 := inv_recoverWith cfg _ c' st' h1 hs'
        have hsh2 : (recoverWith cfg (run cfg s pre) c' st').1.shared = s.shared := by rw [recoverWith_shared, hsh]
        refine ih _ h2 (by rw [hsh2]; exact hS) hrest ?_ hnil
        intro c hc
        by_cases hcc : c = c'
        · subst hcc
          left
          cases ha : recAction st' with
          | none =>
            rw [recoverWith_eq, ha]
            rcases hP1 c hc with g | ⟨_, _, st, t, g3, g4⟩
            · exact g
            · rw [hl'] at g3; cases g3; rw [ha] at g4; cases g4
          | some t =>
            refine healed_recoverWith_self cfg h1 c st' t ha hs' ?_ hf
            rcases hP1 c hc with g | ⟨g, _, _⟩
            · exact Or.inl g
            · exact Or.inr g
        · rcases hP1 c hc with g | ⟨g1, g2, g3⟩
          · exact Or.inl (healed_recoverWith_other cfg h1 c c' hcc st' g)
          · right
            refine ⟨startLike_recoverWith_other cfg h1 c c' hcc st' g1, ?_, g3⟩
            simp only [List.map_cons, List.mem_cons] at g2
            rcases g2 with e | e
            · exact absurd e hcc
            · exact e

/-! ### daemon read failures -/

theorem raLoop_unlisted (cfg : Cfg) : ∀ (items : List (List Ev × Nat)) (s : State),
    raLoop cfg (fun _ => none) s items = (items.foldl (fun s it => run cfg s it.1) s, .nil) := by
  intro items
  induction items with
  | nil => intro s; rfl
  | cons it rest ih => intro s; obtain ⟨pre, c⟩ := it; simp only [raLoop, List.foldl_cons]; exact ih _

/-! ### whole schedules -/

theorem inv_reapAll (s : State) (h : Inv s) : Inv (reapAll s) := by
  have hsub : ∀ k, k ∈ s.calls.filter (alive s) → k ∈ s.calls := fun k hk => (List.mem_filter.1 hk).1
  have hnd : (s.pinQ ++ s.unpinQ ++ (s.calls.filter (alive s)).map (·.op)).Nodup := by
    refine List.Nodup.sublist ?_ h.nodup
    exact List.Sublist.append (List.Sublist.refl _) (List.Sublist.map _ List.filter_sublist)
  obtain ⟨h1,h2,h3,h4,h5,h6,h7,h8,h9,h10,h11,h12,h13,h14,h15,h16,h17,h18,h19,h20,h21⟩ := h
  unfold reapAll
  constructor <;> simp only [] <;> try assumption
  case callLt => intro k hk; exact h4 k (hsub k hk)
  case callCur => intro k hk; exact h11 k (hsub k hk)
  case callKind => intro k hk; exact h14 k (hsub k hk)
  case remoteCall =>
    intro c j hc ht hp
    obtain ⟨k0, hk0, e0⟩ := h18 c j hc ht hp
    refine ⟨k0, List.mem_filter.2 ⟨hk0, ?_⟩, e0⟩
    unfold alive
    rw [e0]
    cases hx : (s.ops j).cancelled
    · rfl
    · exact absurd (h7 c j hc hx) hp
  case unpinEff => intro k hk; exact h19 k (hsub k hk)

theorem inv_drainPin (cfg : Cfg) : ∀ (fuel : Nat) (s : State), Inv s → Inv (drainPin cfg fuel s) := by
  intro fuel
  induction fuel with
  | zero => intro s h; exact h
  | succ n ih =>
    intro s h
    unfold drainPin
    split_ifs
    · exact ih _ (inv_deqPin cfg s h)
    · exact h

theorem inv_drainUnpin : ∀ (fuel : Nat) (s : State), Inv s → Inv (drainUnpin fuel s) := by
  intro fuel
  induction fuel with
  | zero => intro s h; exact h
  | succ n ih =>
    intro s h
    unfold drainUnpin
    split_ifs
    · exact ih _ (inv_deqUnpin s h)
    · exact h

theorem inv_stabilize (cfg : Cfg) (s : State) (h : Inv s) : Inv (stabilize cfg s) := by
  unfold stabilize
  exact inv_drainUnpin _ _ (inv_drainPin cfg _ _ (inv_reapAll s h))

theorem inv_recoverR (cfg : Cfg) (s : State) (ls : Bool) (c : Nat) (h : Inv s) : Inv (recoverR cfg s ls c).1 :=
  inv_recoverWith cfg s c _ h (statusR_sound h ls c)

theorem inv_stepR (cfg : Cfg) (m : MState) (e : EvR) (h : Inv m.s) : Inv (stepR cfg m e).s := by
  cases e with
  | base e => exact inv_step cfg m.s e h
  | recover c => exact inv_recoverR cfg m.s m.ls c h
  | recoverAll items =>
    refine inv_raLoop cfg _ _ m.s h (fun _ _ hl => listingR_sound h hl) ?_
    intro it hit e he
    obtain ⟨it0, _, rfl⟩ := List.mem_map.1 hit
    exact (List.mem_filter.1 he).2
  | lsFail on => exact h
  | stabilize => exact inv_stabilize cfg m.s h

theorem inv_runR (cfg : Cfg) : ∀ (es : List EvR) (m : MState), Inv m.s → Inv (runR cfg m es).s := by
  intro es
  induction es with
  | nil => intro m h; exact h
  | cons e es ih => intro m h; exact ih (stepR cfg m e) (inv_stepR cfg m e h)

theorem ongoing_statusR (s : State) (ls : Bool) (c : Nat) : ongoing (statusR s ls c) = ongoing (statusOf s c) := by
  unfold statusR statusOf
  cases s.cur c with
  | some i => rfl
  | none =>
    simp only []
    cases s.shared c with
    | none => rfl
    | some p =>
      simp only []
      cases p.kind <;> simp only []
      cases ls <;> simp only [Bool.false_eq_true, if_false, if_true] <;> split_ifs <;> rfl

theorem isError_statusR (s : State) (ls : Bool) (c : Nat) (h : isError (statusOf s c) = true) :
    isError (statusR s ls c) = true := by
  unfold statusR statusOf at *
  cases hc : s.cur c with
  | some i => rw [hc] at h; exact h
  | none =>
    rw [hc] at h; simp only [] at h ⊢
    cases hsh : s.shared c with
    | none => rw [hsh] at h; exact h
    | some p =>
      rw [hsh] at h; simp only [] at h ⊢
      cases hk : p.kind <;> simp only [hk] at h ⊢ <;> try exact h
      cases ls <;> simp only [Bool.false_eq_true, if_false, if_true]
      · rfl
      · exact h

theorem quiescent_R (n : Nat) (s : State) (ls : Bool) : quiescent n (observeR s ls) = quiescent n (observe s) := by
  unfold quiescent observeR
  simp only [ongoing_statusR]
  rfl

theorem matchOrError_R {s : State} {c : Nat} (ls : Bool) (h : matchOrError (observe s) c = true) :
    matchOrError (observeR s ls) c = true := by
  unfold matchOrError at *
  simp only [Bool.or_eq_true] at h ⊢
  rcases h with h | h
  · exact Or.inl h
  · exact Or.inr (isError_statusR s ls c h)

theorem obsTrace_inv (cfg : Cfg) : ∀ (blocks : List (List EvR)) (m : MState), Inv m.s →
    ∀ o ∈ obsTrace cfg m blocks, ∃ s ls, Inv s ∧ o = observeR s ls := by
  intro blocks
  induction blocks with
  | nil => intro m _ o ho; cases ho
  | cons b rest ih =>
    intro m h o ho
    have h1 := inv_runR cfg b m h
    simp only [obsTrace, List.mem_cons] at ho
    rcases ho with e | e
    · exact ⟨_, _, h1, e⟩
    · exact ih _ h1 o e

/-! ### round 8: the pinset entry of a cid only changes by an instruction for that cid -/

/-- the event is an instruction that rewrites the pinset entry of `c` -/
def touches (c : Nat) : Ev → Bool
  | .track p => p.cid == c
  | .untrack c' => c' == c
  | _ => false

theorem trackNew_shared (s : State) (p : PinSpec) (typ : OpType) (ph : Phase) : (trackNew s p typ ph).1.shared = s.shared := by
  unfold trackNew
  cases s.cur p.cid with
  | none => rfl
  | some i => simp only []; split_ifs <;> rfl

theorem track_shared (cfg : Cfg) (s : State) (p : PinSpec) : (track cfg s p).1.shared = upd s.shared p.cid (some p) := by
  unfold track
  cases hk : p.kind with
  | sharded => rfl
  | here =>
    simp only []
    rw [enqueue_shared cfg _ p .pin (by intro e; cases e)]
  | remote =>
    simp only []
    split
    · next s1 heq =>
      have := congrArg (fun r => r.1.shared) heq
      simp only [trackNew_shared] at this
      exact this.symm
    · next s1 i heq =>
      have := congrArg (fun r => r.1.shared) heq
      simp only [trackNew_shared] at this
      exact this.symm

theorem step_shared_untouched (cfg : Cfg) (s : State) (e : Ev) (c : Nat) (he : touches c e = false) :
    (step cfg s e).shared c = s.shared c := by
  cases e with
  | track p =>
    have hne : c ≠ p.cid := by
      intro h; simp [touches, h] at he
    show (track cfg s p).1.shared c = s.shared c
    rw [track_shared]
    simp only [upd_apply, hne, if_false]
  | untrack c' =>
    have hne : c ≠ c' := by
      intro h; simp [touches, h] at he
    show (untrack cfg s c').1.shared c = s.shared c
    unfold untrack
    rw [enqueue_shared cfg _ (pinCid c') .unpin (by intro e; cases e)]
    simp only [upd_apply, hne, if_false]
  | recover c' =>
    show (recoverWith cfg s c' (statusOf s c')).1.shared c = s.shared c
    rw [recoverWith_shared]
  | deqPin => rw [internal_shared cfg s _ rfl]
  | deqUnpin => rw [internal_shared cfg s _ rfl]
  | effect i => rw [internal_shared cfg s _ rfl]
  | retOk i => rw [internal_shared cfg s _ rfl]
  | retErr i => rw [internal_shared cfg s _ rfl]
  | reap i => rw [internal_shared cfg s _ rfl]
  | lose c' => rw [internal_shared cfg s _ rfl]

theorem run_shared_untouched (cfg : Cfg) (c : Nat) : ∀ (es : List Ev) (s : State), (∀ e ∈ es, touches c e = false) →
    (run cfg s es).shared c = s.shared c := by
  intro es
  induction es with
  | nil => intro s _; rfl
  | cons e es ih =>
    intro s he
    have := ih (step cfg s e) (fun e' h' => he e' (List.mem_cons_of_mem _ h'))
    show (run cfg (step cfg s e) es).shared c = s.shared c
    rw [this]; exact step_shared_untouched cfg s e c (he e List.mem_cons_self)

theorem reachable_run8 (cfg : Cfg) : ∀ (es : List Ev) (s : State), Reachable cfg s → Reachable cfg (run cfg s es) := by
  intro es
  induction es with
  | nil => intro s h; exact h
  | cons e es ih => intro s h; exact ih (step cfg s e) (.step e h)


end CV.C05
