/- C04 round 8 — helper lemmas for the RPC-layer theorems of Props/C04.lean. -/
import ClusterVerif.Model.C04Rpc
namespace CV.C04

/-- `scanl` over a mapped list -/
theorem scanl_map_aux {α β γ : Type} (f : γ → β → γ) (g : α → β) (l : List α) (m : γ) :
    (l.map g).scanl f m = l.scanl (fun m a => f m (g a)) m := by
  induction l generalizing m with
  | nil => rfl
  | cons a t ih => simp only [List.map_cons, List.scanl_cons, ih]

end CV.C04
