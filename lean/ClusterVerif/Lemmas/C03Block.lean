import ClusterVerif.Model.C03Block
import ClusterVerif.Spec.C03
import Mathlib.Data.List.Basic
import Mathlib.Data.List.Perm.Basic

/-! Helper lemmas for `BlockAllocate` and the call site of allocate() in `Cluster.pin` (Props/C03). -/
namespace CV.C03
open CV

theorem setupFactors_opts (cfg : C04.Cfg) (p : Pin) :
    (C04.setupFactors cfg p).opts.rmin = C04.effRmin cfg p ∧ (C04.setupFactors cfg p).opts.rmax = C04.effRmax cfg p ∧
    (C04.setupFactors cfg p).opts.ualloc = p.opts.ualloc ∧ (C04.setupFactors cfg p).cid = p.cid ∧
    (C04.setupFactors cfg p).type = p.type := by
  unfold C04.setupFactors
  split <;> simp

theorem blockAllocate_alloc_cases (cfg : C04.Cfg) (pre : PinMap) (undef : Bool) (p : Pin) (ping chosen : List Nat) :
    (blockAllocate cfg pre undef p ping chosen).alloc = none ∨
    (blockAllocate cfg pre undef p ping chosen).alloc =
      some (C04.allocIn cfg (if undef then none else pre.get p.cid) (C04.setupFactors cfg p) []) := by
  unfold blockAllocate
  by_cases c0 : cfg.follower = true
  · simp [c0]
  · simp only [c0, Bool.false_eq_true, if_false]
    by_cases c1 : (!factorsValid (C04.effRmin cfg p) (C04.effRmax cfg p)) = true
    · simp [c1]
    · simp only [c1, Bool.false_eq_true, if_false]
      by_cases c2 : (C04.setupFactors cfg p).opts.expire.beforeNow = true
      · simp [c2]
      · simp only [c2, Bool.false_eq_true, if_false]
        by_cases c3 : (!C04.typeOk (if undef then none else pre.get p.cid) (C04.setupFactors cfg p)) = true
        · simp [c3]
        · simp only [c3, Bool.false_eq_true, if_false]
          by_cases c4 : (C04.setupFactors cfg p).opts.rmin < 0
          · simp [c4]
          · simp only [c4, if_false]
            right
            cases allocate (C04.allocIn cfg (if undef then none else pre.get p.cid) (C04.setupFactors cfg p) []) <;> rfl

theorem blockAllocate_input_aux (cfg : C04.Cfg) (pre : PinMap) (undef : Bool) (p : Pin) (ping chosen : List Nat) (ai : Input)
    (h : (blockAllocate cfg pre undef p ping chosen).alloc = some ai) : ai = blockInput cfg pre undef p := by
  obtain ⟨h1, h2, h3, _, _⟩ := setupFactors_opts cfg p
  rcases blockAllocate_alloc_cases cfg pre undef p ping chosen with hn | hs
  · rw [hn] at h; cases h
  · rw [hs] at h
    simp only [Option.some.injEq] at h
    subst h
    unfold C04.allocIn blockInput
    cases undef <;> simp [h1, h2, h3]

theorem block_pin_same_aux (cfg : C04.Cfg) (pre : PinMap) (p : Pin) (ping chosen : List Nat)
    (habs : pre.get p.cid = none) (hty : p.type ≠ .metaT) (hal : p.allocs = []) (hfol : cfg.follower = false)
    (hpos : 0 ≤ C04.effRmin cfg p) :
    (blockAllocate cfg pre false p ping chosen).alloc = (C04.pinBody cfg pre p [] chosen).alloc := by
  obtain ⟨h1, _, _, h4, h5⟩ := setupFactors_opts cfg p
  have hal2 : (C04.setupFactors cfg p).allocs = [] := by
    unfold C04.setupFactors; split <;> simp [hal]
  unfold blockAllocate C04.pinBody
  simp only [hfol, Bool.false_eq_true, if_false, habs, C04.keepOrNew, h5]
  have hneg : ¬ (C04.setupFactors cfg p).opts.rmin < 0 := by rw [h1]; omega
  have hm : ((C04.setupFactors cfg p).type == PinType.metaT) = false := by
    rw [h5]; cases hpt : p.type <;> simp_all
  by_cases c1 : (!factorsValid (C04.effRmin cfg p) (C04.effRmax cfg p)) = true
  · simp [c1, C04.err]
  · simp only [c1, Bool.false_eq_true, if_false]
    by_cases c2 : (C04.setupFactors cfg p).opts.expire.beforeNow = true
    · simp [c2, C04.err]
    · simp only [c2, Bool.false_eq_true, if_false]
      by_cases c3 : (!C04.typeOk none (C04.setupFactors cfg p)) = true
      · simp [c3, C04.err]
      · simp only [c3, Bool.false_eq_true, if_false, hneg, h5, hm, hal2, List.isEmpty_nil, if_true]
        cases allocate (C04.allocIn cfg none (C04.setupFactors cfg p) []) <;> simp [C04.logPin, C04.err, hty]

theorem pin_priority_aux (cfg : C04.Cfg) (pre : PinMap) (p : Pin) (bl chosen : List Nat) (ai : Input)
    (h : (C04.pinBody cfg pre p bl chosen).alloc = some ai) :
    ai.priority.Perm p.opts.ualloc ∧ ai.blacklist = bl ∧
    ai.current = ((pre.get p.cid).map (·.allocs)).getD [] ∧ ai.peers = cfg.peers ∧ ai.desc = cfg.desc := by
  obtain ⟨_, _, h3, h4, _⟩ := setupFactors_opts cfg p
  have hperm : (C04.keepOrNew (pre.get p.cid) (C04.setupFactors cfg p) bl).opts.ualloc.Perm p.opts.ualloc := by
    unfold C04.keepOrNew
    cases pre.get p.cid with
    | none => simp [h3]
    | some e =>
      simp only
      split
      · rename_i hc
        simp only [Bool.and_eq_true, C04.optsEquals, C04.sameMultiset] at hc
        have : ((C04.setupFactors cfg p).opts.ualloc.isPerm e.opts.ualloc) = true := by
          have := hc.1; tauto
        rw [List.isPerm_iff] at this
        rw [h3] at this; exact this.symm
      · simp [h3]
  unfold C04.pinBody at h
  simp only at h
  repeat' split at h
  all_goals first
    | (simp [C04.err, C04.logPin] at h; done)
    | (simp only [C04.err, C04.logPin, Option.some.injEq] at h
       subst h
       exact ⟨hperm, rfl, rfl, rfl, rfl⟩)

theorem blockAllocate_everywhere_aux (cfg : C04.Cfg) (pre : PinMap) (undef : Bool) (p : Pin) (ping chosen : List Nat)
    (hfol : cfg.follower = false) (hev : C04.effRmin cfg p = -1 ∧ C04.effRmax cfg p = -1)
    (hexp : p.opts.expire.beforeNow = false)
    (hty : C04.typeOk (if undef then none else pre.get p.cid) (C04.setupFactors cfg p) = true) :
    (blockAllocate cfg pre undef p ping chosen).out = .ok ping := by
  obtain ⟨h1, _, _, _, _⟩ := setupFactors_opts cfg p
  have hexp2 : (C04.setupFactors cfg p).opts.expire.beforeNow = false := by
    unfold C04.setupFactors; split <;> simpa using hexp
  unfold blockAllocate
  have hv : factorsValid (C04.effRmin cfg p) (C04.effRmax cfg p) = true := by
    rw [hev.1, hev.2]; decide
  have hneg : (C04.setupFactors cfg p).opts.rmin < 0 := by rw [h1, hev.1]; decide
  simp [hfol, hv, hexp2, hty, hneg]

end CV.C03
