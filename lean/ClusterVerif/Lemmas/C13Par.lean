import ClusterVerif.Model.C13Par
import ClusterVerif.Gen.C13Par
import Mathlib.Tactic.SplitIfs
/-! C13 — lemmas about the parameter plumbing interpreter (Model/C13Par.lean). -/
namespace CV.C13.Par

theorem prefixForVersion_zero : prefixForVersion 0 = some ⟨0, sha256Code, true⟩ := rfl
theorem prefixForVersion_one : prefixForVersion 1 = some ⟨1, sha256Code, true⟩ := rfl
theorem prefixForVersion_other (v : Int) (h0 : v ≠ 0) (h1 : v ≠ 1) : prefixForVersion v = none := by
  unfold prefixForVersion
  simp [h0, h1]

/-- the program of today configures the importer with exactly the request -/
theorem code_settings (names : List (String × Nat)) (r : Req) : settingsOf names code r = expected names r := by
  obtain ⟨layout, chunker, raw, nocopy, progress, v, hf⟩ := r
  unfold settingsOf expected code
  by_cases h0 : v = 0
  · subst h0
    cases hl : lookup names (lower hf) with
    | none => simp [exec, setField, eval, fresh, prefixForVersion_zero, hl]
    | some h =>
      by_cases hs : h = sha256Code
      · subst hs
        simp [exec, setField, eval, fresh, prefixForVersion_zero, hl]
      · simp [exec, setField, eval, fresh, prefixForVersion_zero, hl, hs]
  · by_cases h1 : v = 1
    · subst h1
      cases hl : lookup names (lower hf) with
      | none => simp [exec, setField, eval, fresh, prefixForVersion_one, hl]
      | some h => simp [exec, setField, eval, fresh, prefixForVersion_one, hl]
    · simp [exec, setField, eval, fresh, prefixForVersion_other v h0 h1, h0, h1]

/-- the harmless reordering (builder taken before the hash is written, assignments in another order) gives the same -/
theorem builderEarly_settings (names : List (String × Nat)) (r : Req) :
    settingsOf names builderEarly r = expected names r := by
  obtain ⟨layout, chunker, raw, nocopy, progress, v, hf⟩ := r
  unfold settingsOf expected builderEarly
  by_cases h0 : v = 0
  · subst h0
    cases hl : lookup names (lower hf) with
    | none => simp [exec, setField, eval, fresh, prefixForVersion_zero, hl]
    | some h =>
      by_cases hs : h = sha256Code
      · subst hs
        simp [exec, setField, eval, fresh, prefixForVersion_zero, hl]
      · simp [exec, setField, eval, fresh, prefixForVersion_zero, hl, hs]
  · by_cases h1 : v = 1
    · subst h1
      cases hl : lookup names (lower hf) with
      | none => simp [exec, setField, eval, fresh, prefixForVersion_one, hl]
      | some h => simp [exec, setField, eval, fresh, prefixForVersion_one, hl]
    · simp [exec, setField, eval, fresh, prefixForVersion_other v h0 h1, h0, h1]

/-- the program READ FROM THE SOURCE configures the importer with exactly the request. Proved by running the interpreter
    symbolically on `Gen.newIpfsAdder` itself (not through an equality with `code`): a rewrite of `newIpfsAdder` that keeps the
    meaning still checks, one that changes a value for some request does not. -/
theorem gen_settings (names : List (String × Nat)) (r : Req) : settingsOf names Gen.newIpfsAdder r = expected names r := by
  obtain ⟨layout, chunker, raw, nocopy, progress, v, hf⟩ := r
  unfold settingsOf expected Gen.newIpfsAdder
  by_cases h0 : v = 0
  · subst h0
    cases hl : lookup names (lower hf) with
    | none => simp [exec, setField, eval, fresh, prefixForVersion_zero, hl]
    | some h =>
      by_cases hs : h = sha256Code
      · subst hs
        simp [exec, setField, eval, fresh, prefixForVersion_zero, hl]
      · simp [exec, setField, eval, fresh, prefixForVersion_zero, hl, hs]
  · by_cases h1 : v = 1
    · subst h1
      cases hl : lookup names (lower hf) with
      | none => simp [exec, setField, eval, fresh, prefixForVersion_one, hl]
      | some h => simp [exec, setField, eval, fresh, prefixForVersion_one, hl]
    · simp [exec, setField, eval, fresh, prefixForVersion_other v h0 h1, h0, h1]

theorem gen_importerOf (links : Nat) (s : Settings) :
    importerOf links Gen.ipfsAdd s = some ⟨s.chunker, s.rawLeaves, links, s.noCopy, s.builder, s.trickle⟩ := by
  rfl

/-- what `expected` says when it builds -/
theorem expected_built (names : List (String × Nat)) (r : Req) (s : Settings) (h : expected names r = .built s) :
    s.rawLeaves = r.rawLeaves ∧ s.noCopy = r.noCopy ∧ s.chunker = r.chunker ∧ s.progress = r.progress ∧
    s.trickle = (r.layout == "trickle") ∧ (r.cidVersion = 0 ∨ r.cidVersion = 1) ∧
    ∃ hc, lookup names (lower r.hashFun) = some hc ∧ s.builder = some ⟨r.cidVersion.toNat, hc, true⟩ ∧
      (r.cidVersion = 0 → hc = sha256Code) := by
  unfold expected at h
  split_ifs at h with hv
  cases hl : lookup names (lower r.hashFun) with
  | none => simp [hl] at h
  | some hc =>
    simp only [hl] at h
    split_ifs at h with h2
    injection h with h
    subst h
    refine ⟨rfl, rfl, rfl, rfl, rfl, ?_, hc, rfl, rfl, ?_⟩
    · simp at hv
      by_cases h0 : r.cidVersion = 0
      · exact Or.inl h0
      · exact Or.inr (hv h0)
    · intro h0
      simp [h0] at h2
      exact h2

theorem importerOf_addCode (links : Nat) (s : Settings) :
    importerOf links addCode s = some ⟨s.chunker, s.rawLeaves, links, s.noCopy, s.builder, s.trickle⟩ := by
  rfl

/-! ### chunker strings -/

theorem parseChunker_size (d l : Nat) (s : String) (n : Nat) (hd : 0 < d) (h : parseChunker d l s = .size n) :
    0 < n ∧ (n = d ∨ n ≤ l) := by
  unfold parseChunker at h
  by_cases h1 : (s == "" || s == "default") = true
  · rw [if_pos h1] at h
    injection h with h
    omega
  · rw [if_neg h1] at h
    cases hs : startsWithL "size-".toList s.toList with
    | none =>
      rw [hs] at h
      simp only at h
      split_ifs at h
    | some rest =>
      rw [hs] at h
      simp only at h
      cases ha : atoi (rest.takeWhile (· != '-')) with
      | none =>
        rw [ha] at h
        cases h
      | some m =>
        rw [ha] at h
        simp only at h
        split_ifs at h with h2
        injection h with h
        subst h
        simp at h2
        omega

theorem parseChunker_default (d l : Nat) : parseChunker d l "" = .size d ∧ parseChunker d l "default" = .size d := by
  constructor <;> simp [parseChunker]

end CV.C13.Par
