import ClusterVerif.Spec.C03
import Mathlib.Data.List.Basic
import Mathlib.Data.List.Nodup
import Mathlib.Data.List.Perm.Basic
import Mathlib.Data.List.Perm.Subperm

/-! Helper lemmas for Props/C03. -/
namespace CV.C03

/-! ### dedup -/
theorem mem_dedup {l : List Nat} {x : Nat} : x ∈ dedup l ↔ x ∈ l := by
  induction l with
  | nil => simp [dedup]
  | cons a t ih =>
    unfold dedup
    by_cases h : a ∈ t
    · rw [if_pos h, ih, List.mem_cons]
      constructor
      · intro h'; exact Or.inr h'
      · rintro (rfl | h')
        · exact h
        · exact h'
    · rw [if_neg h, List.mem_cons, List.mem_cons, ih]

theorem nodup_dedup (l : List Nat) : (dedup l).Nodup := by
  induction l with
  | nil => simp [dedup]
  | cons a t ih =>
    unfold dedup
    by_cases h : a ∈ t
    · rw [if_pos h]; exact ih
    · rw [if_neg h, List.nodup_cons, mem_dedup]
      exact ⟨h, ih⟩

theorem dedup_of_nodup {l : List Nat} (h : l.Nodup) : dedup l = l := by
  induction l with
  | nil => rfl
  | cons a t ih =>
    rw [List.nodup_cons] at h
    unfold dedup
    rw [if_neg h.1, ih h.2]

/-! ### pigeonhole on duplicate-free lists -/
theorem subset_of_nodup_length_le {a b : List Nat} (ha : a.Nodup) (hs : a ⊆ b) (hl : b.length ≤ a.length) : b ⊆ a := by
  have hp : a.Perm b := (List.subperm_of_subset ha hs).perm_of_length_le hl
  exact hp.symm.subset

theorem length_le_of_nodup_subset {a b : List Nat} (ha : a.Nodup) (hs : a ⊆ b) : a.length ≤ b.length :=
  (List.subperm_of_subset ha hs).length_le

theorem length_eq_of_nodup_mem_iff {a b : List Nat} (ha : a.Nodup) (hb : b.Nodup) (h : ∀ x, x ∈ a ↔ x ∈ b) :
    a.length = b.length :=
  Nat.le_antisymm (length_le_of_nodup_subset ha (fun x hx => (h x).1 hx))
    (length_le_of_nodup_subset hb (fun x hx => (h x).2 hx))

/-! ### the peer table -/
theorem stateOf_of_mem {i : Input} (hw : wf i = true) {p : Nat} {s : MState} (h : (p, s) ∈ i.peers) :
    stateOf i p = s := by
  unfold wf at hw
  have hw : (i.peers.map (·.1)).Nodup := by simpa using hw
  unfold stateOf
  generalize i.peers = l at h hw
  induction l with
  | nil => cases h
  | cons q t ih =>
    simp only [List.map_cons, List.nodup_cons] at hw
    rcases List.mem_cons.1 h with rfl | h'
    · simp [List.find?]
    · have hne : q.1 ≠ p := by
        intro he; apply hw.1; rw [he]; exact List.mem_map.2 ⟨(p, s), h', rfl⟩
      have : (q.1 == p) = false := by simpa using hne
      simp only [List.find?, this]
      exact ih h' hw.2

theorem stateOf_absent_of_not_mem {i : Input} {p : Nat} (h : p ∉ i.peers.map (·.1)) : stateOf i p = .absent := by
  unfold stateOf
  have : i.peers.find? (fun q => q.1 == p) = none := by
    rw [List.find?_eq_none]; intro q hq; simp only [beq_iff_eq]; intro he
    exact h (List.mem_map.2 ⟨q, hq, he⟩)
  rw [this]

theorem mem_peers_of_healthy {i : Input} {p : Nat} (h : (stateOf i p).healthy = true) : (p, stateOf i p) ∈ i.peers := by
  unfold stateOf at h ⊢
  cases hf : i.peers.find? (fun q => q.1 == p) with
  | none => rw [hf] at h; simp [MState.healthy] at h
  | some q =>
    have hm := List.mem_of_find?_eq_some hf
    have hp := List.find?_some hf
    simp only [beq_iff_eq] at hp
    simp only
    rw [← hp]; exact hm


/-! ### the metric split -/
theorem mem_metrics {i : Input} {q : Nat × MState} : q ∈ metrics i ↔ q ∈ i.peers ∧ q.2.healthy = true := by
  unfold metrics; simp [List.mem_filter]

theorem metrics_ids_nodup {i : Input} (hw : wf i = true) : ((metrics i).map (·.1)).Nodup := by
  have hw : (i.peers.map (·.1)).Nodup := by simpa [wf] using hw
  exact List.Nodup.sublist (List.Sublist.map _ List.filter_sublist) hw

theorem good_iff {i : Input} {p : Nat} :
    good i p = true ↔ (stateOf i p).healthy = true ∧ p ∉ i.blacklist := by
  unfold good; simp

theorem mem_curIds {i : Input} (hw : wf i = true) {p : Nat} :
    p ∈ curIds i ↔ p ∈ i.current ∧ good i p = true := by
  unfold curIds
  simp only [List.mem_map, List.mem_filter, mem_metrics, Bool.and_eq_true, Bool.not_eq_true',
    List.contains_eq_mem, decide_eq_false_iff_not, decide_eq_true_eq, good_iff]
  constructor
  · rintro ⟨q, ⟨⟨hq, hh⟩, hb, hc⟩, rfl⟩
    have := stateOf_of_mem hw (p := q.1) (s := q.2) hq
    exact ⟨hc, by rw [this]; exact hh, hb⟩
  · rintro ⟨hc, hh, hb⟩
    exact ⟨(p, stateOf i p), ⟨⟨mem_peers_of_healthy hh, hh⟩, hb, hc⟩, rfl⟩

theorem nodup_curIds {i : Input} (hw : wf i = true) : (curIds i).Nodup := by
  unfold curIds
  exact List.Nodup.sublist (List.Sublist.map _ List.filter_sublist) (metrics_ids_nodup hw)

theorem mem_healthyCurrent {i : Input} {p : Nat} : p ∈ healthyCurrent i ↔ p ∈ i.current ∧ good i p = true := by
  unfold healthyCurrent; simp [List.mem_filter, mem_dedup]

theorem nodup_healthyCurrent (i : Input) : (healthyCurrent i).Nodup :=
  List.Nodup.sublist List.filter_sublist (nodup_dedup _)

theorem length_healthyCurrent {i : Input} (hw : wf i = true) : (healthyCurrent i).length = (curIds i).length :=
  length_eq_of_nodup_mem_iff (nodup_healthyCurrent i) (nodup_curIds hw)
    (fun x => by rw [mem_healthyCurrent, mem_curIds hw])

/-! ### numeric candidates -/
theorem numerics_ids_sublist (l : List (Nat × MState)) : ((numerics l).map (·.1)).Sublist (l.map (·.1)) := by
  induction l with
  | nil => simp [numerics]
  | cons q t ih =>
    unfold numerics at ih ⊢
    cases hq : q.2.numeric with
    | none => simp only [List.filterMap_cons, hq, Option.map_none, List.map_cons]; exact List.Sublist.cons _ ih
    | some v => simp only [List.filterMap_cons, hq, Option.map_some, List.map_cons]; exact List.Sublist.cons_cons _ ih

theorem mem_numerics {l : List (Nat × MState)} {p v : Nat} : (p, v) ∈ numerics l ↔ (p, MState.valid v) ∈ l := by
  unfold numerics
  simp only [List.mem_filterMap, Option.map_eq_some_iff, Prod.mk.injEq]
  constructor
  · rintro ⟨q, hq, w, hw, rfl, rfl⟩
    obtain ⟨a, b⟩ := q
    cases b <;> simp [MState.numeric] at hw
    subst hw; exact hq
  · intro h; exact ⟨(p, .valid v), h, v, rfl, rfl, rfl⟩

theorem numerics_length_le (l : List (Nat × MState)) : (numerics l).length ≤ l.length := by
  unfold numerics; exact List.length_filterMap_le _ _

theorem lookupVal_some {l : List (Nat × Nat)} {p x : Nat} (h : lookupVal l p = some x) : (p, x) ∈ l := by
  unfold lookupVal at h
  cases hf : l.find? (fun q => q.1 == p) with
  | none => rw [hf] at h; cases h
  | some q =>
    rw [hf] at h
    have hm := List.mem_of_find?_eq_some hf
    have hp := List.find?_some hf
    simp only [beq_iff_eq] at hp
    simp only [Option.map_some, Option.some.injEq] at h
    obtain ⟨a, b⟩ := q
    simp only at hp h; subst hp; subst h; exact hm


theorem usable_iff {i : Input} {p : Nat} :
    usable i p = true ↔ good i p = true ∧ (∃ v, stateOf i p = .valid v) ∧ p ∉ i.current := by
  unfold usable
  simp only [Bool.and_eq_true, Bool.not_eq_true', List.contains_eq_mem, decide_eq_false_iff_not]
  constructor
  · rintro ⟨⟨hg, hn⟩, hc⟩
    refine ⟨hg, ?_, hc⟩
    cases hs : stateOf i p <;> simp [hs, MState.numeric] at hn
    exact ⟨_, rfl⟩
  · rintro ⟨hg, ⟨v, hv⟩, hc⟩
    exact ⟨⟨hg, by simp [hv, MState.numeric]⟩, hc⟩

theorem priNum_spec {i : Input} (hw : wf i = true) {p v : Nat} :
    (p, v) ∈ numerics (priM i) ↔ (stateOf i p = .valid v ∧ p ∉ i.blacklist ∧ p ∉ i.current ∧ p ∈ i.priority) := by
  rw [mem_numerics]; unfold priM
  simp only [List.mem_filter, mem_metrics, Bool.and_eq_true, Bool.not_eq_true', List.contains_eq_mem,
    decide_eq_false_iff_not, decide_eq_true_eq]
  constructor
  · rintro ⟨⟨hm, _⟩, ⟨hb, hc⟩, hp⟩
    exact ⟨stateOf_of_mem hw hm, hb, hc, hp⟩
  · rintro ⟨hs, hb, hc, hp⟩
    have hh : (stateOf i p).healthy = true := by rw [hs]; rfl
    have := mem_peers_of_healthy hh
    rw [hs] at this
    exact ⟨⟨this, rfl⟩, ⟨hb, hc⟩, hp⟩

theorem candNum_spec {i : Input} (hw : wf i = true) {p v : Nat} :
    (p, v) ∈ numerics (candM i) ↔ (stateOf i p = .valid v ∧ p ∉ i.blacklist ∧ p ∉ i.current ∧ p ∉ i.priority) := by
  rw [mem_numerics]; unfold candM
  simp only [List.mem_filter, mem_metrics, Bool.and_eq_true, Bool.not_eq_true', List.contains_eq_mem,
    decide_eq_false_iff_not]
  constructor
  · rintro ⟨⟨hm, _⟩, ⟨hb, hc⟩, hp⟩
    exact ⟨stateOf_of_mem hw hm, hb, hc, hp⟩
  · rintro ⟨hs, hb, hc, hp⟩
    have hh : (stateOf i p).healthy = true := by rw [hs]; rfl
    have := mem_peers_of_healthy hh
    rw [hs] at this
    exact ⟨⟨this, rfl⟩, ⟨hb, hc⟩, hp⟩

theorem valOf_of_state {i : Input} {p v : Nat} (h : stateOf i p = .valid v) : valOf i p = v := by
  unfold valOf; rw [h]; rfl

theorem priNum_ids_nodup {i : Input} (hw : wf i = true) : ((numerics (priM i)).map (·.1)).Nodup :=
  List.Nodup.sublist ((numerics_ids_sublist _).trans (List.Sublist.map _ List.filter_sublist)) (metrics_ids_nodup hw)

theorem candNum_ids_nodup {i : Input} (hw : wf i = true) : ((numerics (candM i)).map (·.1)).Nodup :=
  List.Nodup.sublist ((numerics_ids_sublist _).trans (List.Sublist.map _ List.filter_sublist)) (metrics_ids_nodup hw)

theorem mem_usableIds {i : Input} {p : Nat} : p ∈ usableIds i ↔ usable i p = true := by
  unfold usableIds
  simp only [List.mem_filter, List.mem_map]
  constructor
  · exact fun h => h.2
  · intro h
    refine ⟨?_, h⟩
    obtain ⟨hg, _, _⟩ := usable_iff.1 h
    exact ⟨_, mem_peers_of_healthy (good_iff.1 hg).1, rfl⟩

theorem nodup_usableIds {i : Input} (hw : wf i = true) : (usableIds i).Nodup := by
  have hw : (i.peers.map (·.1)).Nodup := by simpa [wf] using hw
  exact List.Nodup.sublist List.filter_sublist hw

/-- every usable peer is a numeric priority peer or a numeric candidate -/
theorem usable_split {i : Input} (hw : wf i = true) {p : Nat} (h : usable i p = true) :
    (p ∈ i.priority ∧ (p, valOf i p) ∈ numerics (priM i)) ∨ (p ∉ i.priority ∧ (p, valOf i p) ∈ numerics (candM i)) := by
  obtain ⟨hg, ⟨v, hv⟩, hc⟩ := usable_iff.1 h
  have hb := (good_iff.1 hg).2
  rw [valOf_of_state hv]
  by_cases hp : p ∈ i.priority
  · exact Or.inl ⟨hp, (priNum_spec hw).2 ⟨hv, hb, hc, hp⟩⟩
  · exact Or.inr ⟨hp, (candNum_spec hw).2 ⟨hv, hb, hc, hp⟩⟩

theorem usableIds_length_le {i : Input} (hw : wf i = true) :
    (usableIds i).length ≤ (numerics (priM i)).length + (numerics (candM i)).length := by
  have hsub : usableIds i ⊆ (numerics (priM i) ++ numerics (candM i)).map (·.1) := by
    intro p hp
    rcases usable_split hw (mem_usableIds.1 hp) with ⟨_, h⟩ | ⟨_, h⟩
    · exact List.mem_map.2 ⟨_, List.mem_append_left _ h, rfl⟩
    · exact List.mem_map.2 ⟨_, List.mem_append_right _ h, rfl⟩
  have := length_le_of_nodup_subset (nodup_usableIds hw) hsub
  simpa using this


/-! ### what `isTopK` gives -/
theorem isTopK_spec {desc : Bool} {l : List (Nat × Nat)} {chosen : List Nat} (h : isTopK desc l chosen = true) :
    (∀ p ∈ chosen, ∃ x, lookupVal l p = some x) ∧ chosen.Nodup ∧
    (∀ p ∈ chosen, ∀ q ∈ l, q.1 ∈ chosen ∨ ∃ x, lookupVal l p = some x ∧ before desc x q.2 = true) := by
  unfold isTopK at h
  simp only [Bool.and_eq_true, List.all_eq_true, decide_eq_true_eq, Bool.or_eq_true,
    List.contains_eq_mem] at h
  obtain ⟨⟨⟨h1, h2⟩, _⟩, h4⟩ := h
  refine ⟨?_, h2, ?_⟩
  · intro p hp
    have := h1 p hp
    exact Option.isSome_iff_exists.1 this
  · intro p hp q hq
    rcases h4 p hp q hq with h | h
    · exact Or.inl h
    · right
      cases hx : lookupVal l p with
      | none => rw [hx] at h; cases h
      | some x => rw [hx] at h; exact ⟨x, rfl, h⟩


theorem okTrunc_iff (cur : List Nat) (n : Nat) (l : List Nat) :
    okTrunc cur n l = true ↔ l.length = n ∧ l.Nodup ∧ ∀ p ∈ l, p ∈ cur := by
  unfold okTrunc
  simp [and_assoc]

theorem okAlloc_iff (desc : Bool) (cur : List Nat) (pn cn : List (Nat × Nat)) (k : Nat) (l : List Nat) :
    okAlloc desc cur pn cn k l = true ↔
      (l.take cur.length).Perm cur ∧ (l.drop cur.length).length = k ∧
      isTopK desc pn ((l.drop cur.length).take (min k pn.length)) = true ∧
      isTopK desc cn ((l.drop cur.length).drop (min k pn.length)) = true := by
  unfold okAlloc
  simp only [Bool.and_eq_true, List.isPerm_iff, beq_iff_eq, and_assoc]

theorem okWith_iff (o : Output) (f : List Nat → Bool) : o.okWith f = true ↔ ∃ l, o = .ok l ∧ f l = true := by
  cases o with
  | ok l => simp [Output.okWith]
  | err => simp [Output.okWith]
  | panic => simp [Output.okWith]

/-! ### the arms of `obtainAllocations` against the six clauses -/

def okClauses (i : Input) (out : List Nat) : Prop :=
  cNodup i out = true ∧ cAdded i out = true ∧ cKeep i out = true ∧ cCount i out = true ∧
  cPriority i out = true ∧ cRank i out = true

theorem all_current_clauses {i : Input} {out : List Nat} (h : ∀ p ∈ out, p ∈ i.current) :
    cAdded i out = true ∧ cPriority i out = true ∧ cRank i out = true := by
  unfold cAdded cPriority cRank
  simp only [List.all_eq_true, Bool.or_eq_true, List.contains_eq_mem, decide_eq_true_eq]
  exact ⟨fun p hp => Or.inl (h p hp), fun p hp => Or.inl (Or.inl (h p hp)), fun p hp => Or.inl (h p hp)⟩

theorem filter_good_eq_self {i : Input} {l : List Nat} (h : ∀ p ∈ l, good i p = true) : l.filter (good i) = l :=
  List.filter_eq_self.2 h

/-- arm "truncate": more healthy holders than max -/
theorem arm_truncate {i : Input} (hw : wf i = true) (hpos : 0 < i.rmin ∧ i.rmin ≤ i.rmax) {l : List Nat}
    (hlen : (l.length : Int) = i.rmax) (hnd : l.Nodup) (hsub : ∀ p ∈ l, p ∈ curIds i)
    (hover : i.rmax < ((curIds i).length : Int)) : okClauses i l := by
  have hcur : ∀ p ∈ l, p ∈ i.current := fun p hp => ((mem_curIds hw).1 (hsub p hp)).1
  have hgood : ∀ p ∈ l, good i p = true := fun p hp => ((mem_curIds hw).1 (hsub p hp)).2
  obtain ⟨h2, h5, h6⟩ := all_current_clauses hcur
  refine ⟨?_, h2, ?_, ?_, h5, h6⟩
  · unfold cNodup; simp [hnd]
  · unfold cKeep
    have : ¬ (((healthyCurrent i).length : Int) ≤ i.rmax) := by rw [length_healthyCurrent hw]; omega
    simp only [this, if_false, Bool.and_eq_true, List.all_eq_true, List.contains_eq_mem, decide_eq_true_eq,
      beq_iff_eq]
    exact ⟨fun p hp => mem_healthyCurrent.2 ⟨hcur p hp, hgood p hp⟩, hlen⟩
  · unfold cCount
    rw [dedup_of_nodup hnd, filter_good_eq_self hgood]
    simp only [Bool.and_eq_true, decide_eq_true_eq]
    omega

/-- arm "keep": min already met, not above max: the current list is returned as is -/
theorem arm_keep {i : Input} (hw : wf i = true)
    (hmin : i.rmin ≤ ((curIds i).length : Int)) (hmax : ((curIds i).length : Int) ≤ i.rmax) :
    okClauses i i.current := by
  obtain ⟨h2, h5, h6⟩ := all_current_clauses (i := i) (out := i.current) (fun p hp => hp)
  refine ⟨?_, h2, ?_, ?_, h5, h6⟩
  · unfold cNodup; cases h : decide i.current.Nodup <;> simp_all
  · unfold cKeep
    have : (((healthyCurrent i).length : Int) ≤ i.rmax) := by rw [length_healthyCurrent hw]; omega
    simp only [this, if_true, List.all_eq_true, List.contains_eq_mem, decide_eq_true_eq]
    exact fun p hp => (mem_healthyCurrent.1 hp).1
  · unfold cCount
    have : ((dedup i.current).filter (good i)) = healthyCurrent i := rfl
    rw [this, length_healthyCurrent hw]
    simp only [Bool.and_eq_true, decide_eq_true_eq]
    omega

/-- arms "few-candidates" / "few-numeric" -/
theorem arm_err {i : Input} (hw : wf i = true)
    (h : (((numerics (priM i)).length + (numerics (candM i)).length : Nat) : Int) < i.rmin - ((curIds i).length : Int)) :
    cErr i = true := by
  unfold cErr
  have := usableIds_length_le hw
  rw [length_healthyCurrent hw]
  simp only [decide_eq_true_eq]
  omega


/-- arm "alloc": current healthy holders, then the best `k` of (requested peers, then the others) -/
theorem arm_alloc {i : Input} (hw : wf i = true) {l : List Nat} {k na : Nat}
    (hmin : i.rmin ≤ ((curIds i).length : Int) + k) (hmax : ((curIds i).length : Int) + k ≤ i.rmax)
    (hna : na = min k (numerics (priM i)).length)
    (hhead : (l.take (curIds i).length).Perm (curIds i))
    (hrest : (l.drop (curIds i).length).length = k)
    (ha : isTopK i.desc (numerics (priM i)) ((l.drop (curIds i).length).take na) = true)
    (hb : isTopK i.desc (numerics (candM i)) ((l.drop (curIds i).length).drop na) = true) :
    okClauses i l := by
  obtain ⟨a1, a2, a4⟩ := isTopK_spec ha
  obtain ⟨b1, b2, b4⟩ := isTopK_spec hb
  generalize hc : (curIds i).length = c at *
  generalize hhd : l.take c = head at *
  generalize hrs : l.drop c = rest at *
  generalize haa : rest.take na = a at *
  generalize hbb : rest.drop na = b at *
  have hl : l = head ++ (a ++ b) := by
    rw [← haa, ← hbb, List.take_append_drop, ← hhd, ← hrs, List.take_append_drop]
  have hheadmem : ∀ p, p ∈ head ↔ p ∈ curIds i := fun p => hhead.mem_iff
  have hheadlen : head.length = c := by rw [hhead.length_eq, hc]
  -- what membership in each segment means
  have inA : ∀ p ∈ a, ∃ x, (p, x) ∈ numerics (priM i) ∧ stateOf i p = .valid x ∧ p ∉ i.blacklist ∧ p ∉ i.current ∧ p ∈ i.priority := by
    intro p hp
    obtain ⟨x, hx⟩ := a1 p hp
    have hm := lookupVal_some hx
    exact ⟨x, hm, (priNum_spec hw).1 hm⟩
  have inB : ∀ p ∈ b, ∃ x, (p, x) ∈ numerics (candM i) ∧ stateOf i p = .valid x ∧ p ∉ i.blacklist ∧ p ∉ i.current ∧ p ∉ i.priority := by
    intro p hp
    obtain ⟨x, hx⟩ := b1 p hp
    have hm := lookupVal_some hx
    exact ⟨x, hm, (candNum_spec hw).1 hm⟩
  have goodOfValid : ∀ p x, stateOf i p = .valid x → p ∉ i.blacklist → good i p = true := by
    intro p x hs hb'; exact good_iff.2 ⟨by rw [hs]; rfl, hb'⟩
  have hgood : ∀ p ∈ l, good i p = true := by
    intro p hp; rw [hl] at hp
    rcases List.mem_append.1 hp with h | h
    · exact ((mem_curIds hw).1 ((hheadmem p).1 h)).2
    · rcases List.mem_append.1 h with h | h
      · obtain ⟨x, _, hs, hb', _⟩ := inA p h; exact goodOfValid p x hs hb'
      · obtain ⟨x, _, hs, hb', _⟩ := inB p h; exact goodOfValid p x hs hb'
  have hnd : l.Nodup := by
    rw [hl, List.nodup_append]
    refine ⟨hhead.symm.nodup (nodup_curIds hw), ?_, ?_⟩
    · rw [List.nodup_append]
      refine ⟨a2, b2, ?_⟩
      intro p hp q hq hpq; subst hpq
      obtain ⟨_, _, _, _, _, h1⟩ := inA p hp
      obtain ⟨_, _, _, _, _, h2⟩ := inB p hq
      exact h2 h1
    · intro p hp q hq hpq; subst hpq
      have hcur := ((mem_curIds hw).1 ((hheadmem p).1 hp)).1
      rcases List.mem_append.1 hq with h | h
      · obtain ⟨_, _, _, _, h1, _⟩ := inA p h; exact h1 hcur
      · obtain ⟨_, _, _, _, h1, _⟩ := inB p h; exact h1 hcur
  have hlen : l.length = c + k := by
    rw [hl, List.length_append, hheadlen, ← haa, ← hbb, List.take_append_drop, hrest]
  have usableOf : ∀ p x, stateOf i p = .valid x → p ∉ i.blacklist → p ∉ i.current → usable i p = true :=
    fun p x hs hb' hc' => usable_iff.2 ⟨goodOfValid p x hs hb', ⟨x, hs⟩, hc'⟩
  refine ⟨?_, ?_, ?_, ?_, ?_, ?_⟩
  · unfold cNodup; simp [hnd]
  · unfold cAdded
    simp only [List.all_eq_true, Bool.or_eq_true, List.contains_eq_mem, decide_eq_true_eq]
    intro p hp; rw [hl] at hp
    rcases List.mem_append.1 hp with h | h
    · exact Or.inl ((mem_curIds hw).1 ((hheadmem p).1 h)).1
    · rcases List.mem_append.1 h with h | h
      · obtain ⟨x, _, hs, hb', hc', _⟩ := inA p h; exact Or.inr (usableOf p x hs hb' hc')
      · obtain ⟨x, _, hs, hb', hc', _⟩ := inB p h; exact Or.inr (usableOf p x hs hb' hc')
  · unfold cKeep
    have : (((healthyCurrent i).length : Int) ≤ i.rmax) := by rw [length_healthyCurrent hw, hc]; omega
    simp only [this, if_true, List.all_eq_true, List.contains_eq_mem, decide_eq_true_eq]
    intro p hp
    have : p ∈ curIds i := (mem_curIds hw).2 (mem_healthyCurrent.1 hp)
    rw [hl]; exact List.mem_append_left _ ((hheadmem p).2 this)
  · unfold cCount
    rw [dedup_of_nodup hnd, filter_good_eq_self hgood, hlen]
    simp only [Bool.and_eq_true, decide_eq_true_eq]
    omega
  · unfold cPriority
    simp only [List.all_eq_true, Bool.or_eq_true, List.contains_eq_mem, decide_eq_true_eq,
      Bool.not_eq_true', decide_eq_false_iff_not]
    intro p hp; rw [hl] at hp
    rcases List.mem_append.1 hp with h | h
    · exact Or.inl (Or.inl ((mem_curIds hw).1 ((hheadmem p).1 h)).1)
    · rcases List.mem_append.1 h with h | h
      · obtain ⟨_, _, _, _, _, h1⟩ := inA p h; exact Or.inl (Or.inr h1)
      · -- a non-requested peer was added: then all numeric requested peers were taken
        right
        have hbne : b.length ≠ 0 := by
          intro h0; rw [List.length_eq_zero_iff] at h0; rw [h0] at h; cases h
        have hblen : b.length = k - na := by rw [← hbb, List.length_drop, hrest]
        have hnak : na < k := by omega
        have hnapn : na = (numerics (priM i)).length := by omega
        have halen : a.length = ((numerics (priM i)).map (·.1)).length := by
          rw [← haa, List.length_take, hrest, List.length_map]; omega
        have hasub : a ⊆ (numerics (priM i)).map (·.1) := by
          intro q hq; obtain ⟨x, hm, _⟩ := inA q hq; exact List.mem_map.2 ⟨_, hm, rfl⟩
        have hall := subset_of_nodup_length_le a2 hasub (by omega)
        intro q hq
        by_cases hqp : q ∈ i.priority
        · right
          rcases usable_split hw (mem_usableIds.1 hq) with ⟨_, hm⟩ | ⟨hn, _⟩
          · have : q ∈ a := hall (List.mem_map.2 ⟨_, hm, rfl⟩)
            rw [hl]; exact List.mem_append_right _ (List.mem_append_left _ this)
          · exact absurd hqp hn
        · exact Or.inl hqp
  · unfold cRank
    simp only [List.all_eq_true, Bool.or_eq_true, List.contains_eq_mem, decide_eq_true_eq, bne_iff_ne, ne_eq]
    intro p hp; rw [hl] at hp
    rcases List.mem_append.1 hp with h | h
    · exact Or.inl ((mem_curIds hw).1 ((hheadmem p).1 h)).1
    · right
      intro q hq
      rcases List.mem_append.1 h with h | h
      · obtain ⟨x, _, hs, _, _, hpp⟩ := inA p h
        rcases usable_split hw (mem_usableIds.1 hq) with ⟨_, hm⟩ | ⟨hn, _⟩
        · rcases a4 p h _ hm with h' | ⟨y, hy, hbef⟩
          · left; left; rw [hl]; exact List.mem_append_right _ (List.mem_append_left _ h')
          · right
            have := (priNum_spec hw).1 (lookupVal_some hy)
            rw [valOf_of_state this.1]; exact hbef
        · left; right; simp [hpp, hn]
      · obtain ⟨x, _, hs, _, _, hpp⟩ := inB p h
        rcases usable_split hw (mem_usableIds.1 hq) with ⟨hn, _⟩ | ⟨_, hm⟩
        · left; right; simp [hpp, hn]
        · rcases b4 p h _ hm with h' | ⟨y, hy, hbef⟩
          · left; left; rw [hl]; exact List.mem_append_right _ (List.mem_append_right _ h')
          · right
            have := (candNum_spec hw).1 (lookupVal_some hy)
            rw [valOf_of_state this.1]; exact hbef

end CV.C03
