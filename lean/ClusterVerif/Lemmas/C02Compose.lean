import ClusterVerif.Lemmas.C02

/-! Helper lemmas for the composed replica of C02 (worker + set + remote deliveries + validator gate). -/
namespace CV.C02

/-! ### destructuring the steps of the composed replica -/

theorem cstep_commit_cases {cfg : Cfg} {c c' : CSt} {out : Outcome} {r : Res}
    (hs : cstep cfg c (.loc (.commit out)) = some (c', r)) :
    (c' = { c with crashed := true } ∧ r = .silent) ∨
    (c.pend.isNil = false ∧ ∃ tm cs ph,
      c' = { (c.publish out).1 with timer := tm, curSize := cs, phase := ph } ∧ r = .hooks (c.publish out).2) := by
  simp only [cstep] at hs
  split at hs
  · cases hs
  split at hs
  · cases hs
  · split at hs
    · simp only [Option.some.injEq, Prod.mk.injEq] at hs
      exact Or.inl ⟨hs.1.symm, hs.2.symm⟩
    · rename_i hnil
      refine Or.inr ⟨by simpa using hnil, ?_⟩
      split at hs <;>
      · simp only [Option.some.injEq, Prod.mk.injEq] at hs
        exact ⟨_, _, _, hs.1.symm, hs.2.symm⟩

theorem cstep_take_cases {cfg : Cfg} {c c' : CSt} {r : Res}
    (hs : cstep cfg c (.loc (.take true)) = some (c', r)) :
    ∃ o q tm ph, c.queue = o :: q ∧
      c' = { c with queue := q, timer := tm, pend := c.pend.add c.rep o, curSize := c.curSize + 1,
                    batch := c.batch ++ [o], phase := ph } := by
  simp only [cstep, Bool.not_true, Bool.false_eq_true, if_false] at hs
  split at hs
  · cases hs
  split at hs
  · rename_i o q hph hq
    split at hs <;>
    · simp only [Option.some.injEq, Prod.mk.injEq] at hs
      exact ⟨o, q, _, _, hq, hs.1.symm⟩
  · cases hs

theorem cstep_timer_cases {cfg : Cfg} {c c' : CSt} {r : Res}
    (hs : cstep cfg c (.loc .timerFire) = some (c', r)) :
    c' = { c with timer := false, phase := .due true } := by
  simp only [cstep] at hs
  repeat' split at hs
  all_goals first
    | (cases hs; done)
    | (simp only [Option.some.injEq, Prod.mk.injEq] at hs; exact hs.1.symm)

theorem cstep_log_cases {cfg : Cfg} {c c' : CSt} {o : BOp} {r : Res}
    (hs : cstep cfg c (.loc (.log o)) = some (c', r)) :
    (c' = { c with queue := c.queue ++ [o] } ∧ r = .accepted) ∨ (c' = c ∧ r = .rejected) := by
  simp only [cstep] at hs
  split at hs
  · simp only [Option.some.injEq, Prod.mk.injEq] at hs; exact Or.inl ⟨hs.1.symm, hs.2.symm⟩
  · simp only [Option.some.injEq, Prod.mk.injEq] at hs; exact Or.inr ⟨hs.1.symm, hs.2.symm⟩

theorem cstep_take_false_cases {cfg : Cfg} {c c' : CSt} {r : Res}
    (hs : cstep cfg c (.loc (.take false)) = some (c', r)) :
    ∃ o q tm, c.queue = o :: q ∧ c' = { c with queue := q, timer := tm } := by
  simp only [cstep, Bool.not_false, if_true] at hs
  split at hs
  · cases hs
  split at hs
  · rename_i o q hph hq
    simp only [Option.some.injEq, Prod.mk.injEq] at hs
    exact ⟨o, q, _, hq, hs.1.symm⟩
  · cases hs

theorem crun_cons {cfg : Cfg} {c c2 : CSt} {e : CEv} {es : List CEv} {rs : List Res}
    (h : crun cfg c (e :: es) = some (c2, rs)) :
    ∃ c1 r rs', cstep cfg c e = some (c1, r) ∧ crun cfg c1 es = some (c2, rs') ∧ rs = r :: rs' := by
  simp only [crun] at h
  split at h
  · cases h
  · rename_i c1 r hstep
    split at h
    · cases h
    · rename_i c2' rs' hrun
      simp only [Option.some.injEq, Prod.mk.injEq] at h
      exact ⟨c1, r, rs', hstep, by rw [hrun, h.1], h.2.symm⟩

theorem cstep_me {cfg : Cfg} {c c' : CSt} {ev : CEv} {r : Res} (hs : cstep cfg c ev = some (c', r)) : c'.me = c.me := by
  cases ev with
  | recv ds =>
    simp only [cstep, Option.some.injEq, Prod.mk.injEq] at hs
    obtain ⟨rfl, _⟩ := hs; rfl
  | loc e =>
    cases e with
    | log o => rcases cstep_log_cases hs with ⟨rfl, _⟩ | ⟨rfl, _⟩ <;> rfl
    | timerFire => have := cstep_timer_cases hs; subst this; rfl
    | take b =>
      cases b with
      | false => obtain ⟨o, q, tm, _, rfl⟩ := cstep_take_false_cases hs; rfl
      | true => obtain ⟨o, q, tm, ph, _, rfl⟩ := cstep_take_cases hs; rfl
    | commit out =>
      rcases cstep_commit_cases hs with ⟨rfl, _⟩ | ⟨_, tm, cs, ph, rfl, _⟩
      · rfl
      · show (c.publish out).1.me = c.me
        cases out <;> rfl

theorem crun_sched_me (cfg : Cfg) (evs : List CEv) : ∀ (c c' : CSt) (rs : List Res),
    crun cfg c evs = some (c', rs) → c'.me = c.me := by
  induction evs with
  | nil =>
    intro c c' rs hr
    simp only [crun, Option.some.injEq, Prod.mk.injEq] at hr
    obtain ⟨rfl, _⟩ := hr; rfl
  | cons ev t ih =>
    intro c c' rs hr
    obtain ⟨c1, r, rs', hstep, hrun, _⟩ := crun_cons hr
    exact (ih c1 c' rs' hrun).trans (cstep_me hstep)

/-! ### (a) the delta stream carries the accepted operations in submission order -/

/-- the operations LogPin / LogUnpin accepted on the composed replica, in submission order -/
def cAccepted : List CEv → List Res → List BOp
  | .loc (.log o) :: es, .accepted :: rs => o :: cAccepted es rs
  | _ :: es, _ :: rs => cAccepted es rs
  | _, _ => []

theorem elemsOf_snoc (ops : List BOp) (o : BOp) :
    elemsOf (ops ++ [o]) = match o with
      | .put k v => elemsOf ops ++ [(k, v)]
      | .del k => (elemsOf ops).filter (fun e => e.1 != k) := by
  cases o <;> simp only [elemsOf, List.foldl_append, List.foldl_cons, List.foldl_nil]

theorem add_elems (p : Pend) (r : Rep) (o : BOp) :
    (p.add r o).elems = match o with
      | .put k v => p.elems ++ [(k, v)]
      | .del k => p.elems.filter (fun e => e.1 != k) := by
  cases o <;> rfl

/-- what the stream of a replica looks like -/
structure StreamInv (c : CSt) : Prop where
  elems : c.out.map (·.elems) = c.done.map elemsOf
  pendE : c.pend.elems = elemsOf c.batch
  prios : (c.out.map (·.prio)).Pairwise (· < ·)
  below : ∀ d ∈ c.out, d.prio ≤ c.height
  ids : ∃ cs : List Nat, c.out.map (·.id) = cs.map c.me.mkId ∧ cs.Pairwise (· < ·) ∧ ∀ n ∈ cs, n < c.ctr

theorem StreamInv.congr {c c' : CSt} (hi : StreamInv c) (h1 : c'.me = c.me) (h2 : c'.out = c.out)
    (h3 : c'.done = c.done) (h4 : c'.pend = c.pend) (h5 : c'.batch = c.batch) (h6 : c.height ≤ c'.height)
    (h7 : c.ctr ≤ c'.ctr) : StreamInv c' := by
  refine ⟨by rw [h2, h3]; exact hi.elems, by rw [h4, h5]; exact hi.pendE, by rw [h2]; exact hi.prios, ?_, ?_⟩
  · intro d hd; rw [h2] at hd; exact Nat.le_trans (hi.below d hd) h6
  · obtain ⟨cs, e1, e2, e3⟩ := hi.ids
    exact ⟨cs, by rw [h2, h1]; exact e1, e2, fun n hn => Nat.lt_of_lt_of_le (e3 n hn) h7⟩

theorem streamInv_publish (c : CSt) (hi : StreamInv c) (out : Outcome) : StreamInv (c.publish out).1 := by
  cases out with
  | failBlock => exact hi
  | failTombs => exact hi
  | failElems => exact hi.congr rfl rfl rfl rfl rfl (Nat.le_refl _) (Nat.le_succ _)
  | failHeads => exact hi.congr rfl rfl rfl rfl rfl (Nat.le_refl _) (Nat.le_succ _)
  | ok =>
    obtain ⟨cs, e1, e2, e3⟩ := hi.ids
    refine ⟨?_, rfl, ?_, ?_, ⟨cs ++ [c.ctr], ?_, ?_, ?_⟩⟩
    · simp only [CSt.publish, List.map_append, List.map_cons, List.map_nil, hi.elems]
      rw [← hi.pendE]; rfl
    · simp only [CSt.publish, List.map_append, List.map_cons, List.map_nil]
      rw [List.pairwise_append]
      refine ⟨hi.prios, List.pairwise_singleton _ _, ?_⟩
      intro a ha b hb
      simp only [List.mem_singleton] at hb
      subst hb
      obtain ⟨d, hd, rfl⟩ := List.mem_map.1 ha
      exact Nat.lt_succ_of_le (hi.below d hd)
    · intro d hd
      simp only [CSt.publish, List.mem_append, List.mem_singleton] at hd
      rcases hd with hd | rfl
      · exact Nat.le_succ_of_le (hi.below d hd)
      · exact Nat.le_refl _
    · simp only [CSt.publish, List.map_append, List.map_cons, List.map_nil, e1]; rfl
    · rw [List.pairwise_append]
      refine ⟨e2, List.pairwise_singleton _ _, ?_⟩
      intro a ha b hb
      simp only [List.mem_singleton] at hb
      subst hb
      exact e3 a ha
    · intro n hn
      simp only [List.mem_append, List.mem_singleton] at hn
      rcases hn with hn | rfl
      · exact Nat.lt_succ_of_lt (e3 n hn)
      · exact Nat.lt_succ_self _

/-- the bookkeeping of accepted operations across a publish attempt -/
theorem publish_ops (c : CSt) (out : Outcome) :
    (c.publish out).1.done.flatten ++ (c.publish out).1.batch = c.done.flatten ++ c.batch ∧
    (c.publish out).1.queue = c.queue := by
  cases out <;> simp [CSt.publish]

theorem cstep_stream (cfg : Cfg) (c c' : CSt) (ev : CEv) (r : Res) (hi : StreamInv c)
    (hne : ev ≠ .loc (.take false)) (hs : cstep cfg c ev = some (c', r)) :
    StreamInv c' ∧
    c'.done.flatten ++ c'.batch ++ c'.queue = c.done.flatten ++ c.batch ++ c.queue ++ cAccepted [ev] [r] := by
  cases ev with
  | recv ds =>
    simp only [cstep, Option.some.injEq, Prod.mk.injEq] at hs
    obtain ⟨rfl, rfl⟩ := hs
    exact ⟨hi.congr rfl rfl rfl rfl rfl (Nat.le_max_left _ _) (Nat.le_refl _), by simp [cAccepted]⟩
  | loc e =>
    cases e with
    | log o =>
      rcases cstep_log_cases hs with ⟨rfl, rfl⟩ | ⟨rfl, rfl⟩
      · exact ⟨hi.congr rfl rfl rfl rfl rfl (Nat.le_refl _) (Nat.le_refl _), by simp [cAccepted]⟩
      · exact ⟨hi, by simp [cAccepted]⟩
    | timerFire =>
      have := cstep_timer_cases hs
      subst this
      exact ⟨hi.congr rfl rfl rfl rfl rfl (Nat.le_refl _) (Nat.le_refl _), by simp [cAccepted]⟩
    | take b =>
      cases b with
      | false => exact absurd rfl hne
      | true =>
        obtain ⟨o, q, tm, ph, hq, rfl⟩ := cstep_take_cases hs
        refine ⟨⟨hi.elems, ?_, hi.prios, hi.below, hi.ids⟩, ?_⟩
        · show (c.pend.add c.rep o).elems = elemsOf (c.batch ++ [o])
          rw [elemsOf_snoc, add_elems, hi.pendE]
        · simp [cAccepted, hq]
    | commit out =>
      rcases cstep_commit_cases hs with ⟨rfl, rfl⟩ | ⟨_, tm, cs, ph, rfl, rfl⟩
      · exact ⟨hi.congr rfl rfl rfl rfl rfl (Nat.le_refl _) (Nat.le_refl _), by simp [cAccepted]⟩
      · have hp := streamInv_publish c hi out
        have ho := publish_ops c out
        refine ⟨hp.congr rfl rfl rfl rfl rfl (Nat.le_refl _) (Nat.le_refl _), ?_⟩
        show (c.publish out).1.done.flatten ++ (c.publish out).1.batch ++ (c.publish out).1.queue = _
        rw [ho.1, ho.2]; simp [cAccepted]

theorem cAccepted_cons (ev : CEv) (evs : List CEv) (r : Res) (rs : List Res) :
    cAccepted (ev :: evs) (r :: rs) = cAccepted [ev] [r] ++ cAccepted evs rs := by
  cases ev with
  | recv ds => simp [cAccepted]
  | loc e => cases e <;> cases r <;> simp [cAccepted]

theorem crun_stream (cfg : Cfg) (evs : List CEv) : ∀ (c c' : CSt) (rs : List Res),
    StreamInv c → (∀ e ∈ evs, e ≠ CEv.loc (.take false)) → crun cfg c evs = some (c', rs) →
    StreamInv c' ∧
    c'.done.flatten ++ c'.batch ++ c'.queue = c.done.flatten ++ c.batch ++ c.queue ++ cAccepted evs rs := by
  induction evs with
  | nil =>
    intro c c' rs hi _ hr
    simp only [crun, Option.some.injEq, Prod.mk.injEq] at hr
    obtain ⟨rfl, rfl⟩ := hr
    exact ⟨hi, by simp [cAccepted]⟩
  | cons ev t ih =>
    intro c c' rs hi hne hr
    obtain ⟨c1, r, rs', hstep, hrun, rfl⟩ := crun_cons hr
    obtain ⟨hi1, h1⟩ := cstep_stream cfg c c1 ev r hi (hne ev List.mem_cons_self) hstep
    obtain ⟨hi2, h2⟩ := ih c1 c' rs' hi1 (fun e he => hne e (List.mem_cons_of_mem _ he)) hrun
    refine ⟨hi2, ?_⟩
    rw [h2, h1, cAccepted_cons ev t r rs']; simp only [List.append_assoc]

theorem streamInv_init (me : Who) : StreamInv { me := me } := by
  refine ⟨rfl, rfl, List.Pairwise.nil, ?_, ⟨[], rfl, List.Pairwise.nil, ?_⟩⟩
  · intro d h; cases h
  · intro n h; cases h

/-! ### (c) the schedule a composed replica has executed -/

theorem mergeWalk_fst (ds : List Delta) : ∀ (r : Rep) (h : List Hook),
    (ds.foldl (fun (acc : Rep × List Hook) d => let m := acc.1.merge d; (m.1, acc.2 ++ m.2)) (r, h)).1 = mergeAll ds r := by
  induction ds with
  | nil => intro r h; rfl
  | cons d t ih => intro r h; simp only [List.foldl_cons, mergeAll]; exact ih _ _

/-- outcomes of a publish that leave no partial trace in the store -/
def Outcome.clean : Outcome → Bool
  | .ok | .failBlock | .failTombs => true
  | _ => false

def CEv.clean : CEv → Bool
  | .loc (.commit out) => out.clean
  | _ => true

structure SchedInv (c : CSt) : Prop where
  rep : c.rep = runPh c.sched {}
  sound : ∀ ph ∈ c.sched, ∃ d ∈ c.out ++ c.got, ph = .T d ∨ ph = .E d
  complete : ∀ d ∈ c.out ++ c.got, Ph.T d ∈ c.sched ∧ Ph.E d ∈ c.sched
  prio : ∀ d ∈ c.out, 1 ≤ d.prio

theorem SchedInv.congr {c c' : CSt} (hi : SchedInv c) (h1 : c'.rep = c.rep) (h2 : c'.sched = c.sched)
    (h3 : c'.out = c.out) (h4 : c'.got = c.got) : SchedInv c' :=
  ⟨by rw [h1, h2]; exact hi.rep, by rw [h2, h3, h4]; exact hi.sound, by rw [h2, h3, h4]; exact hi.complete,
   by rw [h3]; exact hi.prio⟩

theorem schedInv_publish (c : CSt) (hi : SchedInv c) (out : Outcome) (hc : out.clean = true) :
    SchedInv (c.publish out).1 := by
  cases out with
  | failBlock => exact hi
  | failTombs => exact hi
  | failElems => cases hc
  | failHeads => cases hc
  | ok =>
    refine ⟨?_, ?_, ?_, ?_⟩
    · simp only [CSt.publish]
      rw [runPh_append, ← hi.rep]; rfl
    · intro ph hph
      simp only [CSt.publish, List.mem_append, List.mem_cons, List.not_mem_nil, or_false] at hph ⊢
      rcases hph with hph | rfl | rfl
      · obtain ⟨d, hd, h⟩ := hi.sound ph hph
        rw [List.mem_append] at hd
        exact ⟨d, hd.elim (fun x => Or.inl (Or.inl x)) Or.inr, h⟩
      · exact ⟨c.delta, Or.inl (Or.inr rfl), Or.inl rfl⟩
      · exact ⟨c.delta, Or.inl (Or.inr rfl), Or.inr rfl⟩
    · intro d hd
      simp only [CSt.publish, List.mem_append, List.mem_cons, List.not_mem_nil, or_false] at hd ⊢
      rcases hd with (hd | rfl) | hd
      · have := hi.complete d (List.mem_append_left _ hd); exact ⟨Or.inl this.1, Or.inl this.2⟩
      · exact ⟨Or.inr (Or.inl rfl), Or.inr (Or.inr rfl)⟩
      · have := hi.complete d (List.mem_append_right _ hd); exact ⟨Or.inl this.1, Or.inl this.2⟩
    · intro d hd
      simp only [CSt.publish, List.mem_append, List.mem_singleton] at hd
      rcases hd with hd | rfl
      · exact hi.prio d hd
      · exact Nat.succ_le_succ (Nat.zero_le _)

theorem cstep_sched (cfg : Cfg) (c c' : CSt) (ev : CEv) (r : Res) (hi : SchedInv c) (hc : ev.clean = true)
    (hs : cstep cfg c ev = some (c', r)) : SchedInv c' ∧ (∀ d ∈ c.out, d ∈ c'.out) ∧ c'.me = c.me := by
  cases ev with
  | recv ds =>
    simp only [cstep, Option.some.injEq, Prod.mk.injEq] at hs
    obtain ⟨rfl, rfl⟩ := hs
    refine ⟨⟨?_, ?_, ?_, hi.prio⟩, fun d hd => hd, rfl⟩
    · show (mergeWalk ds c.rep).1 = runPh (c.sched ++ phasesOf ds) {}
      rw [runPh_append, ← hi.rep, ← mergeAll_eq_runPh]; exact mergeWalk_fst ds _ _
    · intro ph hph
      simp only [List.mem_append] at hph ⊢
      rcases hph with hph | hph
      · obtain ⟨d, hd, h⟩ := hi.sound ph hph
        rw [List.mem_append] at hd
        exact ⟨d, hd.elim Or.inl (fun x => Or.inr (Or.inl x)), h⟩
      · cases ph with
        | T d => exact ⟨d, Or.inr (Or.inr ((mem_phasesOf_T ds d).1 hph)), Or.inl rfl⟩
        | E d => exact ⟨d, Or.inr (Or.inr ((mem_phasesOf_E ds d).1 hph)), Or.inr rfl⟩
    · intro d hd
      simp only [List.mem_append] at hd ⊢
      rcases hd with hd | hd | hd
      · have := hi.complete d (List.mem_append_left _ hd); exact ⟨Or.inl this.1, Or.inl this.2⟩
      · have := hi.complete d (List.mem_append_right _ hd); exact ⟨Or.inl this.1, Or.inl this.2⟩
      · exact ⟨Or.inr ((mem_phasesOf_T ds d).2 hd), Or.inr ((mem_phasesOf_E ds d).2 hd)⟩
  | loc e =>
    cases e with
    | log o =>
      rcases cstep_log_cases hs with ⟨rfl, rfl⟩ | ⟨rfl, rfl⟩
      · exact ⟨hi.congr rfl rfl rfl rfl, fun d hd => hd, rfl⟩
      · exact ⟨hi, fun d hd => hd, rfl⟩
    | timerFire =>
      have := cstep_timer_cases hs
      subst this
      exact ⟨hi.congr rfl rfl rfl rfl, fun d hd => hd, rfl⟩
    | take b =>
      cases b with
      | false =>
        obtain ⟨o, q, tm, _, rfl⟩ := cstep_take_false_cases hs
        exact ⟨hi.congr rfl rfl rfl rfl, fun d hd => hd, rfl⟩
      | true =>
        obtain ⟨o, q, tm, ph, _, rfl⟩ := cstep_take_cases hs
        exact ⟨hi.congr rfl rfl rfl rfl, fun d hd => hd, rfl⟩
    | commit out =>
      rcases cstep_commit_cases hs with ⟨rfl, rfl⟩ | ⟨_, tm, cs, ph, rfl, rfl⟩
      · exact ⟨hi.congr rfl rfl rfl rfl, fun d hd => hd, rfl⟩
      · refine ⟨(schedInv_publish c hi out hc).congr rfl rfl rfl rfl, ?_, ?_⟩
        · intro d hd
          show d ∈ (c.publish out).1.out
          cases out <;> simp [CSt.publish, hd]
        · show (c.publish out).1.me = c.me
          cases out <;> rfl

theorem crun_sched (cfg : Cfg) (evs : List CEv) : ∀ (c c' : CSt) (rs : List Res),
    SchedInv c → (∀ e ∈ evs, CEv.clean e = true) → crun cfg c evs = some (c', rs) →
    SchedInv c' ∧ (∀ d ∈ c.out, d ∈ c'.out) ∧ c'.me = c.me := by
  induction evs with
  | nil =>
    intro c c' rs hi _ hr
    simp only [crun, Option.some.injEq, Prod.mk.injEq] at hr
    obtain ⟨rfl, rfl⟩ := hr
    exact ⟨hi, fun d hd => hd, rfl⟩
  | cons ev t ih =>
    intro c c' rs hi hc hr
    obtain ⟨c1, r, rs', hstep, hrun, rfl⟩ := crun_cons hr
    obtain ⟨hi1, h1, m1⟩ := cstep_sched cfg c c1 ev r hi (hc ev List.mem_cons_self) hstep
    obtain ⟨hi2, h2, m2⟩ := ih c1 c' rs' hi1 (fun e he => hc e (List.mem_cons_of_mem _ he)) hrun
    exact ⟨hi2, fun d hd => h2 d (h1 d hd), m2.trans m1⟩

theorem schedInv_init (me : Who) : SchedInv { me := me } := by
  refine ⟨rfl, ?_, ?_, ?_⟩ <;> intro d h <;> cases h

/-- two composed replicas that have received each other's whole stream, and nothing else, have executed
    the same set of phases -/
theorem sched_same_events {a b : CSt} (ha : SchedInv a) (hb : SchedInv b)
    (hab : ∀ d, d ∈ a.got ↔ d ∈ b.out) (hba : ∀ d, d ∈ b.got ↔ d ∈ a.out) (ph : Ph) :
    ph ∈ a.sched ↔ ph ∈ b.sched := by
  have key : ∀ d, d ∈ a.out ++ a.got ↔ d ∈ b.out ++ b.got := by
    intro d; simp only [List.mem_append, hab, hba]; exact Or.comm
  constructor
  · intro h
    obtain ⟨d, hd, rfl | rfl⟩ := ha.sound ph h
    · exact (hb.complete d ((key d).1 hd)).1
    · exact (hb.complete d ((key d).1 hd)).2
  · intro h
    obtain ⟨d, hd, rfl | rfl⟩ := hb.sound ph h
    · exact (ha.complete d ((key d).2 hd)).1
    · exact (ha.complete d ((key d).2 hd)).2

/-! ### batch boundaries -/

def CEv.plain : CEv → Bool
  | .loc (.log _) | .loc (.take true) | .loc .timerFire | .loc (.commit .ok) => true
  | _ => false

theorem runBatches_snoc (me : Who) (bs : List (List BOp)) (b : List BOp) :
    ∀ acc, runBatches me (bs ++ [b]) acc = runBatches me [b] (runBatches me bs acc) := by
  induction bs with
  | nil => intro acc; rfl
  | cons x t ih => intro ⟨⟨r, h, n⟩, hk⟩; simp only [List.cons_append, runBatches]; exact ih _

/-- state and tracker calls so far are those of `runBatches` over the committed batches -/
structure BndInv (c : CSt) (H : List Hook) : Prop where
  st : runBatches c.me c.done (({}, 0, 0), []) = ((c.rep, c.height, c.ctr), H)
  pend : c.pend.elems = (c.batch.foldl (fun p o => p.add c.rep o) ({} : Pend)).elems ∧
         c.pend.tombs = (c.batch.foldl (fun p o => p.add c.rep o) ({} : Pend)).tombs

theorem cstep_bnd (cfg : Cfg) (c c' : CSt) (ev : CEv) (r : Res) (H : List Hook) (hi : BndInv c H)
    (hp : ev.plain = true) (hs : cstep cfg c ev = some (c', r)) : BndInv c' (H ++ hooksOf [r]) ∧ c'.me = c.me := by
  cases ev with
  | recv ds => cases hp
  | loc e =>
    cases e with
    | log o =>
      rcases cstep_log_cases hs with ⟨rfl, rfl⟩ | ⟨rfl, rfl⟩
      · refine ⟨?_, rfl⟩
        simp only [hooksOf, List.append_nil]; exact ⟨hi.st, hi.pend⟩
      · refine ⟨?_, rfl⟩
        simp only [hooksOf, List.append_nil]; exact ⟨hi.st, hi.pend⟩
    | timerFire =>
      have hr : r = .silent := by
        simp only [cstep] at hs
        repeat' split at hs
        all_goals first
          | (cases hs; done)
          | (simp only [Option.some.injEq, Prod.mk.injEq] at hs; exact hs.2.symm)
      have := cstep_timer_cases hs
      subst this
      subst hr
      refine ⟨?_, rfl⟩
      simp only [hooksOf, List.append_nil]; exact ⟨hi.st, hi.pend⟩
    | take b =>
      cases b with
      | false => cases hp
      | true =>
        have hr : r = .silent := by
          simp only [cstep, Bool.not_true, Bool.false_eq_true, if_false] at hs
          repeat' split at hs
          all_goals first
            | (cases hs; done)
            | (simp only [Option.some.injEq, Prod.mk.injEq] at hs; exact hs.2.symm)
        obtain ⟨o, q, tm, ph, _, rfl⟩ := cstep_take_cases hs
        subst hr
        refine ⟨?_, rfl⟩
        simp only [hooksOf, List.append_nil]
        refine ⟨hi.st, ?_⟩
        show (c.pend.add c.rep o).elems = ((c.batch ++ [o]).foldl (fun p o => p.add c.rep o) ({} : Pend)).elems ∧
             (c.pend.add c.rep o).tombs = ((c.batch ++ [o]).foldl (fun p o => p.add c.rep o) ({} : Pend)).tombs
        simp only [List.foldl_append, List.foldl_cons, List.foldl_nil]
        cases o with
        | put k v => simp only [Pend.add, hi.pend.1, hi.pend.2]; exact ⟨trivial, trivial⟩
        | del k => simp only [Pend.add, hi.pend.1, hi.pend.2]; exact ⟨trivial, trivial⟩
    | commit out =>
      cases out with
      | ok =>
        rcases cstep_commit_cases hs with ⟨rfl, rfl⟩ | ⟨_, tm, cs, ph, rfl, rfl⟩
        · refine ⟨?_, rfl⟩
          simp only [hooksOf, List.append_nil]; exact ⟨hi.st, hi.pend⟩
        · refine ⟨⟨?_, ⟨rfl, rfl⟩⟩, rfl⟩
          show runBatches c.me (c.done ++ [c.batch]) (({}, 0, 0), []) = _
          rw [runBatches_snoc, hi.st]
          simp only [runBatches, hooksOf, List.append_nil, CSt.publish, CSt.delta, hi.pend.1, hi.pend.2]
      | failBlock => cases hp
      | failTombs => cases hp
      | failElems => cases hp
      | failHeads => cases hp

theorem hooksOf_cons (r : Res) (rs : List Res) : hooksOf (r :: rs) = hooksOf [r] ++ hooksOf rs := by
  cases r <;> simp [hooksOf]

theorem crun_bnd (cfg : Cfg) (evs : List CEv) : ∀ (c c' : CSt) (rs : List Res) (H : List Hook),
    BndInv c H → (∀ e ∈ evs, CEv.plain e = true) → crun cfg c evs = some (c', rs) →
    BndInv c' (H ++ hooksOf rs) ∧ c'.me = c.me := by
  induction evs with
  | nil =>
    intro c c' rs H hi _ hr
    simp only [crun, Option.some.injEq, Prod.mk.injEq] at hr
    obtain ⟨rfl, rfl⟩ := hr
    refine ⟨?_, rfl⟩
    simp only [hooksOf, List.append_nil]; exact hi
  | cons ev t ih =>
    intro c c' rs H hi hp hr
    obtain ⟨c1, r, rs', hstep, hrun, rfl⟩ := crun_cons hr
    obtain ⟨hi1, m1⟩ := cstep_bnd cfg c c1 ev r H hi (hp ev List.mem_cons_self) hstep
    obtain ⟨hi2, m2⟩ := ih c1 c' rs' _ hi1 (fun e he => hp e (List.mem_cons_of_mem _ he)) hrun
    rw [hooksOf_cons, ← List.append_assoc]
    exact ⟨hi2, m2.trans m1⟩

theorem bndInv_init (me : Who) : BndInv { me := me } [] := ⟨rfl, rfl, rfl⟩

theorem RepInv_le {r : Rep} {h n m : Nat} (hi : RepInv r h n) (hnm : n ≤ m) : RepInv r h m :=
  ⟨hi.prio, hi.hv, fun e he => Nat.lt_of_lt_of_le (hi.eid e he) hnm, fun t ht => Nat.lt_of_lt_of_le (hi.tid t ht) hnm⟩

theorem mkId_succ (me : Who) (hs : 0 < me.stride) (n : Nat) : me.mkId n + 1 ≤ me.mkId (n + 1) := by
  show n * me.stride + me.self + 1 ≤ (n + 1) * me.stride + me.self
  rw [Nat.add_mul, Nat.one_mul]; omega

/-- the pinset after any sequence of batches is the replay of their operations in order -/
theorem runBatches_view (me : Who) (hs : 0 < me.stride) (bs : List (List BOp)) :
    ∀ (r : Rep) (h n : Nat) (hk : List Hook) (f : Key → Option Val), RepInv r h (me.mkId n) → (∀ k, r.viewAt k = f k) →
      ∀ k, (runBatches me bs ((r, h, n), hk)).1.1.viewAt k = replayAt bs.flatten f k := by
  induction bs with
  | nil => intro r h n hk f _ hf k; exact hf k
  | cons b t ih =>
    intro r h n hk f hi hf k
    simp only [runBatches, List.flatten_cons, replayAt_append]
    have hfold := fold_add_formula r (me.mkId n) hi.eid b {} r.viewAt (fun t ht => by cases ht) (viewFormula_empty r)
    apply ih
    · exact RepInv_le (RepInv_merge hi _ hfold.1) (mkId_succ me hs n)
    · intro k'
      have := (viewAfter_eq_formula r _ h (me.mkId n) hi hfold.1 k').trans (hfold.2 k')
      simp only [viewAfter] at this
      rw [this]
      congr 1
      funext x; exact hf x

/-! ### the validator gate -/

theorem gstep_forwarder (cfg : Cfg) (g : GSt) (f1 f2 s : Nat) (ds : List Delta) :
    gstep cfg g (.msg f1 s ds) = gstep cfg g (.msg f2 s ds) := rfl

theorem gstep_authored (cfg : Cfg) (g : GSt) (e : GEv) : gstep cfg g e.authored = gstep cfg g e := by
  cases e <;> rfl

theorem grun_authored (cfg : Cfg) (evs : List GEv) : ∀ g, grun cfg g (evs.map GEv.authored) = grun cfg g evs := by
  induction evs with
  | nil => intro g; rfl
  | cons e t ih =>
    intro g
    simp only [List.map_cons, grun, gstep_authored]
    cases gstep cfg g e with
    | none => rfl
    | some g1 => exact ih g1

theorem grun_passing (cfg : Cfg) (evs : List GEv) : ∀ g, grun cfg g (passing g.t evs) = grun cfg g evs := by
  induction evs with
  | nil => intro g; rfl
  | cons e t ih =>
    intro g
    cases e with
    | loc e =>
      simp only [passing, grun]
      cases hg : gstep cfg g (.loc e) with
      | none => rfl
      | some g1 =>
        have : g1.t = g.t := by
          simp only [gstep, Option.map_eq_some_iff] at hg
          obtain ⟨p, _, rfl⟩ := hg; rfl
        simp only []
        rw [← this]; exact ih g1
    | trust p =>
      simp only [passing, grun, gstep]
      exact ih { g with t := { g.t with trusted := p :: g.t.trusted } }
    | distrust p =>
      simp only [passing, grun, gstep]
      exact ih { g with t := { g.t with trusted := g.t.trusted.filter (· != p) } }
    | msg fw s ds =>
      simp only [passing]
      by_cases htr : g.t.isTrusted s = true
      · simp only [htr, if_true, grun]
        cases hg : gstep cfg g (.msg fw s ds) with
        | none => rfl
        | some g1 =>
          have : g1.t = g.t := by
            simp only [gstep, validate, htr, if_true, Option.map_eq_some_iff] at hg
            obtain ⟨p, _, rfl⟩ := hg; rfl
          simp only []
          rw [← this]; exact ih g1
      · have hf : g.t.isTrusted s = false := by simpa using htr
        simp only [hf, Bool.false_eq_true, if_false, grun, gstep, validate]
        exact ih g

/-! ### the blockstore: which deltas a replica really merges -/

theorem handleAll_spec (l : List Delta) : ∀ (s : KRep), (∀ d ∈ l, ∀ d' ∈ l, d.id = d'.id → d = d') →
    ∃ m, (handleAll l s).rep = mergeAll m s.rep ∧ (∀ d ∈ m, d ∈ l) ∧ (∀ d ∈ l, d ∈ m ∨ d.id ∈ s.known) := by
  induction l with
  | nil =>
    intro s _
    refine ⟨[], rfl, ?_, ?_⟩ <;> intro d h <;> cases h
  | cons d t ih =>
    intro s hinj
    have hinjt : ∀ a ∈ t, ∀ b ∈ t, a.id = b.id → a = b :=
      fun a ha b hb => hinj a (List.mem_cons_of_mem _ ha) b (List.mem_cons_of_mem _ hb)
    by_cases hk : s.known.contains d.id = true
    · obtain ⟨m, h1, h2, h3⟩ := ih s hinjt
      refine ⟨m, ?_, fun x hx => List.mem_cons_of_mem _ (h2 x hx), ?_⟩
      · simp only [handleAll, List.foldl_cons, KRep.handle, hk, if_true]; exact h1
      · intro x hx
        rcases List.mem_cons.1 hx with rfl | hx
        · exact Or.inr (by simpa using hk)
        · exact h3 x hx
    · obtain ⟨m, h1, h2, h3⟩ := ih { rep := (s.rep.merge d).1, known := d.id :: s.known } hinjt
      refine ⟨d :: m, ?_, ?_, ?_⟩
      · simp only [handleAll, List.foldl_cons, KRep.handle, hk]; exact h1
      · intro x hx
        rcases List.mem_cons.1 hx with rfl | hx
        · exact List.mem_cons_self
        · exact List.mem_cons_of_mem _ (h2 x hx)
      · intro x hx
        rcases List.mem_cons.1 hx with rfl | hx
        · exact Or.inl List.mem_cons_self
        · rcases h3 x hx with h | h
          · exact Or.inl (List.mem_cons_of_mem _ h)
          · rcases List.mem_cons.1 h with h | h
            · have := hinj x (List.mem_cons_of_mem _ hx) d List.mem_cons_self h
              subst this
              exact Or.inl List.mem_cons_self
            · exact Or.inr h

/-- from an empty blockstore a replica merges exactly the deltas delivered, each once -/
theorem handleAll_fresh (l : List Delta) (hinj : ∀ d ∈ l, ∀ d' ∈ l, d.id = d'.id → d = d') :
    ∃ m, (handleAll l {}).rep = mergeAll m {} ∧ ∀ d, d ∈ m ↔ d ∈ l := by
  obtain ⟨m, h1, h2, h3⟩ := handleAll_spec l {} hinj
  refine ⟨m, h1, fun d => ⟨h2 d, fun hd => ?_⟩⟩
  rcases h3 d hd with h | h
  · exact h
  · cases h

end CV.C02
