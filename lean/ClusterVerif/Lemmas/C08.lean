import ClusterVerif.Spec.C08
import Mathlib.Data.List.Basic
import Mathlib.Data.List.Nodup
import Mathlib.Data.List.Perm.Basic
import Mathlib.Tactic.IntervalCases
/-! C08 — helper lemmas for Props/C08. -/
namespace CV.C08
theorem wrap32_id (i : Int) (h : inInt32 i = true) : wrap32 i = i := by
  simp only [inInt32, Bool.and_eq_true] at h
  have h1 := of_decide_eq_true h.1
  have h2 := of_decide_eq_true h.2
  unfold wrap32 two31 two32 at *
  omega

theorem toI64_toU64 (s : Int) (h1 : -two63 ≤ s) (h2 : s < two63) : toI64 (toU64 s) = s := by
  unfold toI64 toU64 two63 two64 at *
  have : (0:Int) ≤ s % 18446744073709551616 := Int.emod_nonneg _ (by decide)
  rw [Int.toNat_of_nonneg this]
  omega

theorem pow_log (t : Nat) (h : pinTypes.contains t = true) : 2 ^ convertPinType t = t := by
  simp [pinTypes] at h
  rcases h with h | h | h | h | h <;> subst h <;> decide
theorem toU64_pos (s : Int) (h1 : -two63 ≤ s) (h2 : s < two63) : (toU64 s > 0) ↔ s ≠ 0 := by
  unfold toU64 two63 two64 at *
  have : (0:Int) ≤ s % 18446744073709551616 := Int.emod_nonneg _ (by decide)
  constructor
  · intro h e; subst e; simp at h
  · intro h; 
    have : 0 < s % 18446744073709551616 := by omega
    omega

theorem expiry_rt (t : Time) (h1 : -two63 ≤ t.sec) (h2 : t.sec < two63) :
    (if (if t.noExpiry then 0 else toU64 t.sec) > 0 then (⟨toI64 (if t.noExpiry then 0 else toU64 t.sec), 0⟩ : Time) else Time.zero) = truncExpiry t := by
  unfold truncExpiry
  by_cases hn : t.noExpiry = true
  · simp [hn]
  · simp only [hn, Bool.false_eq_true, if_false, Bool.false_or]
    by_cases hs : t.sec = 0
    · have : ¬ (toU64 t.sec > 0) := by rw [toU64_pos _ h1 h2]; simp [hs]
      rw [if_neg this]; simp [hs]
    · have : toU64 t.sec > 0 := by rw [toU64_pos _ h1 h2]; exact hs
      rw [if_pos this]; simp [hs, toI64_toU64 _ h1 h2]

theorem proto_roundtrip (p : Pin) (h : wfProto p = true) : protoRoundtrip p = .ok (lossyProto p) := by
  simp only [wfProto, Bool.and_eq_true] at h
  obtain ⟨⟨⟨⟨⟨⟨hmin, hmax⟩, hd⟩, ht⟩, ha⟩, he1⟩, he2⟩ := h
  have he1 := of_decide_eq_true he1
  have he2 := of_decide_eq_true he2
  unfold protoRoundtrip protoDecode protoEncode lossyProto
  simp only [ha, Bool.not_true, Bool.false_eq_true, if_false, wrap32_id _ hmin, wrap32_id _ hmax, wrap32_id _ hd, pow_log _ ht,
    expiry_rt _ he1 he2]
theorem lookupKV_mem {k v : String} : ∀ {l : List (String × String)}, lookupKV k l = some v → (k, v) ∈ l
  | [], h => by simp [lookupKV] at h
  | (k', v') :: rest, h => by
    unfold lookupKV at h
    by_cases hk : (k' == k) = true
    · simp only [hk, if_true, Option.some.injEq] at h
      have : k' = k := by simpa using hk
      subst this; subst h; simp
    · simp only [hk, Bool.false_eq_true, if_false] at h
      exact List.mem_cons_of_mem _ (lookupKV_mem h)

theorem lookupKV_isSome_of_mem {k v : String} : ∀ {l : List (String × String)}, (k, v) ∈ l → (lookupKV k l).isSome = true
  | [], h => by simp at h
  | (k', v') :: rest, h => by
    unfold lookupKV
    by_cases hk : (k' == k) = true
    · simp [hk]
    · simp only [hk, Bool.false_eq_true, if_false]
      rcases List.mem_cons.mp h with h | h
      · have : k' = k := by injection h with h1 _; exact h1.symm
        simp [this] at hk
      · exact lookupKV_isSome_of_mem h

theorem lookupKV_of_mem_nodup {k v : String} : ∀ {l : List (String × String)}, (l.map (·.1)).Nodup → (k, v) ∈ l → lookupKV k l = some v
  | [], _, h => by simp at h
  | (k', v') :: rest, hn, h => by
    unfold lookupKV
    simp only [List.map_cons, List.nodup_cons] at hn
    rcases List.mem_cons.mp h with h | h
    · injection h with h1 h2; subst h1; subst h2; simp
    · have hne : ¬ (k' == k) = true := by
        intro e
        have : k' = k := by simpa using e
        subst this
        exact hn.1 (List.mem_map.mpr ⟨(k', v), h, rfl⟩)
      simp only [hne, Bool.false_eq_true, if_false]
      exact lookupKV_of_mem_nodup hn.2 h

/-! ### metadata loops of PinOptions.Equals -/

theorem metaSub_iff {a b : List (String × String)} :
    metaSub a b = true ↔ ∀ k v, (k, v) ∈ a → k ≠ emptyStr → lookupKV k b = some v := by
  unfold metaSub
  rw [List.all_eq_true]
  constructor
  · intro h k v hm hk
    have := h (k, v) hm
    simp only [Bool.or_eq_true, beq_iff_eq] at this
    rcases this with e | e
    · exact absurd e hk
    · exact e
  · intro h kv hm
    simp only [Bool.or_eq_true, beq_iff_eq]
    by_cases hk : kv.1 = emptyStr
    · exact Or.inl hk
    · exact Or.inr (h kv.1 kv.2 hm hk)

theorem metaKeys_iff {a b : List (String × String)} :
    metaKeys a b = true ↔ ∀ k v, (k, v) ∈ b → k ≠ emptyStr → (lookupKV k a).isSome = true := by
  unfold metaKeys
  rw [List.all_eq_true]
  constructor
  · intro h k v hm hk
    have := h (k, v) hm
    simp only [Bool.or_eq_true, beq_iff_eq] at this
    rcases this with e | e
    · exact absurd e hk
    · exact e
  · intro h kv hm
    simp only [Bool.or_eq_true, beq_iff_eq]
    by_cases hk : kv.1 = emptyStr
    · exact Or.inl hk
    · exact Or.inr (h kv.1 kv.2 hm hk)

theorem metaSub_refl {a : List (String × String)} (hn : (a.map (·.1)).Nodup) : metaSub a a = true :=
  metaSub_iff.mpr fun _ _ hm _ => lookupKV_of_mem_nodup hn hm

theorem metaKeys_refl (a : List (String × String)) : metaKeys a a = true :=
  metaKeys_iff.mpr fun _ _ hm _ => lookupKV_isSome_of_mem hm

theorem metaSub_symm {a b : List (String × String)} (hb : (b.map (·.1)).Nodup)
    (h1 : metaSub a b = true) (h2 : metaKeys a b = true) : metaSub b a = true := by
  rw [metaSub_iff] at *
  rw [metaKeys_iff] at h2
  intro k v hm hk
  have hs := h2 k v hm hk
  obtain ⟨v', hv'⟩ := Option.isSome_iff_exists.mp hs
  have hb' := h1 k v' (lookupKV_mem hv') hk
  have := lookupKV_of_mem_nodup hb hm
  rw [this] at hb'
  injection hb' with e
  rw [hv', e]

theorem metaKeys_symm {a b : List (String × String)} (h1 : metaSub a b = true) : metaKeys b a = true := by
  rw [metaSub_iff] at h1
  rw [metaKeys_iff]
  intro k v hm hk
  rw [h1 k v hm hk]; rfl

theorem metaSub_trans {a b c : List (String × String)} (h1 : metaSub a b = true) (h2 : metaSub b c = true) : metaSub a c = true := by
  rw [metaSub_iff] at *
  intro k v hm hk
  exact h2 k v (lookupKV_mem (h1 k v hm hk)) hk

theorem metaKeys_trans {a b c : List (String × String)} (h1 : metaKeys a b = true) (h2 : metaKeys b c = true) : metaKeys a c = true := by
  rw [metaKeys_iff] at *
  intro k v hm hk
  obtain ⟨v', hv'⟩ := Option.isSome_iff_exists.mp (h2 k v hm hk)
  exact h1 k v' (lookupKV_mem hv') hk

/-! ### origins loops -/

theorem originsSub_iff {a b : List Origin} : originsSub a b = true ↔ ∀ o ∈ a, ∃ o' ∈ b, o.tok = o'.tok := by
  unfold originsSub
  simp only [List.all_eq_true, List.any_eq_true, beq_iff_eq]

theorem originsSub_refl (a : List Origin) : originsSub a a = true :=
  originsSub_iff.mpr fun o ho => ⟨o, ho, rfl⟩

theorem originsSub_trans {a b c : List Origin} (h1 : originsSub a b = true) (h2 : originsSub b c = true) : originsSub a c = true := by
  rw [originsSub_iff] at *
  intro o ho
  obtain ⟨o', ho', e⟩ := h1 o ho
  obtain ⟨o'', ho'', e'⟩ := h2 o' ho'
  exact ⟨o'', ho'', e.trans e'⟩

/-! ### sort.Strings and permutations -/

theorem insertS_perm (x : String) : ∀ l, (insertS x l).Perm (x :: l)
  | [] => by simp [insertS]
  | y :: ys => by
    unfold insertS
    by_cases h : x ≤ y
    · simp [h]
    · simp only [h, if_false]
      exact ((insertS_perm x ys).cons y).trans (List.Perm.swap x y ys)

theorem sortS_perm : ∀ l, (sortS l).Perm l
  | [] => by simp [sortS]
  | x :: xs => by
    unfold sortS
    exact (insertS_perm x (sortS xs)).trans ((sortS_perm xs).cons x)

theorem isPerm_of_sortS_eq {a b : List String} (h : sortS a = sortS b) : a.isPerm b = true := by
  rw [List.isPerm_iff]
  exact (sortS_perm a).symm.trans (h ▸ sortS_perm b)

theorem metaNonEmpty_perm {a b : List (String × String)} (ha : (a.map (·.1)).Nodup) (hb : (b.map (·.1)).Nodup)
    (h1 : metaSub a b = true) (h2 : metaSub b a = true) : (metaNonEmpty a).isPerm (metaNonEmpty b) = true := by
  rw [List.isPerm_iff]
  have na : (metaNonEmpty a).Nodup := (List.Nodup.of_map _ ha).filter _
  have nb : (metaNonEmpty b).Nodup := (List.Nodup.of_map _ hb).filter _
  rw [List.perm_ext_iff_of_nodup na nb]
  rw [metaSub_iff] at h1 h2
  intro kv
  obtain ⟨k, v⟩ := kv
  simp only [metaNonEmpty, List.mem_filter, bne_iff_ne, ne_eq]
  constructor
  · rintro ⟨hm, hk⟩; exact ⟨lookupKV_mem (h1 k v hm hk), hk⟩
  · rintro ⟨hm, hk⟩; exact ⟨lookupKV_mem (h2 k v hm hk), hk⟩
/-! ### expiry, status tables -/

theorem noExpiry_mk (s : Int) : (⟨s, 0⟩ : Time).noExpiry = (s == Time.zero.sec || s == 0) := by
  rw [Bool.eq_iff_iff]
  simp [Time.noExpiry, Time.isZero, Time.zero]

theorem expiryKey_trunc (t : Time) : expiryKey (truncExpiry t) = expiryKey t := by
  have hz0 : expiryKey Time.zero = none := by decide
  unfold truncExpiry
  by_cases h : (t.noExpiry || t.sec == 0) = true
  · rw [if_pos h, hz0]; simp [expiryKey, h]
  · rw [if_neg h]
    have h' : (t.noExpiry || t.sec == 0) = false := by simpa using h
    unfold expiryKey
    rw [noExpiry_mk, h']
    have hs : (t.sec == 0) = false := by
      rw [Bool.or_eq_false_iff] at h'; exact h'.2
    by_cases e : (t.sec == Time.zero.sec) = true
    · simp [e]
    · have e' : (t.sec == Time.zero.sec) = false := by simpa using e
      simp [e', hs]
/-! ### TrackerStatus.String → TrackerStatusFromString, for every filter of known statuses -/

theorem names_ok : ∀ kv ∈ statusNames, statusOfName kv.2 = kv.1 := by
  have h : (statusNames.all fun kv => statusOfName kv.2 == kv.1) = true := by decide
  intro kv hm
  have := List.all_eq_true.mp h kv hm
  simpa using this

theorem foldl_names (l : List (Nat × String)) (hl : ∀ kv ∈ l, statusOfName kv.2 = kv.1) :
    ∀ acc, (l.map (·.2)).foldl (fun acc n => acc ||| statusOfName n) acc = (l.map (·.1)).foldl (· ||| ·) acc := by
  induction l with
  | nil => intro acc; rfl
  | cons kv rest ih =>
    intro acc
    simp only [List.map_cons, List.foldl_cons]
    rw [hl kv (List.mem_cons_self ..)]
    exact ih (fun x hx => hl x (List.mem_cons_of_mem _ hx)) _

def statusKeysNZ : List Nat := (statusNames.map (·.1)).filter (· != 0)

theorem foldl_or_testBit (l : List Nat) : ∀ acc i, (l.foldl (· ||| ·) acc).testBit i = (acc.testBit i || l.any (·.testBit i)) := by
  induction l with
  | nil => intro acc i; simp
  | cons k rest ih =>
    intro acc i
    simp only [List.foldl_cons, List.any_cons, ih, Nat.testBit_or, Bool.or_assoc]

theorem sub_testBit {st k i : Nat} (h : st &&& k = k) (hk : k.testBit i = true) : st.testBit i = true := by
  have : (st &&& k).testBit i = true := by rw [h]; exact hk
  rw [Nat.testBit_and] at this
  simp only [Bool.and_eq_true] at this
  exact this.1

theorem and_two_pow_of_testBit {st i : Nat} (h : st.testBit i = true) : st &&& 2 ^ i = 2 ^ i := by
  apply Nat.eq_of_testBit_eq
  intro j
  rw [Nat.testBit_and, Nat.testBit_two_pow]
  by_cases e : i = j
  · subst e; simp [h]
  · simp [e]

theorem mask_bits {i : Nat} (h : (8190 : Nat).testBit i = true) : 1 ≤ i ∧ i ≤ 12 := by
  have hlt : i < 13 := by
    by_contra hc
    have : (8190 : Nat) < 2 ^ i := lt_of_lt_of_le (by decide : (8190:Nat) < 2 ^ 13) (Nat.pow_le_pow_right (by decide) (by omega))
    rw [Nat.testBit_lt_two_pow this] at h
    exact Bool.false_ne_true h
  refine ⟨?_, by omega⟩
  by_contra hc
  have : i = 0 := by omega
  subst this
  revert h; decide

theorem or_contained (st : Nat) (hk : st &&& statusMask = st) :
    ((statusKeysNZ.filter (fun k => st &&& k == k))).foldl (· ||| ·) 0 = st := by
  apply Nat.eq_of_testBit_eq
  intro i
  rw [foldl_or_testBit]
  simp only [Nat.zero_testBit, Bool.false_or]
  cases hb : st.testBit i with
  | false =>
    rw [List.any_eq_false]
    intro k hkm hki
    rw [List.mem_filter] at hkm
    have hs : st &&& k = k := by simpa using hkm.2
    have := sub_testBit hs hki
    rw [hb] at this; exact Bool.false_ne_true this
  | true =>
    rw [List.any_eq_true]
    have hm : (8190 : Nat).testBit i = true := by
      have : (st &&& statusMask).testBit i = true := by rw [hk]; exact hb
      rw [Nat.testBit_and] at this
      simp only [Bool.and_eq_true] at this
      exact this.2
    obtain ⟨h1, h12⟩ := mask_bits hm
    refine ⟨2 ^ i, ?_, Nat.testBit_two_pow_self⟩
    rw [List.mem_filter]
    refine ⟨?_, by simpa using and_two_pow_of_testBit hb⟩
    interval_cases i <;> decide

theorem keys_filter (st : Nat) :
    (statusNames.filter (fun kv => kv.1 != 0 && st &&& kv.1 == kv.1)).map (·.1) = statusKeysNZ.filter (fun k => st &&& k == k) := by
  simp [statusKeysNZ, List.filter_map, List.filter_filter, Function.comp_def, Bool.and_comm]

/-- String then FromString gives back every filter of known statuses -/
theorem statusRoundtrip_known (st : Nat) (hk : knownStatusFilter st = true) : statusRoundtrip st = st := by
  have hk' : st &&& statusMask = st := by simpa [knownStatusFilter] using hk
  unfold statusRoundtrip statusStrings statusFromNames
  cases h : statusNames.find? (fun kv => kv.1 == st) with
  | some kv =>
    have hm : kv ∈ statusNames := List.mem_of_find?_eq_some h
    have he : kv.1 = st := by simpa using List.find?_some h
    simp [names_ok kv hm, he]
  | none =>
    simp only []
    rw [foldl_names _ (fun kv hkv => names_ok kv (List.mem_filter.mp hkv).1) 0, keys_filter]
    exact or_contained st hk'
end CV.C08
