import ClusterVerif.Model.Pin
import Mathlib.Data.List.Basic

/-! Lemmas about the cid-sorted pinset (`PinMap`): get / put / erase behave like a finite map. -/
namespace CV

theorem sortedKeys_cons {a : Nat} {l : List Nat} :
    sortedKeys (a :: l) = true ↔ (∀ b ∈ l, a < b) ∧ sortedKeys l = true := by
  induction l generalizing a with
  | nil => simp [sortedKeys]
  | cons b t ih =>
    simp only [sortedKeys, Bool.and_eq_true, decide_eq_true_eq, List.mem_cons, forall_eq_or_imp]
    constructor
    · rintro ⟨hab, hs⟩
      have := (ih (a := b)).1 hs
      exact ⟨⟨hab, fun c hc => Nat.lt_trans hab (this.1 c hc)⟩, hs⟩
    · rintro ⟨⟨hab, _⟩, hs⟩
      exact ⟨hab, hs⟩

theorem wf_cons {p : Pin} {m : PinMap} :
    PinMap.wf (p :: m) = true ↔ (∀ q ∈ m, p.cid < q.cid) ∧ PinMap.wf m = true := by
  unfold PinMap.wf PinMap.keys
  rw [List.map_cons, sortedKeys_cons]
  simp [List.mem_map]

theorem get_nil (c : Nat) : PinMap.get [] c = none := rfl

theorem get_cons (p : Pin) (m : PinMap) (c : Nat) :
    PinMap.get (p :: m) c = if p.cid = c then some p else PinMap.get m c := by
  unfold PinMap.get
  rw [List.find?_cons]
  by_cases h : p.cid = c
  · have : (p.cid == c) = true := by simpa using h
    simp [this, h]
  · have : (p.cid == c) = false := by simpa using h
    simp [this, h]

theorem get_some_mem {m : PinMap} {c : Nat} {p : Pin} (h : m.get c = some p) : p ∈ m ∧ p.cid = c := by
  unfold PinMap.get at h
  exact ⟨List.mem_of_find?_eq_some h, by simpa using List.find?_some h⟩

theorem get_none_iff {m : PinMap} {c : Nat} : m.get c = none ↔ ∀ q ∈ m, q.cid ≠ c := by
  unfold PinMap.get
  simp [List.find?_eq_none]

theorem get_of_mem_wf {m : PinMap} (hw : m.wf = true) {p : Pin} (h : p ∈ m) : m.get p.cid = some p := by
  induction m with
  | nil => cases h
  | cons x t ih =>
    rw [wf_cons] at hw
    rw [get_cons]
    rcases List.mem_cons.1 h with rfl | h'
    · simp
    · have := hw.1 p h'
      rw [if_neg (by omega)]
      exact ih hw.2 h'

/-! ### put -/
theorem get_put {m : PinMap} (hw : m.wf = true) (p : Pin) (c : Nat) :
    (PinMap.put p m).get c = if p.cid = c then some p else m.get c := by
  induction m with
  | nil => simp [PinMap.put, get_cons, get_nil]
  | cons x t ih =>
    rw [wf_cons] at hw
    unfold PinMap.put
    by_cases h1 : p.cid < x.cid
    · rw [if_pos h1, get_cons]
    · rw [if_neg h1]
      by_cases h2 : (p.cid == x.cid) = true
      · rw [if_pos h2]
        have h2' : p.cid = x.cid := by simpa using h2
        rw [get_cons, get_cons]
        by_cases h3 : p.cid = c
        · simp [h3]
        · have : ¬ x.cid = c := by omega
          simp [h3, this]
      · rw [if_neg h2, get_cons, ih hw.2, get_cons]
        have h2' : ¬ p.cid = x.cid := by simpa using h2
        by_cases h3 : x.cid = c
        · have : ¬ p.cid = c := by omega
          simp [h3, this]
        · simp [h3]

theorem mem_put {m : PinMap} {p q : Pin} (h : q ∈ PinMap.put p m) : q = p ∨ q ∈ m := by
  induction m with
  | nil => simp [PinMap.put] at h; exact Or.inl h
  | cons x t ih =>
    unfold PinMap.put at h
    by_cases h1 : p.cid < x.cid
    · rw [if_pos h1] at h
      rcases List.mem_cons.1 h with h | h
      · exact Or.inl h
      · exact Or.inr h
    · rw [if_neg h1] at h
      by_cases h2 : (p.cid == x.cid) = true
      · rw [if_pos h2] at h
        rcases List.mem_cons.1 h with h | h
        · exact Or.inl h
        · exact Or.inr (List.mem_cons_of_mem _ h)
      · rw [if_neg h2] at h
        rcases List.mem_cons.1 h with h | h
        · exact Or.inr (h ▸ List.mem_cons_self)
        · rcases ih h with h | h
          · exact Or.inl h
          · exact Or.inr (List.mem_cons_of_mem _ h)

theorem wf_put {m : PinMap} (hw : m.wf = true) (p : Pin) : (PinMap.put p m).wf = true := by
  induction m with
  | nil => simp [PinMap.put, PinMap.wf, PinMap.keys, sortedKeys]
  | cons x t ih =>
    have hw' := wf_cons.1 hw
    unfold PinMap.put
    by_cases h1 : p.cid < x.cid
    · rw [if_pos h1, wf_cons]
      refine ⟨?_, hw⟩
      intro q hq
      rcases List.mem_cons.1 hq with rfl | hq
      · exact h1
      · exact Nat.lt_trans h1 (hw'.1 q hq)
    · rw [if_neg h1]
      by_cases h2 : (p.cid == x.cid) = true
      · rw [if_pos h2, wf_cons]
        have h2' : p.cid = x.cid := by simpa using h2
        exact ⟨fun q hq => h2' ▸ hw'.1 q hq, hw'.2⟩
      · rw [if_neg h2, wf_cons]
        have h2' : ¬ p.cid = x.cid := by simpa using h2
        refine ⟨?_, ih hw'.2⟩
        intro q hq
        rcases mem_put hq with rfl | hq
        · omega
        · exact hw'.1 q hq

/-! ### erase -/
theorem get_erase (m : PinMap) (c k : Nat) :
    (PinMap.erase m c).get k = if k = c then none else m.get k := by
  induction m with
  | nil => simp [PinMap.erase, get_nil]
  | cons x t ih =>
    unfold PinMap.erase at ih ⊢
    by_cases hx : x.cid = c
    · have : (x.cid != c) = false := by simp [hx]
      rw [List.filter_cons_of_neg (p := fun p : Pin => p.cid != c) (by simp [this]), ih, get_cons]
      by_cases hk : k = c
      · simp [hk]
      · have : ¬ x.cid = k := by omega
        simp [hk, this]
    · have : (x.cid != c) = true := by simp [hx]
      rw [List.filter_cons_of_pos (p := fun p : Pin => p.cid != c) this, get_cons, ih, get_cons]
      by_cases hk : k = c
      · simp [hk, hx]
      · simp [hk]

theorem wf_erase {m : PinMap} (hw : m.wf = true) (c : Nat) : (PinMap.erase m c).wf = true := by
  induction m with
  | nil => simp [PinMap.erase, PinMap.wf, PinMap.keys, sortedKeys]
  | cons x t ih =>
    have hw' := wf_cons.1 hw
    unfold PinMap.erase at ih ⊢
    by_cases hx : (x.cid != c) = true
    · rw [List.filter_cons_of_pos (p := fun p : Pin => p.cid != c) hx, wf_cons]
      exact ⟨fun q hq => hw'.1 q (List.mem_of_mem_filter hq), ih hw'.2⟩
    · rw [List.filter_cons_of_neg (p := fun p : Pin => p.cid != c) hx]; exact ih hw'.2

theorem wf_foldl_erase {m : PinMap} (hw : m.wf = true) (cs : List Nat) : (cs.foldl PinMap.erase m).wf = true := by
  induction cs generalizing m with
  | nil => exact hw
  | cons c t ih => exact ih (wf_erase hw c)

theorem get_foldl_erase (m : PinMap) (cs : List Nat) (k : Nat) :
    (cs.foldl PinMap.erase m).get k = if k ∈ cs then none else m.get k := by
  induction cs generalizing m with
  | nil => simp
  | cons c t ih =>
    rw [List.foldl_cons, ih, get_erase]
    by_cases h1 : k ∈ t
    · simp [h1]
    · by_cases h2 : k = c
      · simp [h2]
      · simp [h1, h2]

/-- Two well-formed pinsets with the same lookups are the same list. -/
theorem ext_of_wf {a b : PinMap} (ha : a.wf = true) (hb : b.wf = true) (h : ∀ c, a.get c = b.get c) : a = b := by
  induction a generalizing b with
  | nil =>
    cases b with
    | nil => rfl
    | cons y t => have := h y.cid; simp [get_nil, get_cons] at this
  | cons x s ih =>
    have ha' := wf_cons.1 ha
    cases b with
    | nil => have := h x.cid; simp [get_nil, get_cons] at this
    | cons y t =>
      have hb' := wf_cons.1 hb
      have hx := h x.cid
      have hy := h y.cid
      rw [get_cons, get_cons] at hx hy
      simp only [if_true] at hx hy
      have hxy : x.cid = y.cid := by
        by_contra hne
        rw [if_neg (Ne.symm hne)] at hx
        rw [if_neg hne] at hy
        have h1 := (get_some_mem hx.symm)
        have h2 := (get_some_mem hy)
        have := hb'.1 x h1.1
        have := ha'.1 y h2.1
        omega
      have hxe : x = y := by rw [if_pos hxy.symm] at hx; exact Option.some.inj hx
      subst hxe
      congr 1
      apply ih ha'.2 hb'.2
      intro c
      have hc := h c
      rw [get_cons, get_cons] at hc
      by_cases hcx : x.cid = c
      · have h1 : PinMap.get s c = none := get_none_iff.2 (fun q hq => by have := ha'.1 q hq; omega)
        have h2 : PinMap.get t c = none := get_none_iff.2 (fun q hq => by have := hb'.1 q hq; omega)
        rw [h1, h2]
      · simpa [hcx] using hc

end CV
