import ClusterVerif.Lemmas.C04
import ClusterVerif.Model.C04Sem
namespace CV.C04.Sem
open CV CV.C04

/-- what `setupPin` answers, in the model's words -/
def setupModel (cfg : Cfg) (e : Option Pin) (p : Pin) : Option Pin :=
  if !C03.factorsValid (effRmin cfg p) (effRmax cfg p) then none
  else if (setupFactors cfg p).opts.expire.beforeNow then none
  else if !typeOk e (setupFactors cfg p) then none else some (setupFactors cfg p)

theorem setup_expected (cfg : Cfg) (e : Option Pin) (p : Pin) :
    runSetup cfg e expected.setupPin p false = some (setupModel cfg e p) := by
  cases e with
  | none => simp only [expected, runSetup, typeOk, setupModel]; split_ifs <;> simp_all
  | some x =>
    simp only [expected, runSetup, typeOk, setupModel]
    split_ifs <;> simp_all


theorem update_expected (cfg : Cfg) (pre : PinMap) (src dst : Nat) (o : Opts) :
    runUpdate cfg pre src dst o expected.pinUpdate none false = some (pinUpdate cfg pre src dst o) := by
  simp only [expected, runUpdate, pinUpdate, updPin]
  cases h : pre.get src with
  | none => simp
  | some e => simp; split_ifs <;> simp_all

/-- `pinOp` with the `cid.Undef` guard -/
def pinOpU (cfg : Cfg) (pre : PinMap) (p : Pin) (blacklist chosen : List Nat) : Out :=
  if p.cid == undefCid then err pre else pinOp cfg pre p blacklist chosen

/-- the last two steps of `pin()`: allocate when no allocations are set, then log -/
def allocTail (cfg : Cfg) (pre : PinMap) (e : Option Pin) (p3 : Pin) (bl chosen : List Nat) : Out :=
  if p3.allocs.isEmpty then
    match C03.allocate (allocIn cfg e p3 bl) with
    | .ok _ => { logPin pre { p3 with allocs := chosen } with alloc := some (allocIn cfg e p3 bl) }
    | _ => { err pre with alloc := some (allocIn cfg e p3 bl) }
  else logPin pre p3

theorem tail_alloc (P : Progs) (cfg : Cfg) (pre : PinMap) (e : Option Pin) (p3 : Pin) (bl chosen : List Nat) (f : ErrV) :
    runPin P cfg pre bl chosen [.allocateIfNone, .retLogPin] p3 e f none = some (allocTail cfg pre e p3 bl chosen) := by
  simp only [runPin, allocTail]
  split_ifs with h
  · split <;> simp_all
  · rfl

theorem step_keep (P : Progs) (cfg : Cfg) (pre : PinMap) (e : Option Pin) (p2 : Pin) (bl chosen : List Nat) (f : ErrV)
    (a : Option C03.Input) (k : List Stmt) :
    runPin P cfg pre bl chosen (.keepExisting [.existingSet, .optsEqual, .noBlacklist] :: k) p2 e f a =
      runPin P cfg pre bl chosen k (keepOrNew e p2 bl) e f a := by
  cases e with
  | none => simp [runPin, evalConds, evalAtom, keepOrNew]
  | some x =>
    by_cases h1 : optsEquals p2.opts x.opts = true <;> by_cases h2 : bl.isEmpty = true <;>
      simp [runPin, evalConds, evalAtom, keepOrNew, h1, h2]

theorem step_update (cfg : Cfg) (pre : PinMap) (e : Option Pin) (p : Pin) (bl chosen : List Nat) (f : ErrV)
    (a : Option C03.Input) (k : List Stmt) :
    runPin expected cfg pre bl chosen (.updateBranch [.updSet, .updOther, .noBlacklist] :: k) p e f a =
      match (if bl.isEmpty then p.opts.update else none) with
      | some u => if u != p.cid then some (pinUpdate cfg pre u p.cid p.opts) else runPin expected cfg pre bl chosen k p e f a
      | none => runPin expected cfg pre bl chosen k p e f a := by
  rcases Option.eq_none_or_eq_some p.opts.update with hupd | ⟨u, hupd⟩ <;> by_cases h2 : bl.isEmpty = true
  · simp [runPin, evalConds, evalAtom, hupd, h2]
  · simp [runPin, evalConds, evalAtom, hupd, h2]
  · by_cases h3 : u = p.cid
    · simp [runPin, evalConds, evalAtom, hupd, h2, h3, update_expected]
    · have h4 : (some u != some p.cid) = true := by simp [h3]
      simp [runPin, evalConds, evalAtom, hupd, h2, h3, h4, update_expected]
  · by_cases h3 : u = p.cid
    · simp [runPin, evalConds, evalAtom, hupd, h2, h3]
    · have h4 : (some u != some p.cid) = true := by simp [h3]
      simp [runPin, evalConds, evalAtom, hupd, h2, h3, h4]

theorem pinBody_eq (cfg : Cfg) (pre : PinMap) (p : Pin) (bl chosen : List Nat) :
    pinBody cfg pre p bl chosen =
      match setupModel cfg (pre.get p.cid) p with
      | none => err pre
      | some p2 => if p2.type == .metaT then logPin pre p2
                   else allocTail cfg pre (pre.get p.cid) (keepOrNew (pre.get p.cid) p2 bl) bl chosen := by
  simp only [pinBody, setupModel, allocTail]
  split_ifs <;> first | rfl | (simp_all <;> (generalize C03.allocate _ = r; cases r <;> rfl))

theorem body_expected (cfg : Cfg) (pre : PinMap) (p : Pin) (bl chosen : List Nat) (e0 : Option Pin) (f0 : ErrV) :
    runPin expected cfg pre bl chosen [.getExisting, .guardErrNotFoundOk, .setup, .guardErr, .metaShortcut,
      .keepExisting [.existingSet, .optsEqual, .noBlacklist], .allocateIfNone, .retLogPin] p e0 f0 none =
      some (pinBody cfg pre p bl chosen) := by
  rw [pinBody_eq]
  simp only [↓step_keep, ↓tail_alloc, runPin, setup_expected]
  cases hs : setupModel cfg (pre.get p.cid) p with
  | none => cases hex : pre.get p.cid <;> simp
  | some p2 => cases hex : pre.get p.cid <;> simp <;> split_ifs <;> simp_all

theorem pin_expected (cfg : Cfg) (pre : PinMap) (p : Pin) (bl chosen : List Nat) :
    pinSem expected cfg pre p bl chosen = some (pinOpU cfg pre p bl chosen) := by
  have hI : expected.pinInternal = [.guardFollower, .guardUndef, .updateBranch [.updSet, .updOther, .noBlacklist], .getExisting,
    .guardErrNotFoundOk, .setup, .guardErr, .metaShortcut, .keepExisting [.existingSet, .optsEqual, .noBlacklist],
    .allocateIfNone, .retLogPin] := rfl
  unfold pinSem pinOpU
  rw [hI]
  rw [runPin, runPin]
  simp only [step_update, body_expected, pinOp]
  by_cases hf : cfg.follower = true
  · simp [hf]
  by_cases hu : p.cid = undefCid
  · simp [hf, hu]
  simp [hf, hu]
  generalize (if bl = [] then p.opts.update else none) = m
  cases m with
  | none => simp
  | some u => by_cases h3 : u = p.cid <;> simp [h3]

theorem unpin_expected (cfg : Cfg) (pre : PinMap) (c : Nat) :
    unpinSem expected cfg pre c = some (unpinOp cfg pre c) := by
  unfold unpinSem unpinOp
  by_cases hf : cfg.follower = true
  · simp [expected, runUnpin, hf]
  rcases Option.eq_none_or_eq_some (pre.get c) with hex | ⟨p, hex⟩
  · simp [expected, runUnpin, hf, hex]
  · obtain ⟨pc, ty, po, pd, pa, pr⟩ := p
    cases ty <;> simp [expected, runUnpin, hf, hex, caseBody, typeName, runCase, unpinMeta, err] <;>
      (cases pr <;> simp) <;> (split <;> simp_all)


theorem pinPublic_expected (cfg : Cfg) (pre : PinMap) (c : Nat) (o : Opts) (chosen : List Nat) :
    pinPublicSem expected cfg pre c o chosen = some (pinOpU cfg pre (pinWithOpts c o) [] chosen) := by
  have h : expected.pinPublic = [.construct "PinWithOpts", .callPin, .retResult] := rfl
  unfold pinPublicSem
  rw [h]
  simp [runPinPublic, pin_expected]

/-- the interpreted programs of the unchanged cluster.go compute exactly the hand-written model
    (with the `cid.Undef` guard the hand-written model lacks) -/
theorem stepSem_expected (cfg : Cfg) (pre : PinMap) (op : Op) (chosen : List Nat) :
    stepSem expected cfg pre op chosen = some (stepU cfg pre op chosen) := by
  have hp : expected.pinPath = [.resolve, .guardErrNil, .tailPin] := rfl
  have hq : expected.unpinPath = [.resolve, .guardErrNil, .tailUnpin] := rfl
  cases op with
  | pin c o => simp [stepSem, stepU, step, pinPublic_expected, pinOpU, pinWithOpts]
  | pinPath path o =>
    unfold stepSem pinPathSem; rw [hp]
    rcases Option.eq_none_or_eq_some (lookup cfg.paths path) with h | ⟨c, h⟩
    · simp [runPath, stepU, step, h]
    · simp [runPath, stepU, step, h, pinPublic_expected, pinOpU, pinWithOpts]
  | update s d o => simp [stepSem, stepU, step, update_expected]
  | unpin c => simp [stepSem, stepU, step, unpin_expected]
  | unpinPath path =>
    unfold stepSem unpinPathSem; rw [hq]
    rcases Option.eq_none_or_eq_some (lookup cfg.paths path) with h | ⟨c, h⟩
    · simp [runPath, stepU, step, h]
    · simp [runPath, stepU, step, h, unpin_expected]
  | rpcPin p => simp [stepSem, stepU, step, pin_expected, pinOpU]

end CV.C04.Sem
