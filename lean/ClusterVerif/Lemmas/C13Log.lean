import ClusterVerif.Lemmas.C13
/-! The pins the Spec's decoder reads off the event log are the pins the model recorded. -/
namespace CV.C13
open CV

/-- the log (newest first) and the pin record tell the same story -/
def LogOk (e : Env) : Prop := pinsOkOf e.log.reverse = acceptedPins e.pins

theorem pinsOkOf_append (a b : List Ev) : pinsOkOf (a ++ b) = pinsOkOf a ++ pinsOkOf b := by
  simp [pinsOkOf, List.filterMap_append]

theorem logOk_init : LogOk Env.init := rfl

theorem logOk_putRound (c : Cfg) (e : Env) (d : List Nat) (b : Nat) (h : LogOk e) : LogOk (putRound c e d b).1 := by
  unfold putRound LogOk at *
  simp only
  split_ifs <;> simp_all [pinsOkOf_append, pinsOkOf]

theorem logOk_allocate (c : Cfg) (e : Env) (h : LogOk e) : LogOk (allocate c e).1 := by
  unfold allocate LogOk at *
  simp only
  split_ifs <;> simp_all [pinsOkOf_append, pinsOkOf]

theorem logOk_pinCall (c : Cfg) (e : Env) (p : Pin) (h : LogOk e) : LogOk (pinCall c e p).1 := by
  unfold pinCall LogOk at *
  simp only [List.reverse_cons, pinsOkOf_append, acceptedPins_append, h]
  cases hb : !c.pfail.contains e.nPin <;> simp [pinsOkOf, acceptedPins]

theorem logOk_named (e : Env) (l : List Node) (h : LogOk e) : LogOk { e with named := l } := h
theorem logOk_nodes (e : Env) (l : List Node) (h : LogOk e) : LogOk { e with nodes := l } := h

theorem logOk_putMany (c : Cfg) : ∀ (ns : List Node) (e : Env) (d : List Nat), LogOk e → LogOk (putMany c e d ns).1
  | [], e, d, h => by simpa [putMany] using h
  | n :: ns, e, d, h => by
    unfold putMany
    simp only
    have h1 := logOk_putRound c { e with named := addNamed e.named n } d n.id (logOk_named e _ h)
    rcases hr : putRound c { e with named := addNamed e.named n } d n.id with ⟨e1, _ | d1⟩
    · rw [hr] at h1; exact h1
    · rw [hr] at h1; simp only
      exact logOk_putMany c ns _ d1 (logOk_nodes e1 _ h1)


theorem logOk_flush (c : Cfg) (s : ShSt) (k : Cur) (h : LogOk s.env) : LogOk (flush c s k).1.env := by
  unfold flush
  have h1 := logOk_putMany c (flushNodes s k) s.env k.dests h
  rcases hp : putMany c s.env k.dests (flushNodes s k) with ⟨e1, d1, _ | _⟩
  · rw [hp] at h1; exact h1
  · rw [hp] at h1; simp only at h1 ⊢
    have h2 := logOk_pinCall c e1 (flushPin c s k) h1
    rcases hc : pinCall c e1 (flushPin c s k) with ⟨e2, _ | _⟩ <;> rw [hc] at h2 <;> exact h2

theorem logOk_newShard (c : Cfg) (s : ShSt) (h : LogOk s.env) : LogOk (newShard c s).1.env := by
  unfold newShard
  have h1 := logOk_allocate c s.env h
  rcases ha : allocate c s.env with ⟨e, _ | a⟩
  · rw [ha] at h1; exact h1
  · rw [ha] at h1; simp only; split_ifs <;> exact h1

theorem logOk_addToCur (c : Cfg) (s : ShSt) (k : Cur) (b : Blk) (h : LogOk s.env) : LogOk (addToCur c s k b).1.env := by
  unfold addToCur
  have h1 := logOk_putRound c s.env k.dests b.id h
  rcases hr : putRound c s.env k.dests b.id with ⟨e, _ | d⟩ <;> rw [hr] at h1 <;> exact h1

theorem logOk_ingestFresh (c : Cfg) (s : ShSt) (b : Blk) (h : LogOk s.env) : LogOk (ingestFresh c s b).1.env := by
  unfold ingestFresh
  have h1 := logOk_newShard c s h
  rcases hn : newShard c s with ⟨s1, st, k⟩
  rw [hn] at h1
  cases st with
  | ok => simp only; split_ifs
          · exact logOk_addToCur c s1 k b h1
          · exact h1
  | fail => exact h1
  | panic => exact h1

theorem logOk_ingest (c : Cfg) (s : ShSt) (b : Blk) (h : LogOk s.env) : LogOk (ingest c s b).1.env := by
  unfold ingest
  cases hc : s.cur with
  | none => exact logOk_ingestFresh c s b h
  | some k =>
    simp only; unfold ingestIn
    split_ifs
    · exact logOk_addToCur c s k b h
    · exact h
    · have h1 := logOk_flush c s k h
      rcases hf : flush c s k with ⟨s1, st⟩
      rw [hf] at h1
      cases st with
      | ok => exact logOk_ingestFresh c s1 b h1
      | fail => exact h1
      | panic => exact h1

theorem logOk_shAdd (c : Cfg) (s : ShSt) (b : Blk) (h : LogOk s.env) : LogOk (shAdd c s b).1.env := by
  unfold shAdd; split_ifs
  · exact h
  · exact logOk_ingest c _ b h

theorem logOk_shAddAll (c : Cfg) : ∀ (l : List Blk) (s : ShSt) (i : Nat) (f : List Nat), LogOk s.env → LogOk (shAddAll c s l i f).1.env
  | [], s, i, f, h => by simpa [shAddAll] using h
  | b :: bs, s, i, f, h => by
    unfold shAddAll
    have h1 := logOk_shAdd c s b h
    rcases hs : shAdd c s b with ⟨s1, st⟩
    rw [hs] at h1
    cases st with
    | ok => exact logOk_shAddAll c bs s1 (i + 1) f h1
    | fail => exact logOk_shAddAll c bs s1 (i + 1) _ h1
    | panic => exact h1

theorem logOk_finishCdag (c : Cfg) (s1 : ShSt) (root : Nat) (h : LogOk s1.env) : LogOk (finishCdag c s1 root).1.env := by
  unfold finishCdag
  simp only
  have h1 := logOk_putMany c (cdagNodes s1) s1.env [0] h
  rcases hp : putMany c s1.env [0] (cdagNodes s1) with ⟨e2, d2, _ | _⟩
  · rw [hp] at h1; exact h1
  · rw [hp] at h1; simp only at h1 ⊢
    have h2 := logOk_pinCall c e2 (cdagPin c (rootOf (cdagNodes s1)) root) h1
    rcases hc : pinCall c e2 (cdagPin c (rootOf (cdagNodes s1)) root) with ⟨e3, _ | _⟩
    · rw [hc] at h2; exact h2
    · rw [hc] at h2; simp only at h2 ⊢
      have h3 := logOk_pinCall c e3 (metaPin c (rootOf (cdagNodes s1)) root) h2
      rcases hm : pinCall c e3 (metaPin c (rootOf (cdagNodes s1)) root) with ⟨e4, _ | _⟩ <;> rw [hm] at h3 <;> exact h3

theorem logOk_shFinalize (c : Cfg) (s : ShSt) (root : Nat) (h : LogOk s.env) : LogOk (shFinalize c s root).1.env := by
  unfold shFinalize
  cases hc : s.cur with
  | none => exact h
  | some k =>
    simp only
    have h1 := logOk_flush c s k h
    rcases hf : flush c s k with ⟨s1, st⟩
    rw [hf] at h1
    cases st with
    | ok => exact logOk_finishCdag c s1 root h1
    | fail => exact h1
    | panic => exact h1

theorem logOk_singlePut (c : Cfg) (s : SSt) (b : Blk) (h : LogOk s.env) : LogOk (singlePut c s b).1.env := by
  unfold singlePut
  have h1 := logOk_putRound c s.env s.ba b.id h
  rcases hr : putRound c s.env s.ba b.id with ⟨e, _ | d⟩ <;> rw [hr] at h1 <;> exact h1

theorem logOk_singleAdd (c : Cfg) (s : SSt) (b : Blk) (h : LogOk s.env) : LogOk (singleAdd c s b).1.env := by
  unfold singleAdd
  cases hd : s.dests with
  | some d => exact logOk_singlePut c s b h
  | none =>
    simp only
    have h1 := logOk_allocate c s.env h
    rcases ha : allocate c s.env with ⟨e, _ | a⟩
    · rw [ha] at h1; exact h1
    · rw [ha] at h1; exact logOk_singlePut c _ b h1

theorem logOk_singleAddAll (c : Cfg) : ∀ (l : List Blk) (s : SSt) (i : Nat) (f : List Nat), LogOk s.env → LogOk (singleAddAll c s l i f).1.env
  | [], s, i, f, h => by simpa [singleAddAll] using h
  | b :: bs, s, i, f, h => by
    unfold singleAddAll
    have h1 := logOk_singleAdd c s b h
    rcases hs : singleAdd c s b with ⟨s1, st⟩
    rw [hs] at h1
    cases st <;> exact logOk_singleAddAll c bs s1 (i + 1) _ h1

theorem logOk_singleFinalize (c : Cfg) (s : SSt) (root : Nat) (h : LogOk s.env) : LogOk (singleFinalize c s root).1.env := by
  unfold singleFinalize
  have h1 := logOk_pinCall c s.env (rootPin c root (s.dests.getD [])) h
  rcases hc : pinCall c s.env (rootPin c root (s.dests.getD [])) with ⟨e, _ | _⟩ <;> rw [hc] at h1 <;> exact h1

/-- the accepted pins the Spec's decoder reads off the model's event log are the model's accepted pins -/
theorem run_log_pins (c : Cfg) (stream : List Blk) (fin : Option Nat) :
    pinsOkOf (run c stream fin).log = acceptedPins (run c stream fin).pins := by
  unfold run
  split_ifs
  · unfold runShard
    have h1 := logOk_shAddAll c stream ShSt.init 0 [] logOk_init
    rcases h : shAddAll c ShSt.init stream 0 [] with ⟨s, pan, failed⟩
    rw [h] at h1
    cases pan with
    | true => exact h1
    | false =>
      simp only
      cases fin with
      | none => exact h1
      | some r =>
        simp only
        have h2 := logOk_shFinalize c s r h1
        rcases hf : shFinalize c s r with ⟨s1, st, cd⟩
        rw [hf] at h2; exact h2
  · unfold runSingle
    have h1 := logOk_singleAddAll c stream SSt.init 0 [] logOk_init
    rcases h : singleAddAll c SSt.init stream 0 [] with ⟨s, failed⟩
    rw [h] at h1
    cases fin with
    | none => exact h1
    | some r =>
      simp only
      have h2 := logOk_singleFinalize c s r h1
      rcases hf : singleFinalize c s r with ⟨s1, st⟩
      rw [hf] at h2; exact h2

end CV.C13
