/-
C18 — one-schedule refutations of realistic wrong edits of the repaired `Cluster` life-cycle protocol
(`progC1`–`progC3` of `Model/C18SyncProgs.lean`). Core Lean only.
-/
import ClusterVerif.Lemmas.C18Sync

namespace CV.C18.Sync
open Progs

/-- NewCluster; ready(): timeout; `c.Shutdown(ctx)` called synchronously: Lock, flags, cancel, now in `c.wg.Wait()` -/
def schedC1 : List Choice := [(0,0),(0,0),(1,0),(1,0),(1,1),(1,0),(1,0),(1,0),(1,0),(1,0)]
/-- (c1) a failure branch of `ready()` that calls `Shutdown` without `go`: DEADLOCK, `Shutdown` waits for the
wait group that counts its own goroutine -/
theorem progC1_deadlocks : ∃ s evs, run progC1 (cfgC 2) (mkInit (cfgC 2) [0]) schedC1 = some (s, evs) ∧
    panicCode s = 0 ∧ allFinished progC1 (cfgC 2) s = false ∧ ∀ c : Choice, stepC progC1 (cfgC 2) s c = none := by
  obtain ⟨s, evs, h, hf⟩ := run_witness (P := progC1) (cfg := cfgC 2) (init := mkInit (cfgC 2) [0])
    (sched := schedC1) (f := fun r => deadB progC1 (cfgC 2) r.1) (by decide +kernel)
  exact ⟨s, evs, h, deadB_sound hf⟩

/-- NewCluster and users; ready(): consensus ready (about to take `stateLock`); Shutdown (T4): both locks, flags,
cancel, now in `wg.Wait()` still holding `stateLock`; the `<-Ready()` user leaves by `ctx.Done()` -/
def schedC2 : List Choice :=
  [(0,0),(0,0),(0,0),(0,0),(0,0),(0,0),(1,0),(1,0),(4,0),(4,1),(4,0),(4,0),(4,0),(4,0),(3,1)]
/-- (c2) `Shutdown` keeping `stateLock` until it returns: DEADLOCK with `ready()` -/
theorem progC2_deadlocks : ∃ s evs, run progC2 (cfgC 9) initC schedC2 = some (s, evs) ∧
    panicCode s = 0 ∧ allFinished progC2 (cfgC 9) s = false ∧ ∀ c : Choice, stepC progC2 (cfgC 9) s c = none := by
  obtain ⟨s, evs, h, hf⟩ := run_witness (P := progC2) (cfg := cfgC 9) (init := initC)
    (sched := schedC2) (f := fun r => deadB progC2 (cfgC 9) r.1) (by decide +kernel)
  exact ⟨s, evs, h, deadB_sound hf⟩

/-- ready(): consensus ready, about to write `readyB` without a lock; Shutdown (T4) about to read it -/
def schedC3 : List Choice := [(0,0),(0,0),(0,0),(0,0),(1,1),(1,0),(4,0),(4,1),(4,0)]
/-- (c3) `ready()` writing `readyB` without `stateLock`: a racy state with `Shutdown`'s read -/
theorem progC3_racy : ∃ s evs, run progC3 (cfgC 9) initC schedC3 = some (s, evs) ∧ racyB progC3 (cfgC 9) s = true :=
  run_witness (f := fun r => racyB progC3 (cfgC 9) r.1) (by decide +kernel)

end CV.C18.Sync
