import ClusterVerif.Spec.C04
import ClusterVerif.Lemmas.PinMap
import ClusterVerif.Props.C03
import Mathlib.Tactic.SplitIfs

/-! Helper lemmas for Props/C04: the shape of every call's outcome. -/
namespace CV.C04
open CV

/-- Every call either changes nothing and reports an error, or logs one pin (stored form put
    into the pinset), or erases a list of cids; `T` bounds the cids touched. -/
inductive Shape (T : List Nat) (pre : PinMap) (out : Out) : Prop
  | refused : out.res = none → out.post = pre → out.log = [] → Shape T pre out
  | logged (p : Pin) : p.cid ∈ T → out.res = some p → out.post = PinMap.put p.stored pre →
      out.log = [.logPin p] → Shape T pre out
  | erased (p : Pin) (cs : List Nat) : (∀ c ∈ cs, c ∈ T) → out.res = some p → out.post = cs.foldl PinMap.erase pre →
      out.log = cs.map .logUnpin → Shape T pre out

theorem shape_err (T : List Nat) (pre : PinMap) : Shape T pre (err pre) := .refused rfl rfl rfl
theorem shape_logPin {T : List Nat} (pre : PinMap) (p : Pin) (h : p.cid ∈ T) : Shape T pre (logPin pre p) :=
  .logged p h rfl rfl rfl

theorem updPin_cid (e : Pin) (s d : Nat) (o : Opts) : (updPin e s d o).cid = d := by
  unfold updPin; simp only; split_ifs <;> rfl

theorem setupFactors_cid (cfg : Cfg) (p : Pin) : (setupFactors cfg p).cid = p.cid := by
  unfold setupFactors; simp only; split_ifs <;> rfl

theorem keepOrNew_cid {pre : PinMap} {c : Nat} (p : Pin) (bl : List Nat) (hp : p.cid = c) :
    (keepOrNew (pre.get c) p bl).cid = c := by
  unfold keepOrNew
  split
  · rename_i e he
    split_ifs
    · exact (get_some_mem he).2
    · exact hp
  · exact hp

theorem shape_pinUpdate (cfg : Cfg) (pre : PinMap) (s d : Nat) (o : Opts) :
    Shape [d] pre (pinUpdate cfg pre s d o) := by
  unfold pinUpdate
  split_ifs
  · exact shape_err _ pre
  · split
    · exact shape_err _ pre
    · split_ifs
      · exact shape_err _ pre
      · exact shape_logPin pre _ (by rw [updPin_cid]; simp)

theorem shape_pinBody (cfg : Cfg) (pre : PinMap) (p : Pin) (bl ch : List Nat) :
    Shape [p.cid] pre (pinBody cfg pre p bl ch) := by
  unfold pinBody
  simp only
  have h3 : (keepOrNew (pre.get p.cid) (setupFactors cfg p) bl).cid = p.cid :=
    keepOrNew_cid _ _ (setupFactors_cid cfg p)
  split_ifs
  · exact shape_err _ pre
  · exact shape_err _ pre
  · exact shape_err _ pre
  · exact shape_logPin pre _ (by rw [setupFactors_cid]; simp)
  · split
    · exact .logged _ (by simp [h3]) rfl rfl rfl
    · exact .refused rfl rfl rfl
  · exact shape_logPin pre _ (by simp [h3])

theorem shape_pinOp (cfg : Cfg) (pre : PinMap) (p : Pin) (bl ch : List Nat) :
    Shape [p.cid] pre (pinOp cfg pre p bl ch) := by
  unfold pinOp
  split_ifs
  · exact shape_err _ pre
  · split
    · split_ifs
      · exact shape_pinUpdate ..
      · exact shape_pinBody ..
    · exact shape_pinBody ..
  · exact shape_pinBody ..

theorem shape_unpinOp (cfg : Cfg) (pre : PinMap) (c : Nat) :
    Shape (c :: targets.shardGroup cfg pre c) pre (unpinOp cfg pre c) := by
  unfold unpinOp
  split_ifs
  · exact shape_err _ pre
  · split
    · exact shape_err _ pre
    · rename_i p hp
      split
      · exact .erased _ [c] (by simp) rfl rfl rfl
      · rename_i hty
        split
        · exact shape_err _ pre
        · rename_i r hr
          split
          · rename_i x links hx hl
            refine .erased _ _ ?_ rfl rfl rfl
            intro k hk
            unfold targets.shardGroup
            simp only [hp, hty, hr, hl, beq_self_eq_true, if_true, Option.getD_some]
            simp only [List.append_assoc, List.mem_append, List.mem_reverse, List.mem_cons,
              List.mem_nil_iff, or_false] at hk ⊢
            rcases hk with h | (h | h) | h
            · exact Or.inr (Or.inr h)
            · exact Or.inr (Or.inl h)
            · exact Or.inl h
            · exact Or.inl h
          · exact shape_err _ pre
      · exact shape_err _ pre

theorem shape_step (cfg : Cfg) (pre : PinMap) (op : Op) (ch : List Nat) :
    Shape (targets cfg pre op) pre (step cfg pre op ch) := by
  cases op with
  | pin c o => exact shape_pinOp cfg pre (pinWithOpts c o) [] ch
  | pinPath path o =>
    show Shape (resolve cfg path).toList pre (match lookup cfg.paths path with
      | some c => pinOp cfg pre (pinWithOpts c o) [] ch
      | none => err pre)
    unfold resolve
    cases hl : lookup cfg.paths path with
    | none => exact shape_err _ pre
    | some c => exact shape_pinOp cfg pre (pinWithOpts c o) [] ch
  | update s d o => exact shape_pinUpdate cfg pre s d o
  | unpin c => exact shape_unpinOp cfg pre c
  | unpinPath path =>
    show Shape (match resolve cfg path with
      | some c => c :: targets.shardGroup cfg pre c
      | none => []) pre (match lookup cfg.paths path with
      | some c => unpinOp cfg pre c
      | none => err pre)
    unfold resolve
    cases hl : lookup cfg.paths path with
    | none => exact shape_err _ pre
    | some c => exact shape_unpinOp cfg pre c
  | rpcPin p => exact shape_pinOp cfg pre p [] ch


/-! ### consequences of the shape -/
theorem shape_wf {T : List Nat} {pre : PinMap} {out : Out} (h : Shape T pre out) (hw : pre.wf = true) :
    out.post.wf = true := by
  cases h with
  | refused _ hp _ => rw [hp]; exact hw
  | logged p _ _ hp _ => rw [hp]; exact wf_put hw _
  | erased p cs _ _ hp _ => rw [hp]; exact wf_foldl_erase hw cs

theorem shape_refused {T : List Nat} {pre : PinMap} {out : Out} (h : Shape T pre out) (hr : out.res = none) :
    out.post = pre := by
  cases h with
  | refused _ hp _ => exact hp
  | logged p _ hres _ _ => rw [hr] at hres; cases hres
  | erased p cs _ hres _ _ => rw [hr] at hres; cases hres

theorem stored_cid (p : Pin) : p.stored.cid = p.cid := rfl

theorem shape_frame {T : List Nat} {pre : PinMap} {out : Out} (h : Shape T pre out) (hw : pre.wf = true)
    (c : Nat) (hc : c ∉ T) : out.post.get c = pre.get c := by
  cases h with
  | refused _ hp _ => rw [hp]
  | logged p hT _ hp _ =>
    rw [hp, get_put hw, stored_cid]
    have : p.cid ≠ c := fun e => hc (e ▸ hT)
    rw [if_neg this]
  | erased p cs hT _ hp _ =>
    rw [hp, get_foldl_erase]
    have : c ∉ cs := fun e => hc (hT c e)
    rw [if_neg this]

theorem sameMap_self (m : PinMap) : sameMap m m = true := by
  unfold sameMap sameOn; simp


/-! ### small facts -/
theorem lookup_of_mem_nodup {l : List (Nat × Nat)} {k v : Nat} (h : (k, v) ∈ l) (hn : (l.map (·.1)).Nodup) :
    lookup l k = some v := by
  unfold lookup
  induction l with
  | nil => cases h
  | cons x t ih =>
    rw [List.map_cons, List.nodup_cons] at hn
    rw [List.find?_cons]
    rcases List.mem_cons.1 h with rfl | h'
    · simp
    · have hne : x.1 ≠ k := by
        intro e; apply hn.1; rw [e]; exact List.mem_map.2 ⟨(k, v), h', rfl⟩
      have : (x.1 == k) = false := by simpa using hne
      simp only [this]
      exact ih h' hn.2

theorem lookup_some_mem {α} {l : List (Nat × α)} {k : Nat} {v : α} (h : lookup l k = some v) : (k, v) ∈ l := by
  unfold lookup at h
  cases hf : l.find? (fun q => q.1 == k) with
  | none => rw [hf] at h; cases h
  | some q =>
    rw [hf] at h
    have hm := List.mem_of_find?_eq_some hf
    have hp := List.find?_some hf
    simp only [beq_iff_eq] at hp
    simp only [Option.map_some, Option.some.injEq] at h
    obtain ⟨a, b⟩ := q
    simp only at hp h; subst hp; subst h; exact hm

theorem metaSame_self {m : List (Nat × Nat)} (hn : (m.map (·.1)).Nodup) : metaSame m m = true := by
  unfold metaSame
  simp only [Bool.and_eq_true, List.all_eq_true, Bool.or_eq_true, beq_iff_eq, and_self]
  intro kv hkv
  exact Or.inr (lookup_of_mem_nodup (k := kv.1) (v := kv.2) hkv hn)

theorem setSame_self (l : List Nat) : setSame l l = true := by
  unfold setSame; simp

theorem depthToMode_modeToDepth (m : Mode) : depthToMode (modeToDepth m) = m := by
  cases m <;> rfl

theorem effRmin_pinWithOpts (cfg : Cfg) (c : Nat) (o : Opts) : effRmin cfg (pinWithOpts c o) = effMin cfg o := rfl
theorem effRmax_pinWithOpts (cfg : Cfg) (c : Nat) (o : Opts) : effRmax cfg (pinWithOpts c o) = effMax cfg o := rfl

theorem res_err (pre : PinMap) : (err pre).res = none := rfl

theorem pinUpdate_absent (cfg : Cfg) (pre : PinMap) (s d : Nat) (o : Opts) (h : pre.get s = none) :
    (pinUpdate cfg pre s d o).res = none := by
  unfold pinUpdate; split_ifs <;> simp [h, err]

theorem pinUpdate_follower (cfg : Cfg) (pre : PinMap) (s d : Nat) (o : Opts) (h : cfg.follower = true) :
    (pinUpdate cfg pre s d o).res = none := by
  unfold pinUpdate; simp [h, err]

theorem pinOp_follower (cfg : Cfg) (pre : PinMap) (p : Pin) (bl ch : List Nat) (h : cfg.follower = true) :
    (pinOp cfg pre p bl ch).res = none := by
  unfold pinOp; simp [h, err]

theorem unpinOp_follower (cfg : Cfg) (pre : PinMap) (c : Nat) (h : cfg.follower = true) :
    (unpinOp cfg pre c).res = none := by
  unfold unpinOp; simp [h, err]

theorem unpinOp_absent (cfg : Cfg) (pre : PinMap) (c : Nat) (h : pre.get c = none) :
    (unpinOp cfg pre c).res = none := by
  unfold unpinOp; split_ifs <;> simp [h, err]

/-- a user-facing pin request (type data, no preset allocations) that is not a pin-update goes through `pinBody` -/
theorem pinOp_user_noUpdate (cfg : Cfg) (pre : PinMap) (c : Nat) (o : Opts) (ch : List Nat)
    (hf : cfg.follower = false) (hu : viaUpdate c o = none) :
    pinOp cfg pre (pinWithOpts c o) [] ch = pinBody cfg pre (pinWithOpts c o) [] ch := by
  unfold pinOp
  simp only [hf, Bool.false_eq_true, if_false, List.isEmpty_nil, if_true]
  have : (pinWithOpts c o).opts.update = o.update := rfl
  rw [this]
  unfold viaUpdate at hu
  cases hup : o.update with
  | none => rfl
  | some u =>
    rw [hup] at hu
    simp only at hu
    have hcid : (pinWithOpts c o).cid = c := rfl
    rw [hcid]
    split_ifs at hu with h1
    simp only [h1, Bool.false_eq_true, if_false]

theorem pinOp_user_update (cfg : Cfg) (pre : PinMap) (c : Nat) (o : Opts) (ch : List Nat) (u : Nat)
    (hf : cfg.follower = false) (hu : viaUpdate c o = some u) :
    pinOp cfg pre (pinWithOpts c o) [] ch = pinUpdate cfg pre u c o := by
  unfold pinOp
  simp only [hf, Bool.false_eq_true, if_false, List.isEmpty_nil, if_true]
  have : (pinWithOpts c o).opts.update = o.update := rfl
  rw [this]
  unfold viaUpdate at hu
  cases hup : o.update with
  | none => rw [hup] at hu; cases hu
  | some u' =>
    rw [hup] at hu
    simp only at hu
    have hcid : (pinWithOpts c o).cid = c := rfl
    split_ifs at hu with h1
    cases hu
    simp only [hcid, h1, if_true]
    rfl


/-! ### the listed refusals are refused -/
theorem step_follower (cfg : Cfg) (pre : PinMap) (op : Op) (ch : List Nat) (h : cfg.follower = true) :
    (step cfg pre op ch).res = none := by
  cases op with
  | pin c o => exact pinOp_follower _ _ _ _ _ h
  | pinPath path o =>
    show (match lookup cfg.paths path with
      | some c => pinOp cfg pre (pinWithOpts c o) [] ch
      | none => err pre).res = none
    split
    · exact pinOp_follower _ _ _ _ _ h
    · rfl
  | update s d o => exact pinUpdate_follower _ _ _ _ _ h
  | unpin c => exact unpinOp_follower _ _ _ h
  | unpinPath path =>
    show (match lookup cfg.paths path with
      | some c => unpinOp cfg pre c
      | none => err pre).res = none
    split
    · exact unpinOp_follower _ _ _ h
    · rfl
  | rpcPin p => exact pinOp_follower _ _ _ _ _ h

/-- the refusal conditions of a user pin request (not via update) make `pinBody` fail -/
theorem pinBody_refuses (cfg : Cfg) (pre : PinMap) (c : Nat) (o : Opts) (ch : List Nat)
    (h : (!C03.factorsValid (effMin cfg o) (effMax cfg o) || o.expire.beforeNow ||
          (match pre.get c with
           | some e => e.type != .dataT || (e.opts.mode == .recursive && o.mode == .direct)
           | none => false)) = true) :
    (pinBody cfg pre (pinWithOpts c o) [] ch).res = none := by
  unfold pinBody
  simp only [effRmin_pinWithOpts, effRmax_pinWithOpts]
  have hexp : (setupFactors cfg (pinWithOpts c o)).opts.expire = o.expire := by
    unfold setupFactors; simp only; split_ifs <;> rfl
  have hty : (setupFactors cfg (pinWithOpts c o)).type = .dataT := by
    unfold setupFactors; simp only; split_ifs <;> rfl
  have hmode : (setupFactors cfg (pinWithOpts c o)).opts.mode = o.mode := by
    unfold setupFactors; simp only; split_ifs <;> rfl
  have hcid : (pinWithOpts c o).cid = c := rfl
  rw [hexp, hcid]
  by_cases h1 : (!C03.factorsValid (effMin cfg o) (effMax cfg o)) = true
  · rw [if_pos h1]; rfl
  · rw [if_neg h1]
    by_cases h2 : o.expire.beforeNow = true
    · rw [if_pos h2]; rfl
    · rw [if_neg h2]
      have h3 : (match pre.get c with
           | some e => e.type != .dataT || (e.opts.mode == .recursive && o.mode == .direct)
           | none => false) = true := by
        simp only [Bool.or_eq_true] at h
        rcases h with (h | h) | h
        · exact absurd h h1
        · exact absurd h h2
        · exact h
      have : (!typeOk (pre.get c) (setupFactors cfg (pinWithOpts c o))) = true := by
        unfold typeOk
        cases hg : pre.get c with
        | none => rw [hg] at h3; cases h3
        | some e =>
          rw [hg] at h3
          simp only [hty, hmode]
          simp only [Bool.or_eq_true, Bool.and_eq_true, bne_iff_ne, ne_eq, beq_iff_eq] at h3
          rcases h3 with h3 | ⟨h3, h4⟩
          · have : (e.type == PinType.dataT) = false := by simpa using h3
            simp [this]
          · have : (e.opts.mode == Mode.recursive && o.mode != Mode.recursive) = true := by
              simp [h3, h4]
            simp [this]
      rw [if_pos this]; rfl

theorem mustRefuse_refused (cfg : Cfg) (pre : PinMap) (op : Op) (ch : List Nat)
    (h : mustRefuse cfg pre op = true) : (step cfg pre op ch).res = none := by
  by_cases hf : cfg.follower = true
  · exact step_follower cfg pre op ch hf
  · have hf' : cfg.follower = false := by simpa using hf
    unfold mustRefuse at h
    simp only [hf', Bool.false_or] at h
    cases op with
    | pin c o =>
      simp only [pinRequest] at h
      show (pinOp cfg pre (pinWithOpts c o) [] ch).res = none
      cases hv : viaUpdate c o with
      | some u =>
        rw [hv] at h
        rw [pinOp_user_update cfg pre c o ch u hf' hv]
        exact pinUpdate_absent _ _ _ _ _ (by simpa using h)
      | none =>
        rw [hv] at h
        rw [pinOp_user_noUpdate cfg pre c o ch hf' hv]
        exact pinBody_refuses cfg pre c o ch h
    | pinPath path o =>
      simp only [pinRequest, resolve] at h
      show (match lookup cfg.paths path with
        | some c => pinOp cfg pre (pinWithOpts c o) [] ch
        | none => err pre).res = none
      cases hl : lookup cfg.paths path with
      | none => rfl
      | some c =>
        rw [hl] at h
        simp only [Option.map_some] at h
        cases hv : viaUpdate c o with
        | some u =>
          rw [hv] at h
          simp only
          rw [pinOp_user_update cfg pre c o ch u hf' hv]
          exact pinUpdate_absent _ _ _ _ _ (by simpa using h)
        | none =>
          rw [hv] at h
          simp only
          rw [pinOp_user_noUpdate cfg pre c o ch hf' hv]
          exact pinBody_refuses cfg pre c o ch h
    | update s d o => exact pinUpdate_absent _ _ _ _ _ (by simpa using h)
    | unpin c => exact unpinOp_absent _ _ _ (by simpa using h)
    | unpinPath path =>
      simp only [resolve] at h
      show (match lookup cfg.paths path with
        | some c => unpinOp cfg pre c
        | none => err pre).res = none
      cases hl : lookup cfg.paths path with
      | none => rfl
      | some c =>
        rw [hl] at h
        exact unpinOp_absent _ _ _ (by simpa using h)
    | rpcPin p => simp at h


/-! ### a user pin request that succeeds -/

/-- the pin a user request becomes after `setupReplicationFactor` -/
def userPin (cfg : Cfg) (c : Nat) (o : Opts) : Pin :=
  { cid := c, type := .dataT, opts := { o with rmin := effMin cfg o, rmax := effMax cfg o },
    depth := modeToDepth o.mode, allocs := [], ref := none }

theorem setupFactors_user (cfg : Cfg) (c : Nat) (o : Opts) :
    setupFactors cfg (pinWithOpts c o) = userPin cfg c o := by
  unfold setupFactors
  by_cases h : (effRmin cfg (pinWithOpts c o) == -1 && effRmax cfg (pinWithOpts c o) == -1) = true
  · simp only [h, if_true]; rfl
  · simp only [h, if_false]; rfl

theorem wfStored_iff (p : Pin) : p.wfStored = true ↔ p.stored = p ∧ (p.opts.metadata.map (·.1)).Nodup := by
  unfold Pin.wfStored; simp

theorem stored_fixed_facts {e : Pin} (h : e.stored = e) :
    e.opts.ualloc = [] ∧ e.opts.mode = depthToMode e.depth ∧ e.opts.expire ≠ .unixZero := by
  have h1 : e.stored.opts.ualloc = e.opts.ualloc := by rw [h]
  have h2 : e.stored.opts.mode = e.opts.mode := by rw [h]
  have h3 : e.stored.opts.expire = e.opts.expire := by rw [h]
  refine ⟨h1.symm, h2.symm, ?_⟩
  intro hz
  unfold Pin.stored at h3
  simp only [hz, beq_self_eq_true, if_true] at h3
  cases h3

/-- outcome of the body of `pin()` for a user request that is not refused -/
theorem pinBody_user_ok (cfg : Cfg) (pre : PinMap) (c : Nat) (o : Opts) (ch : List Nat)
    (hr : (pinBody cfg pre (pinWithOpts c o) [] ch).res ≠ none) :
    o.expire.beforeNow = false ∧ typeOk (pre.get c) (userPin cfg c o) = true ∧
    ((keepOrNew (pre.get c) (userPin cfg c o) []).allocs = [] ∧
       pinBody cfg pre (pinWithOpts c o) [] ch =
         { logPin pre { keepOrNew (pre.get c) (userPin cfg c o) [] with allocs := ch } with
           alloc := some (allocIn cfg (pre.get c) (keepOrNew (pre.get c) (userPin cfg c o) []) []) }
     ∨ (keepOrNew (pre.get c) (userPin cfg c o) []).allocs ≠ [] ∧
       pinBody cfg pre (pinWithOpts c o) [] ch = logPin pre (keepOrNew (pre.get c) (userPin cfg c o) [])) := by
  unfold pinBody at hr ⊢
  simp only [setupFactors_user] at hr ⊢
  have hcid : (pinWithOpts c o).cid = c := rfl
  have hexp : (userPin cfg c o).opts.expire = o.expire := rfl
  rw [hcid, hexp] at hr ⊢
  by_cases h1 : (!C03.factorsValid (effRmin cfg (pinWithOpts c o)) (effRmax cfg (pinWithOpts c o))) = true
  · rw [if_pos h1] at hr; exact absurd rfl hr
  · rw [if_neg h1] at hr ⊢
    by_cases h2 : o.expire.beforeNow = true
    · rw [if_pos h2] at hr; exact absurd rfl hr
    · rw [if_neg h2] at hr ⊢
      by_cases h3 : (!typeOk (pre.get c) (userPin cfg c o)) = true
      · rw [if_pos h3] at hr; exact absurd rfl hr
      · rw [if_neg h3] at hr ⊢
        have hty : ¬ ((userPin cfg c o).type == PinType.metaT) = true := by
          show ¬ ((PinType.dataT == PinType.metaT) = true); decide
        rw [if_neg hty] at hr ⊢
        by_cases h4 : (keepOrNew (pre.get c) (userPin cfg c o) []).allocs.isEmpty = true
        · rw [if_pos h4] at hr ⊢
          refine ⟨by simpa using h2, by simpa using h3, Or.inl ⟨by simpa using h4, ?_⟩⟩
          split at hr
          · rfl
          · exact absurd rfl hr
        · rw [if_neg h4] at hr ⊢
          exact ⟨by simpa using h2, by simpa using h3, Or.inr ⟨by simpa using h4, rfl⟩⟩

theorem optsEquals_iff (a b : Opts) : optsEquals a b = true ↔
    a.name = b.name ∧ a.mode = b.mode ∧ a.rmax = b.rmax ∧ a.rmin = b.rmin ∧ a.shard = b.shard ∧
    sameMultiset a.ualloc b.ualloc = true ∧ a.expire = b.expire ∧
    (∀ kv ∈ a.metadata, kv.1 = 0 ∨ lookup b.metadata kv.1 = some kv.2) ∧
    (∀ kv ∈ b.metadata, kv.1 = 0 ∨ (lookup a.metadata kv.1).isSome = true) ∧
    a.origins.length = b.origins.length ∧ (∀ x ∈ a.origins, x ∈ b.origins) ∧ (∀ x ∈ b.origins, x ∈ a.origins) := by
  unfold optsEquals
  simp only [Bool.and_eq_true, beq_iff_eq, List.all_eq_true, Bool.or_eq_true, List.contains_eq_mem,
    decide_eq_true_eq, and_assoc]

theorem carries_iff (cfg : Cfg) (req st : Opts) : carries cfg req st = true ↔
    st.rmin = effMin cfg req ∧ st.rmax = effMax cfg req ∧ st.name = req.name ∧ st.mode = req.mode ∧
    st.shard = req.shard ∧ st.expire = req.expire ∧ metaSame st.metadata req.metadata = true ∧
    setSame st.origins req.origins = true ∧ st.origins.length = req.origins.length := by
  unfold carries
  simp only [Bool.and_eq_true, beq_iff_eq, and_assoc]

theorem metaSame_iff (a b : List (Nat × Nat)) : metaSame a b = true ↔
    (∀ kv ∈ a, kv.1 = 0 ∨ lookup b kv.1 = some kv.2) ∧ (∀ kv ∈ b, kv.1 = 0 ∨ lookup a kv.1 = some kv.2) := by
  unfold metaSame
  simp only [Bool.and_eq_true, List.all_eq_true, Bool.or_eq_true, beq_iff_eq]

theorem setSame_iff (a b : List Nat) : setSame a b = true ↔ (∀ x ∈ a, x ∈ b) ∧ (∀ x ∈ b, x ∈ a) := by
  unfold setSame
  simp only [Bool.and_eq_true, List.all_eq_true, List.contains_eq_mem, decide_eq_true_eq]

/-- Go's "no option changed" implies the stored entry carries the request -/
theorem optsEquals_carries (cfg : Cfg) (c : Nat) (o : Opts) (e : Pin)
    (hn : (e.opts.metadata.map (·.1)).Nodup)
    (h : optsEquals (userPin cfg c o).opts e.opts = true) : carries cfg o e.opts = true := by
  rw [optsEquals_iff] at h
  obtain ⟨h1, h2, h3, h4, h5, _, h7, h8, h9, h10, h11, h12⟩ := h
  rw [carries_iff]
  refine ⟨h4.symm, h3.symm, h1.symm, h2.symm, h5.symm, h7.symm, ?_, ?_, h10.symm⟩
  · rw [metaSame_iff]
    refine ⟨?_, h8⟩
    intro kv hkv
    by_cases hk : kv.1 = 0
    · exact Or.inl hk
    · right
      rcases h9 kv hkv with h0 | hs
      · exact absurd h0 hk
      · obtain ⟨v', hv'⟩ := Option.isSome_iff_exists.1 hs
        have hm : (kv.1, v') ∈ o.metadata := lookup_some_mem hv'
        rcases h8 (kv.1, v') hm with h0 | hl
        · exact absurd h0 hk
        · have : lookup e.opts.metadata kv.1 = some kv.2 := lookup_of_mem_nodup (k := kv.1) (v := kv.2) hkv hn
          simp only at hl
          rw [this] at hl
          show lookup o.metadata kv.1 = some kv.2
          have hv'' : lookup o.metadata kv.1 = some v' := hv'
          rw [hv'']; exact congrArg some (Option.some.inj hl).symm
  · rw [setSame_iff]; exact ⟨h12, h11⟩


/-- the request carried by the stored entry, without user allocations, is "no option changed" for Go -/
theorem carries_optsEquals (cfg : Cfg) (c : Nat) (o : Opts) (e : Pin)
    (hfix : e.stored = e) (hua : o.ualloc = []) (h : carries cfg o e.opts = true) :
    optsEquals (userPin cfg c o).opts e.opts = true := by
  rw [carries_iff] at h
  obtain ⟨h1, h2, h3, h4, h5, h6, h7, h8, h9⟩ := h
  rw [metaSame_iff] at h7
  rw [setSame_iff] at h8
  obtain ⟨hu, _, _⟩ := stored_fixed_facts hfix
  rw [optsEquals_iff]
  refine ⟨h3.symm, h4.symm, h2.symm, h1.symm, h5.symm, ?_, h6.symm, h7.2, ?_, h9.symm, h8.2, h8.1⟩
  · show sameMultiset o.ualloc e.opts.ualloc = true
    rw [hua, hu]; rfl
  · intro kv hkv
    rcases h7.1 kv hkv with h0 | hl
    · exact Or.inl h0
    · right
      show (lookup o.metadata kv.1).isSome = true
      rw [hl]; rfl

/-- what `keepOrNew` returns for a user request -/
theorem keepOrNew_cases (existing : Option Pin) (p : Pin) :
    (∃ e, existing = some e ∧ optsEquals p.opts e.opts = true ∧ keepOrNew existing p [] = e) ∨
    ((∀ e, existing = some e → optsEquals p.opts e.opts = false) ∧ keepOrNew existing p [] = p) := by
  unfold keepOrNew
  cases existing with
  | none => right; exact ⟨fun e he => (nomatch he), rfl⟩
  | some e =>
    by_cases h : optsEquals p.opts e.opts = true
    · left; exact ⟨e, rfl, h, by simp [h]⟩
    · right
      have h' : optsEquals p.opts e.opts = false := by simpa using h
      exact ⟨fun e' he' => by cases he'; exact h', by simp [h']⟩

theorem userPin_carries (cfg : Cfg) (c : Nat) (o : Opts) (ch : List Nat)
    (hexp : o.expire.beforeNow = false) (hn : (o.metadata.map (·.1)).Nodup) :
    carries cfg o ({ userPin cfg c o with allocs := ch } : Pin).stored.opts = true := by
  rw [carries_iff]
  have hexp' : (if o.expire == Expiry.unixZero then Expiry.zero else o.expire) = o.expire := by
    cases he : o.expire <;> simp_all [Expiry.beforeNow]
  refine ⟨rfl, rfl, rfl, ?_, rfl, ?_, ?_, ?_, rfl⟩
  · show depthToMode (modeToDepth o.mode) = o.mode
    exact depthToMode_modeToDepth _
  · show (if o.expire == Expiry.unixZero then Expiry.zero else o.expire) = o.expire
    exact hexp'
  · exact metaSame_self hn
  · exact setSame_self _


theorem sameMultiset_nil_right {a : List Nat} (h : sameMultiset a [] = true) : a = [] := by
  unfold sameMultiset at h
  simp only [Bool.and_eq_true, beq_iff_eq, List.length_nil] at h
  exact List.length_eq_zero_iff.1 h.1

theorem typeOk_some_type {e p : Pin} (h : typeOk (some e) p = true) : e.type = p.type := by
  unfold typeOk at h
  simp only [Bool.and_eq_true, beq_iff_eq] at h
  exact h.1.1

/-- the effect of a successful user pin request (not a pin-update), for any admissible allocation -/
theorem pin_effect (cfg : Cfg) (pre : PinMap) (c : Nat) (o : Opts) (ch : List Nat)
    (hpre : pre.wfState = true) (hcfg : (cfg.peers.map (·.1)).Nodup) (hn : (o.metadata.map (·.1)).Nodup)
    (hr : (pinBody cfg pre (pinWithOpts c o) [] ch).res ≠ none)
    (halloc : ∀ ai, (pinBody cfg pre (pinWithOpts c o) [] ch).alloc = some ai → C03.allowed ai (.ok ch) = true) :
    ∃ st, (pinBody cfg pre (pinWithOpts c o) [] ch).post.get c = some st ∧ st.type = .dataT ∧
      carries cfg o st.opts = true ∧
      (∀ e, identicalRepin cfg pre c o = some e → st.allocs = e.allocs ∨ e.allocs = []) ∧
      ((∃ e, identicalRepin cfg pre c o = some e ∧ e.allocs ≠ []) ∨
        C03.holds (allocInput cfg pre c o) (.ok st.allocs) = true) := by
  have hwf : pre.wf = true := by
    unfold PinMap.wfState at hpre; simp only [Bool.and_eq_true] at hpre; exact hpre.1
  have hall : ∀ e ∈ pre, e.stored = e ∧ (e.opts.metadata.map (·.1)).Nodup := by
    intro e he
    unfold PinMap.wfState at hpre; simp only [Bool.and_eq_true, List.all_eq_true] at hpre
    exact (wfStored_iff e).1 (hpre.2 e he)
  obtain ⟨hexp, hty, hcase⟩ := pinBody_user_ok cfg pre c o ch hr
  have hKcid : (keepOrNew (pre.get c) (userPin cfg c o) []).cid = c := keepOrNew_cid _ _ rfl
  -- identical re-pin means Go sees "no option changed"
  have hident : ∀ e, identicalRepin cfg pre c o = some e →
      pre.get c = some e ∧ optsEquals (userPin cfg c o).opts e.opts = true := by
    intro e he
    unfold identicalRepin at he
    cases hg : pre.get c with
    | none => rw [hg] at he; cases he
    | some e' =>
      rw [hg] at he
      simp only at he
      split_ifs at he with hc
      cases he
      simp only [Bool.and_eq_true, List.isEmpty_iff] at hc
      exact ⟨rfl, carries_optsEquals cfg c o e (hall e (get_some_mem hg).1).1 hc.2 hc.1⟩
  rcases keepOrNew_cases (pre.get c) (userPin cfg c o) with ⟨e, hge, heq, hK⟩ | ⟨hne, hK⟩
  · -- Go re-submits the existing entry
    obtain ⟨hfix, hnod⟩ := hall e (get_some_mem hge).1
    obtain ⟨hua, _, _⟩ := stored_fixed_facts hfix
    have hcar : carries cfg o e.opts = true := optsEquals_carries cfg c o e hnod heq
    have hetype : e.type = .dataT := by rw [hge] at hty; exact typeOk_some_type hty
    have houa : o.ualloc = [] := by
      rw [optsEquals_iff] at heq
      have := heq.2.2.2.2.2.1
      rw [hua] at this
      exact sameMultiset_nil_right this
    have hid : identicalRepin cfg pre c o = some e := by
      unfold identicalRepin; rw [hge]; simp [hcar, houa]
    rw [hK] at hcase
    rcases hcase with ⟨hemp, hout⟩ | ⟨hnemp, hout⟩
    · -- no allocations recorded: allocate
      refine ⟨({ e with allocs := ch } : Pin).stored, ?_, hetype, ?_, ?_, Or.inr ?_⟩
      · rw [hout]
        show (PinMap.put ({ e with allocs := ch } : Pin).stored pre).get c = _
        rw [get_put hwf]
        have : ({ e with allocs := ch } : Pin).stored.cid = c := (get_some_mem hge).2
        rw [if_pos this]
      · have : ({ e with allocs := ch } : Pin).stored.opts = e.stored.opts := rfl
        rw [this, hfix]; exact hcar
      · intro e' he'
        have := (hident e' he').1
        rw [hge] at this; cases this
        exact Or.inr hemp
      · have hal : C03.allowed (allocIn cfg (pre.get c) e []) (.ok ch) = true := by
          apply halloc; rw [hout]
        have hin : allocIn cfg (pre.get c) e [] = allocInput cfg pre c o := by
          rw [carries_iff] at hcar
          unfold allocIn allocInput
          rw [hcar.1, hcar.2.1, hua, houa]
        rw [hin] at hal
        exact C03.allowed_holds _ _ (by unfold C03.wf allocInput; exact decide_eq_true hcfg) hal
    · refine ⟨e.stored, ?_, by rw [hfix]; exact hetype, by rw [hfix]; exact hcar, ?_, Or.inl ⟨e, hid, hnemp⟩⟩
      · rw [hout]
        show (PinMap.put e.stored pre).get c = _
        rw [get_put hwf]
        have : e.stored.cid = c := (get_some_mem hge).2
        rw [if_pos this]
      · intro e' he'
        have := (hident e' he').1
        rw [hge] at this; cases this
        left; rw [hfix]
  · -- the request replaces what there was (or is new)
    rw [hK] at hcase
    rcases hcase with ⟨_, hout⟩ | ⟨hnemp, _⟩
    · refine ⟨({ userPin cfg c o with allocs := ch } : Pin).stored, ?_, rfl, userPin_carries cfg c o ch hexp hn, ?_, Or.inr ?_⟩
      · rw [hout]
        show (PinMap.put ({ userPin cfg c o with allocs := ch } : Pin).stored pre).get c = _
        rw [get_put hwf]
        have : ({ userPin cfg c o with allocs := ch } : Pin).stored.cid = c := rfl
        rw [if_pos this]
      · intro e' he'
        obtain ⟨hg, heq⟩ := hident e' he'
        have := hne e' hg
        rw [heq] at this; cases this
      · have hal : C03.allowed (allocIn cfg (pre.get c) (userPin cfg c o) []) (.ok ch) = true := by
          apply halloc; rw [hout]
        have hin : allocIn cfg (pre.get c) (userPin cfg c o) [] = allocInput cfg pre c o := rfl
        rw [hin] at hal
        exact C03.allowed_holds _ _ (by unfold C03.wf allocInput; exact decide_eq_true hcfg) hal
    · exact absurd rfl hnemp


/-! ### pin update, unpin, rpc pin -/
theorem updPin_fields (e : Pin) (s d : Nat) (o : Opts) :
    (updPin e s d o).type = e.type ∧ (updPin e s d o).allocs = e.allocs ∧ (updPin e s d o).depth = e.depth ∧
    (updPin e s d o).opts.rmin = e.opts.rmin ∧ (updPin e s d o).opts.rmax = e.opts.rmax ∧
    (updPin e s d o).opts.shard = e.opts.shard ∧ (updPin e s d o).opts.metadata = e.opts.metadata ∧
    (updPin e s d o).opts.origins = e.opts.origins ∧
    (updPin e s d o).opts.name = (if o.name != 0 then o.name else e.opts.name) ∧
    (updPin e s d o).opts.expire = (if o.expire.afterNow then o.expire else e.opts.expire) := by
  unfold updPin
  by_cases h1 : (o.name != 0) = true <;> by_cases h2 : o.expire.afterNow = true <;> simp [h1, h2]

theorem update_effect (cfg : Cfg) (pre : PinMap) (s d : Nat) (o : Opts)
    (hpre : pre.wfState = true) (hr : (pinUpdate cfg pre s d o).res ≠ none) :
    ∃ src st, pre.get s = some src ∧ (pinUpdate cfg pre s d o).post.get d = some st ∧
      st.type = src.type ∧ st.allocs = src.allocs ∧ st.depth = src.depth ∧
      st.opts.rmin = src.opts.rmin ∧ st.opts.rmax = src.opts.rmax ∧ st.opts.mode = src.opts.mode ∧
      st.opts.shard = src.opts.shard ∧ metaSame st.opts.metadata src.opts.metadata = true ∧
      setSame st.opts.origins src.opts.origins = true ∧
      st.opts.name = (if o.name != 0 then o.name else src.opts.name) ∧
      st.opts.expire = (if o.expire.afterNow then o.expire else src.opts.expire) ∧
      (s = d ∨ (pinUpdate cfg pre s d o).post.get s = pre.get s) := by
  have hwf : pre.wf = true := by
    unfold PinMap.wfState at hpre; simp only [Bool.and_eq_true] at hpre; exact hpre.1
  have hall : ∀ e ∈ pre, e.stored = e ∧ (e.opts.metadata.map (·.1)).Nodup := by
    intro e he
    unfold PinMap.wfState at hpre; simp only [Bool.and_eq_true, List.all_eq_true] at hpre
    exact (wfStored_iff e).1 (hpre.2 e he)
  unfold pinUpdate at hr ⊢
  by_cases hf : cfg.follower = true
  · rw [if_pos hf] at hr; exact absurd rfl hr
  · rw [if_neg hf] at hr ⊢
    cases hg : pre.get s with
    | none => rw [hg] at hr; exact absurd rfl hr
    | some e =>
      rw [hg] at hr
      simp only at hr ⊢
      by_cases ht : (e.type != PinType.dataT) = true
      · rw [if_pos ht] at hr; exact absurd rfl hr
      · rw [if_neg ht]
        obtain ⟨hfix, hnod⟩ := hall e (get_some_mem hg).1
        obtain ⟨_, hmode, hexpz⟩ := stored_fixed_facts hfix
        obtain ⟨f1, f2, f3, f4, f5, f6, f7, f8, f9, f10⟩ := updPin_fields e s d o
        refine ⟨e, (updPin e s d o).stored, rfl, ?_, f1, f2, f3, f4, f5, ?_, f6, ?_, ?_, f9, ?_, ?_⟩
        · show (PinMap.put (updPin e s d o).stored pre).get d = _
          rw [get_put hwf]
          have : (updPin e s d o).stored.cid = d := updPin_cid e s d o
          rw [if_pos this]
        · show depthToMode (updPin e s d o).depth = e.opts.mode
          rw [f3, hmode]
        · show metaSame (updPin e s d o).opts.metadata e.opts.metadata = true
          rw [f7]; exact metaSame_self hnod
        · show setSame (updPin e s d o).opts.origins e.opts.origins = true
          rw [f8]; exact setSame_self _
        · show (if (updPin e s d o).opts.expire == Expiry.unixZero then Expiry.zero else (updPin e s d o).opts.expire) = _
          rw [f10]
          by_cases ha : o.expire.afterNow = true
          · simp only [ha, if_true]
            cases he : o.expire <;> simp_all [Expiry.afterNow]
          · simp only [ha, if_false]
            have : (e.opts.expire == Expiry.unixZero) = false := by simpa using hexpz
            simp [this]
        · by_cases hsd : s = d
          · exact Or.inl hsd
          · right
            show (PinMap.put (updPin e s d o).stored pre).get s = _
            rw [get_put hwf]
            have : (updPin e s d o).stored.cid = d := updPin_cid e s d o
            rw [this, if_neg (Ne.symm hsd), hg]

theorem unpin_effect (cfg : Cfg) (pre : PinMap) (c : Nat) (hr : (unpinOp cfg pre c).res ≠ none) :
    ∀ k ∈ c :: targets.shardGroup cfg pre c, (unpinOp cfg pre c).post.get k = none := by
  unfold unpinOp at hr ⊢
  by_cases hf : cfg.follower = true
  · rw [if_pos hf] at hr; exact absurd rfl hr
  · rw [if_neg hf] at hr ⊢
    cases hg : pre.get c with
    | none => rw [hg] at hr; exact absurd rfl hr
    | some p =>
      rw [hg] at hr
      simp only at hr ⊢
      cases hty : p.type with
      | dataT =>
        simp only [hty]
        intro k hk
        have : targets.shardGroup cfg pre c = [] := by
          unfold targets.shardGroup; simp [hg, hty]
        rw [this] at hk
        simp only [List.mem_cons, List.not_mem_nil, or_false] at hk
        rw [get_erase, if_pos hk]
      | metaT =>
        rw [hty] at hr
        simp only at hr ⊢
        cases hrf : p.ref with
        | none => rw [hrf] at hr; exact absurd rfl hr
        | some r =>
          rw [hrf] at hr
          simp only at hr ⊢
          cases hgr : pre.get r with
          | none => rw [hgr] at hr; exact absurd rfl hr
          | some q =>
            cases hb : lookup cfg.blocks r with
            | none => rw [hgr, hb] at hr; exact absurd rfl hr
            | some links =>
              simp only
              intro k hk
              have : targets.shardGroup cfg pre c = r :: links := by
                unfold targets.shardGroup; simp [hg, hty, hrf, hb]
              rw [this] at hk
              rw [get_foldl_erase]
              have : k ∈ links.reverse ++ [r, c] ++ [c] := by
                simp only [List.mem_cons] at hk
                simp only [List.append_assoc, List.mem_append, List.mem_reverse, List.mem_cons,
                  List.mem_nil_iff, or_false]
                rcases hk with h | h | h
                · exact Or.inr (Or.inr h)
                · exact Or.inr (Or.inl (Or.inl h))
                · exact Or.inl h
              rw [if_pos this]
      | clusterDagT => rw [hty] at hr; exact absurd rfl hr
      | shardT => rw [hty] at hr; exact absurd rfl hr
      | badT => rw [hty] at hr; exact absurd rfl hr

/-- pin-type calls only ever log a pin -/
def PShape (c : Nat) (pre : PinMap) (out : Out) : Prop :=
  out.res = none ∨ ∃ q : Pin, q.cid = c ∧ out.post = PinMap.put q.stored pre

theorem pshape_pinUpdate (cfg : Cfg) (pre : PinMap) (s d : Nat) (o : Opts) : PShape d pre (pinUpdate cfg pre s d o) := by
  unfold pinUpdate
  split_ifs
  · exact Or.inl rfl
  · split
    · exact Or.inl rfl
    · split_ifs
      · exact Or.inl rfl
      · exact Or.inr ⟨_, updPin_cid _ _ _ _, rfl⟩

theorem pshape_pinBody (cfg : Cfg) (pre : PinMap) (p : Pin) (bl ch : List Nat) :
    PShape p.cid pre (pinBody cfg pre p bl ch) := by
  unfold pinBody
  simp only
  have h3 : (keepOrNew (pre.get p.cid) (setupFactors cfg p) bl).cid = p.cid :=
    keepOrNew_cid _ _ (setupFactors_cid cfg p)
  split_ifs
  · exact Or.inl rfl
  · exact Or.inl rfl
  · exact Or.inl rfl
  · exact Or.inr ⟨_, setupFactors_cid cfg p, rfl⟩
  · split
    · exact Or.inr ⟨{ keepOrNew (pre.get p.cid) (setupFactors cfg p) bl with allocs := ch }, h3, rfl⟩
    · exact Or.inl rfl
  · exact Or.inr ⟨_, h3, rfl⟩

theorem pshape_pinOp (cfg : Cfg) (pre : PinMap) (p : Pin) (bl ch : List Nat) :
    PShape p.cid pre (pinOp cfg pre p bl ch) := by
  unfold pinOp
  split_ifs
  · exact Or.inl rfl
  · split
    · split_ifs
      · exact pshape_pinUpdate ..
      · exact pshape_pinBody ..
    · exact pshape_pinBody ..
  · exact pshape_pinBody ..

theorem rpcPin_effect (cfg : Cfg) (pre : PinMap) (p : Pin) (ch : List Nat) (hw : pre.wf = true)
    (hr : (pinOp cfg pre p [] ch).res ≠ none) : ((pinOp cfg pre p [] ch).post.get p.cid).isSome = true := by
  rcases pshape_pinOp cfg pre p [] ch with h | ⟨q, hq, hp⟩
  · exact absurd h hr
  · rw [hp, get_put hw]
    have : q.stored.cid = p.cid := hq
    rw [if_pos this]; rfl


/-- the consensus log of a pin-type call: nothing, or one pin for that cid -/
def LShape (c : Nat) (out : Out) : Prop := out.log = [] ∨ ∃ q : Pin, q.cid = c ∧ out.log = [.logPin q]

theorem lshape_pinUpdate (cfg : Cfg) (pre : PinMap) (s d : Nat) (o : Opts) : LShape d (pinUpdate cfg pre s d o) := by
  unfold pinUpdate
  split_ifs
  · exact Or.inl rfl
  · split
    · exact Or.inl rfl
    · split_ifs
      · exact Or.inl rfl
      · exact Or.inr ⟨_, updPin_cid _ _ _ _, rfl⟩

theorem lshape_pinBody (cfg : Cfg) (pre : PinMap) (p : Pin) (bl ch : List Nat) :
    LShape p.cid (pinBody cfg pre p bl ch) := by
  unfold pinBody
  simp only
  have h3 : (keepOrNew (pre.get p.cid) (setupFactors cfg p) bl).cid = p.cid :=
    keepOrNew_cid _ _ (setupFactors_cid cfg p)
  split_ifs
  · exact Or.inl rfl
  · exact Or.inl rfl
  · exact Or.inl rfl
  · exact Or.inr ⟨_, setupFactors_cid cfg p, rfl⟩
  · split
    · exact Or.inr ⟨{ keepOrNew (pre.get p.cid) (setupFactors cfg p) bl with allocs := ch }, h3, rfl⟩
    · exact Or.inl rfl
  · exact Or.inr ⟨_, h3, rfl⟩

theorem lshape_pinOp (cfg : Cfg) (pre : PinMap) (p : Pin) (bl ch : List Nat) :
    LShape p.cid (pinOp cfg pre p bl ch) := by
  unfold pinOp
  split_ifs
  · exact Or.inl rfl
  · split
    · split_ifs
      · exact lshape_pinUpdate ..
      · exact lshape_pinBody ..
    · exact lshape_pinBody ..
  · exact lshape_pinBody ..

/-! ### stored form is preserved by every call -/
def metaOk (p : Pin) : Prop := (p.opts.metadata.map (·.1)).Nodup

theorem stored_idem (p : Pin) : p.stored.stored = p.stored := by
  unfold Pin.stored
  cases he : p.opts.expire <;> simp [he]

theorem wfStored_stored {q : Pin} (h : metaOk q) : q.stored.wfStored = true := by
  rw [wfStored_iff]; exact ⟨stored_idem q, h⟩

/-- pin-type calls log a pin whose metadata is a map whenever the inputs' are -/
def MShape (pre : PinMap) (out : Out) : Prop :=
  out.post = pre ∨ ∃ q : Pin, metaOk q ∧ out.post = PinMap.put q.stored pre

theorem metaOk_updPin {e : Pin} (s d : Nat) (o : Opts) (h : metaOk e) : metaOk (updPin e s d o) := by
  unfold metaOk; rw [(updPin_fields e s d o).2.2.2.2.2.2.1]; exact h

theorem metaOk_setupFactors (cfg : Cfg) {p : Pin} (h : metaOk p) : metaOk (setupFactors cfg p) := by
  unfold setupFactors; simp only; split_ifs <;> exact h

theorem mshape_pinUpdate (cfg : Cfg) (pre : PinMap) (s d : Nat) (o : Opts)
    (hpre : ∀ e ∈ pre, metaOk e) : MShape pre (pinUpdate cfg pre s d o) := by
  unfold pinUpdate
  split_ifs
  · exact Or.inl rfl
  · split
    · exact Or.inl rfl
    · rename_i e he
      split_ifs
      · exact Or.inl rfl
      · exact Or.inr ⟨_, metaOk_updPin s d o (hpre e (get_some_mem he).1), rfl⟩

theorem mshape_pinBody (cfg : Cfg) (pre : PinMap) (p : Pin) (bl ch : List Nat)
    (hpre : ∀ e ∈ pre, metaOk e) (hp : metaOk p) : MShape pre (pinBody cfg pre p bl ch) := by
  unfold pinBody
  simp only
  have hk : metaOk (keepOrNew (pre.get p.cid) (setupFactors cfg p) bl) := by
    unfold keepOrNew
    split
    · rename_i e he
      split_ifs
      · exact hpre e (get_some_mem he).1
      · exact metaOk_setupFactors cfg hp
    · exact metaOk_setupFactors cfg hp
  split_ifs
  · exact Or.inl rfl
  · exact Or.inl rfl
  · exact Or.inl rfl
  · exact Or.inr ⟨_, metaOk_setupFactors cfg hp, rfl⟩
  · split
    · exact Or.inr ⟨{ keepOrNew (pre.get p.cid) (setupFactors cfg p) bl with allocs := ch }, hk, rfl⟩
    · exact Or.inl rfl
  · exact Or.inr ⟨_, hk, rfl⟩

theorem mshape_pinOp (cfg : Cfg) (pre : PinMap) (p : Pin) (bl ch : List Nat)
    (hpre : ∀ e ∈ pre, metaOk e) (hp : metaOk p) : MShape pre (pinOp cfg pre p bl ch) := by
  unfold pinOp
  split_ifs
  · exact Or.inl rfl
  · split
    · split_ifs
      · exact mshape_pinUpdate cfg pre _ _ _ hpre
      · exact mshape_pinBody cfg pre p bl ch hpre hp
    · exact mshape_pinBody cfg pre p bl ch hpre hp
  · exact mshape_pinBody cfg pre p bl ch hpre hp

theorem wfState_iff (m : PinMap) : m.wfState = true ↔ m.wf = true ∧ ∀ e ∈ m, e.wfStored = true := by
  unfold PinMap.wfState; simp

theorem wfState_of_mshape {pre : PinMap} {out : Out} (hpre : pre.wfState = true) (h : MShape pre out) :
    out.post.wfState = true := by
  rw [wfState_iff] at hpre ⊢
  rcases h with h | ⟨q, hq, h⟩
  · rw [h]; exact hpre
  · rw [h]
    refine ⟨wf_put hpre.1 _, ?_⟩
    intro e he
    rcases mem_put he with rfl | he
    · exact wfStored_stored hq
    · exact hpre.2 e he

theorem mem_foldl_erase {cs : List Nat} {m : PinMap} {q : Pin} (h : q ∈ cs.foldl PinMap.erase m) : q ∈ m := by
  induction cs generalizing m with
  | nil => exact h
  | cons c t ih =>
    have := ih h
    unfold PinMap.erase at this
    exact List.mem_of_mem_filter this

theorem wfState_unpinOp (cfg : Cfg) (pre : PinMap) (c : Nat) (hpre : pre.wfState = true) :
    (unpinOp cfg pre c).post.wfState = true := by
  rw [wfState_iff] at hpre ⊢
  have hsh := shape_unpinOp cfg pre c
  refine ⟨shape_wf hsh hpre.1, ?_⟩
  intro e he
  apply hpre.2
  cases hsh with
  | refused _ hp _ => rw [hp] at he; exact he
  | logged q _ _ hp hlog =>
    -- an unpin never logs a pin: its log only holds unpins
    exfalso
    unfold unpinOp at hlog
    split_ifs at hlog
    all_goals (try (simp [err] at hlog))
    split at hlog
    · simp [err] at hlog
    · split at hlog
      · simp at hlog
      · split at hlog
        · simp [err] at hlog
        · split at hlog
          · have := congrArg List.length hlog
            simp at this
          · simp [err] at hlog
      all_goals (simp [err] at hlog)
  | erased q cs _ _ hp _ => rw [hp] at he; exact mem_foldl_erase he

end CV.C04
