import ClusterVerif.Lemmas.C03
import ClusterVerif.Lemmas.C03Block
import ClusterVerif.Model.C03Alloc
import ClusterVerif.Gen.C03

/-! Round 8 helper lemmas: the interpreted allocator shapes, stability of an allocation that already meets the
    count clause, blacklisted peers, the re-pin request. -/
namespace CV.C03
open CV

theorem allocateWith_gen_aux (i : Input) :
    allocateWith Gen.ascShape Gen.descShape Gen.allocatorCallGroups i = allocate i := by
  unfold allocateWith allocate
  cases hd : i.desc <;>
    simp [Gen.ascShape, Gen.descShape, Gen.allocatorCallGroups, allocatorWith, Grp.sel, List.flatMap]

theorem good_realloc (i : Input) (stored : List Nat) (p : Nat) :
    good (reallocInput i stored i.blacklist) p = good i p := rfl

theorem wf_realloc (i : Input) (stored bl : List Nat) : wf (reallocInput i stored bl) = wf i := rfl

/-- the healthy, non-excluded holders of a stored list `out`, as allocate() counts them -/
theorem curIds_realloc_length {i : Input} (hw : wf i = true) (out : List Nat) :
    (curIds (reallocInput i out i.blacklist)).length = ((dedup out).filter (good i)).length := by
  have hw' : wf (reallocInput i out i.blacklist) = true := hw
  refine length_eq_of_nodup_mem_iff (nodup_curIds hw') (List.Nodup.sublist List.filter_sublist (nodup_dedup _)) ?_
  intro x
  rw [mem_curIds hw', good_realloc]
  simp [List.mem_filter, mem_dedup, reallocInput]

theorem stable_of_count_aux {i : Input} (hw : wf i = true) (hpos : positive i = true) {out : List Nat}
    (hc : cCount i out = true) (o : Output) (h : allowed (reallocInput i out i.blacklist) o = true) : o = .ok out := by
  have hp : 0 < i.rmin ∧ i.rmin ≤ i.rmax := by simpa [positive] using hpos
  have hlen := curIds_realloc_length hw out
  unfold cCount at hc
  simp only [Bool.and_eq_true, decide_eq_true_eq] at hc
  unfold allowed at h
  have e1 : (reallocInput i out i.blacklist).rmin = i.rmin := rfl
  have e2 : (reallocInput i out i.blacklist).rmax = i.rmax := rfl
  have e3 : (reallocInput i out i.blacklist).current = out := rfl
  rw [e1, e2, e3] at h
  have h1 : ¬ (i.rmin + i.rmax == 0) = true := by simp only [beq_iff_eq]; omega
  have h2 : ¬ (decide (i.rmin < 0) && decide (i.rmax < 0)) = true := by
    simp only [Bool.and_eq_true, decide_eq_true_eq]; omega
  have hwant : ¬ (i.rmax - ((curIds (reallocInput i out i.blacklist)).length : Int) < 0) := by rw [hlen]; omega
  have hneed : i.rmin - ((curIds (reallocInput i out i.blacklist)).length : Int) ≤ 0 := by rw [hlen]; omega
  simp only [h1, h2, Bool.false_eq_true, if_false, hwant, hneed, if_true, beq_iff_eq] at h
  exact h

/-- from `holds` on an ok output with positive factors: the count clause -/
theorem holds_ok_count {i : Input} {out : List Nat} (hpos : positive i = true) (h : holds i (.ok out) = true) :
    cCount i out = true := by
  have hp : 0 < i.rmin ∧ i.rmin ≤ i.rmax := by simpa [positive] using hpos
  have hev : (i.rmin == -1 && i.rmax == -1) = false := by
    simp only [Bool.and_eq_false_iff, beq_eq_false_iff_ne, ne_eq]; left; omega
  unfold holds clauses at h
  simp only [hev, Bool.false_eq_true, if_false, hpos, if_true, List.all_cons, List.all_nil, Bool.and_true,
    Bool.and_eq_true] at h
  exact h.2.2.2.1

theorem holds_ok_added {i : Input} {out : List Nat} (hpos : positive i = true) (h : holds i (.ok out) = true) :
    cAdded i out = true := by
  have hp : 0 < i.rmin ∧ i.rmin ≤ i.rmax := by simpa [positive] using hpos
  have hev : (i.rmin == -1 && i.rmax == -1) = false := by
    simp only [Bool.and_eq_false_iff, beq_eq_false_iff_ne, ne_eq]; left; omega
  unfold holds clauses at h
  simp only [hev, Bool.false_eq_true, if_false, hpos, if_true, List.all_cons, List.all_nil, Bool.and_true,
    Bool.and_eq_true] at h
  exact h.2.1

/-- an excluded peer that shows up in an admitted allocation: the allocation is the stored list, verbatim -/
theorem blacklisted_only_verbatim_aux {i : Input} (hw : wf i = true) (hpos : positive i = true) {out : List Nat}
    (h : allowed i (.ok out) = true) {f : Nat} (hb : f ∈ i.blacklist) (hf : f ∈ out) :
    out = i.current ∧ i.rmin ≤ ((healthyCurrent i).length : Int) := by
  have hp : 0 < i.rmin ∧ i.rmin ≤ i.rmax := by simpa [positive] using hpos
  have notcur : f ∉ curIds i := by
    intro hc; have := (mem_curIds hw).1 hc; exact (good_iff.1 this.2).2 hb
  unfold allowed at h
  have h1 : ¬ (i.rmin + i.rmax == 0) = true := by simp only [beq_iff_eq]; omega
  have h2 : ¬ (decide (i.rmin < 0) && decide (i.rmax < 0)) = true := by
    simp only [Bool.and_eq_true, decide_eq_true_eq]; omega
  simp only [h1, h2, Bool.false_eq_true, if_false] at h
  by_cases hwant : i.rmax - ((curIds i).length : Int) < 0
  · have hnp : ¬ (((curIds i).length : Int) + (i.rmax - ((curIds i).length : Int)) < 0) := by omega
    simp only [hwant, hnp, if_true, if_false, okWith_iff, okTrunc_iff] at h
    obtain ⟨l, hl, _, _, hsub⟩ := h
    cases hl
    exact absurd (hsub f hf) notcur
  · simp only [hwant, if_false] at h
    by_cases hneed : i.rmin - ((curIds i).length : Int) ≤ 0
    · simp only [hneed, if_true, beq_iff_eq] at h
      cases h
      exact ⟨rfl, by rw [length_healthyCurrent hw]; omega⟩
    · simp only [hneed, if_false] at h
      exfalso
      split at h
      · simp at h
      · split at h
        · simp at h
        · simp only [okWith_iff, okAlloc_iff] at h
          obtain ⟨l, hl, hhead, _, ha, hbb⟩ := h
          cases hl
          rw [← List.take_append_drop (curIds i).length out, List.mem_append] at hf
          rcases hf with hf | hf
          · exact notcur (hhead.subset hf)
          · rw [← List.take_append_drop (min (min (i.rmax - ((curIds i).length : Int)).toNat
                ((numerics (priM i)).length + (numerics (candM i)).length)) (numerics (priM i)).length)
                (List.drop (curIds i).length out), List.mem_append] at hf
            rcases hf with hf | hf
            · obtain ⟨x, hx⟩ := (isTopK_spec ha).1 f hf
              exact ((priNum_spec hw).1 (lookupVal_some hx)).2.1 hb
            · obtain ⟨x, hx⟩ := (isTopK_spec hbb).1 f hf
              exact ((candNum_spec hw).1 (lookupVal_some hx)).2.1 hb

/-! ### the re-pin request -/

theorem repin_request_gen (failed : Nat) (pin : Pin) :
    repinRequest Gen.repinShape failed pin = ({ pin with allocs := [] }, [failed]) := rfl

theorem repin_input_aux (cfg : C04.Cfg) (pre : PinMap) (failed : Nat) (pin : Pin) (chosen : List Nat) (ai : Input)
    (h : (repinWith Gen.repinShape cfg pre failed pin chosen).alloc = some ai) :
    ai.blacklist = [failed] ∧ ai.current = ((pre.get pin.cid).map (·.allocs)).getD [] ∧
    ai.priority.Perm pin.opts.ualloc ∧ ai.peers = cfg.peers := by
  unfold repinWith at h
  rw [repin_request_gen] at h
  unfold C04.pinOp at h
  by_cases hf : cfg.follower = true
  · simp [hf, C04.err] at h
  · simp only [hf, Bool.false_eq_true, if_false, List.isEmpty_cons] at h
    obtain ⟨a, b, c, d, _⟩ := pin_priority_aux cfg pre { pin with allocs := [] } [failed] chosen ai h
    exact ⟨b, c, a, d⟩

end CV.C03
