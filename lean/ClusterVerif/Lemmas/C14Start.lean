import ClusterVerif.Model.C14Start

/-! # C14 — lemmas about the (snapshot, log) folder model: the index invariant of the writing peer

Round 8b. `Inv r`: what a single-voter peer keeps true of its `raft.db` — every index is positive and at most the
last log index (so an appended entry gets a fresh, larger index), and every COMMAND entry has an index at most
`cmdIdx` (the index of the last command: what a snapshot is taken at). With it a shutdown snapshot at `fsmIdx`
leaves only no-ops / configuration entries behind it, and a start replays nothing that changes the pinset.
Core tactics only. -/
namespace CV.C14.Start

theorem replay_append (s : List Nat) (a : Nat) (l : List (Nat × Entry)) (i : Nat) (e : Entry) :
    replay s a (l ++ [(i, e)]) = (if a < i then applyE (replay s a l) e else replay s a l) := by
  induction l generalizing s with
  | nil => simp [replay]
  | cons x t ih => obtain ⟨j, f⟩ := x; simp only [List.cons_append, replay]; exact ih _

/-- entries behind `a` that are no commands change nothing -/
theorem replay_noCmd (s : List Nat) (a : Nat) (l : List (Nat × Entry))
    (h : ∀ x ∈ l, x.2.isCmd = true → x.1 ≤ a) : replay s a l = s := by
  induction l generalizing s with
  | nil => rfl
  | cons x t ih =>
    obtain ⟨j, f⟩ := x
    have ht : ∀ x ∈ t, x.2.isCmd = true → x.1 ≤ a := fun x hx => h x (List.mem_cons_of_mem _ hx)
    simp only [replay]
    by_cases hj : a < j
    · have hn : f.isCmd = false := by
        cases hc : f.isCmd with
        | false => rfl
        | true => have := h (j, f) (List.mem_cons_self ..) hc; simp only at this; omega
      have : applyE s f = s := by cases f <;> simp_all [Entry.isCmd, applyE]
      simp only [hj, if_true, this]; exact ih s ht
    · simp only [hj, if_false]; exact ih s ht

theorem lastLog_append (l : List (Nat × Entry)) (x : Nat × Entry) : lastLog (l ++ [x]) = x.1 := by
  simp [lastLog]

theorem cmdIdx_append (l : List (Nat × Entry)) (n : Nat) (e : Entry) (hn : 0 < n) :
    cmdIdx (l ++ [(n, e)]) = (if e.isCmd then n else cmdIdx l) := by
  induction l with
  | nil => cases h : e.isCmd <;> simp [cmdIdx, h]
  | cons x t ih =>
    obtain ⟨j, f⟩ := x
    simp only [List.cons_append, cmdIdx, ih]
    cases h : e.isCmd with
    | false => simp
    | true => simp; omega

/-- the index invariant of a log written by `boot`/`commit` -/
def Inv (r : Raft) : Prop :=
  (∀ x ∈ r.log, 0 < x.1 ∧ x.1 ≤ lastLog r.log) ∧ (∀ x ∈ r.log, x.2.isCmd = true → x.1 ≤ cmdIdx r.log)

theorem inv_boot_none : Inv (boot none) := by
  constructor
  · intro x hx; simp [boot] at hx; rcases hx with rfl | rfl <;> simp [boot, lastLog]
  · intro x hx; simp [boot] at hx; rcases hx with rfl | rfl <;> simp [Entry.isCmd]

theorem lastLog_le_lastIdx (r : Raft) : lastLog r.log ≤ lastIdx r := by
  simp only [lastIdx]; omega

theorem inv_commit (r : Raft) (e : Entry) (h : Inv r) : Inv (commit r e) := by
  obtain ⟨h1, h2⟩ := h
  have hl := lastLog_le_lastIdx r
  constructor
  · intro x hx
    simp only [commit, List.mem_append, List.mem_singleton] at hx
    simp only [commit, lastLog_append]
    rcases hx with hx | rfl
    · have := h1 x hx; omega
    · simp
  · intro x hx hc
    simp only [commit, List.mem_append, List.mem_singleton] at hx
    simp only [commit]
    rw [cmdIdx_append _ _ _ (by omega)]
    rcases hx with hx | rfl
    · cases he : e.isCmd with
      | true => have := h1 x hx; simp; omega
      | false => simpa using h2 x hx hc
    · simp only at hc; simp [hc]

theorem inv_shutdown (r : Raft) (h : Inv r) : Inv (shutdown r) := by
  unfold shutdown; split
  · exact h
  · exact h

theorem snapIdx_lt_next (r : Raft) : (r.snap.map (·.1)).getD 0 < lastIdx r + 1 := by
  simp only [lastIdx]; omega

/-- a committed entry is applied on top of what the peer serves — whatever the folder holds -/
theorem startR_commit (r : Raft) (e : Entry) : startR (commit r e) = applyE (startR r) e := by
  have hlt := snapIdx_lt_next r
  obtain ⟨snap, log⟩ := r
  cases snap with
  | none => simp [startR, commit, replay_append]
  | some p =>
    obtain ⟨i, s⟩ := p
    simp only [Option.map, Option.getD] at hlt
    simp [startR, commit, replay_append, hlt]

/-- a graceful shutdown does not change what the next start serves -/
theorem startR_shutdown (r : Raft) (h : Inv r) : startR (shutdown r) = startR r := by
  unfold shutdown; split
  · rfl
  · simp only [startR]
    apply replay_noCmd
    intro x hx hc
    have := h.2 x hx hc
    simp only [fsmIdx]; omega

theorem inv_boot_some (r : Raft) (h : Inv r) : Inv (boot (some r)) := inv_commit r .noop h

theorem startR_boot_some (r : Raft) : startR (boot (some r)) = startR r := by
  simp [boot, startR_commit, applyE]

/-- the pinset the operations give -/
def specStep (st : List Nat) : Op → List Nat
  | .pin c => ins c st
  | .unpin c => del c st
  | .restart => st

theorem inv_stepOp (r : Raft) (o : Op) (h : Inv r) : Inv (stepOp r o) := by
  cases o with
  | pin c => exact inv_commit _ _ h
  | unpin c => exact inv_commit _ _ h
  | restart => exact inv_boot_some _ (inv_shutdown _ h)

theorem startR_stepOp (r : Raft) (o : Op) (h : Inv r) : startR (stepOp r o) = specStep (startR r) o := by
  cases o with
  | pin c => simp [stepOp, startR_commit, applyE, specStep]
  | unpin c => simp [stepOp, startR_commit, applyE, specStep]
  | restart => simp [stepOp, startR_boot_some, startR_shutdown _ h, specStep]

theorem inv_runOps (r : Raft) (ops : List Op) (h : Inv r) : Inv (runOps r ops) := by
  induction ops generalizing r with
  | nil => exact h
  | cons o t ih => exact ih _ (inv_stepOp r o h)

theorem startR_runOps (r : Raft) (ops : List Op) (h : Inv r) :
    startR (runOps r ops) = ops.foldl specStep (startR r) := by
  induction ops generalizing r with
  | nil => rfl
  | cons o t ih =>
    simp only [runOps, List.foldl_cons] at ih ⊢
    rw [ih _ (inv_stepOp r o h), startR_stepOp r o h]

/-- the log only grows -/
theorem log_mem_commit (r : Raft) (e : Entry) (x : Nat × Entry) (hx : x ∈ r.log) : x ∈ (commit r e).log := by
  simp [commit, hx]

theorem log_shutdown (r : Raft) : (shutdown r).log = r.log := by
  unfold shutdown; split <;> rfl

theorem log_mem_stepOp (r : Raft) (o : Op) (x : Nat × Entry) (hx : x ∈ r.log) : x ∈ (stepOp r o).log := by
  cases o with
  | pin c => exact log_mem_commit _ _ _ hx
  | unpin c => exact log_mem_commit _ _ _ hx
  | restart => exact log_mem_commit _ _ _ (by rw [log_shutdown]; exact hx)

theorem log_mem_runOps (r : Raft) (ops : List Op) (x : Nat × Entry) (hx : x ∈ r.log) : x ∈ (runOps r ops).log := by
  induction ops generalizing r with
  | nil => exact hx
  | cons o t ih => exact ih _ (log_mem_stepOp r o x hx)

def Op.isCmd : Op → Bool
  | .restart => false
  | _ => true

/-- a history with a pin or unpin leaves a command entry in the log -/
theorem cmd_in_log (r : Raft) (ops : List Op) (h : ops.any Op.isCmd = true) :
    ∃ x ∈ (runOps r ops).log, x.2.isCmd = true := by
  induction ops generalizing r with
  | nil => simp at h
  | cons o t ih =>
    by_cases ho : o.isCmd = true
    · have : ∃ x ∈ (stepOp r o).log, x.2.isCmd = true := by
        cases o with
        | pin c => exact ⟨(lastIdx r + 1, .pin c), by simp [stepOp, commit], rfl⟩
        | unpin c => exact ⟨(lastIdx r + 1, .unpin c), by simp [stepOp, commit], rfl⟩
        | restart => simp [Op.isCmd] at ho
      obtain ⟨x, hx, hc⟩ := this
      exact ⟨x, log_mem_runOps _ t x hx, hc⟩
    · simp only [List.any_cons, Bool.or_eq_true] at h
      rcases h with h | h
      · exact absurd h ho
      · exact ih _ h

theorem fsmIdx_pos (r : Raft) (h : Inv r) (hc : ∃ x ∈ r.log, x.2.isCmd = true) : fsmIdx r ≠ 0 := by
  obtain ⟨x, hx, hc⟩ := hc
  have h1 := (h.1 x hx).1
  have h2 := h.2 x hx hc
  simp only [fsmIdx]; omega

theorem replay_filter (s : List Nat) (a : Nat) (l : List (Nat × Entry)) :
    replay s a (l.filter (fun x => decide (a < x.1))) = replay s a l := by
  induction l generalizing s with
  | nil => rfl
  | cons x t ih =>
    obtain ⟨j, f⟩ := x
    by_cases hj : a < j
    · simp only [List.filter, hj, decide_true, replay, if_true]; exact ih _
    · simp only [List.filter, hj, decide_false, replay, if_false]; exact ih _

theorem foldl_congr_fun {α β : Type} (f g : α → β → α) (h : ∀ a b, f a b = g a b) (x : α) (l : List β) :
    l.foldl f x = l.foldl g x := by
  induction l generalizing x with
  | nil => rfl
  | cons b t ih => simp only [List.foldl_cons, h, ih]

end CV.C14.Start
