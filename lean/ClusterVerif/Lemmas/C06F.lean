import ClusterVerif.Lemmas.C06

/-! Helper lemmas for the round-7 theorems of Props/C06: failing resources, any
daemon answer, PinInfo content, Recover, the cluster-wide views under faults. -/
namespace CV.C06

theorem opEntry_eq (r : Rec) : opEntry r = opEntryO r.op := by
  unfold opEntry opEntryO; rfl

theorem wantState_zero : wantState 0 = true := by decide
theorem wantIpfs_zero : wantIpfs 0 = true := by decide

/-! ### the fault-free instance is the model of the earlier rounds -/

theorem statusF_toF (i : Input) (r : Rec) : statusF i.toF (r.toF i.ipfsUp) = status i r := by
  unfold statusF status Input.toF Rec.toF wellBehaved
  rw [opEntry_eq]
  cases opEntryO r.op with
  | some s => rfl
  | none =>
    cases r.pin with
    | none => simp
    | some p => cases hu : i.ipfsUp <;> simp

theorem listFailed_toF (i : Input) (f : Nat) : listFailed i.toF f = (wantIpfs f && !i.ipfsUp) := by
  unfold listFailed Input.toF
  cases i.ipfsUp <;> cases wantIpfs f <;> simp

theorem localEntryF_toF (i : Input) (f : Nat) (r : Rec) :
    localEntryF i.toF true f (r.toF i.ipfsUp) = localEntry i true f r := by
  unfold localEntryF localEntry Input.toF Rec.toF wellBehaved ipfsListing
  cases r.pin with
  | none => rfl
  | some p => cases hd : p.direct <;> simp [hd]

theorem listEntryF_toF (i : Input) (f : Nat) (r : Rec) :
    listEntryF i.toF f (r.toF i.ipfsUp) = listEntry i f r := by
  unfold listEntryF listEntry
  rw [listFailed_toF, localEntryF_toF, opEntry_eq]
  rfl

theorem statusAllF_toF (i : Input) (f : Nat) : statusAllF i.toF f = statusAll i f := by
  unfold statusAllF statusAll
  have : i.toF.recs = i.recs.map (Rec.toF i.ipfsUp) := rfl
  rw [this, List.filterMap_map]
  congr 1
  funext r
  simp only [Function.comp]
  rw [listEntryF_toF]
  rfl

/-! ### the filter law for any answer that is a pinned type -/

theorem localEntryF_zero (i : FInput) (r : FRec) :
    localEntryF i true 0 r =
      match r.pin with
      | none => none
      | some p => if p.isMeta then some stSharded else if p.isRemote i.self then some stRemote
                  else match (if p.direct then r.ans.lsD else r.ans.lsR) with
                       | some ips => some (ipfsToTracker ips)
                       | none => some stUnexpectedlyUnpinned := by
  unfold localEntryF
  simp [wantState, wantIpfs, matchF]
  rfl

theorem pinnedType_tracker {s : IpfsStatus} (h : pinnedType s = true) : ipfsToTracker s = stPinned := by
  cases s <;> simp [pinnedType] at h <;> rfl

/-- the answer the listing uses for this record is absent or a pinned type -/
def saneMode (r : FRec) : Prop :=
  ∀ p, r.pin = some p → ∀ s, (if p.direct then r.ans.lsD else r.ans.lsR) = some s → pinnedType s = true

theorem localEntryF_filter (i : FInput) (f : Nat) (r : FRec) (hs : saneMode r) :
    (localEntryF i true f r).filter (fun s => matchF s f) = (localEntryF i true 0 r).filter (fun s => matchF s f) := by
  rw [localEntryF_zero]
  unfold localEntryF
  cases hp : r.pin with
  | none => simp
  | some p =>
    have hsp := hs p hp
    by_cases hws : wantState f = true
    · simp only [hws, Bool.not_true, Bool.false_eq_true, ↓reduceIte, Bool.false_or]
      by_cases hm : p.isMeta = true
      · simp only [hm, ↓reduceIte]
        rw [matchF_comm f stSharded]
        cases hx : matchF stSharded f <;> simp [Option.filter, hx]
      · simp only [hm, Bool.false_eq_true, ↓reduceIte]
        by_cases hr : p.isRemote i.self = true
        · simp only [hr, ↓reduceIte]
          rw [matchF_comm f stRemote]
          cases hx : matchF stRemote f <;> simp [Option.filter, hx]
        · simp only [hr, Bool.false_eq_true, ↓reduceIte]
          by_cases hwi : wantIpfs f = true
          · simp only [hwi, ↓reduceIte]
            rfl
          · have hwi' : matchF f maskIpfs = false := by simpa [wantIpfs] using hwi
            have h1 := not_match_of_mask ipfs_mask_pinned (by decide) hwi'
            have h2 := not_match_of_mask ipfs_mask_uu (by decide) hwi'
            simp only [hwi, Bool.false_eq_true, ↓reduceIte]
            cases hl : (if p.direct then r.ans.lsD else r.ans.lsR) with
            | none => simp [Option.filter, h2]
            | some s => simp [Option.filter, h2, pinnedType_tracker (hsp s hl), h1]
    · have hws' : matchF f maskState = false := by simpa [wantState] using hws
      have h1 := not_match_of_mask state_mask_sharded (by decide) hws'
      have h2 := not_match_of_mask state_mask_remote (by decide) hws'
      have h3 := not_match_of_mask state_mask_pinned (by decide) hws'
      have h4 := not_match_of_mask state_mask_uu (by decide) hws'
      simp only [hws, Bool.not_false, ↓reduceIte]
      by_cases hm : p.isMeta = true
      · simp [hm, Option.filter, h1]
      · by_cases hr : p.isRemote i.self = true
        · simp [hm, hr, Option.filter, h2]
        · cases hl : (if p.direct then r.ans.lsD else r.ans.lsR) with
          | none => simp [hm, hr, Option.filter, h4]
          | some s => simp [hm, hr, Option.filter, pinnedType_tracker (hsp s hl), h3]

theorem listFailed_zero (i : FInput) : listFailed i 0 = (i.stateErr || i.listErr || (i.lsDErr || i.lsRErr)) := by
  unfold listFailed; simp [wantState_zero, wantIpfs_zero]

theorem listFailed_mono (i : FInput) (f : Nat) (h : listFailed i 0 = false) : listFailed i f = false := by
  rw [listFailed_zero] at h
  unfold listFailed
  simp only [Bool.or_eq_false_iff] at h
  obtain ⟨⟨h1, h2⟩, h3⟩ := h
  simp [h1, h2, h3]

theorem listEntryF_filter (i : FInput) (f : Nat) (r : FRec) (h0 : listFailed i 0 = false) (hs : saneMode r) :
    listEntryF i f r = (listEntryF i 0 r).filter (fun s => matchF s f) := by
  unfold listEntryF
  rw [h0, listFailed_mono i f h0]
  simp only [Bool.false_eq_true, ↓reduceIte]
  rw [filter_match_zero]
  cases opEntryO r.op with
  | some s => rfl
  | none => exact localEntryF_filter i f r hs

theorem filterMap_congr' {α β : Type} {g h : α → Option β} : ∀ {l : List α}, (∀ x ∈ l, g x = h x) →
    l.filterMap g = l.filterMap h
  | [], _ => rfl
  | a :: t, hh => by
    rw [List.filterMap_cons, List.filterMap_cons, hh a (List.mem_cons_self ..),
      filterMap_congr' (fun x hx => hh x (List.mem_cons_of_mem _ hx))]

theorem statusAllF_filter (i : FInput) (f : Nat) (h0 : listFailed i 0 = false) (hs : ∀ r ∈ i.recs, saneMode r) :
    statusAllF i f = (statusAllF i 0).filter (fun e => matchF e.2 f) := by
  unfold statusAllF
  rw [List.filter_filterMap]
  apply filterMap_congr'
  intro r hr
  rw [listEntryF_filter i f r h0 (hs r hr), map_filter_pair]

theorem statusAllF_failed (i : FInput) (f : Nat) (h : listFailed i f = true) : statusAllF i f = [] := by
  unfold statusAllF
  apply List.filterMap_eq_nil_iff.mpr
  intro r _
  simp [listEntryF, h]

/-! ### the two views under faults, one CID -/

theorem opEntryO_ne_pinned (o : Option Op) : opEntryO o ≠ some stPinned := by
  rcases o with _ | ⟨t, ph⟩
  · simp [opEntryO]
  · cases t <;> cases ph <;> decide

theorem listEntryF_of_failed (i : FInput) (f : Nat) (r : FRec) (h : listFailed i f = true) : listEntryF i f r = none := by
  simp [listEntryF, h]

theorem listEntryF_zero_ok (i : FInput) (r : FRec) (h : listFailed i 0 = false) :
    listEntryF i 0 r = match opEntryO r.op with
      | some s => some s
      | none => localEntryF i true 0 r := by
  unfold listEntryF
  simp only [h, Bool.false_eq_true, ↓reduceIte]
  exact filter_match_zero _

/-- the listing's and `PinLsCid`'s view of a go-ipfs daemon, expected-here pin -/
theorem wellBehaved_views (p : Pin) (h : Ipfs) :
    let t := ipfsToTracker (pinLsCid p h)
    let l : Option Nat := match (if p.direct then pinLs true h else pinLs false h) with
      | some ips => some (ipfsToTracker ips)
      | none => some stUnexpectedlyUnpinned
    (if t == stUnpinned then stPinError else t) = l.getD stUnpinned ∨
      (isErr (if t == stUnpinned then stPinError else t) = true ∧ isErr (l.getD stUnpinned) = true) := by
  cases h <;> cases hd : p.direct <;> simp [pinLsCid, pinLs, hd] <;> decide

theorem agree_faults (i : FInput) (r : FRec) (h : Ipfs) (hc : r.ans = wellBehaved r.pin h) :
    statusF i r = (listEntryF i 0 r).getD stUnpinned ∨
    (isErr (statusF i r) = true ∧ isErr ((listEntryF i 0 r).getD stUnpinned) = true) ∨
    (listFailed i 0 = true ∧ listEntryF i 0 r = none) ∨
    (sFault i r = true ∧ statusF i r = stClusterError) := by
  by_cases hf : listFailed i 0 = true
  · exact Or.inr (Or.inr (Or.inl ⟨hf, listEntryF_of_failed i 0 r hf⟩))
  · have hf' : listFailed i 0 = false := by simpa using hf
    have hz := hf'
    rw [listFailed_zero] at hz
    simp only [Bool.or_eq_false_iff] at hz
    obtain ⟨⟨hse, _⟩, _⟩ := hz
    rw [listEntryF_zero_ok i r hf']
    unfold statusF sFault
    cases ho : opEntryO r.op with
    | some s => exact Or.inl rfl
    | none =>
      simp only [hse, Bool.false_eq_true, ↓reduceIte, Bool.false_or]
      cases hg : r.getErr with
      | true => exact Or.inr (Or.inr (Or.inr ⟨by simp, by simp⟩))
      | false =>
        simp only [Bool.false_eq_true, ↓reduceIte, Bool.false_or]
        rw [localEntryF_zero]
        cases hp : r.pin with
        | none => exact Or.inl rfl
        | some p =>
          simp only
          by_cases hm : p.isMeta = true
          · simp only [hm, ↓reduceIte]; exact Or.inl rfl
          · simp only [hm, Bool.false_eq_true, ↓reduceIte]
            by_cases hr : p.isRemote i.self = true
            · simp only [hr, ↓reduceIte]; exact Or.inl rfl
            · simp only [hr, Bool.false_eq_true, ↓reduceIte]
              cases hce : r.lsCidErr with
              | true => exact Or.inr (Or.inr (Or.inr ⟨rfl, by simp⟩))
              | false =>
                simp only [Bool.false_eq_true, ↓reduceIte]
                have hw := wellBehaved_views p h
                rw [hc, hp]
                simp only [wellBehaved]
                rcases hw with hw | hw
                · exact Or.inl hw
                · exact Or.inr (Or.inl hw)

theorem coherentHeld_spec {r : FRec} {h : Ipfs} (hh : r.coherentHeld = some h) : r.ans = wellBehaved r.pin h := by
  unfold FRec.coherentHeld at hh
  have := List.find?_some hh
  simpa using this

theorem pinnedS_faults (i : FInput) (r : FRec) (h : statusF i r = stPinned) :
    i.stateErr = false ∧ r.getErr = false ∧ r.lsCidErr = false ∧ r.expectedHere i.self = true ∧
      pinnedType r.ans.lsCid = true := by
  unfold statusF at h
  cases ho : opEntryO r.op with
  | some s =>
    rw [ho] at h
    have h' : s = stPinned := h
    subst h'
    exact absurd ho (opEntryO_ne_pinned r.op)
  | none =>
    rw [ho] at h
    simp only at h
    cases hse : i.stateErr <;> simp only [hse, Bool.false_eq_true, ↓reduceIte] at h
    · cases hg : r.getErr <;> simp only [hg, Bool.false_eq_true, ↓reduceIte] at h
      · cases hp : r.pin with
        | none =>
          rw [hp] at h
          have h' : stUnpinned = stPinned := h
          exact absurd h' (by decide)
        | some p =>
          rw [hp] at h
          simp only at h
          cases hm : p.isMeta <;> simp only [hm, Bool.false_eq_true, ↓reduceIte] at h
          · cases hr : p.isRemote i.self <;> simp only [hr, Bool.false_eq_true, ↓reduceIte] at h
            · cases hce : r.lsCidErr <;> simp only [hce, Bool.false_eq_true, ↓reduceIte] at h
              · refine ⟨rfl, rfl, rfl, ?_, ?_⟩
                · have := isRemote_eq_not_here p i.self
                  rw [hr] at this
                  simp [FRec.expectedHere, hp, hm]
                  simpa using this.symm
                · revert h
                  cases r.ans.lsCid <;> decide
              · exact absurd h (by decide)
            · exact absurd h (by decide)
          · exact absurd h (by decide)
      · exact absurd h (by decide)
    · exact absurd h (by decide)

theorem pinnedL_faults (i : FInput) (f : Nat) (r : FRec) (h : listEntryF i f r = some stPinned) :
    listFailed i f = false ∧ r.expectedHere i.self = true ∧ ∃ s, r.modeAns = some s ∧ pinnedType s = true := by
  unfold listEntryF at h
  cases hf : listFailed i f <;> simp only [hf, Bool.false_eq_true, ↓reduceIte] at h
  · refine ⟨rfl, ?_⟩
    cases ho : opEntryO r.op with
    | some s =>
      rw [ho] at h
      simp only [Option.filter] at h
      split at h
      · exact absurd (by rw [ho]; exact h) (opEntryO_ne_pinned r.op)
      · exact absurd h (by simp)
    | none =>
      rw [ho] at h
      simp only at h
      have hl : localEntryF i true f r = some stPinned := by
        cases hx : localEntryF i true f r with
        | none => rw [hx] at h; simp [Option.filter] at h
        | some v =>
          rw [hx] at h
          simp only [Option.filter] at h
          split at h
          · exact h
          · exact absurd h (by simp)
      unfold localEntryF at hl
      cases hws : wantState f <;> simp only [hws, Bool.not_false, Bool.not_true, Bool.false_eq_true, ↓reduceIte] at hl
      · exact absurd hl (by simp)
      · cases hp : r.pin with
        | none => rw [hp] at hl; exact absurd hl (by simp)
        | some p =>
          rw [hp] at hl
          simp only at hl
          cases hm : p.isMeta <;> simp only [hm, Bool.false_eq_true, ↓reduceIte] at hl
          · cases hr : p.isRemote i.self <;> simp only [hr, Bool.false_eq_true, ↓reduceIte] at hl
            · have hh : r.expectedHere i.self = true := by
                have := isRemote_eq_not_here p i.self
                rw [hr] at this
                simp [FRec.expectedHere, hp, hm]
                simpa using this.symm
              refine ⟨hh, ?_⟩
              cases hwi : wantIpfs f <;> simp only [hwi, Bool.false_eq_true, ↓reduceIte] at hl
              · exact absurd hl (by decide)
              · cases hl2 : (if p.direct = true then r.ans.lsD else r.ans.lsR) with
                | none => rw [hl2] at hl; exact absurd hl (by decide)
                | some s =>
                  rw [hl2] at hl
                  refine ⟨s, ?_, ?_⟩
                  · simpa [FRec.modeAns, hp, Pin.direct] using hl2
                  · revert hl; cases s <;> decide
            · split at hl <;> exact absurd hl (by decide)
          · split at hl <;> exact absurd hl (by decide)
  · exact absurd h (by simp)

theorem fault_reported (i : FInput) (r : FRec) (ho : opEntryO r.op = none) :
    ((i.stateErr = true ∨ r.getErr = true) → statusF i r = stClusterError) ∧
    (r.expectedHere i.self = true → r.lsCidErr = true → statusF i r = stClusterError) := by
  unfold statusF
  rw [ho]
  constructor
  · rintro (h | h)
    · simp [h]
    · cases i.stateErr <;> simp [h]
  · intro hh hce
    cases hse : i.stateErr <;> simp only [Bool.false_eq_true, ↓reduceIte]
    cases hg : r.getErr <;> simp only [Bool.false_eq_true, ↓reduceIte]
    cases hp : r.pin with
    | none => simp [FRec.expectedHere, hp] at hh
    | some p =>
      simp only [FRec.expectedHere, hp, Bool.and_eq_true, Bool.not_eq_true'] at hh
      have := isRemote_eq_not_here p i.self
      simp [hh.1, this, hh.2, hce]

/-! ### PinInfo: the error text -/

theorem errText_iff (i : FInput) (r : FRec) (h : r.op ≠ some ⟨.remote, .error⟩) :
    errTextS i r = isErr (statusF i r) := by
  unfold errTextS
  rcases hop : r.op with _ | ⟨t, ph⟩
  · rfl
  · have hs : statusF i r = if ph == .done then statusF i r else opStatus ⟨t, ph⟩ := by
      cases ph <;> first | rfl | (unfold statusF; rw [hop]; rfl)
    cases ph with
    | done => rfl
    | error =>
      rw [hs]
      cases t <;> first | rfl | (exact absurd hop h)
    | queued => rw [hs]; cases t <;> rfl
    | inProgress => rw [hs]; cases t <;> rfl

/-! ### Recover -/

theorem status_with_op (i : Input) (r : Rec) (o : Op) (h : o.phase ≠ .done) :
    status i { r with op := some o } = opStatus o := by
  unfold status opEntry
  cases hph : o.phase <;> simp_all

theorem listEntry_with_op (i : Input) (r : Rec) (o : Op) (h : o.phase ≠ .done) (hup : i.ipfsUp = true) :
    listEntry i 0 { r with op := some o } = some (opStatus o) := by
  rw [listEntry_zero i _ hup]
  unfold opEntry
  cases hph : o.phase <;> simp_all

/-! ### the failed members of `globalPinInfoSlice` -/

theorem errFold_eq (st : Nat) : ∀ (ps : List Nat) (m : List (Nat × List (Nat × Nat))),
    ps.foldl (fun m p => m.map (fun e => (e.1, gAdd e.2 p st))) m = m.map (fun e => (e.1, setAll e.2 ps st))
  | [], m => by simp [setAll]
  | p :: t, m => by
    rw [List.foldl_cons, errFold_eq st t, List.map_map]
    apply List.map_congr_left
    intro e _
    simp [setAll, List.foldl_cons]

theorem globalSlice_failed_marked (i : GSliceInput) :
    ∀ e ∈ globalSlice i, ∀ p ∈ erroredMembers i, lookup e.2 p = some stClusterError := by
  intro e he p hp
  unfold globalSlice at he
  simp only at he
  rw [errFold_eq] at he
  obtain ⟨x, _, rfl⟩ := List.mem_map.mp he
  simp only
  rw [lookup_setAll]
  exact if_pos hp

/-! ### a listing that did not fail is complete -/

theorem want_of_match {f m v w : Nat} (hm : m = v ||| w) (hv : v ≠ 0) (h : matchF v f = true) : matchF f m = true := by
  cases hx : matchF f m with
  | true => rfl
  | false => rw [not_match_of_mask hm hv hx] at h; exact absurd h (by decide)

theorem filter_some_of {s f : Nat} (h : matchF s f = true) : (some s : Option Nat).filter (fun x => matchF x f) = some s := by
  simp [Option.filter, h]

theorem listEntryF_complete (i : FInput) (f : Nat) (r : FRec) (h : Ipfs) (hc : r.ans = wellBehaved r.pin h)
    (hf : listFailed i f = false) (hs : sFault i r = false)
    (hne : statusF i r ≠ stUnpinned) (herr : isErr (statusF i r) = false) (hm : matchF (statusF i r) f = true) :
    listEntryF i f r = some (statusF i r) := by
  unfold sFault at hs
  simp only [Bool.or_eq_false_iff] at hs
  obtain ⟨⟨hse, hge⟩, hce⟩ := hs
  unfold listEntryF
  simp only [hf, Bool.false_eq_true, ↓reduceIte]
  unfold statusF at hne herr hm ⊢
  cases ho : opEntryO r.op with
  | some s =>
    rw [ho] at hm
    exact filter_some_of hm
  | none =>
    rw [ho] at hne herr hm
    simp only [hse, hge, hce, Bool.false_eq_true, ↓reduceIte] at hne herr hm ⊢
    unfold localEntryF
    cases hp : r.pin with
    | none => rw [hp] at hne; exact absurd rfl hne
    | some p =>
      rw [hp] at hne herr hm
      simp only at hne herr hm ⊢
      by_cases hmeta : p.isMeta = true
      · simp only [hmeta, ↓reduceIte] at hm ⊢
        have hw : wantState f = true := want_of_match state_mask_sharded (by decide) hm
        have hm' : matchF f stSharded = true := by rw [matchF_comm]; exact hm
        simp only [hw, hm', Bool.not_true, Bool.false_eq_true, ↓reduceIte, Bool.or_self]
        exact filter_some_of hm
      · simp only [hmeta, Bool.false_eq_true, ↓reduceIte] at hne herr hm ⊢
        by_cases hr : p.isRemote i.self = true
        · simp only [hr, ↓reduceIte] at hm ⊢
          have hw : wantState f = true := want_of_match state_mask_remote (by decide) hm
          have hm' : matchF f stRemote = true := by rw [matchF_comm]; exact hm
          simp only [hw, hm', Bool.not_true, Bool.false_eq_true, ↓reduceIte, Bool.or_self]
          exact filter_some_of hm
        · simp only [hr, Bool.false_eq_true, ↓reduceIte] at hne herr hm ⊢
          have e1 : r.ans.lsCid = pinLsCid p h := by rw [hc, hp]; rfl
          have e2 : r.ans.lsD = pinLs true h := by rw [hc]; rfl
          have e3 : r.ans.lsR = pinLs false h := by rw [hc]; rfl
          rw [e1] at hne herr hm ⊢
          rw [e2, e3]
          -- the answer must be a pinned one: every other answer gives pin_error
          have hpinned : (if (ipfsToTracker (pinLsCid p h) == stUnpinned) = true then stPinError
              else ipfsToTracker (pinLsCid p h)) = stPinned ∧
              (if p.direct = true then pinLs true h else pinLs false h).map ipfsToTracker = some stPinned := by
            revert herr
            cases h <;> cases hd : p.direct <;> simp [pinLsCid, pinLs, hd] <;> decide
          rw [hpinned.1] at hm ⊢
          have hw : wantState f = true := want_of_match state_mask_pinned (by decide) hm
          have hwi : wantIpfs f = true := want_of_match ipfs_mask_pinned (by decide) hm
          simp only [hw, hwi, Bool.not_true, Bool.false_eq_true, ↓reduceIte]
          have h2 := hpinned.2
          cases hl : (if p.direct = true then pinLs true h else pinLs false h) with
          | none => rw [hl] at h2; exact absurd h2 (by simp)
          | some s =>
            rw [hl] at h2
            simp only [Option.map_some, Option.some.injEq] at h2
            simp only [h2]
            exact filter_some_of hm

end CV.C06
