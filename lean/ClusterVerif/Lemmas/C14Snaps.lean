import ClusterVerif.Model.C14Snaps

/-! # C14 — lemmas about "the newest snapshot" of a folder with several snapshots (round 8b). Core tactics only. -/
namespace CV.C14.Snaps

theorem newer_iff (a b : Snap) : newer a b = true ↔ (b.term < a.term ∨ (a.term = b.term ∧ b.index < a.index)) := by
  simp [newer]

theorem newer_false_iff (a b : Snap) : newer a b = false ↔ ¬ (b.term < a.term ∨ (a.term = b.term ∧ b.index < a.index)) := by
  rw [← newer_iff]; simp

theorem newer_trans1 (s a m : Snap) (h1 : newer s a = true) (h2 : newer s m = false) : newer a m = false := by
  rw [newer_iff] at h1; rw [newer_false_iff] at h2 ⊢; omega

theorem newer_trans2 (s a m : Snap) (h1 : newer s a = false) (h2 : newer a m = false) : newer s m = false := by
  rw [newer_false_iff] at h1 h2 ⊢; omega

theorem newer_irrefl (a : Snap) : newer a a = false := by
  rw [newer_false_iff]; omega

theorem foldl_pick_spec (l : List Snap) (acc : Option Snap) (m : Snap) (h : l.foldl pick acc = some m) :
    (m ∈ l ∨ acc = some m) ∧ (∀ x ∈ l, newer x m = false) ∧ (∀ a, acc = some a → newer a m = false) := by
  induction l generalizing acc with
  | nil =>
    simp only [List.foldl_nil] at h
    refine ⟨Or.inr h, by simp, ?_⟩
    intro a ha; rw [h] at ha; cases ha; exact newer_irrefl m
  | cons s t ih =>
    simp only [List.foldl_cons] at h
    have ih' := ih _ h
    cases acc with
    | none =>
      simp only [pick] at ih'
      obtain ⟨hm, hall, hacc⟩ := ih'
      refine ⟨Or.inl ?_, ?_, by simp⟩
      · rcases hm with hm | hm
        · exact List.mem_cons_of_mem _ hm
        · cases hm; exact List.mem_cons_self ..
      · intro x hx
        rcases List.mem_cons.mp hx with rfl | hx
        · exact hacc _ rfl
        · exact hall x hx
    | some a =>
      simp only [pick] at ih'
      by_cases hn : newer s a = true
      · simp only [hn, if_true] at ih'
        obtain ⟨hm, hall, hacc⟩ := ih'
        have hsm := hacc _ rfl
        refine ⟨Or.inl ?_, ?_, ?_⟩
        · rcases hm with hm | hm
          · exact List.mem_cons_of_mem _ hm
          · cases hm; exact List.mem_cons_self ..
        · intro x hx
          rcases List.mem_cons.mp hx with rfl | hx
          · exact hsm
          · exact hall x hx
        · intro a' ha'; cases ha'; exact newer_trans1 s _ m hn hsm
      · have hn' : newer s a = false := by cases hh : newer s a <;> simp_all
        simp only [hn', Bool.false_eq_true, if_false] at ih'
        obtain ⟨hm, hall, hacc⟩ := ih'
        have ham := hacc _ rfl
        refine ⟨?_, ?_, ?_⟩
        · rcases hm with hm | hm
          · exact Or.inl (List.mem_cons_of_mem _ hm)
          · exact Or.inr hm
        · intro x hx
          rcases List.mem_cons.mp hx with rfl | hx
          · exact newer_trans2 _ a m hn' ham
          · exact hall x hx
        · intro a' ha'; cases ha'; exact ham

theorem foldl_pick_isSome (l : List Snap) (a : Snap) : ∃ m, l.foldl pick (some a) = some m := by
  induction l generalizing a with
  | nil => exact ⟨a, rfl⟩
  | cons s t ih =>
    simp only [List.foldl_cons, pick]
    by_cases hn : newer s a = true
    · simp only [hn, if_true]; exact ih s
    · have hn' : newer s a = false := by cases hh : newer s a <;> simp_all
      simp only [hn', Bool.false_eq_true, if_false]; exact ih a

theorem newest_none_iff (l : List Snap) : newest l = none ↔ l = [] := by
  cases l with
  | nil => simp [newest]
  | cons s t =>
    simp only [newest, List.foldl_cons, pick]
    obtain ⟨m, hm⟩ := foldl_pick_isSome t s
    simp [hm]

/-- `List()[0]` is a snapshot of the folder and none of the folder is newer -/
theorem newest_spec (l : List Snap) (m : Snap) (h : newest l = some m) : m ∈ l ∧ ∀ x ∈ l, newer x m = false := by
  obtain ⟨hm, hall, _⟩ := foldl_pick_spec l none m h
  refine ⟨?_, hall⟩
  rcases hm with hm | hm
  · exact hm
  · cases hm

/-- distinct (term, index) keys -/
def KeysDistinct (l : List Snap) : Prop := ∀ x ∈ l, ∀ y ∈ l, x.term = y.term → x.index = y.index → x = y

theorem newest_singleton (s : Snap) : newest [s] = some s := rfl

theorem snapsOf_append (a b : List Item) : snapsOf (a ++ b) = snapsOf a ++ snapsOf b := by
  induction a with
  | nil => rfl
  | cons x t ih => cases x <;> simp [snapsOf, ih]

theorem latest_none_snapsOf (f : Folder) (h : latest f = none) : snapsOf (f.getD []) = [] := by
  cases f with
  | none => rfl
  | some l => exact (newest_none_iff _).mp h

end CV.C14.Snaps
