import ClusterVerif.Lemmas.C01
import ClusterVerif.Model.C01Shutdown
/-! Lemmas for the shutdown-snapshot theorems of C01 (round 8): the newest snapshot, and the invariant
`snapBound` of every reachable replica. -/
namespace CV.C01.Shut
open CV CV.C01

theorem newest_none {l : List Snap} (h : newest l = none) : l = [] := by
  cases l with
  | nil => rfl
  | cons s t =>
    unfold newest at h
    cases ht : newest t with
    | none => rw [ht] at h; cases h
    | some u =>
      rw [ht] at h
      dsimp only at h
      split at h <;> cases h

theorem newest_max {l : List Snap} {s : Snap} (h : newest l = some s) : ∀ t ∈ l, t.idx ≤ s.idx := by
  induction l generalizing s with
  | nil => intro t ht; cases ht
  | cons a rest ih =>
    unfold newest at h
    cases hr : newest rest with
    | none =>
      rw [hr] at h
      dsimp only at h
      have hs : a = s := Option.some.inj h
      subst hs
      have hnil := newest_none hr
      subst hnil
      intro t ht
      have : t = a := by simpa using ht
      subst this
      exact Nat.le_refl _
    | some u =>
      rw [hr] at h
      dsimp only at h
      by_cases hc : u.idx > a.idx
      · rw [if_pos hc] at h
        have hs : u = s := Option.some.inj h
        subst hs
        intro t ht
        rcases List.mem_cons.mp ht with rfl | ht
        · omega
        · exact ih hr t ht
      · rw [if_neg hc] at h
        have hs : a = s := Option.some.inj h
        subst hs
        intro t ht
        rcases List.mem_cons.mp ht with rfl | ht
        · exact Nat.le_refl _
        · have := ih hr t ht
          omega

/-- a snapshot labelled with at least every stored label, written last, is the one a reader opens -/
theorem newest_cons_of_bound (a : Nat) (m : PinMap) (l : List Snap) (h : ∀ s ∈ l, s.idx ≤ a) :
    newest (⟨a, m⟩ :: l) = some ⟨a, m⟩ := by
  unfold newest
  cases hr : newest l with
  | none => rfl
  | some u =>
    have hb := h u (newest_mem hr)
    dsimp only
    have : ¬ u.idx > a := by omega
    rw [if_neg this]

theorem snapBound_fresh : snapBound {} := by
  refine ⟨?_, ?_, ?_⟩
  · intro s hs; cases hs
  · intro k hk; cases hk
  · intro _; exact ⟨rfl, rfl⟩

theorem snapBound_down {r : Replica} (h : snapBound r) : snapBound (down r) := by
  obtain ⟨h1, _, h3⟩ := h
  refine ⟨h1, ?_, ?_⟩
  · intro k hk; cases hk
  · intro hi; exact ⟨(h3 hi).1, rfl⟩

theorem stepR_snapBound (ops : List Op) (r : Replica) (src : Option Snap) (e : Ev) (h : snapBound r) :
    snapBound (stepR ops r src e).1 := by
  obtain ⟨h1, h2, h3⟩ := h
  cases e with
  | apply =>
    unfold stepR
    dsimp only
    by_cases hu : r.up
    · simp only [hu, Bool.not_true, Bool.false_eq_true, if_false]
      cases hop : ops[r.applied]? with
      | none => exact ⟨h1, h2, h3⟩
      | some op =>
        dsimp only
        by_cases hd : op.decodable
        · simp only [hd, Bool.not_true, Bool.false_eq_true, if_false]
          by_cases hp : (r.poisoned && op.isPin) = true
          · rw [if_pos hp]
            exact snapBound_down (r := { r with poisoned := false }) ⟨h1, h2, h3⟩
          · rw [if_neg hp]
            refine ⟨?_, ?_, ?_⟩
            · intro s hs; have := h1 s hs; dsimp only; omega
            · intro k hk; have := h2 k hk; dsimp only; omega
            · intro hi; cases hi
        · simp only [hd, Bool.not_false, if_true]
          refine ⟨?_, ?_, ?_⟩
          · intro s hs; have := h1 s hs; dsimp only; omega
          · intro k hk; have := h2 k hk; dsimp only; omega
          · intro hi; exact h3 hi
    · simp only [hu, Bool.not_false, if_true]
      exact ⟨h1, h2, h3⟩
  | snapBegin =>
    unfold stepR
    dsimp only
    by_cases hc : (!r.up || r.pending.isSome) = true
    · rw [if_pos hc]; exact ⟨h1, h2, h3⟩
    · rw [if_neg hc]
      by_cases hs : (!r.canSnapshot) = true
      · rw [if_pos hs]; exact ⟨h1, h2, h3⟩
      · rw [if_neg hs]
        refine ⟨h1, ?_, ?_⟩
        · intro k hk
          have : r.applied = k := Option.some.inj hk
          show k ≤ r.applied
          omega
        · intro hi
          exfalso
          have hi' : r.initialized = false := hi
          simp [Replica.canSnapshot, hi'] at hs
  | snapPersist =>
    unfold stepR
    dsimp only
    by_cases hu : (!r.up) = true
    · rw [if_pos hu]; exact ⟨h1, h2, h3⟩
    · rw [if_neg hu]
      cases hp : r.pending with
      | none => exact ⟨h1, h2, h3⟩
      | some k =>
        dsimp only
        refine ⟨?_, ?_, ?_⟩
        · intro s hs
          rcases List.mem_cons.mp hs with rfl | hs
          · exact h2 k hp
          · exact h1 s hs
        · intro k' hk'; cases hk'
        · intro hi
          have := (h3 hi).2
          rw [hp] at this
          cases this
  | install j =>
    unfold stepR
    dsimp only
    by_cases hu : (!r.up) = true
    · rw [if_pos hu]; exact ⟨h1, h2, h3⟩
    · rw [if_neg hu]
      cases src with
      | none => exact ⟨h1, h2, h3⟩
      | some s =>
        dsimp only
        by_cases hlt : s.idx < r.applied
        · rw [if_pos hlt]; exact ⟨h1, h2, h3⟩
        · rw [if_neg hlt]
          refine ⟨?_, ?_, ?_⟩
          · intro t ht
            rcases List.mem_cons.mp ht with rfl | ht
            · exact Nat.le_refl _
            · have := h1 t ht
              show t.idx ≤ s.idx
              omega
          · intro k hk
            have := h2 k hk
            show k ≤ s.idx
            omega
          · intro hi; cases hi
  | shutdown =>
    unfold stepR
    dsimp only
    by_cases hu : (!r.up) = true
    · rw [if_pos hu]; exact ⟨h1, h2, h3⟩
    · rw [if_neg hu]
      by_cases hc : r.canSnapshot = true
      · rw [if_pos hc]
        apply snapBound_down
        refine ⟨?_, h2, ?_⟩
        · intro s hs
          rcases List.mem_cons.mp hs with rfl | hs
          · exact Nat.le_refl _
          · exact h1 s hs
        · intro hi
          exfalso
          have hi' : r.initialized = false := hi
          simp [Replica.canSnapshot, hi'] at hc
      · rw [if_neg hc]
        exact snapBound_down ⟨h1, h2, h3⟩
  | kill =>
    unfold stepR
    dsimp only
    by_cases hu : (!r.up) = true
    · rw [if_pos hu]; exact ⟨h1, h2, h3⟩
    · rw [if_neg hu]; exact snapBound_down ⟨h1, h2, h3⟩
  | restart =>
    unfold stepR
    dsimp only
    by_cases hu : r.up = true
    · rw [if_pos hu]; exact ⟨h1, h2, h3⟩
    · rw [if_neg hu]
      cases hn : newest r.snaps with
      | none =>
        dsimp only
        have hnil := newest_none hn
        refine ⟨?_, ?_, ?_⟩
        · intro s hs
          have hs' : s ∈ r.snaps := hs
          rw [hnil] at hs'
          cases hs'
        · intro k hk; cases hk
        · intro _; exact ⟨hnil, rfl⟩
      | some s =>
        dsimp only
        refine ⟨?_, ?_, ?_⟩
        · intro t ht
          exact newest_max hn t ht
        · intro k hk; cases hk
        · intro hi; cases hi
  | offline =>
    unfold stepR
    dsimp only
    exact ⟨h1, h2, h3⟩

def SBound (s : Sys) : Prop := ∀ r ∈ s, snapBound r

theorem sbound_init (n : Nat) : SBound (initSys n) := by
  intro r hr
  have : r = {} := List.eq_of_mem_replicate hr
  rw [this]
  exact snapBound_fresh

theorem step_sbound (ops : List Op) {s : Sys} (h : SBound s) (i : Nat) (e : Ev) : SBound (step ops s i e).1 := by
  unfold step
  cases hr : s[i]? with
  | none => exact h
  | some r =>
    dsimp only
    intro r' hr'
    rcases List.mem_or_eq_of_mem_set hr' with hm | rfl
    · exact h r' hm
    · exact stepR_snapBound ops r _ e (h r (List.mem_of_getElem? hr))

theorem run_sbound (ops : List Op) (evs : List (Nat × Ev)) : ∀ s, SBound s → SBound (run ops s evs) := by
  induction evs with
  | nil => intro s h; exact h
  | cons ie rest ih =>
    intro s h
    obtain ⟨i, e⟩ := ie
    rw [run_cons]
    exact ih _ (step_sbound ops h i e)

end CV.C01.Shut
