import ClusterVerif.Model.C08Mp
/-! C08 — lemmas about the msgpack envelope of dsstate (`Model/C08Mp.lean`). -/
namespace CV.C08.Mp

theorem takeN_append (a b : Bytes) : takeN a.length (a ++ b) = some (a, b) := by
  simp [takeN]

theorem beNat_be16 {n : Nat} (h : n < 65536) : beNat (be16 n) = n := by
  simp [beNat, be16, UInt8.toNat_ofNat']
  omega

theorem beNat_be32 {n : Nat} (h : n < 4294967296) : beNat (be32 n) = n := by
  simp [beNat, be32, UInt8.toNat_ofNat']
  omega

/-- the token reader reads back the fixraw form `encRaw` writes below 32 bytes, whatever follows -/
theorem readTok_encRaw_short (bs rest : Bytes) (h1 : bs.length < 32) :
    readTok (encRaw bs ++ rest) = some (.raw bs, rest) := by
  unfold encRaw
  have e : (UInt8.ofNat (160 + bs.length)).toNat = 160 + bs.length := by
    rw [UInt8.toNat_ofNat']; omega
  simp only [h1, if_true, List.cons_append, readTok, e]
  have a1 : ¬ (160 + bs.length < 128) := by omega
  have a2 : ¬ (160 + bs.length < 144) := by omega
  have a3 : ¬ (160 + bs.length < 160) := by omega
  have a4 : 160 + bs.length < 192 := by omega
  have a5 : 160 + bs.length - 160 = bs.length := by omega
  simp only [a1, a2, a3, a4, a5, if_false, if_true, takeN_append]

theorem unmarshal_keyless_first (old : Store) (bs rest : Bytes) (e : Entry)
    (h : decodeEntry bs = .ok e rest) (hk : e.key = []) : unmarshal old bs = .err old := by
  simp [unmarshal, h, hk]

theorem unmarshal_cut_first (old : Store) (bs : Bytes) (h : decodeEntry bs = .err) : unmarshal old bs = .ok [] := by
  simp [unmarshal, h]

end CV.C08.Mp
