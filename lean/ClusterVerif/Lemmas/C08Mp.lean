import ClusterVerif.Model.C08Mp
/-! C08 — lemmas about the msgpack envelope of dsstate (`Model/C08Mp.lean`). -/
namespace CV.C08.Mp

theorem takeN_append (a b : Bytes) : takeN a.length (a ++ b) = some (a, b) := by
  simp [takeN]

theorem beNat_be16 {n : Nat} (h : n < 65536) : beNat (be16 n) = n := by
  simp [beNat, be16, UInt8.toNat_ofNat']
  omega

theorem beNat_be32 {n : Nat} (h : n < 4294967296) : beNat (be32 n) = n := by
  simp [beNat, be32, UInt8.toNat_ofNat']
  omega

/-- the token reader reads back the fixraw form `encRaw` writes below 32 bytes, whatever follows -/
theorem readTok_encRaw_short (bs rest : Bytes) (h1 : bs.length < 32) :
    readTok (encRaw bs ++ rest) = some (.raw bs, rest) := by
  unfold encRaw
  have e : (UInt8.ofNat (160 + bs.length)).toNat = 160 + bs.length := by
    rw [UInt8.toNat_ofNat']; omega
  simp only [h1, if_true, List.cons_append, readTok, e]
  have a1 : ¬ (160 + bs.length < 128) := by omega
  have a2 : ¬ (160 + bs.length < 144) := by omega
  have a3 : ¬ (160 + bs.length < 160) := by omega
  have a4 : 160 + bs.length < 192 := by omega
  have a5 : 160 + bs.length - 160 = bs.length := by omega
  simp only [a1, a2, a3, a4, a5, if_false, if_true, takeN_append]

theorem unmarshal_keyless_first (old : Store) (bs rest : Bytes) (e : Entry)
    (h : decodeEntry bs = .ok e rest) (hk : e.key = []) : unmarshal old bs = .err old := by
  simp [unmarshal, h, hk]

theorem unmarshal_cut_first (old : Store) (bs : Bytes) (h : decodeEntry bs = .err) : unmarshal old bs = .ok [] := by
  simp [unmarshal, h]

/-! ### the whole-snapshot round trip (no unfolding of `readTok` by `rfl`: the heads are rewritten by `simp`) -/

theorem rawOf_append (k : Nat) (l bs rest : Bytes) (hl : l.length = k) (hn : beNat l = bs.length) :
    rawOf k (l ++ (bs ++ rest)) = some (.raw bs, rest) := by
  subst hl; simp only [rawOf, readLen, takeN_append, hn]

theorem be16_length (n : Nat) : (be16 n).length = 2 := rfl
theorem be32_length (n : Nat) : (be32 n).length = 4 := rfl

theorem readTok_da (r : Bytes) : readTok ((0xda : UInt8) :: r) = rawOf 2 r := by
  simp [readTok]
theorem readTok_db (r : Bytes) : readTok ((0xdb : UInt8) :: r) = rawOf 4 r := by
  simp [readTok]
theorem readTok_c0 (r : Bytes) : readTok ((0xc0 : UInt8) :: r) = some (.nil, r) := by
  simp [readTok]
theorem readTok_82 (r : Bytes) : readTok ((0x82 : UInt8) :: r) = some (.map 2, r) := by
  simp [readTok]
theorem readTok_a1 (b : UInt8) (r : Bytes) : readTok ((0xa1 : UInt8) :: b :: r) = some (.raw [b], r) := by
  simp [readTok, takeN]

/-- raw16: 32 ≤ length < 2^16 -/
theorem readTok_encRaw_16 (bs rest : Bytes) (h1 : ¬ bs.length < 32) (h2 : bs.length < 65536) :
    readTok (encRaw bs ++ rest) = some (.raw bs, rest) := by
  unfold encRaw
  simp only [h1, h2, if_true, if_false, List.cons_append, List.append_assoc, readTok_da]
  exact rawOf_append 2 (be16 bs.length) bs rest (be16_length _) (beNat_be16 h2)

/-- raw32: 2^16 ≤ length < 2^32 -/
theorem readTok_encRaw_32 (bs rest : Bytes) (h1 : ¬ bs.length < 32) (h2 : ¬ bs.length < 65536) (h3 : bs.length < 4294967296) :
    readTok (encRaw bs ++ rest) = some (.raw bs, rest) := by
  unfold encRaw
  simp only [h1, h2, if_false, List.cons_append, List.append_assoc, readTok_db]
  exact rawOf_append 4 (be32 bs.length) bs rest (be32_length _) (beNat_be32 h3)

/-- every byte string below 2^32 bytes, every continuation -/
theorem readTok_encRaw (bs rest : Bytes) (h : bs.length < 4294967296) :
    readTok (encRaw bs ++ rest) = some (.raw bs, rest) := by
  by_cases h1 : bs.length < 32
  · exact readTok_encRaw_short bs rest h1
  · by_cases h2 : bs.length < 65536
    · exact readTok_encRaw_16 bs rest h1 h2
    · exact readTok_encRaw_32 bs rest h1 h2 h

/-- the two pairs of one written entry, from any starting entry and with any fuel ≥ 2 -/
theorem fields_encEntry (f : Nat) (e0 e : Entry) (rest : Bytes)
    (hk : e.key.length < 4294967296) (hv : (valBytes e.value).length < 4294967296) :
    fields (f + 2) 2 e0 ((0xa1 : UInt8) :: 0x6b :: (encRaw e.key ++ ((0xa1 : UInt8) :: 0x76 :: (encVal e.value ++ rest)))) = .ok e rest := by
  have hkn : (([0x6b] : Bytes) == kName) = true := by decide
  have hvk : (([0x76] : Bytes) == kName) = false := by decide
  have hvn : (([0x76] : Bytes) == vName) = true := by decide
  rcases e with ⟨k, v⟩
  cases v with
  | none =>
    simp only [fields, readTok_a1, hkn, hvk, hvn, if_true, readTok_encRaw k _ hk, encVal, List.cons_append, List.nil_append,
      readTok_c0, Bool.false_eq_true, if_false]
  | some v =>
    simp only [fields, readTok_a1, hkn, hvk, hvn, if_true, readTok_encRaw k _ hk, encVal, readTok_encRaw v _ hv,
      Bool.false_eq_true, if_false]

theorem decodeEntry_encEntry (e : Entry) (rest : Bytes)
    (hk : e.key.length < 4294967296) (hv : (valBytes e.value).length < 4294967296) :
    decodeEntry (encEntry e ++ rest) = .ok e rest := by
  have h : encEntry e ++ rest =
      (0x82 : UInt8) :: ((0xa1 : UInt8) :: 0x6b :: (encRaw e.key ++ ((0xa1 : UInt8) :: 0x76 :: (encVal e.value ++ rest)))) := by
    simp [encEntry]
  rw [h]
  simp only [decodeEntry, readTok_82, List.length_cons]
  exact fields_encEntry _ zeroEntry e rest hk hv

theorem marshal_length_ge (es : List Entry) : es.length ≤ (marshal es).length := by
  induction es with
  | nil => simp [marshal]
  | cons e es ih => simp [marshal, encEntry]; omega

/-- the restore loop over a written tail: enough fuel, all keys non-empty, lengths in range -/
theorem loop_marshal (es : List Entry) : ∀ (f : Nat) (e : Entry) (s : Store), es.length < f → e.key ≠ [] →
    (∀ x ∈ es, x.key ≠ [] ∧ x.key.length < 4294967296 ∧ (valBytes x.value).length < 4294967296) →
    loop f e (marshal es) s = .ok (putAll s (e :: es)) := by
  induction es with
  | nil =>
    intro f e s hf hk _
    cases f with
    | zero => omega
    | succ f => simp [loop, hk, marshal, decodeEntry, putAll]
  | cons x es ih =>
    intro f e s hf hk hall
    cases f with
    | zero => omega
    | succ f =>
      have hx := hall x (List.mem_cons_self ..)
      have hd := decodeEntry_encEntry x (marshal es) hx.2.1 hx.2.2
      have hrec := ih f x (put s e.key (valBytes e.value)) (by simp at hf; omega) hx.1
        (fun y hy => hall y (List.mem_cons_of_mem _ hy))
      simp [loop, hk, marshal, hd, hrec, putAll]

theorem unmarshal_marshal (old : Store) (es : List Entry)
    (hall : ∀ x ∈ es, x.key ≠ [] ∧ x.key.length < 4294967296 ∧ (valBytes x.value).length < 4294967296) :
    unmarshal old (marshal es) = .ok (putAll [] es) := by
  cases es with
  | nil => simp [unmarshal, marshal, decodeEntry, putAll]
  | cons e es =>
    have hx := hall e (List.mem_cons_self ..)
    have hd := decodeEntry_encEntry e (marshal es) hx.2.1 hx.2.2
    have hl := marshal_length_ge es
    have hrec := loop_marshal es ((encEntry e ++ marshal es).length + 1) e [] (by simp; omega) hx.1
      (fun y hy => hall y (List.mem_cons_of_mem _ hy))
    simp only [List.length_append] at hrec
    simp [unmarshal, marshal, hd, hx.1, hrec]

end CV.C08.Mp
