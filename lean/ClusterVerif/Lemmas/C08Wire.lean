import ClusterVerif.Model.C08Wire
import Mathlib.Data.List.Basic
/-! C08 — lemmas about the byte-level wire models (`Model/C08Wire.lean`). -/
namespace CV.C08.Wire

theorem ofNat_toNat_lt {n : Nat} (h : n < 256) : (UInt8.ofNat n).toNat = n := by
  simp [UInt8.toNat_ofNat']; omega

/-- with `k` bytes left of ten, a value below `2^(7k-6)` is read back -/
theorem decodeVarintAux_encode : ∀ (k n : Nat) (rest : Bytes), 1 ≤ k → n < 2 ^ (7 * k - 6) →
    decodeVarintAux k (encodeVarintAux k n ++ rest) = some (n, rest)
  | 0, _, _, hk, _ => by omega
  | k + 1, n, rest, _, hn => by
    unfold encodeVarintAux
    by_cases h : n < 128
    · simp only [h, if_true, List.cons_append, List.nil_append]
      unfold decodeVarintAux
      have e : (UInt8.ofNat n).toNat = n := ofNat_toNat_lt (by omega)
      simp only [e, h, if_true]
      by_cases hk0 : k = 0
      · subst hk0
        have : n < 2 := by simpa using hn
        have : ¬ (n > 1) := by omega
        simp [this]
      · have : (k == 0) = false := by simpa using hk0
        simp [this]
    · simp only [h, if_false, List.cons_append]
      unfold decodeVarintAux
      have e : (UInt8.ofNat (n % 128 + 128)).toNat = n % 128 + 128 := ofNat_toNat_lt (by omega)
      have h2 : ¬ (n % 128 + 128 < 128) := by omega
      simp only [e, h2, if_false]
      have hk1 : 1 ≤ k := by
        rcases k with _ | k
        · have : n < 2 := by simpa using hn
          omega
        · omega
      have hn' : n / 128 < 2 ^ (7 * k - 6) := by
        have : 7 * (k + 1) - 6 = (7 * k - 6) + 7 := by omega
        rw [this, Nat.pow_add] at hn
        have h7 : (2:Nat) ^ 7 = 128 := by decide
        rw [h7] at hn
        exact Nat.div_lt_of_lt_mul (by rw [Nat.mul_comm]; exact hn)
      have ih := decodeVarintAux_encode k (n / 128) rest hk1 hn'
      simp only [ih, Option.some.injEq, Prod.mk.injEq, and_true]
      omega

theorem decodeVarint_encode (n : Nat) (rest : Bytes) (h : n < two64) : decodeVarint (encodeVarint n ++ rest) = some (n, rest) := by
  unfold decodeVarint encodeVarint
  exact decodeVarintAux_encode 10 n rest (by omega) (by simpa [two64] using h)

/-! ## tokens -/

theorem parseTok_encode (t : Tok) (rest : Bytes) (h : wfTok t = true) : parseTok (encodeTok t ++ rest) = some (t, rest) := by
  obtain ⟨num, val⟩ := t
  simp only [wfTok, Bool.and_eq_true, decide_eq_true_eq] at h
  obtain ⟨⟨h1, h2⟩, hv⟩ := h
  have hmax : num ≤ 2147483647 := by simpa [maxTagNum] using h2
  unfold parseTok encodeTok
  have hrange : ¬ (num < 1 ∨ num > maxTagNum) := by simp [maxTagNum]; omega
  cases val with
  | varint v =>
    have hv' : v < two64 := by simpa using hv
    have htag : num * 8 + 0 < two64 := by simp [two64]; omega
    simp only [WVal.wtype, WVal.payload, List.append_assoc, decodeVarint_encode _ _ htag]
    have e1 : (num * 8 + 0) / 8 = num := by omega
    have e2 : (num * 8 + 0) % 8 = 0 := by omega
    simp only [e1, e2, Bool.or_eq_true, decide_eq_true_eq, hrange, if_false, decodeVarint_encode _ _ hv']
  | fixed64 bs =>
    have hl : bs.length = 8 := by simpa using hv
    have htag : num * 8 + 1 < two64 := by simp [two64]; omega
    simp only [WVal.wtype, WVal.payload, List.append_assoc, decodeVarint_encode _ _ htag]
    have e1 : (num * 8 + 1) / 8 = num := by omega
    have e2 : (num * 8 + 1) % 8 = 1 := by omega
    have hlen : ¬ ((bs ++ rest).length < 8) := by simp [hl]
    have ht : (bs ++ rest).take 8 = bs := by rw [← hl]; simp
    have hd : (bs ++ rest).drop 8 = rest := by rw [← hl]; simp
    simp only [e1, e2, Bool.or_eq_true, decide_eq_true_eq, hrange, if_false, hlen, ht, hd]
  | bytes bs =>
    have hl : bs.length < two64 := by simpa using hv
    have htag : num * 8 + 2 < two64 := by simp [two64]; omega
    simp only [WVal.wtype, WVal.payload, List.append_assoc, decodeVarint_encode _ _ htag]
    have e1 : (num * 8 + 2) / 8 = num := by omega
    have e2 : (num * 8 + 2) % 8 = 2 := by omega
    have hlen : ¬ (bs.length > (bs ++ rest).length) := by simp
    have ht : (bs ++ rest).take bs.length = bs := by simp
    have hd : (bs ++ rest).drop bs.length = rest := by simp
    simp only [e1, e2, Bool.or_eq_true, decide_eq_true_eq, hrange, if_false, decodeVarint_encode _ _ hl, hlen, ht, hd]
  | sgroup =>
    have htag : num * 8 + 3 < two64 := by simp [two64]; omega
    simp only [WVal.wtype, WVal.payload, List.append_assoc, decodeVarint_encode _ _ htag]
    have e1 : (num * 8 + 3) / 8 = num := by omega
    have e2 : (num * 8 + 3) % 8 = 3 := by omega
    simp only [e1, e2, Bool.or_eq_true, decide_eq_true_eq, hrange, if_false, List.nil_append]
  | egroup =>
    have htag : num * 8 + 4 < two64 := by simp [two64]; omega
    simp only [WVal.wtype, WVal.payload, List.append_assoc, decodeVarint_encode _ _ htag]
    have e1 : (num * 8 + 4) / 8 = num := by omega
    have e2 : (num * 8 + 4) % 8 = 4 := by omega
    simp only [e1, e2, Bool.or_eq_true, decide_eq_true_eq, hrange, if_false, List.nil_append]
  | fixed32 bs =>
    have hl : bs.length = 4 := by simpa using hv
    have htag : num * 8 + 5 < two64 := by simp [two64]; omega
    simp only [WVal.wtype, WVal.payload, List.append_assoc, decodeVarint_encode _ _ htag]
    have e1 : (num * 8 + 5) / 8 = num := by omega
    have e2 : (num * 8 + 5) % 8 = 5 := by omega
    have hlen : ¬ ((bs ++ rest).length < 4) := by simp [hl]
    have ht : (bs ++ rest).take 4 = bs := by rw [← hl]; simp
    have hd : (bs ++ rest).drop 4 = rest := by rw [← hl]; simp
    simp only [e1, e2, Bool.or_eq_true, decide_eq_true_eq, hrange, if_false, hlen, ht, hd]

theorem encodeVarintAux_ne_nil (k n : Nat) : encodeVarintAux (k + 1) n ≠ [] := by
  unfold encodeVarintAux; split <;> simp

theorem encodeTok_length_pos (t : Tok) : 1 ≤ (encodeTok t).length := by
  unfold encodeTok encodeVarint
  have := encodeVarintAux_ne_nil 9 (t.num * 8 + t.val.wtype)
  have : 1 ≤ (encodeVarintAux 10 (t.num * 8 + t.val.wtype)).length := by
    cases h : encodeVarintAux 10 (t.num * 8 + t.val.wtype) with
    | nil => exact absurd h this
    | cons _ _ => simp
  simp only [List.length_append]; omega

theorem tokensAux_encode : ∀ (ts : List Tok) (fuel : Nat), ts.all wfTok = true → (encodeToks ts).length ≤ fuel →
    tokensAux fuel (encodeToks ts) = some ts
  | [], fuel, _, _ => by cases fuel <;> simp [encodeToks, tokensAux]
  | t :: ts, fuel, hw, hf => by
    simp only [List.all_cons, Bool.and_eq_true] at hw
    have hpos := encodeTok_length_pos t
    simp only [encodeToks, List.length_append] at hf
    cases fuel with
    | zero => omega
    | succ fuel =>
      have hne : encodeToks (t :: ts) ≠ [] := by
        intro e; have := congrArg List.length e; rw [encodeToks, List.length_append, List.length_nil] at this; omega
      cases hb : encodeToks (t :: ts) with
      | nil => exact absurd hb hne
      | cons b bs =>
        rw [← hb]
        unfold tokensAux
        rw [hb]
        simp only
        rw [← hb]
        simp only [encodeToks]
        have hle : (encodeToks ts).length ≤ fuel := by omega
        have ih := tokensAux_encode ts fuel hw.2 hle
        have hp := parseTok_encode t (encodeToks ts) hw.1
        simp only [hp, ih]

/-- the tokenizer reads back every well-formed token list -/
theorem tokens_encode (ts : List Tok) (h : ts.all wfTok = true) : tokens (encodeToks ts) = some ts :=
  tokensAux_encode ts _ h (Nat.le_refl _)

/-! ## message-level tokens -/

/-- no group tokens, field numbers a message may carry -/
def plainToks (ts : List Tok) : Bool :=
  ts.all fun t => decide (t.num ≤ maxValidNum) && t.val != .sgroup && t.val != .egroup

theorem topLevel_plain : ∀ (ts : List Tok), plainToks ts = true → topLevelAux [] ts = some ts
  | [], _ => by simp [topLevelAux]
  | t :: ts, h => by
    simp only [plainToks, List.all_cons, Bool.and_eq_true, decide_eq_true_eq, bne_iff_ne, ne_eq] at h
    obtain ⟨⟨⟨h1, h2⟩, h3⟩, h4⟩ := h
    have ih := topLevel_plain ts (by simpa [plainToks] using h4)
    unfold topLevelAux
    have : ¬ (t.num > maxValidNum) := by omega
    simp only [this, if_false]
    cases hv : t.val with
    | sgroup => exact absurd hv h2
    | egroup => exact absurd hv h3
    | varint v => simp [ih]
    | fixed64 b => simp [ih]
    | bytes b => simp [ih]
    | fixed32 b => simp [ih]

theorem fields_encode (ts : List Tok) (hw : ts.all wfTok = true) (hp : plainToks ts = true) : fields (encodeToks ts) = some ts := by
  simp [fields, tokens_encode ts hw, topLevel, topLevel_plain ts hp]

theorem mapOpt_append {f : α → Option β} : ∀ {a b : List α} {x y : List β}, mapOpt f a = some x → mapOpt f b = some y →
    mapOpt f (a ++ b) = some (x ++ y)
  | [], _, x, _, ha, hb => by simp [mapOpt] at ha; subst ha; simpa using hb
  | a0 :: a, b, x, y, ha, hb => by
    simp only [mapOpt, List.cons_append] at ha ⊢
    cases h0 : f a0 with
    | none => simp [h0] at ha
    | some b0 =>
      cases h1 : mapOpt f a with
      | none => simp [h0, h1] at ha
      | some x' =>
        simp only [h0, h1, Option.some.injEq] at ha
        subst ha
        simp [mapOpt_append h1 hb]

theorem mapOpt_map {f : α → Option β} {g : α → β} : ∀ (l : List α), (∀ a ∈ l, f a = some (g a)) → mapOpt f l = some (l.map g)
  | [], _ => rfl
  | a :: l, h => by
    simp [mapOpt, h a (by simp), mapOpt_map l (fun x hx => h x (by simp [hx]))]

theorem mapOpt_optTok {f : Tok → Option β} {c : Bool} {t : Tok} {u : β} (h : f t = some u) :
    mapOpt f (optTok c t) = some (if c then [u] else []) := by
  cases c <;> simp [optTok, mapOpt, h]

/-! ## zigzag, enum -/

theorem unzigzag32_zigzag32 (i : Int) (h : inI32 i = true) : unzigzag32 (zigzag32 i) = i := by
  simp only [inI32, Bool.and_eq_true, decide_eq_true_eq] at h
  unfold unzigzag32 zigzag32 two32
  by_cases hi : i ≥ 0
  · simp only [hi, if_true]
    have e : (2 * i).toNat = 2 * i.toNat := by omega
    rw [e]
    have hlt : 2 * i.toNat < 4294967296 := by omega
    have e2 : (2 * i.toNat) % 4294967296 = 2 * i.toNat := Nat.mod_eq_of_lt hlt
    simp only [e2]
    have e3 : (2 * i.toNat) % 2 = 0 := by omega
    simp only [e3, beq_self_eq_true, if_true]
    omega
  · simp only [hi, if_false]
    have hlt : (-2 * i - 1).toNat < 4294967296 := by omega
    have e2 : (-2 * i - 1).toNat % 4294967296 = (-2 * i - 1).toNat := Nat.mod_eq_of_lt hlt
    simp only [e2]
    have e3 : (-2 * i - 1).toNat % 2 = 1 := by omega
    simp only [e3]
    simp only [show ((1:Nat) == 0) = false from rfl, Bool.false_eq_true, if_false]
    omega

theorem zigzag32_lt (i : Int) (h : inI32 i = true) : zigzag32 i < two64 := by
  simp only [inI32, Bool.and_eq_true, decide_eq_true_eq] at h
  unfold zigzag32 two64
  split <;> omega

theorem u64ToI32_enum (i : Int) (h : inI32 i = true) : u64ToI32 (enumToU64 i) = i := by
  simp only [inI32, Bool.and_eq_true, decide_eq_true_eq] at h
  unfold u64ToI32 enumToU64 two64 two32
  by_cases hi : 0 ≤ i
  · have e : (i % (18446744073709551616 : Nat)) = i := Int.emod_eq_of_lt hi (by omega)
    simp only [e]
    have e2 : i.toNat % 4294967296 = i.toNat := Nat.mod_eq_of_lt (by omega)
    simp only [e2]
    have : i.toNat < 2147483648 := by omega
    simp only [this, if_true]
    omega
  · have e : (i % ((18446744073709551616 : Nat) : Int)) = i + 18446744073709551616 := by
      have : i % ((18446744073709551616 : Nat) : Int) = (i + 18446744073709551616) % ((18446744073709551616 : Nat) : Int) := by
        simp
      rw [this]
      exact Int.emod_eq_of_lt (by omega) (by omega)
    simp only [e]
    have e2 : (i + 18446744073709551616).toNat % 4294967296 = (i + 4294967296).toNat := by omega
    simp only [e2]
    have : ¬ ((i + 4294967296).toNat < 2147483648) := by omega
    simp only [this, if_false]
    omega

theorem enumToU64_lt (i : Int) : enumToU64 i < two64 := by
  unfold enumToU64 two64
  have := Int.emod_lt_of_pos i (show (0:Int) < ((18446744073709551616 : Nat) : Int) by decide)
  have := Int.emod_nonneg i (show (((18446744073709551616 : Nat) : Int)) ≠ 0 by decide)
  omega

theorem mapOpt_map_map {f : β → Option γ} {h : α → β} {g : α → γ} : ∀ (l : List α), (∀ a ∈ l, f (h a) = some (g a)) →
    mapOpt f (l.map h) = some (l.map g)
  | [], _ => rfl
  | a :: l, hh => by
    simp [mapOpt, hh a (by simp), mapOpt_map_map l (fun x hx => hh x (by simp [hx]))]

/-! ## map entries, metadata -/

theorem entry_plain (kv : Bytes × Bytes) : plainToks (entryToks kv) = true := by
  simp [plainToks, entryToks, maxValidNum]

theorem mapEntry_encode (kv : Bytes × Bytes) (hk : validUtf8 kv.1 = true) (hv : validUtf8 kv.2 = true)
    (hw : (entryToks kv).all wfTok = true) : mapEntry (encodeToks (entryToks kv)) = some kv := by
  unfold mapEntry
  rw [fields_encode _ hw (entry_plain kv)]
  simp [entryToks, entryFold, entryStep, hk, hv]

theorem keysNodup_append_cons {pre m : List (Bytes × Bytes)} {kv : Bytes × Bytes} :
    keysNodup (pre ++ kv :: m) = true → pre.any (fun x => x.1 == kv.1) = false := by
  induction pre with
  | nil => simp
  | cons x pre ih =>
    intro h
    simp only [List.cons_append, keysNodup, Bool.and_eq_true, Bool.not_eq_true', List.any_eq_false] at h
    simp only [List.any_cons, Bool.or_eq_false_iff]
    refine ⟨?_, ih h.2⟩
    have := h.1 kv (by simp)
    simp only [beq_iff_eq] at this
    simp only [beq_eq_false_iff_ne, ne_eq]
    intro e; exact this e.symm

theorem foldl_mput : ∀ (m : List (Bytes × Bytes)) (s : OptsRaw), keysNodup (s.metadata ++ m) = true →
    (m.map (fun kv => OUpd.mput kv.1 kv.2)).foldl applyO s = { s with metadata := s.metadata ++ m }
  | [], s, _ => by simp
  | kv :: m, s, h => by
    have hany := keysNodup_append_cons h
    simp only [List.map_cons, List.foldl_cons, applyO, putMeta, hany, Bool.false_eq_true, if_false]
    have h' : keysNodup (({ s with metadata := s.metadata ++ [(kv.1, kv.2)] } : OptsRaw).metadata ++ m) = true := by
      simpa using h
    rw [foldl_mput m _ h']
    simp

theorem foldl_origin : ∀ (l : List Bytes) (s : OptsRaw),
    (l.map OUpd.origin).foldl applyO s = { s with origins := s.origins ++ l }
  | [], s => by simp
  | b :: l, s => by
    simp only [List.map_cons, List.foldl_cons, applyO]
    rw [foldl_origin l]
    simp

theorem foldl_alloc : ∀ (l : List Bytes) (s : PinRaw),
    (l.map PUpd.alloc).foldl applyP s = { s with allocs := s.allocs ++ l }
  | [], s => by simp
  | b :: l, s => by
    simp only [List.map_cons, List.foldl_cons, applyP]
    rw [foldl_alloc l]
    simp

/-! ## `pb.PinOptions` -/

/-- the updates the canonical tokens of an options message decode to -/
def updsOpts (o : OptsRaw) : List OUpd :=
  (if o.rmin != 0 then [OUpd.rmin o.rmin] else []) ++ (if o.rmax != 0 then [OUpd.rmax o.rmax] else []) ++
  (if !o.name.isEmpty then [OUpd.name o.name] else []) ++ (if o.shardSize != 0 then [OUpd.shard o.shardSize] else []) ++
  o.metadata.map (fun kv => OUpd.mput kv.1 kv.2) ++ (if !o.pinUpdate.isEmpty then [OUpd.upd o.pinUpdate] else []) ++
  (if o.expireAt != 0 then [OUpd.exp o.expireAt] else []) ++ o.origins.map OUpd.origin

theorem mapOpt_toksOpts (o : OptsRaw) (hw : wfOptsRaw o = true)
    (hf : (o.metadata.all fun kv => (entryToks kv).all wfTok) = true) :
    mapOpt optUpd (toksOpts o) = some (updsOpts o) := by
  simp only [wfOptsRaw, Bool.and_eq_true, decide_eq_true_eq] at hw
  obtain ⟨⟨⟨⟨⟨h1, h2⟩, h3⟩, _⟩, _⟩, h6⟩ := hw
  unfold toksOpts updsOpts
  refine mapOpt_append (mapOpt_append (mapOpt_append (mapOpt_append (mapOpt_append (mapOpt_append (mapOpt_append ?_ ?_) ?_) ?_) ?_) ?_) ?_) ?_
  · exact mapOpt_optTok (by simp [optUpd, unzigzag32_zigzag32 _ h1])
  · exact mapOpt_optTok (by simp [optUpd, unzigzag32_zigzag32 _ h2])
  · exact mapOpt_optTok (by simp [optUpd, h3])
  · exact mapOpt_optTok (by simp [optUpd])
  · apply mapOpt_map_map
    intro kv hkv
    have hv := List.all_eq_true.mp h6 kv hkv
    simp only [Bool.and_eq_true] at hv
    have hwf := List.all_eq_true.mp hf kv hkv
    simp [optUpd, mapEntry_encode kv hv.1 hv.2 hwf]
  · exact mapOpt_optTok (by simp [optUpd])
  · exact mapOpt_optTok (by simp [optUpd])
  · apply mapOpt_map_map
    intro b _
    simp [optUpd]

theorem foldl_updsOpts (o : OptsRaw) (hn : keysNodup o.metadata = true) : (updsOpts o).foldl applyO OptsRaw.zero = o := by
  unfold updsOpts
  simp only [List.foldl_append]
  have e1 : (if o.rmin != 0 then [OUpd.rmin o.rmin] else []).foldl applyO OptsRaw.zero = { OptsRaw.zero with rmin := o.rmin } := by
    by_cases h : o.rmin = 0 <;> simp [h, applyO, OptsRaw.zero]
  rw [e1]
  have e2 : ∀ s : OptsRaw, s.rmax = 0 → (if o.rmax != 0 then [OUpd.rmax o.rmax] else []).foldl applyO s = { s with rmax := o.rmax } := by
    intro s hs; by_cases h : o.rmax = 0
    · cases s; simp_all
    · simp [h, applyO]
  rw [e2 _ rfl]
  have e3 : ∀ s : OptsRaw, s.name = [] → (if !o.name.isEmpty then [OUpd.name o.name] else []).foldl applyO s = { s with name := o.name } := by
    intro s hs; by_cases h : o.name = []
    · cases s; simp_all
    · simp [h, applyO]
  rw [e3 _ rfl]
  have e4 : ∀ s : OptsRaw, s.shardSize = 0 → (if o.shardSize != 0 then [OUpd.shard o.shardSize] else []).foldl applyO s = { s with shardSize := o.shardSize } := by
    intro s hs; by_cases h : o.shardSize = 0
    · cases s; simp_all
    · simp [h, applyO]
  rw [e4 _ rfl, foldl_mput _ _ (by simpa [OptsRaw.zero] using hn)]
  have e5 : ∀ s : OptsRaw, s.pinUpdate = [] → (if !o.pinUpdate.isEmpty then [OUpd.upd o.pinUpdate] else []).foldl applyO s = { s with pinUpdate := o.pinUpdate } := by
    intro s hs; by_cases h : o.pinUpdate = []
    · cases s; simp_all
    · simp [h, applyO]
  rw [e5 _ rfl]
  have e6 : ∀ s : OptsRaw, s.expireAt = 0 → (if o.expireAt != 0 then [OUpd.exp o.expireAt] else []).foldl applyO s = { s with expireAt := o.expireAt } := by
    intro s hs; by_cases h : o.expireAt = 0
    · cases s; simp_all
    · simp [h, applyO]
  rw [e6 _ rfl, foldl_origin]
  simp [OptsRaw.zero]

theorem toksOpts_plain (o : OptsRaw) : plainToks (toksOpts o) = true := by
  simp only [plainToks, toksOpts, List.all_append, Bool.and_eq_true, optTok]
  refine ⟨⟨⟨⟨⟨⟨⟨?_, ?_⟩, ?_⟩, ?_⟩, ?_⟩, ?_⟩, ?_⟩, ?_⟩ <;> first
    | (split <;> simp [maxValidNum])
    | simp [maxValidNum]

/-- the options message is read back from its canonical tokens -/
theorem opts_fields_roundtrip (o : OptsRaw) (hw : wfOptsRaw o = true) (hn : keysNodup o.metadata = true)
    (hf : (toksOpts o).all wfTok = true) (hfe : (o.metadata.all fun kv => (entryToks kv).all wfTok) = true) :
    ((fields (encodeToks (toksOpts o))).bind (mapOpt optUpd)).map (fun us => us.foldl applyO OptsRaw.zero) = some o := by
  rw [fields_encode _ hf (toksOpts_plain o)]
  simp [mapOpt_toksOpts o hw hfe, foldl_updsOpts o hn]

/-! ## `pb.Pin` -/

def updsPin (p : PinRaw) : List PUpd :=
  (if !p.cid.isEmpty then [PUpd.cid p.cid] else []) ++ (if p.type != 0 then [PUpd.type p.type] else []) ++
  p.allocs.map PUpd.alloc ++ (if p.maxDepth != 0 then [PUpd.depth p.maxDepth] else []) ++
  (if !p.reference.isEmpty then [PUpd.ref p.reference] else []) ++
  (match p.opts with | some o => [PUpd.opts (updsOpts o)] | none => [])

/-- well-formedness of a message for the round trip: value ranges, UTF-8 strings, unique map keys, lengths that fit -/
def wfMsg (p : PinRaw) : Bool :=
  wfPinRaw p && fitsWire p && match p.opts with | some o => keysNodup o.metadata | none => true

theorem mapOpt_toksPin (p : PinRaw) (hw : wfMsg p = true) : mapOpt pinUpd (toksPin p) = some (updsPin p) := by
  simp only [wfMsg, wfPinRaw, fitsWire, Bool.and_eq_true] at hw
  obtain ⟨⟨⟨⟨h1, h2⟩, h3⟩, ⟨_, h5⟩⟩, _⟩ := hw
  unfold toksPin updsPin
  refine mapOpt_append (mapOpt_append (mapOpt_append (mapOpt_append (mapOpt_append ?_ ?_) ?_) ?_) ?_) ?_
  · exact mapOpt_optTok (by simp [pinUpd])
  · exact mapOpt_optTok (by simp [pinUpd, u64ToI32_enum _ h1])
  · apply mapOpt_map_map
    intro b _
    simp [pinUpd]
  · exact mapOpt_optTok (by simp [pinUpd, unzigzag32_zigzag32 _ h2])
  · exact mapOpt_optTok (by simp [pinUpd])
  · cases ho : p.opts with
    | none => simp [optsToks, mapOpt]
    | some o =>
      simp only [ho, Bool.and_eq_true] at h3 h5
      simp only [optsToks, mapOpt, pinUpd]
      rw [fields_encode _ h5.1 (toksOpts_plain o)]
      simp [mapOpt_toksOpts o h3 h5.2]

theorem foldl_updsPin (p : PinRaw) (hn : (match p.opts with | some o => keysNodup o.metadata | none => true) = true) :
    (updsPin p).foldl applyP PinRaw.zero = p := by
  unfold updsPin
  simp only [List.foldl_append]
  have e1 : (if !p.cid.isEmpty then [PUpd.cid p.cid] else []).foldl applyP PinRaw.zero = { PinRaw.zero with cid := p.cid } := by
    by_cases h : p.cid = [] <;> simp [h, applyP, PinRaw.zero]
  rw [e1]
  have e2 : ∀ s : PinRaw, s.type = 0 → (if p.type != 0 then [PUpd.type p.type] else []).foldl applyP s = { s with type := p.type } := by
    intro s hs; by_cases h : p.type = 0
    · cases s; simp_all
    · simp [h, applyP]
  rw [e2 _ rfl, foldl_alloc]
  have e3 : ∀ s : PinRaw, s.maxDepth = 0 → (if p.maxDepth != 0 then [PUpd.depth p.maxDepth] else []).foldl applyP s = { s with maxDepth := p.maxDepth } := by
    intro s hs; by_cases h : p.maxDepth = 0
    · cases s; simp_all
    · simp [h, applyP]
  rw [e3 _ rfl]
  have e4 : ∀ s : PinRaw, s.reference = [] → (if !p.reference.isEmpty then [PUpd.ref p.reference] else []).foldl applyP s = { s with reference := p.reference } := by
    intro s hs; by_cases h : p.reference = []
    · cases s; simp_all
    · simp [h, applyP]
  rw [e4 _ rfl]
  cases ho : p.opts with
  | none =>
    obtain ⟨c, t, a, d, r, o⟩ := p
    simp only at ho
    simp [PinRaw.zero, ho]
  | some o =>
    simp only [ho] at hn
    obtain ⟨c, t, a, d, r, o'⟩ := p
    simp only at ho
    simp [PinRaw.zero, ho, applyP, foldl_updsOpts o hn]

theorem toksPin_plain (p : PinRaw) : plainToks (toksPin p) = true := by
  simp only [plainToks, toksPin, List.all_append, Bool.and_eq_true, optTok]
  refine ⟨⟨⟨⟨⟨?_, ?_⟩, ?_⟩, ?_⟩, ?_⟩, ?_⟩
  · split <;> simp [maxValidNum]
  · split <;> simp [maxValidNum]
  · simp [maxValidNum]
  · split <;> simp [maxValidNum]
  · split <;> simp [maxValidNum]
  · cases p.opts <;> simp [optsToks, maxValidNum]

/-- message-level: the canonical tokens of a message decode to the message -/
theorem pinOfToks_toksPin (p : PinRaw) (hw : wfMsg p = true) : pinOfToks (toksPin p) = some p := by
  have hn : (match p.opts with | some o => keysNodup o.metadata | none => true) = true := by
    simp only [wfMsg, Bool.and_eq_true] at hw; exact hw.2
  simp [pinOfToks, mapOpt_toksPin p hw, foldl_updsPin p hn]

/-- `proto.Unmarshal(proto.Marshal(m)) = m`, at the byte level -/
theorem decodePin_encode (p : PinRaw) (hw : wfMsg p = true) : decodePin (encodeToks (toksPin p)) = some p := by
  have hf : (toksPin p).all wfTok = true := by
    simp only [wfMsg, fitsWire, Bool.and_eq_true] at hw; exact hw.1.2.1
  simp [decodePin, fields_encode _ hf (toksPin_plain p), pinOfToks_toksPin p hw]


/-! ## field order, unknown fields -/

def PUpd.tag : PUpd → Nat
  | .cid _ => 1 | .type _ => 2 | .alloc _ => 3 | .depth _ => 4 | .ref _ => 5 | .opts _ => 6 | .skip => 0

theorem pinUpd_tag {t : Tok} {u : PUpd} (h : pinUpd t = some u) : u.tag = 0 ∨ u.tag = t.num := by
  unfold pinUpd at h
  split at h
  all_goals first
    | (simp only [Option.some.injEq] at h; subst h; simp [PUpd.tag]; done)
    | (simp only [Option.some.injEq] at h; subst h; simp [PUpd.tag]; omega)
    | (simp only [Option.map_eq_some_iff] at h; obtain ⟨_, _, rfl⟩ := h; simp [PUpd.tag]; omega)

theorem applyP_comm (s : PinRaw) (u v : PUpd) (h : u.tag ≠ v.tag ∨ u.tag = 0 ∨ v.tag = 0) :
    applyP (applyP s u) v = applyP (applyP s v) u := by
  cases u <;> cases v <;> simp [applyP, PUpd.tag] at h ⊢

theorem mapOpt_append_eq {f : α → Option β} : ∀ (a b : List α), mapOpt f (a ++ b) =
    match mapOpt f a, mapOpt f b with
    | some x, some y => some (x ++ y)
    | _, _ => none
  | [], b => by cases h : mapOpt f b <;> simp [mapOpt, h]
  | a0 :: a, b => by
    simp only [List.cons_append, mapOpt, mapOpt_append_eq a b]
    cases f a0 <;> cases mapOpt f a <;> cases mapOpt f b <;> simp

/-- reorderings of a token list that keep the relative order of tokens with the same field number:
    generated by swapping neighbours with different field numbers -/
inductive FieldPerm : List Tok → List Tok → Prop
  | refl (l : List Tok) : FieldPerm l l
  | swap (l1 l2 : List Tok) (a b : Tok) : a.num ≠ b.num → FieldPerm (l1 ++ a :: b :: l2) (l1 ++ b :: a :: l2)
  | trans {a b c : List Tok} : FieldPerm a b → FieldPerm b c → FieldPerm a c

theorem pinOfToks_swap (l1 l2 : List Tok) (a b : Tok) (h : a.num ≠ b.num) :
    pinOfToks (l1 ++ a :: b :: l2) = pinOfToks (l1 ++ b :: a :: l2) := by
  unfold pinOfToks
  rw [mapOpt_append_eq, mapOpt_append_eq]
  simp only [mapOpt]
  cases h1 : mapOpt pinUpd l1 <;> cases ha : pinUpd a <;> cases hb : pinUpd b <;> cases h2 : mapOpt pinUpd l2 <;> simp
  rename_i x u v y
  have hc : u.tag ≠ v.tag ∨ u.tag = 0 ∨ v.tag = 0 := by
    rcases pinUpd_tag ha with e | e <;> rcases pinUpd_tag hb with e' | e'
    · exact Or.inr (Or.inl e)
    · exact Or.inr (Or.inl e)
    · exact Or.inr (Or.inr e')
    · exact Or.inl (by rw [e, e']; exact h)
  rw [applyP_comm _ u v hc]

/-- protobuf decoders accept the fields in any order: the decoded message only depends on the relative order
    of the tokens of one field number (last scalar wins, repeated fields in order) -/
theorem pinOfToks_perm {ts ts' : List Tok} (h : FieldPerm ts ts') : pinOfToks ts = pinOfToks ts' := by
  induction h with
  | refl => rfl
  | swap l1 l2 a b hab => exact pinOfToks_swap l1 l2 a b hab
  | trans _ _ ih1 ih2 => exact ih1.trans ih2

/-- a token that is not a field of `pb.Pin` in its wire type (unknown number, or a known number with another
    wire type) changes nothing -/
theorem pinOfToks_skip (l1 l2 : List Tok) (t : Tok) (h : pinUpd t = some .skip) :
    pinOfToks (l1 ++ t :: l2) = pinOfToks (l1 ++ l2) := by
  unfold pinOfToks
  rw [mapOpt_append_eq, mapOpt_append_eq]
  simp only [mapOpt, h]
  cases mapOpt pinUpd l1 <;> cases mapOpt pinUpd l2 <;> simp [applyP]

theorem pinUpd_unknown (t : Tok) (h : 6 < t.num) : pinUpd t = some .skip := by
  unfold pinUpd
  split <;> first | omega | rfl

end CV.C08.Wire
