import ClusterVerif.Model.C08Wire
import Mathlib.Data.List.Basic
/-! C08 — lemmas about the byte-level wire models (`Model/C08Wire.lean`). -/
namespace CV.C08.Wire

theorem ofNat_toNat_lt {n : Nat} (h : n < 256) : (UInt8.ofNat n).toNat = n := by
  simp [UInt8.toNat_ofNat']; omega

/-- with `k` bytes left of ten, a value below `2^(7k-6)` is read back -/
theorem decodeVarintAux_encode : ∀ (k n : Nat) (rest : Bytes), 1 ≤ k → n < 2 ^ (7 * k - 6) →
    decodeVarintAux k (encodeVarintAux k n ++ rest) = some (n, rest)
  | 0, _, _, hk, _ => by omega
  | k + 1, n, rest, _, hn => by
    unfold encodeVarintAux
    by_cases h : n < 128
    · simp only [h, if_true, List.cons_append, List.nil_append]
      unfold decodeVarintAux
      have e : (UInt8.ofNat n).toNat = n := ofNat_toNat_lt (by omega)
      simp only [e, h, if_true]
      by_cases hk0 : k = 0
      · subst hk0
        have : n < 2 := by simpa using hn
        have : ¬ (n > 1) := by omega
        simp [this]
      · have : (k == 0) = false := by simpa using hk0
        simp [this]
    · simp only [h, if_false, List.cons_append]
      unfold decodeVarintAux
      have e : (UInt8.ofNat (n % 128 + 128)).toNat = n % 128 + 128 := ofNat_toNat_lt (by omega)
      have h2 : ¬ (n % 128 + 128 < 128) := by omega
      simp only [e, h2, if_false]
      have hk1 : 1 ≤ k := by
        rcases k with _ | k
        · have : n < 2 := by simpa using hn
          omega
        · omega
      have hn' : n / 128 < 2 ^ (7 * k - 6) := by
        have : 7 * (k + 1) - 6 = (7 * k - 6) + 7 := by omega
        rw [this, Nat.pow_add] at hn
        have h7 : (2:Nat) ^ 7 = 128 := by decide
        rw [h7] at hn
        exact Nat.div_lt_of_lt_mul (by rw [Nat.mul_comm]; exact hn)
      have ih := decodeVarintAux_encode k (n / 128) rest hk1 hn'
      simp only [ih, Option.some.injEq, Prod.mk.injEq, and_true]
      omega

theorem decodeVarint_encode (n : Nat) (rest : Bytes) (h : n < two64) : decodeVarint (encodeVarint n ++ rest) = some (n, rest) := by
  unfold decodeVarint encodeVarint
  exact decodeVarintAux_encode 10 n rest (by omega) (by simpa [two64] using h)

/-! ## tokens -/

theorem parseTok_encode (t : Tok) (rest : Bytes) (h : wfTok t = true) : parseTok (encodeTok t ++ rest) = some (t, rest) := by
  obtain ⟨num, val⟩ := t
  simp only [wfTok, Bool.and_eq_true, decide_eq_true_eq] at h
  obtain ⟨⟨h1, h2⟩, hv⟩ := h
  have hmax : num ≤ 2147483647 := by simpa [maxTagNum] using h2
  unfold parseTok encodeTok
  have hrange : ¬ (num < 1 ∨ num > maxTagNum) := by simp [maxTagNum]; omega
  cases val with
  | varint v =>
    have hv' : v < two64 := by simpa using hv
    have htag : num * 8 + 0 < two64 := by simp [two64]; omega
    simp only [WVal.wtype, WVal.payload, List.append_assoc, decodeVarint_encode _ _ htag]
    have e1 : (num * 8 + 0) / 8 = num := by omega
    have e2 : (num * 8 + 0) % 8 = 0 := by omega
    simp only [e1, e2, Bool.or_eq_true, decide_eq_true_eq, hrange, if_false, decodeVarint_encode _ _ hv']
  | fixed64 bs =>
    have hl : bs.length = 8 := by simpa using hv
    have htag : num * 8 + 1 < two64 := by simp [two64]; omega
    simp only [WVal.wtype, WVal.payload, List.append_assoc, decodeVarint_encode _ _ htag]
    have e1 : (num * 8 + 1) / 8 = num := by omega
    have e2 : (num * 8 + 1) % 8 = 1 := by omega
    have hlen : ¬ ((bs ++ rest).length < 8) := by simp [hl]
    have ht : (bs ++ rest).take 8 = bs := by rw [← hl]; simp
    have hd : (bs ++ rest).drop 8 = rest := by rw [← hl]; simp
    simp only [e1, e2, Bool.or_eq_true, decide_eq_true_eq, hrange, if_false, hlen, ht, hd]
  | bytes bs =>
    have hl : bs.length < two64 := by simpa using hv
    have htag : num * 8 + 2 < two64 := by simp [two64]; omega
    simp only [WVal.wtype, WVal.payload, List.append_assoc, decodeVarint_encode _ _ htag]
    have e1 : (num * 8 + 2) / 8 = num := by omega
    have e2 : (num * 8 + 2) % 8 = 2 := by omega
    have hlen : ¬ (bs.length > (bs ++ rest).length) := by simp
    have ht : (bs ++ rest).take bs.length = bs := by simp
    have hd : (bs ++ rest).drop bs.length = rest := by simp
    simp only [e1, e2, Bool.or_eq_true, decide_eq_true_eq, hrange, if_false, decodeVarint_encode _ _ hl, hlen, ht, hd]
  | sgroup =>
    have htag : num * 8 + 3 < two64 := by simp [two64]; omega
    simp only [WVal.wtype, WVal.payload, List.append_assoc, decodeVarint_encode _ _ htag]
    have e1 : (num * 8 + 3) / 8 = num := by omega
    have e2 : (num * 8 + 3) % 8 = 3 := by omega
    simp only [e1, e2, Bool.or_eq_true, decide_eq_true_eq, hrange, if_false, List.nil_append]
  | egroup =>
    have htag : num * 8 + 4 < two64 := by simp [two64]; omega
    simp only [WVal.wtype, WVal.payload, List.append_assoc, decodeVarint_encode _ _ htag]
    have e1 : (num * 8 + 4) / 8 = num := by omega
    have e2 : (num * 8 + 4) % 8 = 4 := by omega
    simp only [e1, e2, Bool.or_eq_true, decide_eq_true_eq, hrange, if_false, List.nil_append]
  | fixed32 bs =>
    have hl : bs.length = 4 := by simpa using hv
    have htag : num * 8 + 5 < two64 := by simp [two64]; omega
    simp only [WVal.wtype, WVal.payload, List.append_assoc, decodeVarint_encode _ _ htag]
    have e1 : (num * 8 + 5) / 8 = num := by omega
    have e2 : (num * 8 + 5) % 8 = 5 := by omega
    have hlen : ¬ ((bs ++ rest).length < 4) := by simp [hl]
    have ht : (bs ++ rest).take 4 = bs := by rw [← hl]; simp
    have hd : (bs ++ rest).drop 4 = rest := by rw [← hl]; simp
    simp only [e1, e2, Bool.or_eq_true, decide_eq_true_eq, hrange, if_false, hlen, ht, hd]

theorem encodeVarintAux_ne_nil (k n : Nat) : encodeVarintAux (k + 1) n ≠ [] := by
  unfold encodeVarintAux; split <;> simp

theorem encodeTok_length_pos (t : Tok) : 1 ≤ (encodeTok t).length := by
  unfold encodeTok encodeVarint
  have := encodeVarintAux_ne_nil 9 (t.num * 8 + t.val.wtype)
  have : 1 ≤ (encodeVarintAux 10 (t.num * 8 + t.val.wtype)).length := by
    cases h : encodeVarintAux 10 (t.num * 8 + t.val.wtype) with
    | nil => exact absurd h this
    | cons _ _ => simp
  simp only [List.length_append]; omega

theorem tokensAux_encode : ∀ (ts : List Tok) (fuel : Nat), ts.all wfTok = true → (encodeToks ts).length ≤ fuel →
    tokensAux fuel (encodeToks ts) = some ts
  | [], fuel, _, _ => by cases fuel <;> simp [encodeToks, tokensAux]
  | t :: ts, fuel, hw, hf => by
    simp only [List.all_cons, Bool.and_eq_true] at hw
    have hpos := encodeTok_length_pos t
    simp only [encodeToks, List.length_append] at hf
    cases fuel with
    | zero => omega
    | succ fuel =>
      have hne : encodeToks (t :: ts) ≠ [] := by
        intro e; have := congrArg List.length e; rw [encodeToks, List.length_append, List.length_nil] at this; omega
      cases hb : encodeToks (t :: ts) with
      | nil => exact absurd hb hne
      | cons b bs =>
        rw [← hb]
        unfold tokensAux
        rw [hb]
        simp only
        rw [← hb]
        simp only [encodeToks]
        have hle : (encodeToks ts).length ≤ fuel := by omega
        have ih := tokensAux_encode ts fuel hw.2 hle
        have hp := parseTok_encode t (encodeToks ts) hw.1
        simp only [hp, ih]

/-- the tokenizer reads back every well-formed token list -/
theorem tokens_encode (ts : List Tok) (h : ts.all wfTok = true) : tokens (encodeToks ts) = some ts :=
  tokensAux_encode ts _ h (Nat.le_refl _)

/-! ## message-level tokens -/

/-- no group tokens, field numbers a message may carry -/
def plainToks (ts : List Tok) : Bool :=
  ts.all fun t => decide (t.num ≤ maxValidNum) && t.val != .sgroup && t.val != .egroup

theorem topLevel_plain : ∀ (ts : List Tok), plainToks ts = true → topLevelAux [] ts = some ts
  | [], _ => by simp [topLevelAux]
  | t :: ts, h => by
    simp only [plainToks, List.all_cons, Bool.and_eq_true, decide_eq_true_eq, bne_iff_ne, ne_eq] at h
    obtain ⟨⟨⟨h1, h2⟩, h3⟩, h4⟩ := h
    have ih := topLevel_plain ts (by simpa [plainToks] using h4)
    unfold topLevelAux
    have : ¬ (t.num > maxValidNum) := by omega
    simp only [this, if_false]
    cases hv : t.val with
    | sgroup => exact absurd hv h2
    | egroup => exact absurd hv h3
    | varint v => simp [ih]
    | fixed64 b => simp [ih]
    | bytes b => simp [ih]
    | fixed32 b => simp [ih]

theorem fields_encode (ts : List Tok) (hw : ts.all wfTok = true) (hp : plainToks ts = true) : fields (encodeToks ts) = some ts := by
  simp [fields, tokens_encode ts hw, topLevel, topLevel_plain ts hp]

theorem mapOpt_append {f : α → Option β} : ∀ {a b : List α} {x y : List β}, mapOpt f a = some x → mapOpt f b = some y →
    mapOpt f (a ++ b) = some (x ++ y)
  | [], _, x, _, ha, hb => by simp [mapOpt] at ha; subst ha; simpa using hb
  | a0 :: a, b, x, y, ha, hb => by
    simp only [mapOpt, List.cons_append] at ha ⊢
    cases h0 : f a0 with
    | none => simp [h0] at ha
    | some b0 =>
      cases h1 : mapOpt f a with
      | none => simp [h0, h1] at ha
      | some x' =>
        simp only [h0, h1, Option.some.injEq] at ha
        subst ha
        simp [mapOpt_append h1 hb]

theorem mapOpt_map {f : α → Option β} {g : α → β} : ∀ (l : List α), (∀ a ∈ l, f a = some (g a)) → mapOpt f l = some (l.map g)
  | [], _ => rfl
  | a :: l, h => by
    simp [mapOpt, h a (by simp), mapOpt_map l (fun x hx => h x (by simp [hx]))]

theorem mapOpt_optTok {f : Tok → Option β} {c : Bool} {t : Tok} {u : β} (h : f t = some u) :
    mapOpt f (optTok c t) = some (if c then [u] else []) := by
  cases c <;> simp [optTok, mapOpt, h]

/-! ## zigzag, enum -/

theorem unzigzag32_zigzag32 (i : Int) (h : inI32 i = true) : unzigzag32 (zigzag32 i) = i := by
  simp only [inI32, Bool.and_eq_true, decide_eq_true_eq] at h
  unfold unzigzag32 zigzag32 two32
  by_cases hi : i ≥ 0
  · simp only [hi, if_true]
    have e : (2 * i).toNat = 2 * i.toNat := by omega
    rw [e]
    have hlt : 2 * i.toNat < 4294967296 := by omega
    have e2 : (2 * i.toNat) % 4294967296 = 2 * i.toNat := Nat.mod_eq_of_lt hlt
    simp only [e2]
    have e3 : (2 * i.toNat) % 2 = 0 := by omega
    simp only [e3, beq_self_eq_true, if_true]
    omega
  · simp only [hi, if_false]
    have hlt : (-2 * i - 1).toNat < 4294967296 := by omega
    have e2 : (-2 * i - 1).toNat % 4294967296 = (-2 * i - 1).toNat := Nat.mod_eq_of_lt hlt
    simp only [e2]
    have e3 : (-2 * i - 1).toNat % 2 = 1 := by omega
    simp only [e3]
    simp only [show ((1:Nat) == 0) = false from rfl, Bool.false_eq_true, if_false]
    omega

theorem zigzag32_lt (i : Int) (h : inI32 i = true) : zigzag32 i < two64 := by
  simp only [inI32, Bool.and_eq_true, decide_eq_true_eq] at h
  unfold zigzag32 two64
  split <;> omega

theorem u64ToI32_enum (i : Int) (h : inI32 i = true) : u64ToI32 (enumToU64 i) = i := by
  simp only [inI32, Bool.and_eq_true, decide_eq_true_eq] at h
  unfold u64ToI32 enumToU64 two64 two32
  by_cases hi : 0 ≤ i
  · have e : (i % (18446744073709551616 : Nat)) = i := Int.emod_eq_of_lt hi (by omega)
    simp only [e]
    have e2 : i.toNat % 4294967296 = i.toNat := Nat.mod_eq_of_lt (by omega)
    simp only [e2]
    have : i.toNat < 2147483648 := by omega
    simp only [this, if_true]
    omega
  · have e : (i % ((18446744073709551616 : Nat) : Int)) = i + 18446744073709551616 := by
      have : i % ((18446744073709551616 : Nat) : Int) = (i + 18446744073709551616) % ((18446744073709551616 : Nat) : Int) := by
        simp
      rw [this]
      exact Int.emod_eq_of_lt (by omega) (by omega)
    simp only [e]
    have e2 : (i + 18446744073709551616).toNat % 4294967296 = (i + 4294967296).toNat := by omega
    simp only [e2]
    have : ¬ ((i + 4294967296).toNat < 2147483648) := by omega
    simp only [this, if_false]
    omega

theorem enumToU64_lt (i : Int) : enumToU64 i < two64 := by
  unfold enumToU64 two64
  have := Int.emod_lt_of_pos i (show (0:Int) < ((18446744073709551616 : Nat) : Int) by decide)
  have := Int.emod_nonneg i (show (((18446744073709551616 : Nat) : Int)) ≠ 0 by decide)
  omega
end CV.C08.Wire
