import ClusterVerif.Spec.C17
import ClusterVerif.Lemmas.PinMap
import Mathlib.Tactic.SplitIfs
import Mathlib.Data.List.Basic

/-! Helper lemmas for Props/C17. -/
namespace CV.C17
open CV

/-! ### sorted sets of peers -/
theorem mem_insertPeer {p q : Nat} {l : List Nat} : q ∈ insertPeer p l ↔ q = p ∨ q ∈ l := by
  induction l with
  | nil => simp [insertPeer]
  | cons x xs ih =>
    unfold insertPeer
    split_ifs with h1 h2
    · simp
    · have : p = x := by simpa using h2
      subst this; simp
    · simp only [List.mem_cons, ih]; tauto

theorem sortedKeys_filter (f : Nat → Bool) {l : List Nat} (h : sortedKeys l = true) :
    sortedKeys (l.filter f) = true := by
  induction l with
  | nil => simp [sortedKeys]
  | cons x xs ih =>
    rw [sortedKeys_cons] at h
    rw [List.filter_cons]
    split_ifs
    · rw [sortedKeys_cons]
      exact ⟨fun b hb => h.1 b (List.mem_filter.1 hb).1, ih h.2⟩
    · exact ih h.2

theorem sorted_insertPeer {p : Nat} {l : List Nat} (h : sortedKeys l = true) :
    sortedKeys (insertPeer p l) = true := by
  induction l with
  | nil => simp [insertPeer, sortedKeys]
  | cons x xs ih =>
    have h' := sortedKeys_cons.1 h
    unfold insertPeer
    split_ifs with h1 h2
    · rw [sortedKeys_cons]
      refine ⟨?_, h⟩
      intro b hb
      rcases List.mem_cons.1 hb with rfl | hb
      · exact h1
      · exact Nat.lt_trans h1 (h'.1 b hb)
    · exact h
    · rw [sortedKeys_cons]
      refine ⟨?_, ih h'.2⟩
      intro b hb
      rcases mem_insertPeer.1 hb with rfl | hb
      · have : ¬ b = x := by simpa using h2
        omega
      · exact h'.1 b hb

theorem insertPeer_of_mem {p : Nat} {l : List Nat} (hs : sortedKeys l = true) (hm : p ∈ l) :
    insertPeer p l = l := by
  induction l with
  | nil => cases hm
  | cons x xs ih =>
    have h' := sortedKeys_cons.1 hs
    unfold insertPeer
    rcases List.mem_cons.1 hm with rfl | hm
    · simp
    · have hlt := h'.1 p hm
      have h1 : ¬ p < x := by omega
      have h2 : ¬ (p == x) = true := by
        intro h; have : p = x := by simpa using h
        omega
      rw [if_neg h1, if_neg h2, ih h'.2 hm]

theorem mem_erasePeer {p q : Nat} {l : List Nat} : q ∈ erasePeer p l ↔ q ∈ l ∧ q ≠ p := by
  unfold erasePeer; simp [List.mem_filter]

theorem erasePeer_of_not_mem {p : Nat} {l : List Nat} (h : p ∉ l) : erasePeer p l = l := by
  unfold erasePeer
  rw [List.filter_eq_self]
  intro a ha
  have : a ≠ p := fun e => h (e ▸ ha)
  simpa using this

theorem sorted_erasePeer {p : Nat} {l : List Nat} (h : sortedKeys l = true) :
    sortedKeys (erasePeer p l) = true := sortedKeys_filter _ h

theorem sorted_normPeers (l : List Nat) : sortedKeys (normPeers l) = true := by
  induction l with
  | nil => simp [normPeers, sortedKeys]
  | cons x xs ih => exact sorted_insertPeer ih

/-! ### configurations -/
theorem cfgHas_iff {c : Config} {p : Nat} : cfgHas c p = true ↔ p ∈ cfgIds c := by
  unfold cfgHas; simp

theorem cfgHas_false_iff {c : Config} {p : Nat} : cfgHas c p = false ↔ p ∉ cfgIds c := by
  rw [← cfgHas_iff]; simp

theorem cfgIds_cfgPut (s : Nat × Bool) (c : Config) : cfgIds (cfgPut s c) = insertPeer s.1 (cfgIds c) := by
  induction c with
  | nil => simp [cfgPut, cfgIds, insertPeer]
  | cons x xs ih =>
    unfold cfgPut
    simp only [cfgIds, List.map_cons] at ih ⊢
    unfold insertPeer
    split_ifs with h1 h2
    · simp
    · have : s.1 = x.1 := by simpa using h2
      simp [this]
    · simp [ih]

theorem cfgIds_cfgErase (p : Nat) (c : Config) : cfgIds (cfgErase p c) = erasePeer p (cfgIds c) := by
  unfold cfgIds cfgErase erasePeer
  rw [List.filter_map]
  rfl

theorem mem_cfgPut {s x : Nat × Bool} {c : Config} (h : x ∈ cfgPut s c) : x = s ∨ x ∈ c := by
  induction c with
  | nil => simpa [cfgPut] using h
  | cons y ys ih =>
    unfold cfgPut at h
    split_ifs at h with h1 h2
    · simpa using h
    · rcases List.mem_cons.1 h with h | h
      · exact Or.inl h
      · exact Or.inr (List.mem_cons_of_mem _ h)
    · rcases List.mem_cons.1 h with h | h
      · exact Or.inr (h ▸ List.mem_cons_self ..)
      · rcases ih h with h | h
        · exact Or.inl h
        · exact Or.inr (List.mem_cons_of_mem _ h)

theorem self_mem_cfgPut (s : Nat × Bool) (c : Config) : s ∈ cfgPut s c := by
  induction c with
  | nil => simp [cfgPut]
  | cons y ys ih =>
    unfold cfgPut
    split_ifs <;> simp [ih]

theorem cfgIds_initCfg (init : List Nat) : cfgIds (initCfg init) = normPeers init := by
  induction init with
  | nil => rfl
  | cons x xs ih =>
    show cfgIds (cfgPut (x, true) (initCfg xs)) = insertPeer x (normPeers xs)
    rw [cfgIds_cfgPut, ih]

theorem cfgAt_append (log : List Entry) (e : Entry) : cfgAt (log ++ [e]) = applyCfg (cfgAt log) e := by
  unfold cfgAt; rw [List.foldl_append]; rfl

theorem pinsAt_append (log : List Entry) (e : Entry) : pinsAt (log ++ [e]) = applyPin (pinsAt log) e := by
  unfold pinsAt; rw [List.foldl_append]; rfl

theorem sorted_applyCfg {c : Config} (e : Entry) (h : sortedKeys (cfgIds c) = true) :
    sortedKeys (cfgIds (applyCfg c e)) = true := by
  cases e with
  | boot ids => simp only [applyCfg]; rw [cfgIds_initCfg]; exact sorted_normPeers ids
  | addVoter p => simp only [applyCfg]; rw [cfgIds_cfgPut]; exact sorted_insertPeer h
  | addNonvoter p =>
    simp only [applyCfg]
    split_ifs
    · exact h
    · rw [cfgIds_cfgPut]; exact sorted_insertPeer h
  | rmServer p => simp only [applyCfg]; rw [cfgIds_cfgErase]; exact sorted_erasePeer h
  | pin _ => exact h
  | unpin _ => exact h

theorem sorted_foldl_applyCfg (log : List Entry) {c : Config} (h : sortedKeys (cfgIds c) = true) :
    sortedKeys (cfgIds (log.foldl applyCfg c)) = true := by
  induction log generalizing c with
  | nil => exact h
  | cons e es ih => exact ih (sorted_applyCfg e h)

theorem sorted_cfgAt (log : List Entry) : sortedKeys (cfgIds (cfgAt log)) = true :=
  sorted_foldl_applyCfg log (by simp [cfgIds, sortedKeys])


/-! ### raftWrapper -/
theorem accepts_addVoter (c : Config) (p : Nat) : raftAccepts c (.addVoter p) = true := by
  unfold raftAccepts cfgVoters
  simp only [applyCfg]
  have hm : (p, true) ∈ (cfgPut (p, true) c).filter (·.2) :=
    List.mem_filter.2 ⟨self_mem_cfgPut _ _, rfl⟩
  cases h : (cfgPut (p, true) c).filter (·.2) with
  | nil => rw [h] at hm; cases hm
  | cons _ _ => simp

theorem rwAddPeer_present {p : Nat} {c : Config} (h : cfgHas c p = true) (f : Bool) :
    rwAddPeer p c f = (.ok, []) := by
  unfold rwAddPeer; rw [if_pos h]

theorem rwAddPeer_absent {p : Nat} {c : Config} (h : cfgHas c p = false) :
    rwAddPeer p c true = (.ok, [.addVoter p]) := by
  unfold rwAddPeer
  simp [h, accepts_addVoter]

theorem rwRemovePeer_absent {p : Nat} {c : Config} (h : cfgHas c p = false) (f : Bool) :
    rwRemovePeer p c f = (.ok, []) := by
  unfold rwRemovePeer; simp [h]

theorem rwRemovePeer_last {p : Nat} {c : Config} (h : cfgIds c = [p]) (f : Bool) :
    rwRemovePeer p c f = (.err, []) := by
  have hh : cfgHas c p = true := by rw [cfgHas_iff, h]; simp
  unfold rwRemovePeer
  simp [hh, h]

/-- an attempt that fails appends nothing -/
def ErrEmpty (att : Attempt) : Prop := ∀ c f, (att c f).1 = .err → (att c f).2 = []

theorem errEmpty_add (p : Nat) : ErrEmpty (rwAddPeer p) := by
  intro c f h
  unfold rwAddPeer at h ⊢
  split_ifs at h ⊢ <;> simp_all

theorem errEmpty_rm (p : Nat) : ErrEmpty (rwRemovePeer p) := by
  intro c f h
  unfold rwRemovePeer at h ⊢
  split_ifs at h ⊢ <;> simp_all

theorem errEmpty_commit (e : Entry) : ErrEmpty (rwCommit e) := by
  intro c f h
  unfold rwCommit at h ⊢
  split_ifs at h ⊢ <;> simp_all

theorem res_ne_ok {r : Res} (h : ¬ (r == Res.ok) = true) : r = .err := by
  cases r with
  | ok => simp at h
  | err => rfl

/-! ### the redirect / retry loops under a healthy oracle -/
theorem redirect_healthy_ok {self l : Nat} {att : Attempt} (hne : (l == self) = false) (n pos : Nat) (log : List Entry)
    (hok : (att (cfgAt log) true).1 = .ok) :
    redirect self att (healthy l) (n + 1) pos log = (.done, pos + 1, log ++ (att (cfgAt log) true).2) := by
  simp [redirect, healthy, hne, hok]

theorem redirect_healthy_err {self l : Nat} {att : Attempt} (hE : ErrEmpty att) (hne : (l == self) = false)
    (log : List Entry) (herr : (att (cfgAt log) true).1 = .err) :
    ∀ n pos, redirect self att (healthy l) n pos log = (.failed, pos + n, log) := by
  intro n
  induction n with
  | zero => intro pos; simp [redirect]
  | succ n ih =>
    intro pos
    have h2 := hE _ _ herr
    simp only [redirect, healthy, hne, Bool.false_eq_true, if_false, Bool.true_or, if_true, herr, h2,
      List.append_nil, Bool.true_and]
    rw [if_neg (by simp), ih (pos + 1)]
    congr 2
    omega

theorem redirect_healthy_self {self : Nat} {att : Attempt} (n pos : Nat) (log : List Entry) :
    redirect self att (healthy self) (n + 1) pos log = (.leading, pos, log) := by
  simp [redirect, healthy]

theorem consLoop_healthy_self_err {self retries : Nat} {att : Attempt} (log : List Entry)
    (herr : (att (cfgAt log) true).1 = .err) :
    ∀ n pos, consLoop self retries att (healthy self) n pos log = (.err, log) := by
  intro n
  induction n with
  | zero => intro pos; simp [consLoop]
  | succ n ih =>
    intro pos
    unfold consLoop
    rw [redirect_healthy_self]
    simp only [healthy, herr]
    rw [if_neg (by simp)]
    exact ih (pos + 1)

/-- In a healthy cluster (leader known and reachable, futures succeed) a call amounts to one attempt on the leader,
    whoever issues it: the retry loops collapse. -/
theorem consLoop_healthy {att : Attempt} (hE : ErrEmpty att) (self l retries : Nat) (log : List Entry) :
    consLoop self retries att (healthy l) (retries + 1) 0 log = direct att log := by
  show _ = ((att (cfgAt log) true).1, log ++ (att (cfgAt log) true).2)
  by_cases hl : (l == self) = true
  · have : l = self := by simpa using hl
    subst this
    cases hr : (att (cfgAt log) true).1 with
    | ok =>
      unfold consLoop
      rw [redirect_healthy_self]
      simp [healthy, hr]
    | err =>
      rw [consLoop_healthy_self_err log hr, hE _ _ hr]; simp
  · have hne : (l == self) = false := by simpa using hl
    cases hr : (att (cfgAt log) true).1 with
    | ok =>
      unfold consLoop
      rw [redirect_healthy_ok hne _ _ _ hr]
    | err =>
      unfold consLoop
      rw [redirect_healthy_err hE hne log hr, hE _ _ hr]; simp


/-! ### the loops under an arbitrary oracle -/

/-- an attempt that appends nothing in the current configuration never changes the log, whatever the oracle -/
theorem redirect_inert {self : Nat} {att : Attempt} {orc : Nat → Tick} {log : List Entry}
    (h : ∀ f, (att (cfgAt log) f).2 = []) : ∀ n pos, (redirect self att orc n pos log).2.2 = log := by
  intro n
  induction n with
  | zero => intro pos; simp [redirect]
  | succ n ih =>
    intro pos
    unfold redirect
    cases hl : (orc pos).leader with
    | none => simp
    | some l =>
      simp only [h true, List.append_nil, ite_self]
      split_ifs
      · rfl
      · rfl
      · exact ih (pos + 1)

theorem consLoop_inert {self retries : Nat} {att : Attempt} {orc : Nat → Tick} {log : List Entry}
    (h : ∀ f, (att (cfgAt log) f).2 = []) : ∀ n pos, (consLoop self retries att orc n pos log).2 = log := by
  intro n
  induction n with
  | zero => intro pos; simp [consLoop]
  | succ n ih =>
    intro pos
    unfold consLoop
    have hr := redirect_inert (self := self) (orc := orc) h (retries + 1) pos
    rcases hx : redirect self att orc (retries + 1) pos log with ⟨k, pos', log'⟩
    rw [hx] at hr
    simp only at hr
    subst hr
    cases k with
    | noLeader => rfl
    | done => rfl
    | failed => rfl
    | leading =>
      simp only [h, List.append_nil]
      split_ifs
      · rfl
      · exact ih (pos' + 1)

/-- an attempt that is refused in the current configuration makes the whole call fail and leaves the log alone -/
theorem redirect_refused {self : Nat} {att : Attempt} {orc : Nat → Tick} {log : List Entry}
    (h : ∀ f, att (cfgAt log) f = (.err, [])) : ∀ n pos, (redirect self att orc n pos log).1 ≠ .done := by
  intro n
  induction n with
  | zero => intro pos; simp [redirect]
  | succ n ih =>
    intro pos
    unfold redirect
    cases hl : (orc pos).leader with
    | none => simp
    | some l =>
      simp only [h true, List.append_nil, ite_self]
      split_ifs with h1 h2
      · simp
      · simp at h2
      · exact ih (pos + 1)

theorem consLoop_refused {self retries : Nat} {att : Attempt} {orc : Nat → Tick} {log : List Entry}
    (h : ∀ f, att (cfgAt log) f = (.err, [])) : ∀ n pos, consLoop self retries att orc n pos log = (.err, log) := by
  have hi : ∀ f, (att (cfgAt log) f).2 = [] := fun f => by rw [h f]
  intro n
  induction n with
  | zero => intro pos; simp [consLoop]
  | succ n ih =>
    intro pos
    unfold consLoop
    have hr := redirect_inert (self := self) (orc := orc) hi (retries + 1) pos
    have hd := redirect_refused (self := self) (orc := orc) h (retries + 1) pos
    rcases hx : redirect self att orc (retries + 1) pos log with ⟨k, pos', log'⟩
    rw [hx] at hr hd
    simp only at hr hd
    subst hr
    cases k with
    | noLeader => rfl
    | done => exact absurd rfl hd
    | failed => rfl
    | leading =>
      simp only [h]
      rw [if_neg (by simp)]
      exact ih (pos' + 1)

/-- `Q` holds of the log after any successful attempt -/
def Establishes (att : Attempt) (Q : List Entry → Prop) : Prop :=
  ∀ log f, (att (cfgAt log) f).1 = .ok → Q (log ++ (att (cfgAt log) f).2)

theorem redirect_done {self : Nat} {att : Attempt} {orc : Nat → Tick} {Q : List Entry → Prop}
    (hQ : Establishes att Q) : ∀ n pos log, (redirect self att orc n pos log).1 = .done →
      Q (redirect self att orc n pos log).2.2 := by
  intro n
  induction n with
  | zero => intro pos log h; simp [redirect] at h
  | succ n ih =>
    intro pos log
    unfold redirect
    cases hl : (orc pos).leader with
    | none => simp
    | some l =>
      simp only
      by_cases hs : (l == self) = true
      · rw [if_pos hs]; simp
      · rw [if_neg hs]
        by_cases hc : ((orc pos).ok && (att (cfgAt log) true).1 == Res.ok) = true
        · rw [if_pos hc]
          have hc' := Bool.and_eq_true_iff.1 hc
          intro _
          simp only [hc'.1, Bool.true_or, if_true]
          exact hQ log true (by simpa using hc'.2)
        · rw [if_neg hc]
          exact ih _ _

theorem consLoop_ok {self retries : Nat} {att : Attempt} {orc : Nat → Tick} {Q : List Entry → Prop}
    (hQ : Establishes att Q) : ∀ n pos log, (consLoop self retries att orc n pos log).1 = .ok →
      Q (consLoop self retries att orc n pos log).2 := by
  intro n
  induction n with
  | zero => intro pos log h; simp [consLoop] at h
  | succ n ih =>
    intro pos log
    unfold consLoop
    have hd := redirect_done (self := self) (orc := orc) hQ (retries + 1) pos log
    rcases hx : redirect self att orc (retries + 1) pos log with ⟨k, pos', log'⟩
    rw [hx] at hd
    cases k with
    | noLeader => simp
    | done => intro _; exact hd rfl
    | failed => simp
    | leading =>
      simp only
      split_ifs with h1
      · intro _
        exact hQ log' _ (by simpa using h1)
      · exact ih _ _

/-- every entry an attempt may append satisfies `P` -/
def Sound (att : Attempt) (P : Entry → Prop) : Prop := ∀ c f e, e ∈ (att c f).2 → P e

def Ext (P : Entry → Prop) (log log' : List Entry) : Prop := ∃ es, log' = log ++ es ∧ ∀ e ∈ es, P e

theorem Ext.refl (P : Entry → Prop) (log : List Entry) : Ext P log log := ⟨[], by simp, by simp⟩

theorem Ext.trans {P : Entry → Prop} {a b c : List Entry} (h1 : Ext P a b) (h2 : Ext P b c) : Ext P a c := by
  obtain ⟨e1, rfl, p1⟩ := h1
  obtain ⟨e2, rfl, p2⟩ := h2
  refine ⟨e1 ++ e2, by simp, ?_⟩
  intro e he
  rcases List.mem_append.1 he with h | h
  · exact p1 e h
  · exact p2 e h

theorem Ext.step {P : Entry → Prop} {att : Attempt} (hS : Sound att P) (log : List Entry) (c : Config) (f : Bool) :
    Ext P log (log ++ (att c f).2) := ⟨_, rfl, fun e he => hS c f e he⟩

theorem redirect_ext {self : Nat} {att : Attempt} {orc : Nat → Tick} {P : Entry → Prop} (hS : Sound att P) :
    ∀ n pos log, Ext P log (redirect self att orc n pos log).2.2 := by
  intro n
  induction n with
  | zero => intro pos log; simp [redirect]; exact Ext.refl _ _
  | succ n ih =>
    intro pos log
    unfold redirect
    cases hl : (orc pos).leader with
    | none => exact Ext.refl _ _
    | some l =>
      simp only
      have hlog : Ext P log (if ((orc pos).ok || (orc pos).lost) = true then log ++ (att (cfgAt log) true).2 else log) := by
        split_ifs
        · exact Ext.step hS _ _ _
        · exact Ext.refl _ _
      by_cases hs : (l == self) = true
      · rw [if_pos hs]; exact Ext.refl _ _
      · rw [if_neg hs]
        by_cases hc : ((orc pos).ok && (att (cfgAt log) true).1 == Res.ok) = true
        · rw [if_pos hc]; exact hlog
        · rw [if_neg hc]; exact hlog.trans (ih _ _)

theorem consLoop_ext {self retries : Nat} {att : Attempt} {orc : Nat → Tick} {P : Entry → Prop} (hS : Sound att P) :
    ∀ n pos log, Ext P log (consLoop self retries att orc n pos log).2 := by
  intro n
  induction n with
  | zero => intro pos log; simp [consLoop]; exact Ext.refl _ _
  | succ n ih =>
    intro pos log
    unfold consLoop
    have hr := redirect_ext (self := self) (orc := orc) hS (retries + 1) pos log
    rcases hx : redirect self att orc (retries + 1) pos log with ⟨k, pos', log'⟩
    rw [hx] at hr
    cases k with
    | noLeader => exact hr
    | done => exact hr
    | failed => exact hr
    | leading =>
      simp only
      split_ifs
      · exact hr.trans (Ext.step hS _ _ _)
      · exact hr.trans (ih _ _)


/-! ### who has a vote, and since when -/
theorem cfgVoter_iff {c : Config} {p : Nat} : cfgVoter c p = true ↔ (p, true) ∈ c := by
  unfold cfgVoter
  rw [List.any_eq_true]
  constructor
  · rintro ⟨⟨a, b⟩, hm, h⟩
    simp only [Bool.and_eq_true, beq_iff_eq] at h
    obtain ⟨rfl, rfl⟩ := h
    exact hm
  · intro h
    exact ⟨(p, true), h, by simp⟩

theorem mem_normPeers {q : Nat} {l : List Nat} : q ∈ normPeers l ↔ q ∈ l := by
  induction l with
  | nil => simp [normPeers]
  | cons x xs ih =>
    show q ∈ insertPeer x (normPeers xs) ↔ _
    rw [mem_insertPeer, ih]; simp

theorem cfgVoter_applyCfg {c : Config} {e : Entry} {p : Nat} (h : cfgVoter (applyCfg c e) p = true) :
    e.enfranchises p = true ∨ cfgVoter c p = true := by
  rw [cfgVoter_iff] at h
  cases e with
  | boot ids =>
    left
    simp only [applyCfg] at h
    have : p ∈ cfgIds (initCfg ids) := List.mem_map.2 ⟨(p, true), h, rfl⟩
    rw [cfgIds_initCfg, mem_normPeers] at this
    simpa [Entry.enfranchises] using this
  | addVoter q =>
    simp only [applyCfg] at h
    rcases mem_cfgPut h with h | h
    · left
      have : p = q := by simpa using congrArg Prod.fst h
      simp [Entry.enfranchises, this]
    · right; exact cfgVoter_iff.2 h
  | addNonvoter q =>
    simp only [applyCfg] at h
    right
    split_ifs at h
    · exact cfgVoter_iff.2 h
    · rcases mem_cfgPut h with h | h
      · have := congrArg Prod.snd h; simp at this
      · exact cfgVoter_iff.2 h
  | rmServer q =>
    simp only [applyCfg, cfgErase] at h
    right; exact cfgVoter_iff.2 (List.mem_filter.1 h).1
  | pin _ => right; exact cfgVoter_iff.2 h
  | unpin _ => right; exact cfgVoter_iff.2 h

theorem cfgVoter_foldl {p : Nat} : ∀ (l : List Entry) (c : Config), cfgVoter (l.foldl applyCfg c) p = true →
    cfgVoter c p = true ∨ ∃ (k : Nat) (e : Entry), l[k]? = some e ∧ e.enfranchises p = true := by
  intro l
  induction l with
  | nil => intro c h; exact Or.inl h
  | cons x xs ih =>
    intro c h
    rcases ih (applyCfg c x) h with h1 | ⟨k, e, hk, he⟩
    · rcases cfgVoter_applyCfg h1 with h2 | h2
      · exact Or.inr ⟨0, x, rfl, h2⟩
      · exact Or.inl h2
    · exact Or.inr ⟨k + 1, e, by rw [List.getElem?_cons_succ]; exact hk, he⟩

/-! ### pins over the log -/
theorem applyPin_of_not_pinOp {e : Entry} (h : e.isPinOp = false) (m : PinMap) : applyPin m e = m := by
  cases e <;> simp_all [Entry.isPinOp, applyPin]

theorem applyCfg_of_pinOp {e : Entry} (h : e.isPinOp = true) (c : Config) : applyCfg c e = c := by
  cases e <;> simp_all [Entry.isPinOp, applyCfg]

theorem foldl_applyPin_cfg (es : List Entry) (h : ∀ e ∈ es, e.isPinOp = false) (m : PinMap) :
    es.foldl applyPin m = m := by
  induction es generalizing m with
  | nil => rfl
  | cons x xs ih =>
    rw [List.foldl_cons, applyPin_of_not_pinOp (h x (List.mem_cons_self ..))]
    exact ih (fun e he => h e (List.mem_cons_of_mem _ he)) m

theorem foldl_applyCfg_pins (es : List Entry) (h : ∀ e ∈ es, e.isPinOp = true) (c : Config) :
    es.foldl applyCfg c = c := by
  induction es generalizing c with
  | nil => rfl
  | cons x xs ih =>
    rw [List.foldl_cons, applyCfg_of_pinOp (h x (List.mem_cons_self ..))]
    exact ih (fun e he => h e (List.mem_cons_of_mem _ he)) c

theorem pinsAt_append_cfg (log es : List Entry) (h : ∀ e ∈ es, e.isPinOp = false) :
    pinsAt (log ++ es) = pinsAt log := by
  unfold pinsAt; rw [List.foldl_append]; exact foldl_applyPin_cfg es h _

theorem cfgAt_append_pins (log es : List Entry) (h : ∀ e ∈ es, e.isPinOp = true) :
    cfgAt (log ++ es) = cfgAt log := by
  unfold cfgAt; rw [List.foldl_append]; exact foldl_applyCfg_pins es h _

theorem wf_applyPin {m : PinMap} (h : m.wf = true) (e : Entry) : (applyPin m e).wf = true := by
  cases e with
  | pin p => exact wf_put h _
  | unpin c => exact wf_erase h _
  | _ => exact h

theorem wf_foldl_applyPin (es : List Entry) {m : PinMap} (h : m.wf = true) : (es.foldl applyPin m).wf = true := by
  induction es generalizing m with
  | nil => exact h
  | cons x xs ih => exact ih (wf_applyPin h x)

theorem wf_pinsAt (log : List Entry) : (pinsAt log).wf = true :=
  wf_foldl_applyPin log (by simp [PinMap.wf, PinMap.keys, sortedKeys])


/-! ### what the model allows satisfies the property clauses -/

/-- the model state and the property's own bookkeeping describe the same cluster -/
structure Rel (s : SpecSt) (m : MState) : Prop where
  ids : cfgIds (cfgAt m.log) = s.members
  pins : pinsAt m.log = s.pinset
  running : m.running = s.running
  departed : m.departed = s.departed

theorem add_ids (log : List Entry) (j : Nat) :
    (rwAddPeer j (cfgAt log) true).1 = .ok ∧
    cfgIds (cfgAt (log ++ (rwAddPeer j (cfgAt log) true).2)) = insertPeer j (cfgIds (cfgAt log)) ∧
    (∀ e ∈ (rwAddPeer j (cfgAt log) true).2, e.isPinOp = false) := by
  cases h : cfgHas (cfgAt log) j with
  | true =>
    rw [rwAddPeer_present h]
    refine ⟨rfl, ?_, by simp⟩
    rw [List.append_nil, insertPeer_of_mem (sorted_cfgAt log) (cfgHas_iff.1 h)]
  | false =>
    rw [rwAddPeer_absent h]
    refine ⟨rfl, ?_, by simp [Entry.isPinOp]⟩
    rw [cfgAt_append]; simp only [applyCfg]; rw [cfgIds_cfgPut]

theorem rm_ids (log : List Entry) (p : Nat) :
    ((rwRemovePeer p (cfgAt log) true).1 = .ok →
      cfgIds (cfgAt (log ++ (rwRemovePeer p (cfgAt log) true).2)) = erasePeer p (cfgIds (cfgAt log))) ∧
    ((rwRemovePeer p (cfgAt log) true).1 = .err → (rwRemovePeer p (cfgAt log) true).2 = []) ∧
    (∀ e ∈ (rwRemovePeer p (cfgAt log) true).2, e.isPinOp = false) ∧
    (p ∉ cfgIds (cfgAt log) → (rwRemovePeer p (cfgAt log) true).1 = .ok) ∧
    (cfgIds (cfgAt log) = [p] → (rwRemovePeer p (cfgAt log) true).1 = .err) := by
  refine ⟨?_, errEmpty_rm p _ _, ?_, ?_, ?_⟩
  · intro hok
    cases h : cfgHas (cfgAt log) p with
    | false =>
      rw [rwRemovePeer_absent h, List.append_nil, erasePeer_of_not_mem (cfgHas_false_iff.1 h)]
    | true =>
      unfold rwRemovePeer at hok ⊢
      simp only [h, Bool.not_true, Bool.false_eq_true, if_false] at hok ⊢
      split_ifs at hok ⊢ with h1 h2
      · rw [cfgAt_append]; simp only [applyCfg]; rw [cfgIds_cfgErase]
  · intro e he
    unfold rwRemovePeer at he
    split_ifs at he <;> simp_all [Entry.isPinOp]
  · intro h
    rw [rwRemovePeer_absent (cfgHas_false_iff.2 h)]
  · intro h
    rw [rwRemovePeer_last h]

theorem issue_some {m m' : MState} {at_ : Nat} {att : Attempt} {res : Res} (hE : ErrEmpty att)
    (h : issue m at_ att res = some m') :
    (m'.tier = m.tier ∧ m'.repin = m.repin ∧ m'.running = m.running ∧ m'.departed = m.departed ∧ m'.wiped = m.wiped) ∧
    ((res = .err ∧ m'.log = m.log) ∨
      (res = .ok ∧ (att (cfgAt m.log) true).1 = .ok ∧ m'.log = m.log ++ (att (cfgAt m.log) true).2)) ∧
    (m.member at_ = true → (att (cfgAt m.log) true).1 = res) := by
  unfold issue direct at h
  simp only [MState.cfg] at h
  by_cases hm : m.member at_ = true
  · rw [if_pos hm] at h
    by_cases hr : ((att (cfgAt m.log) true).1 == res) = true
    · rw [if_pos hr] at h
      have hr' : (att (cfgAt m.log) true).1 = res := by simpa using hr
      injection h with h; subst h
      refine ⟨⟨rfl, rfl, rfl, rfl, rfl⟩, ?_, fun _ => hr'⟩
      cases res with
      | ok => exact Or.inr ⟨rfl, hr', rfl⟩
      | err => exact Or.inl ⟨rfl, by simp [hE _ _ hr']⟩
    · rw [if_neg hr] at h; cases h
  · rw [if_neg hm] at h
    by_cases hrun : m.running.contains at_ = true
    · rw [if_pos hrun] at h
      cases res with
      | err =>
        simp only at h
        injection h with h; subst h
        exact ⟨⟨rfl, rfl, rfl, rfl, rfl⟩, Or.inl ⟨rfl, rfl⟩, fun h' => absurd h' hm⟩
      | ok =>
        simp only at h
        by_cases hr : ((att (cfgAt m.log) true).1 == Res.ok) = true
        · rw [if_pos hr] at h
          have hr' : (att (cfgAt m.log) true).1 = .ok := by simpa using hr
          injection h with h; subst h
          exact ⟨⟨rfl, rfl, rfl, rfl, rfl⟩, Or.inr ⟨rfl, hr', rfl⟩, fun h' => absurd h' hm⟩
        · rw [if_neg hr] at h; cases h
    · rw [if_neg hrun] at h; cases h

theorem member_iff {m : MState} {i : Nat} : m.member i = true ↔ i ∈ m.running ∧ i ∈ cfgIds (cfgAt m.log) := by
  unfold MState.member MState.cfg cfgHas; simp

theorem remains_iff {s : SpecSt} {i : Nat} : remains s i = true ↔ i ∈ s.running ∧ i ∈ s.members := by
  unfold remains; simp

theorem rel_member {s : SpecSt} {m : MState} (R : Rel s m) (i : Nat) : m.member i = remains s i := by
  rw [Bool.eq_iff_iff, member_iff, remains_iff, R.running, R.ids]



/-! ### invariants of the log under the loops (any oracle) -/
def Preserves (att : Attempt) (I : List Entry → Prop) : Prop :=
  ∀ log f, I log → I (log ++ (att (cfgAt log) f).2)

theorem redirect_inv {self : Nat} {att : Attempt} {orc : Nat → Tick} {I : List Entry → Prop} (hP : Preserves att I) :
    ∀ n pos log, I log → I (redirect self att orc n pos log).2.2 := by
  intro n
  induction n with
  | zero => intro pos log h; simpa [redirect] using h
  | succ n ih =>
    intro pos log h
    unfold redirect
    cases hl : (orc pos).leader with
    | none => exact h
    | some l =>
      simp only
      have hlog : I (if ((orc pos).ok || (orc pos).lost) = true then log ++ (att (cfgAt log) true).2 else log) := by
        split_ifs
        · exact hP _ _ h
        · exact h
      by_cases hs : (l == self) = true
      · rw [if_pos hs]; exact h
      · rw [if_neg hs]
        by_cases hc : ((orc pos).ok && (att (cfgAt log) true).1 == Res.ok) = true
        · rw [if_pos hc]; exact hlog
        · rw [if_neg hc]; exact ih _ _ hlog

theorem consLoop_inv {self retries : Nat} {att : Attempt} {orc : Nat → Tick} {I : List Entry → Prop}
    (hP : Preserves att I) : ∀ n pos log, I log → I (consLoop self retries att orc n pos log).2 := by
  intro n
  induction n with
  | zero => intro pos log h; simpa [consLoop] using h
  | succ n ih =>
    intro pos log h
    unfold consLoop
    have hr := redirect_inv (self := self) (orc := orc) hP (retries + 1) pos log h
    rcases hx : redirect self att orc (retries + 1) pos log with ⟨k, pos', log'⟩
    rw [hx] at hr
    cases k with
    | noLeader => exact hr
    | done => exact hr
    | failed => exact hr
    | leading =>
      simp only
      split_ifs
      · exact hP _ _ hr
      · exact ih _ _ hr

theorem cfgHas_cfgPut {c : Config} {s : Nat × Bool} {q : Nat} : cfgHas (cfgPut s c) q = (q == s.1 || cfgHas c q) := by
  rw [Bool.eq_iff_iff]
  simp only [cfgHas_iff, cfgIds_cfgPut, mem_insertPeer, Bool.or_eq_true, beq_iff_eq]

theorem cfgHas_cfgErase {c : Config} {p q : Nat} : cfgHas (cfgErase p c) q = (cfgHas c q && q != p) := by
  rw [Bool.eq_iff_iff]
  simp only [cfgHas_iff, cfgIds_cfgErase, mem_erasePeer, Bool.and_eq_true, bne_iff_ne, ne_eq]

end CV.C17
