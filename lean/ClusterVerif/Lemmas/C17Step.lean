import ClusterVerif.Lemmas.C17

/-! Step lemmas for Props/C17: every step the model allows keeps the relation between the model state and the
property's bookkeeping, and meets the step's clauses. -/
namespace CV.C17
open CV

/-- what one allowed step gives: the relation is kept, the suite flags do not change, the step's clauses hold -/
def StepGoal (s : SpecSt) (m m' : MState) (op : Op) : Prop :=
  Rel (advance s op) m' ∧ m'.repin = m.repin ∧ m'.tier = m.tier ∧ (checkOp m.repin s op).all (·.2) = true

theorem step_start {e : Env} {s : SpecSt} {m m' : MState} {j : Nat} (R : Rel s m) (hs : step e m (.start j) = some m') :
    StepGoal s m m' (.start j) := by
  simp only [step] at hs
  split_ifs at hs
  injection hs with hs; subst hs
  refine ⟨⟨R.ids, R.pins, ?_, R.departed⟩, rfl, rfl, rfl⟩
  show insertPeer j m.running = insertPeer j s.running
  rw [R.running]

theorem step_stop {e : Env} {s : SpecSt} {m m' : MState} {j : Nat} (R : Rel s m) (hs : step e m (.stop j) = some m') :
    StepGoal s m m' (.stop j) := by
  simp only [step] at hs
  injection hs with hs; subst hs
  refine ⟨⟨R.ids, R.pins, ?_, R.departed⟩, rfl, rfl, rfl⟩
  show erasePeer j m.running = erasePeer j s.running
  rw [R.running]

theorem cleanOutcomes_gone {keep prev nb : Nat} {slash gone : Bool}
    (h : (cleanOutcomes keep slash prev).contains (gone, nb) = true) : gone = true := by
  simp only [cleanOutcomes, cleanupRaft, makeBackup, List.map_cons, List.map_nil, List.contains_cons,
    List.contains_nil, Bool.or_false, Bool.or_eq_true, beq_iff_eq] at h
  rcases h with h | h <;> simpa using congrArg Prod.fst h

theorem step_clean {e : Env} {s : SpecSt} {m m' : MState} {j nb : Nat} {g : Bool} (R : Rel s m)
    (hs : step e m (.clean j g nb) = some m') : StepGoal s m m' (.clean j g nb) := by
  simp only [step] at hs
  split_ifs at hs with hg
  injection hs with hs; subst hs
  have hg' := cleanOutcomes_gone hg
  refine ⟨⟨R.ids, R.pins, ?_, R.departed⟩, rfl, rfl, ?_⟩
  · show erasePeer j m.running = erasePeer j s.running
    rw [R.running]
  · simp [checkOp, hg']

theorem step_ready {e : Env} {s : SpecSt} {m m' : MState} {j : Nat} {l v sy : Bool} {pins : PinMap} (R : Rel s m)
    (hs : step e m (.ready j l v sy pins) = some m') : StepGoal s m m' (.ready j l v sy pins) := by
  simp only [step] at hs
  split_ifs at hs with hc
  injection hs with hs; subst hs
  refine ⟨⟨R.ids, R.pins, R.running, R.departed⟩, rfl, rfl, ?_⟩
  simp only [Bool.and_eq_true] at hc
  have hp := hc.2
  simp only [MState.pins, R.pins] at hp
  simp [checkOp, hp]

theorem step_sync {e : Env} {s : SpecSt} {m m' : MState} {j : Nat} {r : SyncRes} (R : Rel s m)
    (hs : step e m (.sync j r) = some m') : StepGoal s m m' (.sync j r) := by
  simp only [step] at hs
  split_ifs at hs
  all_goals
    injection hs with hs; subst hs
    exact ⟨⟨R.ids, R.pins, R.running, R.departed⟩, rfl, rfl, rfl⟩

theorem step_restart {e : Env} {s : SpecSt} {m m' : MState} {j : Nat} (R : Rel s m) (hs : step e m (.restart j) = some m') :
    StepGoal s m m' (.restart j) := by
  simp only [step] at hs
  split_ifs at hs with hw
  injection hs with hs; subst hs
  refine ⟨⟨R.ids, R.pins, ?_, ?_⟩, rfl, rfl, rfl⟩
  · show insertPeer j m.running = insertPeer j s.running
    rw [R.running]
  · show erasePeer j m.departed = erasePeer j s.departed
    rw [R.departed]

theorem rel_of_log {s : SpecSt} {m m' : MState} (R : Rel s m)
    (hrun : m'.running = m.running) (hdep : m'.departed = m.departed)
    {members' : List Nat} {pinset' : PinMap}
    (hids : cfgIds (cfgAt m'.log) = members') (hpins : pinsAt m'.log = pinset') :
    Rel { s with members := members', pinset := pinset' } m' :=
  ⟨hids, hpins, by rw [hrun]; exact R.running, by rw [hdep]; exact R.departed⟩

theorem rel_same_log {s : SpecSt} {m m' : MState} (R : Rel s m) (hlog : m'.log = m.log)
    (hrun : m'.running = m.running) (hdep : m'.departed = m.departed) : Rel s m' :=
  ⟨by rw [hlog]; exact R.ids, by rw [hlog]; exact R.pins, by rw [hrun]; exact R.running,
   by rw [hdep]; exact R.departed⟩

theorem step_add {e : Env} {s : SpecSt} {m m' : MState} {a j : Nat} {res : Res} (R : Rel s m)
    (hs : step e m (.add a j res) = some m') : StepGoal s m m' (.add a j res) := by
  simp only [step] at hs
  obtain ⟨⟨ht, hrp, hrun, hdep, _⟩, hcase, hmem⟩ := issue_some (errEmpty_add j) hs
  obtain ⟨hok, hids, hpo⟩ := add_ids m.log j
  refine ⟨?_, hrp, ht, ?_⟩
  · rcases hcase with ⟨rfl, hlog⟩ | ⟨rfl, _, hlog⟩
    · have : advance s (.add a j .err) = s := by simp [advance, okB]
      rw [this]
      exact rel_same_log R hlog hrun hdep
    · have : advance s (.add a j .ok) = { s with members := insertPeer j s.members, pinset := s.pinset } := by
        simp [advance, okB]
      rw [this]
      refine rel_of_log R hrun hdep ?_ ?_
      · rw [hlog, hids, R.ids]
      · rw [hlog, pinsAt_append_cfg _ _ hpo, R.pins]
  · simp only [checkOp, List.all_cons, List.all_nil, Bool.and_true]
    cases hrem : remains s a with
    | false => simp
    | true =>
      have := hmem (by rw [rel_member R]; exact hrem)
      rw [hok] at this
      simp [← this, okB]

theorem step_rm {e : Env} {s : SpecSt} {m m' : MState} {a j : Nat} {res : Res} (R : Rel s m)
    (hs : step e m (.rm a j res) = some m') : StepGoal s m m' (.rm a j res) := by
  simp only [step] at hs
  obtain ⟨⟨ht, hrp, hrun, hdep, _⟩, hcase, hmem⟩ := issue_some (errEmpty_rm j) hs
  obtain ⟨hids, _, hpo, habs, hlast⟩ := rm_ids m.log j
  refine ⟨?_, hrp, ht, ?_⟩
  · rcases hcase with ⟨rfl, hlog⟩ | ⟨rfl, hok, hlog⟩
    · have : advance s (.rm a j .err) = s := by simp [advance, okB]
      rw [this]
      exact rel_same_log R hlog hrun hdep
    · have : advance s (.rm a j .ok) = { s with members := erasePeer j s.members, pinset := s.pinset } := by
        simp [advance, okB]
      rw [this]
      refine rel_of_log R hrun hdep ?_ ?_
      · rw [hlog, hids hok, R.ids]
      · rw [hlog, pinsAt_append_cfg _ _ hpo, R.pins]
  · simp only [checkOp, List.all_cons, List.all_nil, Bool.and_true, Bool.and_eq_true]
    constructor
    · cases hrem : remains s a with
      | false => simp
      | true =>
        have hm := hmem (by rw [rel_member R]; exact hrem)
        cases hc : s.members.contains j with
        | true => simp
        | false =>
          have hj : j ∉ cfgIds (cfgAt m.log) := by rw [R.ids]; simpa using hc
          rw [habs hj] at hm
          simp [← hm, okB]
    · cases hc : (s.members == [j]) with
      | false => simp
      | true =>
        have hj : cfgIds (cfgAt m.log) = [j] := by rw [R.ids]; simpa using hc
        have herr := hlast hj
        rcases hcase with ⟨rfl, _⟩ | ⟨rfl, hok, _⟩
        · simp [okB]
        · rw [herr] at hok; cases hok

theorem commit_true (e : Entry) (c : Config) : rwCommit e c true = (.ok, [e]) := by simp [rwCommit]

theorem step_pin {e : Env} {s : SpecSt} {m m' : MState} {a : Nat} {p : Pin} {res : Res} (R : Rel s m)
    (hs : step e m (.pin a p res) = some m') : StepGoal s m m' (.pin a p res) := by
  simp only [step] at hs
  split_ifs at hs with h1 h2
  · injection hs with hs; subst hs
    have hres : res = .err := by simpa using (Bool.and_eq_true_iff.1 h1).2
    subst hres
    have : advance s (.pin a p .err) = s := by simp [advance, okB]
    rw [StepGoal, this]
    exact ⟨R, rfl, rfl, rfl⟩
  · obtain ⟨⟨ht, hrp, hrun, hdep, _⟩, hcase, _⟩ := issue_some (errEmpty_commit (.pin p)) hs
    refine ⟨?_, hrp, ht, rfl⟩
    rcases hcase with ⟨rfl, hlog⟩ | ⟨rfl, _, hlog⟩
    · have : advance s (.pin a p .err) = s := by simp [advance, okB]
      rw [this]
      exact rel_same_log R hlog hrun hdep
    · have : advance s (.pin a p .ok) = { s with members := s.members, pinset := PinMap.put p.stored s.pinset } := by
        simp [advance, okB]
      rw [this, commit_true] at *
      refine rel_of_log R hrun hdep ?_ ?_
      · rw [hlog, cfgAt_append]; simp only [applyCfg]; exact R.ids
      · rw [hlog, pinsAt_append]; simp only [applyPin]; rw [R.pins]

theorem step_unpin {e : Env} {s : SpecSt} {m m' : MState} {a c : Nat} {res : Res} (R : Rel s m)
    (hs : step e m (.unpin a c res) = some m') : StepGoal s m m' (.unpin a c res) := by
  simp only [step] at hs
  split_ifs at hs with h1 h2
  · injection hs with hs; subst hs
    have hres : res = .err := by simpa using (Bool.and_eq_true_iff.1 h2).1
    subst hres
    have : advance s (.unpin a c .err) = s := by simp [advance, okB]
    rw [StepGoal, this]
    exact ⟨R, rfl, rfl, rfl⟩
  · obtain ⟨⟨ht, hrp, hrun, hdep, _⟩, hcase, _⟩ := issue_some (errEmpty_commit (.unpin c)) hs
    refine ⟨?_, hrp, ht, rfl⟩
    rcases hcase with ⟨rfl, hlog⟩ | ⟨rfl, _, hlog⟩
    · have : advance s (.unpin a c .err) = s := by simp [advance, okB]
      rw [this]
      exact rel_same_log R hlog hrun hdep
    · have : advance s (.unpin a c .ok) = { s with members := s.members, pinset := s.pinset.erase c } := by
        simp [advance, okB]
      rw [this, commit_true] at *
      refine rel_of_log R hrun hdep ?_ ?_
      · rw [hlog, cfgAt_append]; simp only [applyCfg]; exact R.ids
      · rw [hlog, pinsAt_append]; simp only [applyPin]; rw [R.pins]

theorem step_nonvoter {e : Env} {s : SpecSt} {m m' : MState} {a j : Nat} {res : Res} (R : Rel s m)
    (hs : step e m (.nonvoter a j res) = some m') : StepGoal s m m' (.nonvoter a j res) := by
  simp only [step] at hs
  split_ifs at hs with hc
  injection hs with hs; subst hs
  simp only [Bool.and_eq_true, beq_iff_eq] at hc
  obtain ⟨_, rfl⟩ := hc
  have : advance s (.nonvoter a j .ok) = { s with members := insertPeer j s.members, pinset := s.pinset } := by
    simp [advance, okB]
  rw [StepGoal, this]
  refine ⟨?_, rfl, rfl, rfl⟩
  refine rel_of_log (m' := { m with log := m.log ++ [.addNonvoter j] }) R rfl rfl ?_ ?_
  · show cfgIds (cfgAt (m.log ++ [.addNonvoter j])) = _
    rw [cfgAt_append]; simp only [applyCfg]
    split_ifs with hv
    · have : j ∈ cfgIds (cfgAt m.log) := List.mem_map.2 ⟨(j, true), cfgVoter_iff.1 hv, rfl⟩
      rw [← R.ids, insertPeer_of_mem (sorted_cfgAt _) this]
    · rw [cfgIds_cfgPut, R.ids]
  · show pinsAt (m.log ++ [.addNonvoter j]) = _
    rw [pinsAt_append]; simp only [applyPin]; exact R.pins


theorem direct_eq (att : Attempt) (log : List Entry) :
    direct att log = ((att (cfgAt log) true).1, log ++ (att (cfgAt log) true).2) := rfl

theorem step_join {e : Env} {s : SpecSt} {m m' : MState} {j via : Nat} {res : Res} {pins : PinMap} (R : Rel s m)
    (hs : step e m (.join j via res pins) = some m') : StepGoal s m m' (.join j via res pins) := by
  simp only [step] at hs
  split_ifs at hs with hc hp
  injection hs with hs; subst hs
  simp only [Bool.and_eq_true, Bool.not_eq_true', beq_iff_eq] at hc
  obtain ⟨⟨⟨_, _⟩, hnot⟩, rfl⟩ := hc
  have hadv : advance s (.join j via .ok pins) =
      { s with members := insertPeer j s.members, running := insertPeer j s.running,
               departed := erasePeer j s.departed } := by simp [advance, okB]
  have hpins : pinsAt (m.log ++ [.addVoter j]) = s.pinset := by
    rw [pinsAt_append]; simp only [applyPin]; exact R.pins
  rw [StepGoal, hadv]
  refine ⟨⟨?_, hpins, ?_, ?_⟩, rfl, rfl, ?_⟩
  · show cfgIds (cfgAt (m.log ++ [.addVoter j])) = _
    rw [cfgAt_append]; simp only [applyCfg]; rw [cfgIds_cfgPut, R.ids]
  · show insertPeer j m.running = insertPeer j s.running
    rw [R.running]
  · show erasePeer j m.departed = erasePeer j s.departed
    rw [R.departed]
  · rw [hpins] at hp
    simp [checkOp, hp]

theorem step_leave {e : Env} {s : SpecSt} {m m' : MState} {j : Nat} {res : Res} (R : Rel s m)
    (hs : step e m (.leave j res) = some m') : StepGoal s m m' (.leave j res) := by
  simp only [step] at hs
  split_ifs at hs with hm hr hres
  all_goals (injection hs with hs; subst hs)
  all_goals rw [direct_eq] at hr
  all_goals obtain ⟨hids, herrE, hpo, _, hlast⟩ := rm_ids m.log j
  · -- left: RmPeer(self) succeeded
    have hres' : res = .ok := by simpa using hres
    subst hres'
    have hok : (rwRemovePeer j (cfgAt m.log) true).1 = .ok := by simpa using hr
    have hadv : advance s (.leave j .ok) =
        { s with members := erasePeer j s.members, running := erasePeer j s.running,
                 departed := insertPeer j s.departed } := by simp [advance, okB]
    rw [StepGoal, hadv]
    refine ⟨⟨?_, ?_, ?_, ?_⟩, rfl, rfl, ?_⟩
    · show cfgIds (cfgAt (direct (rwRemovePeer j) m.log).2) = _
      rw [direct_eq]; simp only; rw [hids hok, R.ids]
    · show pinsAt (direct (rwRemovePeer j) m.log).2 = _
      rw [direct_eq]; simp only; rw [pinsAt_append_cfg _ _ hpo, R.pins]
    · show erasePeer j m.running = erasePeer j s.running
      rw [R.running]
    · show insertPeer j m.departed = insertPeer j s.departed
      rw [R.departed]
    · simp only [checkOp, List.all_cons, List.all_nil, Bool.and_true]
      cases hc : (s.members == [j]) with
      | false => simp
      | true =>
        have hj : cfgIds (cfgAt m.log) = [j] := by rw [R.ids]; simpa using hc
        rw [hlast hj] at hok; cases hok
  · -- could not leave: the peer stops, nothing else changes
    have hres' : res = .err := res_ne_ok hres
    subst hres'
    have herr : (rwRemovePeer j (cfgAt m.log) true).1 = .err := by simpa using hr
    have hadv : advance s (.leave j .err) = { s with running := erasePeer j s.running } := by simp [advance, okB]
    rw [StepGoal, hadv]
    refine ⟨⟨?_, ?_, ?_, R.departed⟩, rfl, rfl, ?_⟩
    · show cfgIds (cfgAt (direct (rwRemovePeer j) m.log).2) = _
      rw [direct_eq]; simp only; rw [herrE herr, List.append_nil]; exact R.ids
    · show pinsAt (direct (rwRemovePeer j) m.log).2 = _
      rw [direct_eq]; simp only; rw [herrE herr, List.append_nil]; exact R.pins
    · show erasePeer j m.running = erasePeer j s.running
      rw [R.running]
    · simp [checkOp, okB]

/-! ### PeerRemove -/
theorem foldl_callEntries (calls : List Call) (acc : PinMap) :
    (callEntries calls).foldl applyPin acc = repinFold calls acc := by
  induction calls generalizing acc with
  | nil => rfl
  | cons c cs ih =>
    cases c with
    | logPin q => simp only [callEntries, List.foldl_cons, applyPin, repinFold]; exact ih _
    | rmPeer q => simp only [callEntries, repinFold, List.foldl_cons]; exact ih _

theorem pinsAt_callEntries (log : List Entry) (calls : List Call) :
    pinsAt (log ++ callEntries calls) = repinFold calls (pinsAt log) := by
  unfold pinsAt; rw [List.foldl_append]; exact foldl_callEntries calls _

theorem callEntries_pinOps (calls : List Call) : ∀ e ∈ callEntries calls, e.isPinOp = true := by
  induction calls with
  | nil => intro e he; cases he
  | cons c cs ih =>
    cases c with
    | logPin q =>
      intro e he
      simp only [callEntries, List.mem_cons] at he
      rcases he with rfl | he
      · rfl
      · exact ih e he
    | rmPeer q => simpa [callEntries] using ih

theorem shape_find {c : Config} {pins : PinMap} {p cid : Nat} :
    ∀ calls, vacateShape c pins p calls = true → cid ∈ callCids calls →
      ∃ q, Call.logPin q ∈ calls.takeWhile (fun x => x != Call.rmPeer p) ∧ q.cid = cid ∧
        ∃ old, pins.get q.cid = some old ∧ old.allocs.contains p = true ∧
          (q.allocs.contains p == keepsAllocs c p old) = true := by
  intro calls
  induction calls with
  | nil => intro h; simp [vacateShape] at h
  | cons x rest ih =>
    cases x with
    | rmPeer q' =>
      intro h hc
      cases rest with
      | nil => simp [callCids] at hc
      | cons y ys => simp [vacateShape] at h
    | logPin q =>
      intro h hc
      simp only [vacateShape, Bool.and_eq_true] at h
      have hne : (Call.logPin q != Call.rmPeer p) = true := by simp
      simp only [callCids, List.mem_cons] at hc
      rcases hc with rfl | hc
      · refine ⟨q, ?_, rfl, ?_⟩
        · rw [List.takeWhile_cons, if_pos hne]; exact List.mem_cons_self ..
        · cases hg : pins.get q.cid with
          | none => rw [hg] at h; simp at h
          | some old =>
            rw [hg] at h
            simp only [Bool.and_eq_true] at h
            exact ⟨old, rfl, h.1.1, h.1.2⟩
      · obtain ⟨q2, hq2, hcid, hold⟩ := ih h.2 hc
        refine ⟨q2, ?_, hcid, hold⟩
        rw [List.takeWhile_cons, if_pos hne]; exact List.mem_cons_of_mem _ hq2

theorem rehomed_clause {c : Config} {pins : PinMap} {p : Nat} {calls : List Call} (hwf : pins.wf = true)
    (hv : vacateOk true c pins p calls = true) :
    pins.all (fun pin => !(needsRehome (cfgIds c) p pin && canRehome (cfgIds c) p pin) ||
      rehomedBefore calls p pin.cid) = true := by
  rw [List.all_eq_true]
  intro pin hpin
  cases hn : (needsRehome (cfgIds c) p pin && canRehome (cfgIds c) p pin) with
  | false => simp
  | true =>
    simp only [Bool.not_true, Bool.false_or]
    obtain ⟨hneed, hcan⟩ := Bool.and_eq_true_iff.1 hn
    unfold needsRehome at hneed
    obtain ⟨hal, hlt⟩ := Bool.and_eq_true_iff.1 hneed
    have hlt' : ((holdersLeft c p pin : Nat) : Int) < pin.opts.rmin := by
      have := of_decide_eq_true hlt
      exact this
    unfold vacateOk at hv
    obtain ⟨⟨hshape, hall1⟩, _⟩ := by simpa only [Bool.and_eq_true] using hv
    have hsucc : repinSucceeds c p pin = true := by
      unfold repinSucceeds
      unfold canRehome at hcan
      rw [hcan]; simp
    have hmem : pin.cid ∈ repinCids true c pins p := by
      unfold repinCids
      rw [if_pos rfl]
      exact List.mem_map.2 ⟨pin, List.mem_filter.2 ⟨hpin, by rw [hal, hsucc]; rfl⟩, rfl⟩
    have hcid : pin.cid ∈ callCids calls := by
      have := (List.all_eq_true.1 hall1) _ hmem
      simpa using this
    obtain ⟨q, hq, hqc, old, hget, _, hkeep⟩ := shape_find calls hshape hcid
    have hold : old = pin := by
      rw [hqc, get_of_mem_wf hwf hpin] at hget
      injection hget with h; exact h.symm
    subst hold
    have hk : keepsAllocs c p old = false := by
      unfold keepsAllocs
      have : ¬ (old.opts.rmin ≤ ((holdersLeft c p old : Nat) : Int)) := by omega
      simp [this]
    rw [hk] at hkeep
    have hqa : q.allocs.contains p = false := by simpa using hkeep
    unfold rehomedBefore
    rw [List.any_eq_true]
    refine ⟨.logPin q, hq, ?_⟩
    simp only [hqc, hqa, beq_self_eq_true, Bool.not_false, Bool.and_self]


theorem advance_peerRm_ok (s : SpecSt) (a p : Nat) (calls : List Call) :
    advance s (.peerRm a p .ok calls) =
      { s with pinset := repinFold calls s.pinset, members := erasePeer p s.members,
               running := if s.running.contains p then erasePeer p s.running else s.running,
               departed := if s.running.contains p then insertPeer p s.departed else s.departed } := by
  simp [advance, okB]

theorem advance_peerRm_err (s : SpecSt) (a p : Nat) (calls : List Call) :
    advance s (.peerRm a p .err calls) = { s with pinset := repinFold calls s.pinset } := by
  simp [advance, okB]

theorem step_peerRm {e : Env} {s : SpecSt} {m m' : MState} {a p : Nat} {res : Res} {calls : List Call} (R : Rel s m)
    (hs : step e m (.peerRm a p res calls) = some m') : StepGoal s m m' (.peerRm a p res calls) := by
  simp only [step] at hs
  by_cases hc : (m.member a && vacateOk m.repin m.cfg m.pins p calls) = true
  swap
  · rw [if_neg hc] at hs; cases hs
  rw [if_pos hc] at hs
  obtain ⟨hma, hvac⟩ := Bool.and_eq_true_iff.1 hc
  rw [direct_eq] at hs
  simp only at hs
  have hcfg1 : cfgAt (m.log ++ callEntries calls) = cfgAt m.log :=
    cfgAt_append_pins _ _ (callEntries_pinOps calls)
  have hpins1 : pinsAt (m.log ++ callEntries calls) = repinFold calls s.pinset := by
    rw [pinsAt_callEntries, R.pins]
  obtain ⟨hids, herrE, hpo, habs, hlast⟩ := rm_ids (m.log ++ callEntries calls) p
  rw [hcfg1] at hids herrE hpo habs hlast hs
  by_cases hr : ((rwRemovePeer p (cfgAt m.log) true).1 == res) = true
  swap
  · rw [if_neg hr] at hs; cases hs
  rw [if_pos hr] at hs
  have hr' : (rwRemovePeer p (cfgAt m.log) true).1 = res := by simpa using hr
  -- the clauses
  have hclauses : (checkOp m.repin s (.peerRm a p res calls)).all (·.2) = true := by
    have h1 : (!(remains s a && !s.members.contains p) || okB res) = true := by
      cases hcj : s.members.contains p with
      | true => simp
      | false =>
        have hj : p ∉ cfgIds (cfgAt m.log) := by rw [R.ids]; simpa using hcj
        rw [habs hj] at hr'
        simp [← hr', okB]
    have h2 : (!(s.members == [p]) || !okB res) = true := by
      cases hcl : (s.members == [p]) with
      | false => simp
      | true =>
        have hj : cfgIds (cfgAt m.log) = [p] := by rw [R.ids]; simpa using hcl
        rw [hlast hj] at hr'
        simp [← hr', okB]
    have h3 : (!(m.repin && okB res) ||
        s.pinset.all (fun pin => !(needsRehome s.members p pin && canRehome s.members p pin) ||
          rehomedBefore calls p pin.cid)) = true := by
      cases hrp : m.repin with
      | false => simp
      | true =>
        cases hres : okB res with
        | false => simp
        | true =>
          simp only [Bool.and_self, Bool.not_true, Bool.false_or]
          rw [hrp] at hvac
          have := rehomed_clause (c := m.cfg) (pins := m.pins) (p := p) (calls := calls) (wf_pinsAt m.log) hvac
          simp only [MState.cfg, MState.pins, R.ids, R.pins] at this
          exact this
    simp only [checkOp, List.all_cons, List.all_nil, h1, h2, h3, Bool.and_true]
  refine ⟨?_, ?_, ?_, hclauses⟩
  · -- the relation
    cases res with
    | err =>
      have hE := herrE hr'
      rw [advance_peerRm_err]
      rw [if_neg (by simp)] at hs
      injection hs with hs; subst hs
      refine ⟨?_, ?_, R.running, R.departed⟩
      · show cfgIds (cfgAt (m.log ++ callEntries calls ++ (rwRemovePeer p (cfgAt m.log) true).2)) = s.members
        rw [hE, List.append_nil, hcfg1]; exact R.ids
      · show pinsAt (m.log ++ callEntries calls ++ (rwRemovePeer p (cfgAt m.log) true).2) = _
        rw [hE, List.append_nil]; exact hpins1
    | ok =>
      rw [advance_peerRm_ok]
      have hI : cfgIds (cfgAt (m.log ++ callEntries calls ++ (rwRemovePeer p (cfgAt m.log) true).2)) =
          erasePeer p s.members := by rw [hids hr', R.ids]
      have hP : pinsAt (m.log ++ callEntries calls ++ (rwRemovePeer p (cfgAt m.log) true).2) =
          repinFold calls s.pinset := by rw [pinsAt_append_cfg _ _ hpo]; exact hpins1
      by_cases hrun : m.running.contains p = true
      · simp only [beq_self_eq_true, Bool.true_and, hrun, if_true] at hs
        injection hs with hs; subst hs
        have hrun' : s.running.contains p = true := by rw [← R.running]; exact hrun
        rw [if_pos hrun', if_pos hrun']
        refine ⟨hI, hP, ?_, ?_⟩
        · show erasePeer p m.running = _
          rw [R.running]
        · show insertPeer p m.departed = _
          rw [R.departed]
      · simp only [beq_self_eq_true, Bool.true_and, hrun, Bool.false_eq_true, if_false] at hs
        injection hs with hs; subst hs
        have hrun' : ¬ s.running.contains p = true := by rw [← R.running]; exact hrun
        rw [if_neg hrun', if_neg hrun']
        exact ⟨hI, hP, R.running, R.departed⟩
  · split_ifs at hs <;> (injection hs with hs; subst hs; rfl)
  · split_ifs at hs <;> (injection hs with hs; subst hs; rfl)

/-- every step the model allows keeps the relation and meets the step's clauses -/
theorem step_rel {e : Env} {s : SpecSt} {m m' : MState} {op : Op} (R : Rel s m)
    (hs : step e m op = some m') : StepGoal s m m' op := by
  cases op with
  | start j => exact step_start R hs
  | add a j r => exact step_add R hs
  | rm a j r => exact step_rm R hs
  | pin a p r => exact step_pin R hs
  | unpin a c r => exact step_unpin R hs
  | ready j l v sy pins => exact step_ready R hs
  | nonvoter a j r => exact step_nonvoter R hs
  | sync j r => exact step_sync R hs
  | stop j => exact step_stop R hs
  | restart j => exact step_restart R hs
  | clean j g nb => exact step_clean R hs
  | join j via r pins => exact step_join R hs
  | peerRm a p r calls => exact step_peerRm R hs
  | leave j r => exact step_leave R hs

theorem replay_rel {e : Env} {ops : List Op} :
    ∀ {s : SpecSt} {m m' : MState}, Rel s m → replay e m ops = some m' →
    Rel (finalSt s ops) m' ∧ m'.repin = m.repin ∧ (checkOps m.repin s ops).all (·.2) = true := by
  induction ops with
  | nil =>
    intro s m m' R h
    simp only [replay] at h
    injection h with h; subst h
    exact ⟨R, rfl, rfl⟩
  | cons op rest ih =>
    intro s m m' R h
    simp only [replay] at h
    cases hst : step e m op with
    | none => rw [hst] at h; cases h
    | some m1 =>
      rw [hst] at h
      obtain ⟨R1, hrp, _, hc⟩ := step_rel R hst
      obtain ⟨R2, hrp2, hc2⟩ := ih R1 h
      refine ⟨R2, hrp2.trans hrp, ?_⟩
      simp only [checkOps, List.all_append, Bool.and_eq_true]
      rw [hrp] at hc2
      exact ⟨hc, hc2⟩

theorem rel_init (tier : Tier) (repin : Bool) (init : List Nat) : Rel (specInit init) (initState tier repin init) := by
  refine ⟨?_, rfl, rfl, rfl⟩
  show cfgIds (cfgAt [.boot init]) = normPeers init
  simp only [cfgAt, List.foldl_cons, List.foldl_nil, applyCfg]
  exact cfgIds_initCfg init

theorem obs_clauses {e : Env} {s : SpecSt} {m : MState} (R : Rel s m) {o : Obs}
    (h : obsOk e m o = true) :
    (checkObs s o).all (·.2) = true := by
  unfold obsOk at h
  simp only [Bool.and_eq_true] at h
  obtain ⟨⟨hmem, _⟩, hgone⟩ := h
  rw [List.all_eq_true] at hmem hgone
  have hrem : ∀ x ∈ o.members.filter (fun x => s.running.contains x.id && s.members.contains x.id),
      x.peers = s.members ∧ canonMap x.pins = canonMap s.pinset := by
    intro x hx
    obtain ⟨hx1, hx2⟩ := List.mem_filter.1 hx
    have hm : m.member x.id = true := by rw [rel_member R]; exact hx2
    have := hmem x hx1
    simp only [hm, Bool.not_true, Bool.false_or, Bool.and_eq_true, beq_iff_eq] at this
    refine ⟨?_, ?_⟩
    · rw [this.1.1]; exact R.ids
    · rw [this.1.2]; simp only [MState.pins]; rw [R.pins]
  have h1 : ((o.members.filter (fun x => s.running.contains x.id && s.members.contains x.id)).all
      (fun x => x.peers == s.members)) = true := by
    rw [List.all_eq_true]; intro x hx; simpa using (hrem x hx).1
  have h2 : ((o.members.filter (fun x => s.running.contains x.id && s.members.contains x.id)).all
      (fun x => canonMap x.pins == canonMap s.pinset)) = true := by
    rw [List.all_eq_true]; intro x hx; simpa using (hrem x hx).2
  have h3 : (s.departed.all (fun j => o.gone.any (fun g => g.1 == j && g.2.1))) = true := by
    rw [List.all_eq_true]; intro j hj
    have := hgone j (by rw [R.departed]; exact hj)
    rw [List.any_eq_true] at this ⊢
    obtain ⟨g, hg, hh⟩ := this
    simp only [Bool.and_eq_true] at hh
    exact ⟨g, hg, by simp [hh.1.1, hh.1.2]⟩
  have h4 : (s.departed.all (fun j => o.gone.any (fun g => g.1 == j && g.2.2))) = true := by
    rw [List.all_eq_true]; intro j hj
    have := hgone j (by rw [R.departed]; exact hj)
    rw [List.any_eq_true] at this ⊢
    obtain ⟨g, hg, hh⟩ := this
    simp only [Bool.and_eq_true] at hh
    exact ⟨g, hg, by simp [hh.1.1, hh.2]⟩
  simp only [checkObs, List.all_cons, List.all_nil, h1, h2, h3, h4, Bool.and_true]

end CV.C17
