import ClusterVerif.Model.C05R
import ClusterVerif.Model.C05T
import ClusterVerif.Gen.C05T

/-! Round 8b: the regenerated decision tables of the operation tracker (`Gen/C05T.lean`, go/ast), interpreted by `Model/C05T.lean`,
    ARE the model's functions. Core Lean only (no Mathlib needed). -/
namespace CV.C05.T
open CV.C05

/-! ### TrackNewOperation -/

theorem trackNewT_eq (s : State) (p : PinSpec) (typ : OpType) (ph : Phase) :
    trackNewT Gen.Sem.trackNew s p typ ph = some (trackNew s p typ ph) := by
  unfold trackNewT trackNew
  cases h : s.cur p.cid with
  | none =>
    simp [firstRow, holdsLits, envTN, Gen.Sem.trackNew, execTN, newOp]
  | some i =>
    by_cases ht : (s.ops i).typ = typ
    · cases hp : (s.ops i).phase <;>
        simp [ht, hp, h, firstRow, holdsLits, envTN, Gen.Sem.trackNew, execTN, newOp, cancelOp]
    · cases hp : (s.ops i).phase <;>
        simp [ht, hp, h, firstRow, holdsLits, envTN, Gen.Sem.trackNew, execTN, newOp, cancelOp]

/-! ### Clean -/

theorem cleanT_eq (s : State) (i : Nat) : cleanT Gen.Sem.clean s i = some (cleanM s i) := by
  unfold cleanT cleanM
  cases h : s.cur (s.ops i).cid with
  | none => simp [h, firstRow, holdsLits, envClean, Gen.Sem.clean, execClean]
  | some j =>
    by_cases hj : j = i
    · subst hj; simp [h, firstRow, holdsLits, envClean, Gen.Sem.clean, execClean]
    · simp [h, hj, firstRow, holdsLits, envClean, Gen.Sem.clean, execClean]

/-! ### applyPinF -/

theorem apply_skip (e c1 : Bool) :
    callsIn (applyT Gen.Sem.applyPinF true e c1) = 0 ∧ retOf (applyT Gen.Sem.applyPinF true e c1) = some true ∧
    ∀ o, runOp (applyT Gen.Sem.applyPinF true e c1) o = o := by
  cases e <;> cases c1 <;> exact ⟨rfl, rfl, fun _ => rfl⟩

theorem apply_start (e c1 : Bool) :
    callsIn (applyT Gen.Sem.applyPinF false e c1) = 1 ∧
    ∀ o, runOp (beforeCall (applyT Gen.Sem.applyPinF false e c1)) o = { o with phase := .inProgress } := by
  cases e <;> cases c1 <;> exact ⟨rfl, fun _ => rfl⟩

theorem apply_ok (c1 : Bool) :
    retOf (applyT Gen.Sem.applyPinF false true c1) = some false ∧
    ∀ o, runOp (afterCall (applyT Gen.Sem.applyPinF false true c1)) o = { o with phase := .done, cancelled := true } := by
  cases c1 <;> exact ⟨rfl, fun _ => rfl⟩

theorem apply_err :
    retOf (applyT Gen.Sem.applyPinF false false false) = some true ∧
    ∀ o, runOp (afterCall (applyT Gen.Sem.applyPinF false false false)) o = { o with phase := .error, cancelled := true } :=
  ⟨rfl, fun _ => rfl⟩

theorem apply_reap :
    retOf (applyT Gen.Sem.applyPinF false false true) = some true ∧
    ∀ o, runOp (afterCall (applyT Gen.Sem.applyPinF false false true)) o = o :=
  ⟨rfl, fun _ => rfl⟩

/-! ### the model's worker steps are those paths -/

theorem upd_same {α : Type} (f : Nat → α) (k : Nat) (v : α) : upd f k v k = v := by simp [upd]

theorem startCall_is_table (s : State) (i : Nat) (k : CallKind) (e c1 : Bool) :
    (startCall s i k).ops i =
      (if (s.ops i).cancelled then runOp (applyT Gen.Sem.applyPinF true e c1) (s.ops i)
       else runOp (beforeCall (applyT Gen.Sem.applyPinF false e c1)) (s.ops i)) ∧
    (startCall s i k).calls.length = s.calls.length +
      callsIn (applyT Gen.Sem.applyPinF (s.ops i).cancelled e c1) := by
  unfold startCall
  cases hc : (s.ops i).cancelled
  · simp [(apply_start e c1).2, (apply_start e c1).1, upd_same]
  · simp [(apply_skip e c1).2.2, (apply_skip e c1).1]

theorem retOk_is_table (s : State) (i : Nat) (k : Call) (c1 : Bool)
    (hf : findCall s i = some k) (hc : (s.ops i).cancelled = false) (he : k.eff = true) :
    (retOk s i).ops i = runOp (afterCall (applyT Gen.Sem.applyPinF false true c1)) (s.ops i) ∧
    (retOk s i).cur = (cleanM s i).cur := by
  unfold retOk cleanM
  simp [hf, hc, he, (apply_ok c1).2, upd_same]

theorem retErr_is_table (s : State) (i : Nat) (k : Call)
    (hf : findCall s i = some k) (hc : (s.ops i).cancelled = false) :
    (retErr s i).ops i = runOp (afterCall (applyT Gen.Sem.applyPinF false false false)) (s.ops i) ∧
    (retErr s i).cur = s.cur := by
  unfold retErr
  simp [hf, hc, apply_err.2, upd_same]

theorem reap_is_table (s : State) (i : Nat) :
    (reap s i).ops i = runOp (afterCall (applyT Gen.Sem.applyPinF false false true)) (s.ops i) ∧ (reap s i).cur = s.cur := by
  unfold reap
  cases findCall s i with
  | none => simp [apply_reap.2]
  | some k => cases hc : (s.ops i).cancelled <;> simp [apply_reap.2]

/-! ### trackerStatus and the Operation methods -/

theorem opStatus_tp (o : Op) : opStatus o = opStatusTP o.typ o.phase := by
  cases o with
  | mk c t ph cn pn => cases t <;> cases ph <;> rfl

theorem statusT_eq (t : OpType) (ph : Phase) : statusT Gen.Sem.trackerStatus (Ty.ofOp t) ph = some (opStatusTP t ph) := by
  cases t <;> cases ph <;> rfl

theorem statusT_other (ph : Phase) :
    statusT Gen.Sem.trackerStatus .shard ph = some .sharded ∧ statusT Gen.Sem.trackerStatus .unknown ph = some .undefined := by
  cases ph <;> exact ⟨rfl, rfl⟩

def phaseWrites : List Act → List Act
  | [] => []
  | .setPhase p :: r => .setPhase p :: phaseWrites r
  | .setPhaseArg :: r => .setPhaseArg :: phaseWrites r
  | .setError :: r => .setError :: phaseWrites r
  | _ :: r => phaseWrites r

theorem setters_table (env : Atom → Bool) :
    (firstRow Gen.Sem.setPhase env).map phaseWrites = some [.setPhaseArg] ∧
    (firstRow Gen.Sem.setError env).map phaseWrites = some [.setPhase .error] ∧
    (firstRow Gen.Sem.cancel env).map (fun a => a.contains .cancelCtx) = some true := by
  refine ⟨?_, ?_, ?_⟩ <;> simp [firstRow, holdsLits, Gen.Sem.setPhase, Gen.Sem.setError, Gen.Sem.cancel, phaseWrites]

theorem cancelled_table (b : Bool) : (firstRow Gen.Sem.cancelled (envDone b)).bind retOf = some b := by
  cases b <;> rfl

/-! ### the switch of recoverWithPinInfo -/

theorem recT_eq (st : Status) (a b : Bool) :
    recT Gen.Sem.recoverWith st a b = some ((recAction st).map (fun t => (t, t == .pin && a && b))) := by
  cases st <;> cases a <;> cases b <;> rfl

theorem tables_known :
    (known Gen.Sem.trackNew && known Gen.Sem.clean && known Gen.Sem.applyPinF && known Gen.Sem.trackerStatus &&
     known Gen.Sem.setPhase && known Gen.Sem.setError && known Gen.Sem.cancel && known Gen.Sem.cancelled &&
     known Gen.Sem.recoverWith) = true := by decide

/-! ### round 8c: `enqueue`, `Track`, `Untrack`, `Recover` -/

theorem upd_upd {α : Type} (f : Nat → α) (k : Nat) (v w : α) : upd (upd f k v) k w = upd f k w := by
  funext x; by_cases h : x = k <;> simp [upd, h]

/-- `op.SetError(err); op.Cancel()` is the model's `failOp` -/
theorem setError_cancel (s : State) (i : Nat) :
    cancelOp { s with ops := upd s.ops i { s.ops i with phase := .error } } i = failOp s i := by
  simp [cancelOp, failOp, upd_upd, upd_same]

theorem enqueueT_eq (cfg : Cfg) (s : State) (p : PinSpec) (typ : OpType) (ht : typ ≠ .remote) :
    enqueueT Gen.Sem.enqueue cfg s p typ = some (enqueue cfg s p typ) := by
  unfold enqueueT enqueue
  cases typ with
  | remote => exact absurd rfl ht
  | pin =>
    rcases h : trackNew s p .pin .queued with ⟨s1, o⟩
    cases o with
    | none => simp [h, Gen.Sem.enqueue, holdsLits, envEnq, execEnq, chanOf, roomFor, Ty.ofOp]
    | some i =>
      by_cases hr : s1.pinQ.length < cfg.cap <;>
        simp [h, hr, Gen.Sem.enqueue, holdsLits, envEnq, execEnq, chanOf, roomFor, Ty.ofOp, setError_cancel]
  | unpin =>
    rcases h : trackNew s p .unpin .queued with ⟨s1, o⟩
    cases o with
    | none => simp [h, Gen.Sem.enqueue, holdsLits, envEnq, execEnq, chanOf, roomFor, Ty.ofOp]
    | some i =>
      by_cases hr : s1.unpinQ.length < cfg.cap <;>
        simp [h, hr, Gen.Sem.enqueue, holdsLits, envEnq, execEnq, chanOf, roomFor, Ty.ofOp, setError_cancel]

theorem trackT_core (cfg : Cfg) (s : State) (p : PinSpec) (e : Bool) :
    (match firstRow Gen.Sem.track (envTrack p.kind (trackNew s p .remote .inProgress).2.isNone e) with
     | some acts => execTrack cfg p acts s none
     | none => none) =
    some (match p.kind with
      | .sharded => (s, .nil)
      | .remote =>
        match trackNew s p .remote .inProgress with
        | (s1, none) => (s1, .nil)
        | (s1, some i) => ({ s1 with calls := s1.calls ++ [{ op := i, kind := .unpin, sync := true, eff := false }] }, .nil)
      | .here => enqueue cfg s p .pin) := by
  cases hk : p.kind with
  | sharded => simp [firstRow, holdsLits, envTrack, Gen.Sem.track, execTrack]
  | here => simp [firstRow, holdsLits, envTrack, Gen.Sem.track, execTrack]
  | remote =>
    rcases h : trackNew s p .remote .inProgress with ⟨s1, o⟩
    cases o <;> cases e <;> simp [h, firstRow, holdsLits, envTrack, Gen.Sem.track, execTrack]

theorem trackT_eq (cfg : Cfg) (s : State) (p : PinSpec) (e : Bool) :
    trackT Gen.Sem.track cfg s p e = some (track cfg s p) :=
  trackT_core cfg _ p e

theorem track_after_err :
    (∀ o, runOp (trackAfter Gen.Sem.track false) o = { o with phase := .error, cancelled := true }) ∧
    (trackAfter Gen.Sem.track false).contains .clean = false := ⟨fun _ => rfl, rfl⟩

theorem track_after_ok :
    (∀ o, runOp (trackAfter Gen.Sem.track true) o = { o with phase := .done, cancelled := true }) ∧
    (trackAfter Gen.Sem.track true).contains .clean = true := ⟨fun _ => rfl, rfl⟩

theorem recoverT_eq (cfg : Cfg) (s : State) (c : Nat) : recoverT Gen.Sem.recover cfg s c = some (recover cfg s c) := by
  unfold recoverT recover statusOf
  cases h : s.cur c <;> simp [firstRow, holdsLits, envFound, Gen.Sem.recover]

theorem statusTbl_eq (s : State) (ls : Bool) (c : Nat) : statusTbl Gen.Sem.status s ls c = some (statusR s ls c) := by
  unfold statusTbl statusR
  cases h : s.cur c with
  | some i => simp [firstRow, holdsLits, envStatus, Gen.Sem.status, execStatus]
  | none =>
    cases hs : s.shared c with
    | none => simp [firstRow, holdsLits, envStatus, Gen.Sem.status, execStatus]
    | some p =>
      cases hk : p.kind <;> cases ls <;> cases hh : heldAs s c p.mode <;>
        simp [hk, hh, firstRow, holdsLits, envStatus, Gen.Sem.status, execStatus]

/-- the shared state cannot be read (`getState` or `st.Get` fails) and there is no table entry: cluster_error -/
theorem statusTbl_stateErr (s : State) (ls : Bool) (c : Nat) (a b : Bool) (h : s.cur c = none) (hab : (a && b) = false)
    (hp : ∃ p, s.shared c = some p) :
    statusTbl Gen.Sem.status s ls c a b = some .clusterError := by
  obtain ⟨p, hp⟩ := hp
  unfold statusTbl
  cases a <;> cases b <;> simp at hab <;> simp [h, hp, firstRow, holdsLits, envStatus, Gen.Sem.status, execStatus]

theorem addError_table (env : Atom → Bool) : firstRow Gen.Sem.addError env = some [.setStatus .clusterError, .retVoid] := by
  simp [firstRow, holdsLits, Gen.Sem.addError]

theorem raLoopT_eq (cfg : Cfg) (L : Nat → Option Status) (items : List (List Ev × Nat)) :
    ∀ s, raLoopT Gen.Sem.recoverAllBody cfg L s items = some (raLoop cfg L s items) := by
  induction items with
  | nil => intro s; rfl
  | cons it rest ih =>
    intro s
    obtain ⟨pre, c⟩ := it
    unfold raLoopT raLoop
    cases hL : L c with
    | none => simp only []; exact ih _
    | some st =>
      simp only []
      rcases h : recoverWith cfg (run cfg s pre) c st with ⟨a, b⟩
      cases b with
      | nil => simp [bodyT, h, firstRow, holdsLits, envErr, Gen.Sem.recoverAllBody]; exact ih a
      | full => simp [bodyT, h, firstRow, holdsLits, envErr, Gen.Sem.recoverAllBody]

/-- the listing failed: the error is returned and the loop is not entered; it worked: the loop, then `resp, nil` -/
theorem recoverAll_outer :
    firstRow Gen.Sem.recoverAll (envErr false) = some [.listAll, .retErr] ∧
    firstRow Gen.Sem.recoverAll (envErr true) = some [.listAll, .forEach, .retNil] := by decide

/-- the entry `localStatus` makes for a pin of the pinset without table entry (as `statusAll` calls it: extras included, no filter) is the
    model's `statusAllOf` -/
theorem localT_eq (s : State) (c : Nat) (p : PinSpec) (hc : s.cur c = none) (hs : s.shared c = some p) :
    localT Gen.Sem.localBody p.kind (heldAs s c p.mode) true (fun _ => true) = some (statusAllOf s c) := by
  unfold statusAllOf
  cases hk : p.kind <;> cases hh : heldAs s c p.mode <;>
    simp [hc, hs, hk, hh, localT, firstRow, holdsLits, envLocal, Gen.Sem.localBody, execLocal]

/-- without `incExtra`, or when the filter does not ask for them, meta and remote pins are left out -/
theorem localT_skips (k : Kind) (b : Bool) (fm : Status → Bool) (hk : k ≠ .here) :
    localT Gen.Sem.localBody k b false fm = some none ∧ localT Gen.Sem.localBody k b true (fun _ => false) = some none := by
  cases k <;> cases b <;> simp at hk <;> simp [localT, firstRow, holdsLits, envLocal, Gen.Sem.localBody, execLocal]

/-- `statusAll(ctx, TrackerStatusUndefined)` (every status matches) lists for `c` what the model's `listingR` says: the table entry's status
    if there is one, else `localStatus`'s entry; nothing at all when the listing failed -/
theorem statusAllT_eq (s : State) (ls : Bool) (c : Nat) :
    statusAllT Gen.Sem.statusAll Gen.Sem.statusAllOverlay Gen.Sem.statusAllFilter s ls (fun _ => true) c = some (listingR s ls c) := by
  unfold statusAllT listingR statusAllOf
  cases ls
  · simp [firstRow, holdsLits, envErr, Gen.Sem.statusAll, execSA]
  · cases h : s.cur c with
    | some i => simp [firstRow, holdsLits, envErr, envSelf, Gen.Sem.statusAll, Gen.Sem.statusAllOverlay, Gen.Sem.statusAllFilter, execSA]
    | none =>
      cases hs : s.shared c with
      | none => simp [firstRow, holdsLits, envErr, envSelf, Gen.Sem.statusAll, Gen.Sem.statusAllOverlay, Gen.Sem.statusAllFilter, execSA]
      | some p =>
        cases hk : p.kind <;> cases hh : heldAs { s with cur := fun _ => none } c p.mode <;>
          simp [hk, hh, heldAs] at * <;>
          simp [*, heldAs, firstRow, holdsLits, envErr, envSelf, Gen.Sem.statusAll, Gen.Sem.statusAllOverlay, Gen.Sem.statusAllFilter, execSA]

theorem tables_known_c :
    (known Gen.Sem.enqueue && known Gen.Sem.track && known Gen.Sem.untrack && known Gen.Sem.recover &&
     known Gen.Sem.status && known Gen.Sem.addError && known Gen.Sem.recoverAll && known Gen.Sem.recoverAllBody &&
     known Gen.Sem.localBody && known Gen.Sem.statusAll && known Gen.Sem.statusAllOverlay && known Gen.Sem.statusAllFilter) = true := by decide

end CV.C05.T
