import ClusterVerif.Lemmas.C08Wire
/-! C08 — the decoder of `pb.Pin` never produces an ill-formed message (`decode_total_wf`):
every varint it reads is below 2^64, every int32 conversion lands in int32, every string field
it stores passed `utf8.Valid`.  (Totality itself is by construction: all functions of
`Model/C08Wire.lean` are structurally recursive.) -/
namespace CV.C08.Wire

/-! ## (a) varints are below 2^64 -/

theorem decodeVarintAux_lt : ∀ (k : Nat) (bs : Bytes) (v : Nat) (r : Bytes), 1 ≤ k →
    decodeVarintAux k bs = some (v, r) → v < 2 ^ (7 * k - 6)
  | 0, _, _, _, hk, _ => by omega
  | k + 1, [], v, r, _, h => by simp [decodeVarintAux] at h
  | k + 1, b :: rest, v, r, _, h => by
    unfold decodeVarintAux at h
    have hb : b.toNat < 256 := UInt8.toNat_lt b
    by_cases hlt : b.toNat < 128
    · simp only [hlt, if_true] at h
      by_cases hk0 : k = 0
      · subst hk0
        by_cases h1 : b.toNat > 1
        · simp [h1] at h
        · simp [h1] at h
          obtain ⟨rfl, _⟩ := h
          simp; omega
      · have hk0' : (k == 0) = false := by simpa using hk0
        simp [hk0'] at h
        obtain ⟨rfl, _⟩ := h
        have : 2 ^ 7 ≤ 2 ^ (7 * (k + 1) - 6) := Nat.pow_le_pow_right (by omega) (by omega)
        omega
    · simp only [hlt, if_false] at h
      cases hd : decodeVarintAux k rest with
      | none => simp [hd] at h
      | some p =>
        obtain ⟨v', r'⟩ := p
        simp only [hd, Option.some.injEq, Prod.mk.injEq] at h
        obtain ⟨rfl, _⟩ := h
        have hk1 : 1 ≤ k := by
          rcases k with _ | k
          · simp [decodeVarintAux] at hd
          · omega
        have ih := decodeVarintAux_lt k rest v' r' hk1 hd
        have e : 7 * (k + 1) - 6 = (7 * k - 6) + 7 := by omega
        rw [e, Nat.pow_add]
        have h7 : (2:Nat) ^ 7 = 128 := by decide
        rw [h7]
        generalize 2 ^ (7 * k - 6) = X at ih ⊢
        omega

theorem decodeVarint_lt {bs : Bytes} {v : Nat} {r : Bytes} (h : decodeVarint bs = some (v, r)) : v < two64 := by
  have := decodeVarintAux_lt 10 bs v r (by omega) h
  simpa [two64] using this

/-! ## (b) tokens carry varints below 2^64 -/

def tokOK (t : Tok) : Bool :=
  match t.val with
  | .varint v => decide (v < two64)
  | _ => true

theorem parseTok_ok {bs : Bytes} {t : Tok} {r : Bytes} (h : parseTok bs = some (t, r)) : tokOK t = true := by
  unfold parseTok at h
  cases hd : decodeVarint bs with
  | none => simp [hd] at h
  | some p =>
    obtain ⟨tag, rest⟩ := p
    simp only [hd] at h
    by_cases hr : (decide (tag / 8 < 1) || decide (tag / 8 > maxTagNum)) = true
    · rw [if_pos hr] at h
      simp at h
    · rw [if_neg hr] at h
      split at h
      · cases hv : decodeVarint rest with
        | none => simp [hv] at h
        | some q =>
          obtain ⟨v, r'⟩ := q
          simp only [hv, Option.some.injEq, Prod.mk.injEq] at h
          obtain ⟨rfl, _⟩ := h
          simp only [tokOK, decide_eq_true_eq]
          exact decodeVarint_lt hv
      · split at h
        · simp at h
        · simp only [Option.some.injEq, Prod.mk.injEq] at h
          obtain ⟨rfl, _⟩ := h
          rfl
      · cases hv : decodeVarint rest with
        | none => simp [hv] at h
        | some q =>
          obtain ⟨n, r'⟩ := q
          simp only [hv] at h
          split at h
          · simp at h
          · simp only [Option.some.injEq, Prod.mk.injEq] at h
            obtain ⟨rfl, _⟩ := h
            rfl
      · simp only [Option.some.injEq, Prod.mk.injEq] at h
        obtain ⟨rfl, _⟩ := h
        rfl
      · simp only [Option.some.injEq, Prod.mk.injEq] at h
        obtain ⟨rfl, _⟩ := h
        rfl
      · split at h
        · simp at h
        · simp only [Option.some.injEq, Prod.mk.injEq] at h
          obtain ⟨rfl, _⟩ := h
          rfl
      · simp at h

theorem tokensAux_ok : ∀ (fuel : Nat) (bs : Bytes) (ts : List Tok), tokensAux fuel bs = some ts → ts.all tokOK = true
  | 0, [], ts, h => by simp [tokensAux] at h; subst h; rfl
  | _ + 1, [], ts, h => by simp [tokensAux] at h; subst h; rfl
  | 0, _ :: _, ts, h => by simp [tokensAux] at h
  | fuel + 1, b :: bs, ts, h => by
    unfold tokensAux at h
    cases hp : parseTok (b :: bs) with
    | none => simp [hp] at h
    | some p =>
      obtain ⟨t, rest⟩ := p
      cases hr : tokensAux fuel rest with
      | none => simp [hp, hr] at h
      | some ts' =>
        simp only [hp, hr, Option.some.injEq] at h
        subst h
        simp [parseTok_ok hp, tokensAux_ok fuel rest ts' hr]

theorem topLevelAux_ok : ∀ (ts : List Tok) (st : List Nat) (r : List Tok), topLevelAux st ts = some r →
    ts.all tokOK = true → r.all tokOK = true
  | [], [], r, h, _ => by simp [topLevelAux] at h; subst h; rfl
  | [], _ :: _, r, h, _ => by simp [topLevelAux] at h
  | t :: ts, [], r, h, hok => by
    simp only [List.all_cons, Bool.and_eq_true] at hok
    unfold topLevelAux at h
    split at h
    · simp at h
    · split at h
      · exact topLevelAux_ok ts _ r h hok.2
      · simp at h
      · cases hr : topLevelAux [] ts with
        | none => simp [hr] at h
        | some r' =>
          simp only [hr, Option.some.injEq] at h
          subst h
          simp [hok.1, topLevelAux_ok ts _ r' hr hok.2]
  | t :: ts, s :: st, r, h, hok => by
    simp only [List.all_cons, Bool.and_eq_true] at hok
    unfold topLevelAux at h
    split at h
    · exact topLevelAux_ok ts _ r h hok.2
    · split at h
      · exact topLevelAux_ok ts _ r h hok.2
      · simp at h
    · exact topLevelAux_ok ts _ r h hok.2

theorem fields_ok {bs : Bytes} {ts : List Tok} (h : fields bs = some ts) : ts.all tokOK = true := by
  unfold fields tokens topLevel at h
  cases ht : tokensAux bs.length bs with
  | none => simp [ht] at h
  | some ts0 =>
    simp only [ht, Option.bind_some] at h
    exact topLevelAux_ok ts0 [] ts h (tokensAux_ok _ _ _ ht)

/-! ## (c) the int32 conversions land in int32 -/

theorem inI32_iff (i : Int) : inI32 i = true ↔ (-2147483648 ≤ i ∧ i < 2147483648) := by
  simp only [inI32, Bool.and_eq_true, decide_eq_true_eq]

theorem inI32_unzigzag32 (v : Nat) : inI32 (unzigzag32 v) = true := by
  rw [inI32_iff]
  unfold unzigzag32 two32
  simp only []
  split <;> omega

theorem inI32_u64ToI32 (v : Nat) : inI32 (u64ToI32 v) = true := by
  rw [inI32_iff]
  unfold u64ToI32 two32
  simp only []
  split <;> omega

/-! ## (d) map entries hold valid UTF-8 -/

theorem validUtf8_nil : validUtf8 [] = true := rfl

theorem entryStep_valid {kv kv' : Bytes × Bytes} {t : Tok} (h : entryStep kv t = some kv')
    (h1 : validUtf8 kv.1 = true) (h2 : validUtf8 kv.2 = true) :
    validUtf8 kv'.1 = true ∧ validUtf8 kv'.2 = true := by
  unfold entryStep at h
  split at h
  · split at h
    · rename_i hb
      simp only [Option.some.injEq] at h
      subst h
      exact ⟨hb, h2⟩
    · simp at h
  · split at h
    · rename_i hb
      simp only [Option.some.injEq] at h
      subst h
      exact ⟨h1, hb⟩
    · simp at h
  · simp only [Option.some.injEq] at h
    subst h
    exact ⟨h1, h2⟩

theorem entryFold_valid : ∀ (ts : List Tok) (kv kv' : Bytes × Bytes), entryFold kv ts = some kv' →
    validUtf8 kv.1 = true → validUtf8 kv.2 = true → validUtf8 kv'.1 = true ∧ validUtf8 kv'.2 = true
  | [], kv, kv', h, h1, h2 => by
    simp only [entryFold, Option.some.injEq] at h
    subst h
    exact ⟨h1, h2⟩
  | t :: ts, kv, kv', h, h1, h2 => by
    unfold entryFold at h
    cases hs : entryStep kv t with
    | none => simp [hs] at h
    | some kv1 =>
      simp only [hs] at h
      have := entryStep_valid hs h1 h2
      exact entryFold_valid ts kv1 kv' h this.1 this.2

theorem mapEntry_valid {b : Bytes} {kv : Bytes × Bytes} (h : mapEntry b = some kv) :
    validUtf8 kv.1 = true ∧ validUtf8 kv.2 = true := by
  unfold mapEntry at h
  cases hf : fields b with
  | none => simp [hf] at h
  | some ts =>
    simp only [hf, Option.bind_some] at h
    exact entryFold_valid ts _ kv h validUtf8_nil validUtf8_nil

/-! ## (e) updates of `pb.PinOptions` -/

def goodO : OUpd → Bool
  | .rmin i => inI32 i
  | .rmax i => inI32 i
  | .name b => validUtf8 b
  | .shard n => decide (n < two64)
  | .mput k v => validUtf8 k && validUtf8 v
  | .exp n => decide (n < two64)
  | _ => true

theorem optUpd_good {t : Tok} {u : OUpd} (h : optUpd t = some u) (hok : tokOK t = true) : goodO u = true := by
  obtain ⟨num, val⟩ := t
  unfold optUpd at h
  split at h
  · simp only [Option.some.injEq] at h; subst h; exact inI32_unzigzag32 _
  · simp only [Option.some.injEq] at h; subst h; exact inI32_unzigzag32 _
  · split at h
    · rename_i hb
      simp only [Option.some.injEq] at h; subst h; exact hb
    · simp at h
  · rename_i hv
    simp only [Option.some.injEq] at h; subst h
    subst hv
    simpa [tokOK, goodO] using hok
  · cases hm : mapEntry ‹Bytes› with
    | none => simp [hm] at h
    | some kv =>
      simp only [hm, Option.map_some, Option.some.injEq] at h
      subst h
      have := mapEntry_valid hm
      simp [goodO, this.1, this.2]
  · simp only [Option.some.injEq] at h; subst h; rfl
  · rename_i hv
    simp only [Option.some.injEq] at h; subst h
    subst hv
    simpa [tokOK, goodO] using hok
  · simp only [Option.some.injEq] at h; subst h; rfl
  · simp only [Option.some.injEq] at h; subst h; rfl

theorem putMeta_valid (k v : Bytes) (m : List (Bytes × Bytes))
    (hm : (m.all fun kv => validUtf8 kv.1 && validUtf8 kv.2) = true)
    (hk : validUtf8 k = true) (hv : validUtf8 v = true) :
    ((putMeta k v m).all fun kv => validUtf8 kv.1 && validUtf8 kv.2) = true := by
  unfold putMeta
  split
  · rw [List.all_eq_true] at hm ⊢
    intro x hx
    rw [List.mem_map] at hx
    obtain ⟨y, hy, rfl⟩ := hx
    split
    · simp [hk, hv]
    · exact hm y hy
  · simp only [List.all_append, hm, List.all_cons, hk, hv, List.all_nil, Bool.and_self]

theorem wfOptsRaw_zero : wfOptsRaw OptsRaw.zero = true := by decide

theorem applyO_wf {o : OptsRaw} {u : OUpd} (hw : wfOptsRaw o = true) (hg : goodO u = true) :
    wfOptsRaw (applyO o u) = true := by
  simp only [wfOptsRaw, Bool.and_eq_true] at hw
  obtain ⟨⟨⟨⟨⟨h1, h2⟩, h3⟩, h4⟩, h5⟩, h6⟩ := hw
  cases u <;> simp only [goodO, Bool.and_eq_true] at hg <;>
    simp only [applyO, wfOptsRaw, Bool.and_eq_true]
  case mput k v => exact ⟨⟨⟨⟨⟨h1, h2⟩, h3⟩, h4⟩, h5⟩, putMeta_valid k v _ h6 hg.1 hg.2⟩
  all_goals exact ⟨⟨⟨⟨⟨by assumption, by assumption⟩, by assumption⟩, by assumption⟩, by assumption⟩, by assumption⟩

theorem foldl_applyO_wf : ∀ (us : List OUpd) (o : OptsRaw), wfOptsRaw o = true → us.all goodO = true →
    wfOptsRaw (us.foldl applyO o) = true
  | [], _, hw, _ => hw
  | u :: us, o, hw, hg => by
    simp only [List.all_cons, Bool.and_eq_true] at hg
    exact foldl_applyO_wf us _ (applyO_wf hw hg.1) hg.2

/-! ## (f) updates of `pb.Pin` -/

def goodP : PUpd → Bool
  | .type i => inI32 i
  | .depth i => inI32 i
  | .opts us => us.all goodO
  | _ => true

theorem mapOpt_optUpd_good : ∀ (ts : List Tok) (us : List OUpd), mapOpt optUpd ts = some us →
    ts.all tokOK = true → us.all goodO = true
  | [], us, h, _ => by simp only [mapOpt, Option.some.injEq] at h; subst h; rfl
  | t :: ts, us, h, hok => by
    simp only [List.all_cons, Bool.and_eq_true] at hok
    unfold mapOpt at h
    cases h0 : optUpd t with
    | none => simp [h0] at h
    | some u =>
      cases h1 : mapOpt optUpd ts with
      | none => simp [h0, h1] at h
      | some us' =>
        simp only [h0, h1, Option.some.injEq] at h
        subst h
        simp [optUpd_good h0 hok.1, mapOpt_optUpd_good ts us' h1 hok.2]

theorem pinUpd_good {t : Tok} {u : PUpd} (h : pinUpd t = some u) : goodP u = true := by
  unfold pinUpd at h
  split at h
  · simp only [Option.some.injEq] at h; subst h; rfl
  · simp only [Option.some.injEq] at h; subst h; exact inI32_u64ToI32 _
  · simp only [Option.some.injEq] at h; subst h; rfl
  · simp only [Option.some.injEq] at h; subst h; exact inI32_unzigzag32 _
  · simp only [Option.some.injEq] at h; subst h; rfl
  · rename_i b _ _
    cases hf : fields b with
    | none => simp [hf] at h
    | some ts =>
      cases hm : mapOpt optUpd ts with
      | none => simp [hf, hm] at h
      | some us =>
        simp only [hf, hm, Option.bind_some, Option.map_some, Option.some.injEq] at h
        subst h
        exact mapOpt_optUpd_good ts us hm (fields_ok hf)
  · simp only [Option.some.injEq] at h; subst h; rfl

theorem wfPinRaw_zero : wfPinRaw PinRaw.zero = true := by decide

theorem applyP_wf {p : PinRaw} {u : PUpd} (hw : wfPinRaw p = true) (hg : goodP u = true) :
    wfPinRaw (applyP p u) = true := by
  simp only [wfPinRaw, Bool.and_eq_true] at hw
  obtain ⟨⟨h1, h2⟩, h3⟩ := hw
  cases u <;> simp only [goodP] at hg <;> simp only [applyP, wfPinRaw, Bool.and_eq_true]
  case opts us =>
    refine ⟨⟨h1, h2⟩, foldl_applyO_wf us _ ?_ hg⟩
    cases ho : p.opts with
    | none => exact wfOptsRaw_zero
    | some o => simpa [ho] using h3
  all_goals exact ⟨⟨by assumption, by assumption⟩, by assumption⟩

theorem foldl_applyP_wf : ∀ (us : List PUpd) (p : PinRaw), wfPinRaw p = true → us.all goodP = true →
    wfPinRaw (us.foldl applyP p) = true
  | [], _, hw, _ => hw
  | u :: us, p, hw, hg => by
    simp only [List.all_cons, Bool.and_eq_true] at hg
    exact foldl_applyP_wf us _ (applyP_wf hw hg.1) hg.2

theorem mapOpt_pinUpd_good : ∀ (ts : List Tok) (us : List PUpd), mapOpt pinUpd ts = some us → us.all goodP = true
  | [], us, h => by simp only [mapOpt, Option.some.injEq] at h; subst h; rfl
  | t :: ts, us, h => by
    unfold mapOpt at h
    cases h0 : pinUpd t with
    | none => simp [h0] at h
    | some u =>
      cases h1 : mapOpt pinUpd ts with
      | none => simp [h0, h1] at h
      | some us' =>
        simp only [h0, h1, Option.some.injEq] at h
        subst h
        simp [pinUpd_good h0, mapOpt_pinUpd_good ts us' h1]

theorem pinOfToks_wf {ts : List Tok} {p : PinRaw} (h : pinOfToks ts = some p) : wfPinRaw p = true := by
  unfold pinOfToks at h
  cases hm : mapOpt pinUpd ts with
  | none => simp [hm] at h
  | some us =>
    simp only [hm, Option.map_some, Option.some.injEq] at h
    subst h
    exact foldl_applyP_wf us _ wfPinRaw_zero (mapOpt_pinUpd_good ts us hm)

/-- whatever `proto.Unmarshal` accepts is a well-formed message -/
theorem decodePin_wf {bs : Bytes} {p : PinRaw} (h : decodePin bs = some p) : wfPinRaw p = true := by
  unfold decodePin at h
  cases hf : fields bs with
  | none => simp [hf] at h
  | some ts =>
    simp only [hf, Option.bind_some] at h
    exact pinOfToks_wf h

/-- the decoder either refuses the input or returns a well-formed message -/
theorem decode_total_wf (bs : Bytes) : decodePin bs = none ∨ ∃ p, decodePin bs = some p ∧ wfPinRaw p = true := by
  cases h : decodePin bs with
  | none => exact Or.inl rfl
  | some p => exact Or.inr ⟨p, rfl, decodePin_wf h⟩

/-! ## malformed inputs are refused, not mis-decoded -/

/-- a varint without terminator -/
example : decodePin [8, 128] = none := by decide
/-- a length past the end of the input -/
example : decodePin [10, 5, 1] = none := by decide
/-- an end-group token outside a group -/
example : decodePin [12] = none := by decide
/-- wire type 7 -/
example : decodePin [15] = none := by decide
/-- field number 0 -/
example : decodePin [0, 0] = none := by decide
/-- an unknown group is skipped -/
example : decodePin [51, 8, 1, 52] = some PinRaw.zero := by decide
/-- invalid UTF-8 in `PinOptions.Name` -/
example : decodePin [50, 3, 26, 1, 255] = none := by decide

end CV.C08.Wire
