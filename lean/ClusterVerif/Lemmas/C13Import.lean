import ClusterVerif.Model.C13Import
import Mathlib.Data.List.Basic
import Mathlib.Tactic.SplitIfs
import Mathlib.Data.String.Basic
/-! Lemmas for the C13 importer front-end: chunking, layout builders, directories, emitted stream. -/
namespace CV.C13.Imp

/-! ### chunking -/

theorem chunkAux_concat {β : Type} (n : Nat) (hn : 0 < n) :
    ∀ (fuel : Nat) (xs : List β), xs.length ≤ fuel → (chunkAux n fuel xs).flatten = xs := by
  intro fuel
  induction fuel with
  | zero => intro xs h; have : xs = [] := List.length_eq_zero_iff.mp (by omega); simp [chunkAux, this]
  | succ f ih =>
    intro xs h
    unfold chunkAux
    by_cases he : xs.isEmpty = true
    · simp only [he, if_true]; simp [List.isEmpty_iff.mp he]
    · simp only [he, Bool.false_eq_true, ↓reduceIte]
      have hl : (xs.drop n).length ≤ f := by rw [List.length_drop]; omega
      simp [ih _ hl]

theorem chunkAux_nil {β : Type} (n fuel : Nat) : chunkAux n fuel ([] : List β) = [] := by
  cases fuel <;> simp [chunkAux]

theorem chunkAux_sizes {β : Type} (n : Nat) (hn : 0 < n) :
    ∀ (fuel : Nat) (xs : List β), xs.length ≤ fuel →
      (∀ c ∈ chunkAux n fuel xs, 0 < c.length ∧ c.length ≤ n) ∧
      (∀ c ∈ (chunkAux n fuel xs).dropLast, c.length = n) := by
  intro fuel
  induction fuel with
  | zero => intro xs _; simp [chunkAux]
  | succ f ih =>
    intro xs h
    unfold chunkAux
    by_cases he : xs.isEmpty = true
    · simp [he]
    · simp only [he, Bool.false_eq_true, ↓reduceIte]
      have hne : xs ≠ [] := fun h0 => he (by simp [h0])
      have hpos : 0 < xs.length := List.length_pos_iff.mpr hne
      have hl : (xs.drop n).length ≤ f := by rw [List.length_drop]; omega
      obtain ⟨ih1, ih2⟩ := ih _ hl
      constructor
      · intro c hc
        rcases List.mem_cons.mp hc with rfl | hc
        · simp only [List.length_take]; omega
        · exact ih1 c hc
      · intro c hc
        by_cases hr : chunkAux n f (xs.drop n) = []
        · simp [hr] at hc
        · rw [List.dropLast_cons_of_ne_nil hr] at hc
          rcases List.mem_cons.mp hc with rfl | hc
          · have : xs.drop n ≠ [] := fun h0 => hr (by rw [h0, chunkAux_nil])
            have : 0 < (xs.drop n).length := List.length_pos_iff.mpr this
            rw [List.length_drop] at this
            simp only [List.length_take]; omega
          · exact ih2 c hc

theorem chunkAux_lens {β : Type} (n : Nat) :
    ∀ (fuel : Nat) (xs : List β), (chunkAux n fuel xs).map List.length = chunkLensAux n fuel xs.length := by
  intro fuel
  induction fuel with
  | zero => intro xs; simp [chunkAux, chunkLensAux]
  | succ f ih =>
    intro xs
    unfold chunkAux chunkLensAux
    by_cases he : xs.isEmpty = true
    · have : xs = [] := List.isEmpty_iff.mp he
      simp [this]
    · have hne : xs ≠ [] := fun h0 => he (by simp [h0])
      have hpos : xs.length ≠ 0 := fun h0 => hne (List.length_eq_zero_iff.mp h0)
      simp only [he, hpos, Bool.false_eq_true, ↓reduceIte, List.map_cons, ih, List.length_take, List.length_drop]

/-! ### generic facts about the list helpers of the mutual definitions -/

variable {α : Type}

theorem leavesL_append (a b : List (FNode α)) : leavesL (a ++ b) = leavesL a ++ leavesL b := by
  induction a with
  | nil => simp [leavesL]
  | cons k ks ih => simp [leavesL, ih]

theorem lengthL_eq (ks : List (FNode α)) : lengthL ks = ks.length := by
  induction ks with
  | nil => simp [lengthL]
  | cons k ks ih => simp [lengthL, ih]

theorem fanL_iff (b : Nat) (ks : List (FNode α)) : fanL b ks = true ↔ ∀ k ∈ ks, k.fan b = true := by
  induction ks with
  | nil => simp [fanL]
  | cons k ks ih => simp [fanL, ih]

theorem sizedL_iff (len : α → Nat) (ks : List (FNode α)) : sizedL len ks = true ↔ ∀ k ∈ ks, k.sized len = true := by
  induction ks with
  | nil => simp [sizedL]
  | cons k ks ih => simp [sizedL, ih]

theorem mapFsize_eq (len : α → Nat) (ks : List (FNode α)) : mapFsize len ks = ks.map (·.fsize len) := by
  induction ks with
  | nil => simp [mapFsize]
  | cons k ks ih => simp [mapFsize, ih]

theorem fsizeL_eq (len : α → Nat) (ks : List (FNode α)) : fsizeL len ks = (ks.map (·.fsize len)).sum := by
  induction ks with
  | nil => simp [fsizeL]
  | cons k ks ih => simp [fsizeL, ih]

theorem postL_eq (ks : List (FNode α)) : postL ks = ks.flatMap (·.post) := by
  induction ks with
  | nil => simp [postL]
  | cons k ks ih => simp [postL, ih]

theorem leavesL_eq (ks : List (FNode α)) : leavesL ks = ks.flatMap (·.leaves) := by
  induction ks with
  | nil => simp [leavesL]
  | cons k ks ih => simp [leavesL, ih]

theorem nleavesL_eq (ks : List (FNode α)) : nleavesL ks = (ks.map (·.nleaves)).sum := by
  induction ks with
  | nil => simp [nleavesL]
  | cons k ks ih => simp [nleavesL, ih]

/-! ### what every builder call guarantees -/

/-- the node a builder returns: the recorded size is the true size, every inner node below records the true
    sizes, what was handed to `Add` is the post-order of the node, no node has more than `B` links -/
structure NodeOk (cd : Codec α) (B : Nat) (b : Built α) : Prop where
  size : b.size = b.node.fsize cd.len
  sized : b.node.sized cd.len = true
  post : b.emitted = b.node.post
  fan : b.node.fan B = true

/-- a builder step on non-empty input: consumes a non-empty prefix, which is exactly the node's leaves -/
def MkOk (cd : Codec α) (B : Nat) (mk : List α → Built α × List α) : Prop :=
  ∀ cs, cs ≠ [] → NodeOk cd B (mk cs).1 ∧ (mk cs).1.node.leaves ++ (mk cs).2 = cs ∧ (mk cs).2.length < cs.length

theorem mkInner_ok (cd : Codec α) (B : Nat) (ks : List (Built α)) (h : ∀ k ∈ ks, NodeOk cd B k) (hl : ks.length ≤ B) :
    NodeOk cd B (mkInner ks) ∧ (mkInner ks).node.leaves = leavesL (ks.map (·.node)) := by
  have hsz : (ks.map (·.node)).map (·.fsize cd.len) = ks.map (·.size) := by
    rw [List.map_map]
    exact List.map_congr_left (fun k hk => ((h k hk).size).symm)
  refine ⟨⟨?_, ?_, ?_, ?_⟩, ?_⟩
  · simp only [mkInner, FNode.fsize, fsizeL_eq, hsz]
  · simp only [mkInner, FNode.sized, mapFsize_eq, hsz, beq_self_eq_true, Bool.true_and, sizedL_iff]
    intro k hk
    obtain ⟨b, hb, rfl⟩ := List.mem_map.mp hk
    exact (h b hb).sized
  · simp only [Built.emitted, mkInner, FNode.post, postL_eq, List.flatMap_map]
    congr 1
    exact List.flatMap_congr (fun k hk => (h k hk).post) |>.trans rfl
  · simp only [mkInner, FNode.fan, lengthL_eq, List.length_map, fanL_iff, Bool.and_eq_true, decide_eq_true_eq]
    refine ⟨hl, ?_⟩
    intro k hk
    obtain ⟨b, hb, rfl⟩ := List.mem_map.mp hk
    exact (h b hb).fan
  · simp [mkInner, FNode.leaves]

theorem fillKids_ok (cd : Codec α) (B : Nat) (mk : List α → Built α × List α) (hmk : MkOk cd B mk) :
    ∀ (room : Nat) (cs : List α),
      leavesL ((fillKids mk room cs).1.map (·.node)) ++ (fillKids mk room cs).2 = cs ∧
      (∀ k ∈ (fillKids mk room cs).1, NodeOk cd B k) ∧
      (fillKids mk room cs).1.length ≤ room ∧
      ((fillKids mk room cs).2 ≠ [] → (fillKids mk room cs).1.length = room) ∧
      (fillKids mk room cs).2.length ≤ cs.length ∧
      (cs ≠ [] → 0 < room → (fillKids mk room cs).2.length < cs.length) := by
  intro room
  induction room with
  | zero => intro cs; simp [fillKids, leavesL]
  | succ r ih =>
    intro cs
    unfold fillKids
    by_cases he : cs.isEmpty = true
    · have : cs = [] := List.isEmpty_iff.mp he
      simp [this, leavesL]
    · have hne : cs ≠ [] := fun h0 => he (by simp [h0])
      simp only [he, Bool.false_eq_true, ↓reduceIte]
      obtain ⟨hk, hlv, hlt⟩ := hmk cs hne
      obtain ⟨i1, i2, i3, i4, i5, _⟩ := ih (mk cs).2
      refine ⟨?_, ?_, ?_, ?_, ?_, ?_⟩
      · simp only [List.map_cons, leavesL, List.append_assoc, i1, hlv]
      · intro k hk'
        rcases List.mem_cons.mp hk' with rfl | hk'
        · exact hk
        · exact i2 k hk'
      · simp only [List.length_cons]; omega
      · intro h; simp only [List.length_cons, i4 h]
      · omega
      · intro _ _; omega

theorem nextLeaf_ok (cd : Codec α) (B : Nat) (k : LeafKind) : MkOk cd B (nextLeaf cd k) := by
  intro cs hne
  cases cs with
  | nil => exact absurd rfl hne
  | cons c cs =>
    refine ⟨⟨?_, ?_, ?_, ?_⟩, ?_, ?_⟩ <;>
      simp [nextLeaf, FNode.fsize, FNode.sized, Built.emitted, FNode.post, FNode.fan, FNode.leaves]

theorem sub_ok (cd : Codec α) (k : LeafKind) (W : Nat) (hW : 0 < W) : ∀ d, MkOk cd W (sub cd k W d) := by
  intro d
  induction d with
  | zero => exact nextLeaf_ok cd W k
  | succ d ih =>
    intro cs hne
    obtain ⟨f1, f2, f3, _, _, f6⟩ := fillKids_ok cd W _ ih W cs
    obtain ⟨m1, m2⟩ := mkInner_ok cd W _ f2 f3
    refine ⟨m1, ?_, f6 hne hW⟩
    show (mkInner _).node.leaves ++ _ = cs
    rw [m2]; exact f1

theorem grow_ok (cd : Codec α) (k : LeafKind) (W : Nat) (hW : 2 ≤ W) :
    ∀ (fuel depth : Nat) (root : Built α) (cs : List α), NodeOk cd W root → cs.length ≤ fuel →
      NodeOk cd W (grow cd k W fuel depth root cs) ∧
      (grow cd k W fuel depth root cs).node.leaves = root.node.leaves ++ cs := by
  intro fuel
  induction fuel with
  | zero =>
    intro depth root cs hr hl
    have : cs = [] := List.length_eq_zero_iff.mp (by omega)
    simp [grow, hr, this]
  | succ f ih =>
    intro depth root cs hr hl
    unfold grow
    by_cases he : cs.isEmpty = true
    · have : cs = [] := List.isEmpty_iff.mp he
      simp [this, hr]
    · have hne : cs ≠ [] := fun h0 => he (by simp [h0])
      simp only [he, Bool.false_eq_true, ↓reduceIte]
      obtain ⟨f1, f2, f3, _, _, f6⟩ := fillKids_ok cd W _ (sub_ok cd k W (by omega) depth) (W - 1) cs
      have hall : ∀ b ∈ root :: (fillKids (sub cd k W depth) (W - 1) cs).1, NodeOk cd W b := by
        intro b hb
        rcases List.mem_cons.mp hb with rfl | hb
        · exact hr
        · exact f2 b hb
      obtain ⟨m1, m2⟩ := mkInner_ok cd W _ hall (by simp only [List.length_cons]; omega)
      have hlt := f6 hne (by omega)
      obtain ⟨g1, g2⟩ := ih (depth + 1) _ (fillKids (sub cd k W depth) (W - 1) cs).2 m1 (by omega)
      refine ⟨g1, ?_⟩
      rw [g2, m2]
      simp only [List.map_cons, leavesL, List.append_assoc]
      rw [f1]

theorem balanced_ok (cd : Codec α) (hcd : cd.len cd.empty = 0) (raw : Bool) (W : Nat) (hW : 2 ≤ W) (chunks : List α) :
    NodeOk cd W (balanced cd raw W chunks) ∧
    (balanced cd raw W chunks).node.leaves = (if chunks = [] then [cd.empty] else chunks) := by
  cases chunks with
  | nil =>
    refine ⟨⟨?_, ?_, ?_, ?_⟩, ?_⟩ <;>
      simp [balanced, FNode.fsize, FNode.sized, Built.emitted, FNode.post, FNode.fan, FNode.leaves, hcd]
  | cons c cs =>
    have hroot : NodeOk cd W ({ node := .leaf (leafKind raw .file) c, size := cd.len c, below := [] } : Built α) := by
      refine ⟨?_, ?_, ?_, ?_⟩ <;> simp [FNode.fsize, FNode.sized, Built.emitted, FNode.post, FNode.fan]
    obtain ⟨g1, g2⟩ := grow_ok cd (leafKind raw .file) W hW cs.length 0 _ cs hroot (Nat.le_refl _)
    refine ⟨g1, ?_⟩
    simp only [balanced, g2, FNode.leaves]
    simp

/-! ### trickle -/

theorem tKids_succ (cd : Codec α) (k : LeafKind) (W m : Nat) (cs : List α) :
    tKids cd k W (m + 1) cs =
      ((tKids cd k W m cs).1 ++ (fillKids (tNode cd k W m) 4 (tKids cd k W m cs).2).1,
       (fillKids (tNode cd k W m) 4 (tKids cd k W m cs).2).2) := rfl

theorem fillKids_nil (mk : List α → Built α × List α) (room : Nat) : fillKids mk room [] = ([], []) := by
  cases room <;> simp [fillKids]

/-- a level of the depth loop that finds no data left adds nothing: `length` levels stand for "until done" -/
theorem tKids_stable (cd : Codec α) (k : LeafKind) (W m : Nat) (cs : List α) (h : (tKids cd k W m cs).2 = []) :
    tKids cd k W (m + 1) cs = tKids cd k W m cs := by
  rw [tKids_succ, h, fillKids_nil]
  simp only [List.append_nil]
  exact Prod.ext rfl h.symm

theorem tKids_ok (cd : Codec α) (k : LeafKind) (W M : Nat) (hW : 0 < W) :
    ∀ m, m ≤ M → ∀ cs : List α,
      leavesL ((tKids cd k W m cs).1.map (·.node)) ++ (tKids cd k W m cs).2 = cs ∧
      (∀ b ∈ (tKids cd k W m cs).1, NodeOk cd (W + 4 * M) b) ∧
      (tKids cd k W m cs).1.length ≤ W + 4 * m ∧
      (tKids cd k W m cs).2.length ≤ cs.length - (m + 1) := by
  intro m
  induction m with
  | zero =>
    intro _ cs
    obtain ⟨f1, f2, f3, _, f5, f6⟩ := fillKids_ok cd (W + 4 * M) _ (nextLeaf_ok cd (W + 4 * M) k) W cs
    refine ⟨f1, f2, by simpa [tKids] using f3, ?_⟩
    by_cases hne : cs = []
    · subst hne; simpa [tKids] using f5
    · have := f6 hne hW
      show (fillKids (nextLeaf cd k) W cs).2.length ≤ _
      omega
  | succ m ih =>
    intro hm cs
    have ihm := ih (by omega)
    obtain ⟨r1, r2, r3, r4⟩ := ihm cs
    have hmk : MkOk cd (W + 4 * M) (tNode cd k W m) := by
      intro cs' hne
      obtain ⟨q1, q2, q3, q4⟩ := ihm cs'
      obtain ⟨m1, m2⟩ := mkInner_ok cd (W + 4 * M) _ q2 (by omega)
      refine ⟨m1, ?_, ?_⟩
      · show (mkInner _).node.leaves ++ _ = cs'
        rw [m2]; exact q1
      · have : 0 < cs'.length := List.length_pos_iff.mpr hne
        show (tKids cd k W m cs').2.length < _
        omega
    obtain ⟨g1, g2, g3, _, g5, g6⟩ := fillKids_ok cd (W + 4 * M) _ hmk 4 (tKids cd k W m cs).2
    rw [tKids_succ]
    refine ⟨?_, ?_, ?_, ?_⟩
    · simp only [List.map_append, leavesL_append, List.append_assoc, g1, r1]
    · intro b hb
      rcases List.mem_append.mp hb with hb | hb
      · exact r2 b hb
      · exact g2 b hb
    · simp only [List.length_append]; omega
    · show (fillKids (tNode cd k W m) 4 (tKids cd k W m cs).2).2.length ≤ cs.length - (m + 1 + 1)
      by_cases hne : (tKids cd k W m cs).2 = []
      · have hd : (tKids cd k W m cs).2.length = 0 := by rw [hne]; rfl
        omega
      · have := g6 hne (by omega); omega

theorem trickle_ok (cd : Codec α) (raw : Bool) (W : Nat) (hW : 0 < W) (chunks : List α) :
    NodeOk cd (W + 4 * chunks.length) (trickle cd raw W chunks) ∧ (trickle cd raw W chunks).node.leaves = chunks := by
  obtain ⟨q1, q2, q3, q4⟩ := tKids_ok cd (leafKind raw .rawpb) W chunks.length hW chunks.length (Nat.le_refl _) chunks
  obtain ⟨m1, m2⟩ := mkInner_ok cd (W + 4 * chunks.length) _ q2 (by omega)
  have hrest : (tKids cd (leafKind raw .rawpb) W chunks.length chunks).2 = [] :=
    List.length_eq_zero_iff.mp (by omega)
  refine ⟨m1, ?_⟩
  show (mkInner _).node.leaves = chunks
  rw [m2]
  rw [hrest, List.append_nil] at q1
  exact q1

/-! ### closure under links -/

theorem FNode.mem_post_self (n : FNode α) : n ∈ n.post := by
  cases n <;> simp [FNode.post]

theorem mem_postL_of_mem (ks : List (FNode α)) (c : FNode α) (h : c ∈ ks) : c ∈ postL ks := by
  rw [postL_eq]
  exact List.mem_flatMap.mpr ⟨c, h, c.mem_post_self⟩

mutual
theorem post_closed : ∀ (n b c : FNode α), b ∈ n.post → c ∈ b.links → c ∈ n.post
  | .leaf k d, b, c, hb, hc => by
    simp only [FNode.post, List.mem_singleton] at hb
    subst hb
    simp [FNode.links] at hc
  | .inner ks s, b, c, hb, hc => by
    simp only [FNode.post, List.mem_append, List.mem_singleton] at hb ⊢
    rcases hb with hb | rfl
    · exact Or.inl (postL_closed ks b c hb hc)
    · simp only [FNode.links] at hc
      exact Or.inl (mem_postL_of_mem ks c hc)
theorem postL_closed : ∀ (ks : List (FNode α)) (b c : FNode α), b ∈ postL ks → c ∈ b.links → c ∈ postL ks
  | [], b, c, hb, _ => by simp [postL] at hb
  | k :: ks, b, c, hb, hc => by
    simp only [postL, List.mem_append] at hb ⊢
    rcases hb with hb | hb
    · exact Or.inl (post_closed k b c hb hc)
    · exact Or.inr (postL_closed ks b c hb hc)
end

theorem mem_blocksL (ls : List (String × UNode α)) (b : UNode α) :
    b ∈ blocksL ls ↔ ∃ x ∈ ls, b ∈ x.2.blocks := by
  induction ls with
  | nil => simp [blocksL]
  | cons x rest ih =>
    obtain ⟨n, u⟩ := x
    simp [blocksL, ih]

theorem UNode.mem_blocks_self (n : UNode α) : n ∈ n.blocks := by
  cases n with
  | file f => simp only [UNode.blocks, List.mem_map]; exact ⟨f, f.mem_post_self, rfl⟩
  | symlink t => simp [UNode.blocks]
  | dir ls => simp [UNode.blocks]

mutual
theorem blocks_closed : ∀ (n b c : UNode α), b ∈ n.blocks → c ∈ b.links → c ∈ n.blocks
  | .file f, b, c, hb, hc => by
    simp only [UNode.blocks, List.mem_map] at hb ⊢
    obtain ⟨x, hx, rfl⟩ := hb
    simp only [UNode.links, List.mem_map] at hc
    obtain ⟨y, hy, rfl⟩ := hc
    exact ⟨y, post_closed f x y hx hy, rfl⟩
  | .symlink t, b, c, hb, hc => by
    simp only [UNode.blocks, List.mem_singleton] at hb
    subst hb
    simp [UNode.links] at hc
  | .dir ls, b, c, hb, hc => by
    simp only [UNode.blocks, List.mem_append, List.mem_singleton] at hb ⊢
    rcases hb with hb | rfl
    · exact Or.inl (blocksL_closed ls b c hb hc)
    · simp only [UNode.links, List.mem_map] at hc
      obtain ⟨x, hx, rfl⟩ := hc
      exact Or.inl ((mem_blocksL ls _).mpr ⟨x, hx, x.2.mem_blocks_self⟩)
theorem blocksL_closed : ∀ (ls : List (String × UNode α)) (b c : UNode α), b ∈ blocksL ls → c ∈ b.links → c ∈ blocksL ls
  | [], b, c, hb, _ => by simp [blocksL] at hb
  | (n, u) :: rest, b, c, hb, hc => by
    simp only [blocksL, List.mem_append] at hb ⊢
    rcases hb with hb | hb
    · exact Or.inl (blocks_closed u b c hb hc)
    · exact Or.inr (blocksL_closed rest b c hb hc)
end

/-! ### sorted links -/

theorem mem_insertLink {γ : Type} (x y : String × γ) (l : List (String × γ)) : y ∈ insertLink x l ↔ y = x ∨ y ∈ l := by
  induction l with
  | nil => simp [insertLink]
  | cons z zs ih =>
    unfold insertLink
    split_ifs
    · simp
    · simp only [List.mem_cons, ih]; tauto

theorem mem_sortLinks {γ : Type} (y : String × γ) (l : List (String × γ)) : y ∈ sortLinks l ↔ y ∈ l := by
  induction l with
  | nil => simp [sortLinks]
  | cons z zs ih =>
    have : sortLinks (z :: zs) = insertLink z (sortLinks zs) := rfl
    rw [this, mem_insertLink, ih]; simp

theorem insertLink_sorted {γ : Type} (x : String × γ) (l : List (String × γ)) (h : l.Pairwise (fun a b => a.1 ≤ b.1)) :
    (insertLink x l).Pairwise (fun a b => a.1 ≤ b.1) := by
  induction l with
  | nil => simp [insertLink]
  | cons z zs ih =>
    unfold insertLink
    obtain ⟨hz, hzs⟩ := List.pairwise_cons.mp h
    split_ifs with hle
    · refine List.pairwise_cons.mpr ⟨?_, h⟩
      intro a ha
      rcases List.mem_cons.mp ha with rfl | ha
      · exact hle
      · exact le_trans hle (hz a ha)
    · refine List.pairwise_cons.mpr ⟨?_, ih hzs⟩
      intro a ha
      rcases (mem_insertLink x a zs).mp ha with rfl | ha
      · exact (le_of_lt (not_le.mp hle))
      · exact hz a ha

theorem sortLinks_sorted {γ : Type} (l : List (String × γ)) : (sortLinks l).Pairwise (fun a b => a.1 ≤ b.1) := by
  induction l with
  | nil => simp [sortLinks]
  | cons z zs ih =>
    have : sortLinks (z :: zs) = insertLink z (sortLinks zs) := rfl
    rw [this]; exact insertLink_sorted z _ ih

theorem length_insertLink {γ : Type} (x : String × γ) (l : List (String × γ)) : (insertLink x l).length = l.length + 1 := by
  induction l with
  | nil => simp [insertLink]
  | cons z zs ih => unfold insertLink; split_ifs <;> simp [ih]

theorem length_sortLinks {γ : Type} (l : List (String × γ)) : (sortLinks l).length = l.length := by
  induction l with
  | nil => simp [sortLinks]
  | cons z zs ih =>
    have : sortLinks (z :: zs) = insertLink z (sortLinks zs) := rfl
    rw [this, length_insertLink, ih]; simp

/-! ### directories -/

variable {β : Type}

theorem mem_visibleL (hidden : Bool) (es : List (String × Entry β)) (n : String) (e' : Entry β) :
    (n, e') ∈ visibleL hidden es ↔
      ∃ e, (n, e) ∈ es ∧ e' = visible hidden e ∧ (hidden = true ∨ isHiddenName n = false) := by
  induction es with
  | nil => simp [visibleL]
  | cons x rest ih =>
    obtain ⟨m, e0⟩ := x
    simp only [visibleL]
    split_ifs with hh
    · rw [ih]
      simp only [Bool.and_eq_true, Bool.not_eq_true'] at hh
      constructor
      · rintro ⟨e, he, rest'⟩
        exact ⟨e, List.mem_cons_of_mem _ he, rest'⟩
      · rintro ⟨e, he, h1, h2⟩
        rcases List.mem_cons.mp he with heq | he
        · obtain ⟨rfl, rfl⟩ := Prod.mk.inj heq
          rcases h2 with h2 | h2
          · rw [hh.1] at h2; exact absurd h2 (by decide)
          · rw [hh.2] at h2; exact absurd h2 (by decide)
        · exact ⟨e, he, h1, h2⟩
    · simp only [List.mem_cons, Prod.mk.injEq, ih]
      have hv : hidden = true ∨ isHiddenName m = false := by
        simp only [Bool.and_eq_true, Bool.not_eq_true', not_and, Bool.not_eq_true] at hh
        cases hidden <;> simp_all
      constructor
      · rintro (⟨rfl, rfl⟩ | ⟨e, he, r⟩)
        · exact ⟨e0, Or.inl ⟨rfl, rfl⟩, rfl, hv⟩
        · exact ⟨e, Or.inr he, r⟩
      · rintro ⟨e, (⟨rfl, rfl⟩ | he), h1, h2⟩
        · exact Or.inl ⟨rfl, h1⟩
        · exact Or.inr ⟨e, he, h1, h2⟩

theorem mem_visibleTop (hidden : Bool) (es : List (String × Entry β)) (n : String) (e' : Entry β) :
    (n, e') ∈ visibleTop hidden es ↔ ∃ e, (n, e) ∈ es ∧ e' = visible hidden e := by
  induction es with
  | nil => simp [visibleTop]
  | cons x rest ih =>
    obtain ⟨m, e0⟩ := x
    simp only [visibleTop, List.mem_cons, Prod.mk.injEq, ih]
    constructor
    · rintro (⟨rfl, rfl⟩ | ⟨e, he, r⟩)
      · exact ⟨e0, Or.inl ⟨rfl, rfl⟩, rfl⟩
      · exact ⟨e, Or.inr he, r⟩
    · rintro ⟨e, (⟨rfl, rfl⟩ | he), h1⟩
      · exact Or.inl ⟨rfl, h1⟩
      · exact Or.inr ⟨e, he, h1⟩

theorem mem_importEntries (p : Params) (es : List (String × Entry β)) (n : String) (u : UNode (List β)) :
    (n, u) ∈ importEntries p es ↔ ∃ e, (n, e) ∈ es ∧ u = importEntry p e := by
  induction es with
  | nil => simp [importEntries]
  | cons x rest ih =>
    obtain ⟨m, e0⟩ := x
    simp only [importEntries, List.mem_cons, Prod.mk.injEq, ih]
    constructor
    · rintro (⟨rfl, rfl⟩ | ⟨e, he, r⟩)
      · exact ⟨e0, Or.inl ⟨rfl, rfl⟩, rfl⟩
      · exact ⟨e, Or.inr he, r⟩
    · rintro ⟨e, (⟨rfl, rfl⟩ | he), h1⟩
      · exact Or.inl ⟨rfl, h1⟩
      · exact Or.inr ⟨e, he, h1⟩

/-! ### the emitted stream is the set of blocks under the root -/

theorem importFile_post (p : Params) (hW : 2 ≤ p.width) (bytes : List β) :
    (importFile p bytes).emitted = (importFile p bytes).node.post := by
  unfold importFile layoutOf
  split_ifs
  · exact (trickle_ok bytesCodec p.raw p.width (by omega) _).1.post
  · exact (balanced_ok bytesCodec rfl p.raw p.width hW _).1.post

theorem mem_blocksL_sortLinks (l : List (String × UNode α)) (b : UNode α) : b ∈ blocksL (sortLinks l) ↔ b ∈ blocksL l := by
  simp only [mem_blocksL, mem_sortLinks]

mutual
theorem mem_mkdirs : ∀ (e : Entry β) (b : UNode (List β)), b ∈ mkdirs e → b = .dir []
  | .file _, b, h => by simp [mkdirs] at h
  | .symlink _, b, h => by simp [mkdirs] at h
  | .dir es, b, h => by
    simp only [mkdirs, List.mem_cons] at h
    rcases h with h | h
    · exact h
    · exact mem_mkdirsL es b h
theorem mem_mkdirsL : ∀ (es : List (String × Entry β)) (b : UNode (List β)), b ∈ mkdirsL es → b = .dir []
  | [], b, h => by simp [mkdirsL] at h
  | (n, e) :: rest, b, h => by
    simp only [mkdirsL, List.mem_append] at h
    rcases h with h | h
    · exact mem_mkdirs e b h
    · exact mem_mkdirsL rest b h
end

mutual
theorem mem_emitEntry (p : Params) (hW : 2 ≤ p.width) :
    ∀ (e : Entry β) (b : UNode (List β)), b ∈ emitEntry p e ↔ b ∈ (importEntry p e).blocks ∨ b ∈ mkdirs e
  | .file bs, b => by
    simp only [emitEntry, importEntry, UNode.blocks, importFile_post p hW, List.mem_append, List.mem_map, List.mem_singleton,
      mkdirs, List.not_mem_nil, or_false]
    constructor
    · rintro (h | rfl)
      · exact h
      · exact ⟨_, FNode.mem_post_self _, rfl⟩
    · exact Or.inl
  | .symlink t, b => by simp [emitEntry, importEntry, UNode.blocks, mkdirs]
  | .dir es, b => by
    simp only [emitEntry, importEntry, UNode.blocks, List.mem_append, List.mem_singleton, mem_blocksL_sortLinks,
      mem_emitEntries p hW es b, mkdirs, List.mem_cons]
    tauto
theorem mem_emitEntries (p : Params) (hW : 2 ≤ p.width) :
    ∀ (es : List (String × Entry β)) (b : UNode (List β)),
      b ∈ emitEntries p es ↔ b ∈ blocksL (importEntries p es) ∨ b ∈ mkdirsL es
  | [], b => by simp [emitEntries, importEntries, blocksL, mkdirsL]
  | (n, e) :: rest, b => by
    simp only [emitEntries, importEntries, blocksL, mkdirsL, List.mem_append, mem_emitEntry p hW e b, mem_emitEntries p hW rest b]
    tauto
end

/-- the stream, as a set: the blocks under the root, the scaffold of a lone file, and possibly the empty directory -/
theorem emitStream_mem (nameOf : UNode (List β) → String) (p : Params) (hW : 2 ≤ p.width) (top : List (String × Entry β))
    (r : UNode (List β)) (hr : importRoot p top = some r) (b : UNode (List β)) :
    (b ∈ emitStream nameOf p top → b ∈ r.blocks ∨ b ∈ scaffold nameOf r ∨ b = .dir []) ∧
    (b ∈ r.blocks ∨ b ∈ scaffold nameOf r → b ∈ emitStream nameOf p top) := by
  unfold emitStream
  rw [hr]
  simp only
  unfold importRoot at hr
  cases hw : p.wrap with
  | true =>
    simp only [hw, if_true, Option.some.injEq] at hr
    subst hr
    simp only [if_true, List.mem_append, List.mem_singleton, mem_emitEntries p hW, UNode.blocks, mem_blocksL_sortLinks]
    constructor
    · rintro ((((h | h) | h) | h) | h)
      · exact Or.inl (Or.inl h)
      · exact Or.inr (Or.inr (mem_mkdirsL _ b h))
      · exact Or.inl (Or.inr h)
      · exact Or.inr (Or.inl h)
      · exact Or.inl (Or.inr h)
    · rintro ((h | h) | h)
      · exact Or.inl (Or.inl (Or.inl (Or.inl h)))
      · exact Or.inr h
      · exact Or.inl (Or.inr h)
  | false =>
    simp only [hw, Bool.false_eq_true, if_false] at hr
    rcases top with _ | ⟨⟨n, e⟩, _ | ⟨x, rest⟩⟩
    · simp at hr
    · simp only [Option.some.injEq] at hr
      subst hr
      have hself := (importEntry p (visible p.hidden e)).mem_blocks_self
      cases e with
      | file bs =>
        simp only [visible, Bool.false_eq_true, if_false, List.mem_append, List.mem_singleton, mem_emitEntry p hW, mkdirs,
          List.not_mem_nil, or_false] at hself ⊢
        constructor
        · rintro ((h | h) | h)
          · exact Or.inl h
          · exact Or.inr (Or.inl h)
          · exact Or.inl (h ▸ hself)
        · rintro (h | h)
          · exact Or.inl (Or.inl h)
          · exact Or.inl (Or.inr h)
      | symlink t =>
        simp only [visible, Bool.false_eq_true, if_false, List.mem_append, List.mem_singleton, mem_emitEntry p hW, mkdirs,
          List.not_mem_nil, or_false] at hself ⊢
        constructor
        · rintro ((h | h) | h)
          · exact Or.inl h
          · exact Or.inr (Or.inl h)
          · exact Or.inl (h ▸ hself)
        · rintro (h | h)
          · exact Or.inl (Or.inl h)
          · exact Or.inl (Or.inr h)
      | dir es =>
        simp only [visible, importEntry, UNode.blocks, Bool.false_eq_true, if_false, List.mem_append, List.mem_singleton,
          mem_emitEntries p hW, mem_blocksL_sortLinks]
        constructor
        · rintro ((((h | h) | h) | h) | h)
          · exact Or.inl (Or.inl h)
          · exact Or.inr (Or.inr (mem_mkdirsL _ b h))
          · exact Or.inl (Or.inr h)
          · exact Or.inr (Or.inl h)
          · exact Or.inl (Or.inr h)
        · rintro ((h | h) | h)
          · exact Or.inl (Or.inl (Or.inl (Or.inl h)))
          · exact Or.inr h
          · exact Or.inl (Or.inr h)
    · simp at hr

/-! ### the DAG service cannot influence what is offered -/

theorem feed_prefix {σ ν : Type} (svc : Svc σ ν) : ∀ (l : List ν) (s : σ), (feed svc s l).2.1 <+: l := by
  intro l
  induction l with
  | nil => intro s; simp [feed]
  | cons b bs ih =>
    intro s
    unfold feed
    simp only
    split_ifs
    · exact (List.prefix_cons_inj b).mpr (ih _)
    · exact ⟨bs, rfl⟩

theorem feed_all {σ ν : Type} (svc : Svc σ ν) : ∀ (l : List ν) (s : σ), (feed svc s l).2.2 = true → (feed svc s l).2.1 = l := by
  intro l
  induction l with
  | nil => intro s _; simp [feed]
  | cons b bs ih =>
    intro s
    unfold feed
    simp only
    split_ifs with h
    · intro hh; rw [ih _ hh]
    · intro hh; exact absurd hh (by decide)

/-! ### the seen-set -/

theorem mem_firsts {γ : Type} [DecidableEq γ] : ∀ (l seen : List γ) (x : γ), x ∈ firsts seen l ↔ x ∈ l ∧ x ∉ seen := by
  intro l
  induction l with
  | nil => intro seen x; simp [firsts]
  | cons y ys ih =>
    intro seen x
    unfold firsts
    split_ifs with h
    · rw [ih]
      constructor
      · rintro ⟨h1, h2⟩; exact ⟨List.mem_cons_of_mem _ h1, h2⟩
      · rintro ⟨h1, h2⟩
        rcases List.mem_cons.mp h1 with rfl | h1
        · exact absurd h h2
        · exact ⟨h1, h2⟩
    · simp only [List.mem_cons, ih]
      constructor
      · rintro (rfl | ⟨h1, h2⟩)
        · exact ⟨Or.inl rfl, h⟩
        · exact ⟨Or.inr h1, fun h3 => h2 (Or.inr h3)⟩
      · rintro ⟨(rfl | h1), h2⟩
        · exact Or.inl rfl
        · by_cases hx : x = y
          · exact Or.inl hx
          · exact Or.inr ⟨h1, fun h3 => by rcases h3 with h3 | h3; exact hx h3; exact h2 h3⟩

theorem firsts_nodup {γ : Type} [DecidableEq γ] : ∀ (l seen : List γ), (firsts seen l).Nodup := by
  intro l
  induction l with
  | nil => intro seen; simp [firsts]
  | cons y ys ih =>
    intro seen
    unfold firsts
    split_ifs with h
    · exact ih seen
    · refine List.nodup_cons.mpr ⟨?_, ih _⟩
      intro hm
      have := ((mem_firsts ys (y :: seen) y).mp hm).2
      exact this (List.mem_cons_self)

/-! ### recorded sizes are byte counts; reachability -/

mutual
theorem fsize_eq_leaves (len : α → Nat) : ∀ n : FNode α, n.fsize len = (n.leaves.map len).sum
  | .leaf k d => by simp [FNode.fsize, FNode.leaves]
  | .inner ks s => by simp only [FNode.fsize, FNode.leaves]; exact fsizeL_eq_leaves len ks
theorem fsizeL_eq_leaves (len : α → Nat) : ∀ ks : List (FNode α), fsizeL len ks = ((leavesL ks).map len).sum
  | [] => by simp [fsizeL, leavesL]
  | k :: ks => by simp [fsizeL, leavesL, fsize_eq_leaves len k, fsizeL_eq_leaves len ks]
end

theorem sum_map_length_eq {β : Type} (l : List (List β)) : (l.map List.length).sum = l.flatten.length := by
  rw [List.length_flatten]

/-- reachable by following links -/
inductive Reach : UNode α → UNode α → Prop
  | refl (r : UNode α) : Reach r r
  | step {r b c : UNode α} : Reach r b → c ∈ b.links → Reach r c

theorem Reach.trans {a b c : UNode α} (h1 : Reach a b) (h2 : Reach b c) : Reach a c := by
  induction h2 with
  | refl => exact h1
  | step _ hl ih => exact Reach.step ih hl

mutual
theorem post_reach : ∀ (n x : FNode α), x ∈ n.post → Reach (UNode.file n) (UNode.file x)
  | .leaf k d, x, hx => by
    simp only [FNode.post, List.mem_singleton] at hx
    subst hx; exact Reach.refl _
  | .inner ks s, x, hx => by
    simp only [FNode.post, List.mem_append, List.mem_singleton] at hx
    rcases hx with hx | rfl
    · obtain ⟨k, hk, hr⟩ := postL_reach ks x hx
      exact Reach.trans (Reach.step (Reach.refl _) (by simp only [UNode.links, FNode.links]; exact List.mem_map.mpr ⟨k, hk, rfl⟩)) hr
    · exact Reach.refl _
theorem postL_reach : ∀ (ks : List (FNode α)) (x : FNode α), x ∈ postL ks → ∃ k ∈ ks, Reach (UNode.file k) (UNode.file x)
  | [], x, hx => by simp [postL] at hx
  | k :: ks, x, hx => by
    simp only [postL, List.mem_append] at hx
    rcases hx with hx | hx
    · exact ⟨k, List.mem_cons_self, post_reach k x hx⟩
    · obtain ⟨k', hk', hr⟩ := postL_reach ks x hx
      exact ⟨k', List.mem_cons_of_mem _ hk', hr⟩
end

mutual
theorem blocks_reach : ∀ (n b : UNode α), b ∈ n.blocks → Reach n b
  | .file f, b, hb => by
    simp only [UNode.blocks, List.mem_map] at hb
    obtain ⟨x, hx, rfl⟩ := hb
    exact post_reach f x hx
  | .symlink t, b, hb => by
    simp only [UNode.blocks, List.mem_singleton] at hb
    subst hb; exact Reach.refl _
  | .dir ls, b, hb => by
    simp only [UNode.blocks, List.mem_append, List.mem_singleton] at hb
    rcases hb with hb | rfl
    · obtain ⟨x, hx, hr⟩ := blocksL_reach ls b hb
      exact Reach.trans (Reach.step (Reach.refl _) (by simp only [UNode.links]; exact List.mem_map.mpr ⟨x, hx, rfl⟩)) hr
    · exact Reach.refl _
theorem blocksL_reach : ∀ (ls : List (String × UNode α)) (b : UNode α), b ∈ blocksL ls → ∃ x ∈ ls, Reach x.2 b
  | [], b, hb => by simp [blocksL] at hb
  | (n, u) :: rest, b, hb => by
    simp only [blocksL, List.mem_append] at hb
    rcases hb with hb | hb
    · exact ⟨(n, u), List.mem_cons_self, blocks_reach u b hb⟩
    · obtain ⟨x, hx, hr⟩ := blocksL_reach rest b hb
      exact ⟨x, List.mem_cons_of_mem _ hx, hr⟩
end

theorem reach_blocks (n b : UNode α) (h : Reach n b) : b ∈ n.blocks := by
  induction h with
  | refl => exact n.mem_blocks_self
  | step _ hl ih => exact blocks_closed n _ _ ih hl

/-! ### depth of the balanced layout -/

theorem heightL_const (ks : List (FNode α)) (d : Nat) (h : ∀ k ∈ ks, k.height = d) (hne : ks ≠ []) : heightL ks = d := by
  induction ks with
  | nil => exact absurd rfl hne
  | cons k ks ih =>
    simp only [heightL]
    have hk := h k List.mem_cons_self
    by_cases hks : ks = []
    · subst hks; simp [heightL, hk]
    · rw [ih (fun x hx => h x (List.mem_cons_of_mem _ hx)) hks, hk]; simp

/-- a builder step that takes `min c len` chunks into a node of height `d` -/
def Takes (mk : List α → Built α × List α) (c d : Nat) : Prop :=
  ∀ cs, cs ≠ [] → (mk cs).2.length = cs.length - c ∧ (mk cs).1.node.height = d ∧ (mk cs).1.node.nleaves = min c cs.length

theorem fillKids_takes (mk : List α → Built α × List α) (c d : Nat) (hc : 0 < c) (hmk : Takes mk c d) :
    ∀ (room : Nat) (cs : List α),
      (fillKids mk room cs).2.length = cs.length - room * c ∧
      (∀ k ∈ (fillKids mk room cs).1, k.node.height = d) ∧
      nleavesL ((fillKids mk room cs).1.map (·.node)) = min (room * c) cs.length := by
  intro room
  induction room with
  | zero => intro cs; simp [fillKids, nleavesL]
  | succ r ih =>
    intro cs
    unfold fillKids
    by_cases he : cs.isEmpty = true
    · have : cs = [] := List.isEmpty_iff.mp he
      simp [this, nleavesL]
    · have hne : cs ≠ [] := fun h0 => he (by simp [h0])
      simp only [he, Bool.false_eq_true, ↓reduceIte]
      obtain ⟨h1, h2, h3⟩ := hmk cs hne
      obtain ⟨i1, i2, i3⟩ := ih (mk cs).2
      have hm : (r + 1) * c = r * c + c := Nat.succ_mul r c
      refine ⟨by rw [i1, h1, hm]; omega, ?_, ?_⟩
      · intro k hk
        rcases List.mem_cons.mp hk with rfl | hk
        · exact h2
        · exact i2 k hk
      · simp only [List.map_cons, nleavesL, i3, h3, h1, hm]; omega

theorem sub_takes (cd : Codec α) (k : LeafKind) (W : Nat) (hW : 0 < W) : ∀ d, Takes (sub cd k W d) (W ^ d) d := by
  intro d
  induction d with
  | zero =>
    intro cs hne
    cases cs with
    | nil => exact absurd rfl hne
    | cons c cs => simp [sub, nextLeaf, FNode.height, FNode.nleaves]
  | succ d ih =>
    intro cs hne
    have hp : 0 < W ^ d := Nat.pow_pos hW
    obtain ⟨f1, f2, f3⟩ := fillKids_takes _ (W ^ d) d hp ih W cs
    have hpow : W ^ (d + 1) = W * W ^ d := by rw [Nat.pow_succ, Nat.mul_comm]
    have hpos : 0 < cs.length := List.length_pos_iff.mpr hne
    have hne' : (fillKids (sub cd k W d) W cs).1 ≠ [] := by
      intro h0
      rw [h0] at f3
      simp only [List.map_nil, nleavesL] at f3
      have : 0 < W * W ^ d := Nat.mul_pos hW hp
      omega
    refine ⟨?_, ?_, ?_⟩
    · show (fillKids (sub cd k W d) W cs).2.length = _
      rw [f1, hpow]
    · show (mkInner _).node.height = d + 1
      simp only [mkInner, FNode.height]
      rw [heightL_const _ d]
      · intro x hx
        obtain ⟨b, hb, rfl⟩ := List.mem_map.mp hx
        exact f2 b hb
      · simpa using hne'
    · show (mkInner _).node.nleaves = _
      simp only [mkInner, FNode.nleaves]
      rw [f3, hpow]

theorem grow_depth (cd : Codec α) (k : LeafKind) (W : Nat) (hW : 2 ≤ W) :
    ∀ (fuel depth : Nat) (root : Built α) (cs : List α), cs.length ≤ fuel →
      root.node.height = depth → root.node.nleaves ≤ W ^ depth → (cs ≠ [] → root.node.nleaves = W ^ depth) →
      let t := (grow cd k W fuel depth root cs).node
      depth ≤ t.height ∧ root.node.nleaves + cs.length ≤ W ^ t.height ∧
      (depth < t.height → W ^ (t.height - 1) < root.node.nleaves + cs.length) := by
  intro fuel
  induction fuel with
  | zero =>
    intro depth root cs hl hh hle _
    have : cs = [] := List.length_eq_zero_iff.mp (by omega)
    subst this
    simp only [grow, List.length_nil, Nat.add_zero]
    exact ⟨by omega, by rw [hh]; exact hle, by omega⟩
  | succ f ih =>
    intro depth root cs hl hh hle hfull
    unfold grow
    by_cases he : cs.isEmpty = true
    · have : cs = [] := List.isEmpty_iff.mp he
      subst this
      simp only [List.isEmpty_nil, if_true, List.length_nil, Nat.add_zero]
      exact ⟨by omega, by rw [hh]; exact hle, by omega⟩
    · have hne : cs ≠ [] := fun h0 => he (by simp [h0])
      simp only [he, Bool.false_eq_true, ↓reduceIte]
      have hp : 0 < W ^ depth := Nat.pow_pos (by omega)
      obtain ⟨f1, f2, f3⟩ := fillKids_takes _ (W ^ depth) depth hp (sub_takes cd k W (by omega) depth) (W - 1) cs
      have hpow : W ^ (depth + 1) = (W - 1) * W ^ depth + W ^ depth := by
        have h1 : W ^ (depth + 1) = W ^ depth * W := Nat.pow_succ W depth
        have h2 : W ^ depth * W = W ^ depth * (W - 1) + W ^ depth := by
          have : W = (W - 1) + 1 := by omega
          calc W ^ depth * W = W ^ depth * ((W - 1) + 1) := by rw [← this]
            _ = W ^ depth * (W - 1) + W ^ depth := Nat.mul_succ _ _
        rw [h1, h2, Nat.mul_comm]
      have hpos : 0 < cs.length := List.length_pos_iff.mpr hne
      have hroot := hfull hne
      -- the new root
      have hnl : (mkInner (root :: (fillKids (sub cd k W depth) (W - 1) cs).1)).node.nleaves =
          W ^ depth + min ((W - 1) * W ^ depth) cs.length := by
        simp only [mkInner, FNode.nleaves, List.map_cons, nleavesL, f3, hroot]
      have hht : (mkInner (root :: (fillKids (sub cd k W depth) (W - 1) cs).1)).node.height = depth + 1 := by
        simp only [mkInner, FNode.height]
        rw [heightL_const _ depth]
        · intro x hx
          obtain ⟨b, hb, rfl⟩ := List.mem_map.mp hx
          rcases List.mem_cons.mp hb with rfl | hb
          · exact hh
          · exact f2 b hb
        · simp
      have := ih (depth + 1) (mkInner (root :: (fillKids (sub cd k W depth) (W - 1) cs).1))
        (fillKids (sub cd k W depth) (W - 1) cs).2 (by rw [f1]; have : 0 < (W - 1) * W ^ depth := Nat.mul_pos (by omega) hp; omega)
        hht (by rw [hnl, hpow]; omega)
        (by intro hr
            have : 0 < (fillKids (sub cd k W depth) (W - 1) cs).2.length := List.length_pos_iff.mpr hr
            rw [hnl, hpow]; omega)
      simp only at this ⊢
      obtain ⟨g1, g2, g3⟩ := this
      rw [hnl, f1] at g2 g3
      have hsum : W ^ depth + min ((W - 1) * W ^ depth) cs.length + (cs.length - (W - 1) * W ^ depth) = W ^ depth + cs.length := by omega
      rw [hsum] at g2 g3
      rw [hroot]
      refine ⟨by omega, g2, ?_⟩
      intro _
      by_cases hd : depth + 1 < (grow cd k W f (depth + 1) (mkInner (root :: (fillKids (sub cd k W depth) (W - 1) cs).1)) (fillKids (sub cd k W depth) (W - 1) cs).2).node.height
      · exact g3 hd
      · have : (grow cd k W f (depth + 1) (mkInner (root :: (fillKids (sub cd k W depth) (W - 1) cs).1)) (fillKids (sub cd k W depth) (W - 1) cs).2).node.height = depth + 1 := by omega
        rw [this]; simp only [Nat.add_sub_cancel]; omega

end CV.C13.Imp
