import ClusterVerif.Lemmas.C03
import Mathlib.Data.List.Basic
import Mathlib.Data.List.Perm.Basic

/-! The deterministic model `allocate` (insertion sort, fixed tie-break) lies in the relation `allowed`. -/
namespace CV.C03

theorem before_total (d : Bool) (x y : Nat) : before d x y = true ∨ before d y x = true := by
  unfold before; cases d <;> simp <;> omega

theorem before_trans (d : Bool) {x y z : Nat} (h1 : before d x y = true) (h2 : before d y z = true) :
    before d x z = true := by
  unfold before at *; cases d <;> simp at * <;> omega

theorem insertBy_perm (d : Bool) (x : Nat × Nat) (l : List (Nat × Nat)) : (insertBy d x l).Perm (x :: l) := by
  induction l with
  | nil => exact List.Perm.refl _
  | cons y t ih =>
    unfold insertBy
    split_ifs
    · exact List.Perm.refl _
    · exact (List.Perm.cons y ih).trans (List.Perm.swap x y t)

theorem sortBy_perm (d : Bool) (l : List (Nat × Nat)) : (sortBy d l).Perm l := by
  induction l with
  | nil => exact List.Perm.refl _
  | cons x t ih => unfold sortBy; exact (insertBy_perm d x _).trans (List.Perm.cons x ih)

theorem insertBy_sorted (d : Bool) (x : Nat × Nat) (l : List (Nat × Nat))
    (h : l.Pairwise (fun a b => before d a.2 b.2 = true)) :
    (insertBy d x l).Pairwise (fun a b => before d a.2 b.2 = true) := by
  induction l with
  | nil => simp [insertBy]
  | cons y t ih =>
    rw [List.pairwise_cons] at h
    unfold insertBy
    split_ifs with hxy
    · rw [List.pairwise_cons]
      refine ⟨?_, List.pairwise_cons.2 h⟩
      intro z hz
      rcases List.mem_cons.1 hz with rfl | hz
      · exact hxy
      · exact before_trans d hxy (h.1 z hz)
    · rw [List.pairwise_cons]
      refine ⟨?_, ih h.2⟩
      intro z hz
      have := (insertBy_perm d x t).mem_iff.1 hz
      rcases List.mem_cons.1 this with rfl | hz'
      · rcases before_total d z.2 y.2 with h' | h'
        · exact absurd h' hxy
        · exact h'
      · exact h.1 z hz'

theorem sortBy_sorted (d : Bool) (l : List (Nat × Nat)) :
    (sortBy d l).Pairwise (fun a b => before d a.2 b.2 = true) := by
  induction l with
  | nil => simp [sortBy]
  | cons x t ih => unfold sortBy; exact insertBy_sorted d x _ ih

theorem lookupVal_of_mem_nodup {l : List (Nat × Nat)} {p v : Nat} (h : (p, v) ∈ l) (hn : (l.map (·.1)).Nodup) :
    lookupVal l p = some v := by
  unfold lookupVal
  induction l with
  | nil => cases h
  | cons x t ih =>
    rw [List.map_cons, List.nodup_cons] at hn
    rw [List.find?_cons]
    rcases List.mem_cons.1 h with rfl | h'
    · simp
    · have hne : x.1 ≠ p := by
        intro e; apply hn.1; rw [e]; exact List.mem_map.2 ⟨(p, v), h', rfl⟩
      have : (x.1 == p) = false := by simpa using hne
      simp only [this]
      exact ih h' hn.2

/-- Any prefix of a strategy-sorted permutation of `l` (distinct peers) is a top-k of `l`. -/
theorem isTopK_of_sorted_prefix (d : Bool) (l s : List (Nat × Nat)) (m : Nat)
    (hperm : s.Perm l) (hsorted : s.Pairwise (fun a b => before d a.2 b.2 = true))
    (hn : (l.map (·.1)).Nodup) : isTopK d l ((s.map (·.1)).take m) = true := by
  have hsn : (s.map (·.1)).Nodup := (hperm.map _).nodup_iff.2 hn
  have htake : (s.map (·.1)).take m = (s.take m).map (·.1) := by rw [List.map_take]
  have hmem : ∀ q ∈ s, q ∈ l := fun q hq => hperm.mem_iff.1 hq
  have hlk : ∀ q ∈ s, lookupVal l q.1 = some q.2 := fun q hq => lookupVal_of_mem_nodup (hmem q hq) hn
  unfold isTopK
  simp only [Bool.and_eq_true, List.all_eq_true, decide_eq_true_eq, Bool.or_eq_true, List.contains_eq_mem]
  rw [htake]
  refine ⟨⟨⟨?_, ?_⟩, ?_⟩, ?_⟩
  · intro p hp
    obtain ⟨q, hq, rfl⟩ := List.mem_map.1 hp
    rw [hlk q (List.mem_of_mem_take hq)]; rfl
  · exact List.Nodup.sublist (List.Sublist.map _ (List.take_sublist m s)) hsn
  · -- adjacent pairs of the prefix are in strategy order
    intro pq hpq
    have hpw : ((s.take m).map (·.1)).Pairwise (fun a b =>
        ∃ x y, lookupVal l a = some x ∧ lookupVal l b = some y ∧ before d x y = true) := by
      rw [List.pairwise_map]
      refine List.Pairwise.imp_of_mem ?_ (List.Pairwise.sublist (List.take_sublist m s) hsorted)
      intro a b ha hb hab
      exact ⟨a.2, b.2, hlk a (List.mem_of_mem_take ha), hlk b (List.mem_of_mem_take hb), hab⟩
    -- zip l l.tail ⊆ pairs related by Pairwise
    have : ∀ (t : List Nat), t.Pairwise (fun a b =>
        ∃ x y, lookupVal l a = some x ∧ lookupVal l b = some y ∧ before d x y = true) →
        ∀ pq ∈ t.zip t.tail, ∃ x y, lookupVal l pq.1 = some x ∧ lookupVal l pq.2 = some y ∧ before d x y = true := by
      intro t
      induction t with
      | nil => intro _ pq h; simp at h
      | cons a t ih =>
        intro hp pq h
        rw [List.pairwise_cons] at hp
        cases t with
        | nil => simp at h
        | cons b t' =>
          simp only [List.tail_cons, List.zip_cons_cons, List.mem_cons] at h
          rcases h with rfl | h
          · exact hp.1 b (by simp)
          · exact ih hp.2 pq (by simpa using h)
    obtain ⟨x, y, hx, hy, hb⟩ := this _ hpw pq hpq
    rw [hx, hy]; exact hb
  · intro p hp q hq
    obtain ⟨a, ha, rfl⟩ := List.mem_map.1 hp
    by_cases hin : q.1 ∈ (s.take m).map (·.1)
    · exact Or.inl hin
    · right
      rw [hlk a (List.mem_of_mem_take ha)]
      -- q is in s but not in the prefix, hence in the suffix, hence after a
      have hqs : q ∈ s := hperm.mem_iff.2 hq
      have hq' : q ∈ s.take m ++ s.drop m := by rw [List.take_append_drop]; exact hqs
      rcases List.mem_append.1 hq' with h | h
      · exact absurd (List.mem_map.2 ⟨q, h, rfl⟩) hin
      · have hs : (s.take m ++ s.drop m).Pairwise (fun a b => before d a.2 b.2 = true) := by
          rw [List.take_append_drop]; exact hsorted
        rw [List.pairwise_append] at hs
        exact hs.2.2 a ha q h


theorem sortNumeric_length (d : Bool) (l : List (Nat × MState)) : (sortNumeric d l).length = (numerics l).length := by
  unfold sortNumeric; rw [List.length_map, (sortBy_perm d _).length_eq]

theorem sortNumeric_topK (d : Bool) (l : List (Nat × MState)) (m : Nat)
    (hn : ((numerics l).map (·.1)).Nodup) : isTopK d (numerics l) ((sortNumeric d l).take m) = true := by
  unfold sortNumeric
  exact isTopK_of_sorted_prefix d (numerics l) (sortBy d (numerics l)) m (sortBy_perm d _) (sortBy_sorted d _) hn

theorem take_take_append_left {α} (A B : List α) (k : Nat) :
    ((A ++ B).take k).take (min k A.length) = A.take (min k A.length) := by
  rw [List.take_take, List.take_append_of_le_length]
  · congr 1; omega
  · omega

theorem drop_take_append_left {α} (A B : List α) (k : Nat) :
    ((A ++ B).take k).drop (min k A.length) = B.take (k - A.length) := by
  by_cases h : k ≤ A.length
  · have : min k A.length = k := Nat.min_eq_left h
    rw [this, List.take_append_of_le_length h]
    have hz : k - A.length = 0 := by omega
    rw [hz, List.take_zero]
    rw [List.drop_eq_nil_iff]; rw [List.length_take]; omega
  · have hk : A.length ≤ k := by omega
    have : min k A.length = A.length := Nat.min_eq_right hk
    rw [this, List.take_append, List.drop_append]
    have h1 : List.drop A.length (List.take k A) = [] := by
      rw [List.drop_eq_nil_iff, List.length_take]; omega
    have h2 : A.length - (List.take k A).length = 0 := by rw [List.length_take]; omega
    rw [h1, h2, List.drop_zero, List.nil_append]

/-- The deterministic model is one of the outputs the relation admits (so the relation is
    inhabited on every well-formed input). -/
theorem allocate_allowed_aux (i : Input) (hw : wf i = true) : allowed i (allocate i) = true := by
  unfold allowed allocate
  by_cases h1 : (i.rmin + i.rmax == 0) = true
  · simp [h1]
  · simp only [h1, Bool.false_eq_true, if_false]
    by_cases h2 : (decide (i.rmin < 0) && decide (i.rmax < 0)) = true
    · simp [h2]
    · simp only [h2, Bool.false_eq_true, if_false]
      by_cases hwant : i.rmax - ((curIds i).length : Int) < 0
      · simp only [hwant, if_true]
        by_cases hp : ((curIds i).length : Int) + (i.rmax - ((curIds i).length : Int)) < 0
        · simp [hp]
        · simp only [hp, if_false, Output.okWith, okTrunc_iff]
          refine ⟨?_, List.Nodup.sublist (List.take_sublist _ _) (nodup_curIds hw), fun p hp' => List.mem_of_mem_take hp'⟩
          rw [List.length_take]; omega
      · simp only [hwant, if_false]
        by_cases hneed : i.rmin - ((curIds i).length : Int) ≤ 0
        · simp [hneed]
        · simp only [hneed, if_false]
          by_cases hfew : (((priM i).length : Int) + ((candM i).length : Int)) < i.rmin - ((curIds i).length : Int)
          · simp [hfew]
          · simp only [hfew, if_false, List.length_append, sortNumeric_length]
            by_cases hnum : (((numerics (priM i)).length + (numerics (candM i)).length : Nat) : Int) < i.rmin - ((curIds i).length : Int)
            · have hnum' : ((numerics (priM i)).length : Int) + ((numerics (candM i)).length : Int)
                  < i.rmin - ((curIds i).length : Int) := by push_cast at hnum; exact hnum
              simp [hnum, hnum']
            · have hnum' : ¬ (((numerics (priM i)).length : Int) + ((numerics (candM i)).length : Int)
                  < i.rmin - ((curIds i).length : Int)) := by push_cast at hnum; exact hnum
              simp only [hnum, hnum', Int.natCast_add, if_false, Output.okWith, okAlloc_iff]
              have hlen : (sortNumeric i.desc (priM i) ++ sortNumeric i.desc (candM i)).length
                  = (numerics (priM i)).length + (numerics (candM i)).length := by
                rw [List.length_append, sortNumeric_length, sortNumeric_length]
              have hA : (sortNumeric i.desc (priM i)).length = (numerics (priM i)).length := sortNumeric_length _ _
              refine ⟨?_, ?_, ?_, ?_⟩
              · rw [List.take_left' rfl]
              · rw [List.drop_left' rfl, List.length_take, hlen]; omega
              · rw [List.drop_left' rfl, ← hA, take_take_append_left]
                exact sortNumeric_topK _ _ _ (priNum_ids_nodup hw)
              · rw [List.drop_left' rfl, ← hA, drop_take_append_left]
                exact sortNumeric_topK _ _ _ (candNum_ids_nodup hw)

end CV.C03
