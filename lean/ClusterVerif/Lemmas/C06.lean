import ClusterVerif.Spec.C06
import ClusterVerif.Gen.C06

/-! Helper lemmas for Props/C06. -/
namespace CV.C06

end CV.C06
