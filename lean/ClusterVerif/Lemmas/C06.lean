import ClusterVerif.Spec.C06
import ClusterVerif.Gen.C06

/-! Helper lemmas for Props/C06. -/
namespace CV.C06

theorem matchF_comm (a b : Nat) : matchF a b = matchF b a := by
  unfold matchF
  rw [Nat.and_comm a b]
  cases h1 : (a == 0) <;> cases h2 : (b == 0) <;> simp

theorem matchF_zero (s : Nat) : matchF s 0 = true := by simp [matchF]

theorem land_zero_of_sub {f a b : Nat} (h : f &&& (a ||| b) = 0) : f &&& a = 0 ∧ f &&& b = 0 := by
  rw [Nat.and_or_distrib_left] at h
  exact Nat.or_eq_zero_iff.mp h

theorem not_match_of_mask {f m v w : Nat} (hm : m = v ||| w) (hv : v ≠ 0) (h : matchF f m = false) :
    matchF v f = false := by
  unfold matchF at h ⊢
  simp only [Bool.or_eq_false_iff, beq_eq_false_iff_ne, decide_eq_false_iff_not, Nat.not_lt, Nat.le_zero] at h ⊢
  obtain ⟨⟨h1, h2⟩, h3⟩ := h
  subst hm
  have := (land_zero_of_sub h3).1
  refine ⟨⟨h2, hv⟩, ?_⟩
  rw [Nat.and_comm]; exact this

/-- statuses the pinset/IPFS join can produce, each inside `maskState` -/
theorem state_mask_sharded : maskState = stSharded ||| (stPinned ||| stUnexpectedlyUnpinned ||| stRemote) := by decide
theorem state_mask_remote : maskState = stRemote ||| (stPinned ||| stUnexpectedlyUnpinned ||| stSharded) := by decide
theorem state_mask_pinned : maskState = stPinned ||| (stUnexpectedlyUnpinned ||| stSharded ||| stRemote) := by decide
theorem state_mask_uu : maskState = stUnexpectedlyUnpinned ||| (stPinned ||| stSharded ||| stRemote) := by decide
theorem ipfs_mask_pinned : maskIpfs = stPinned ||| stUnexpectedlyUnpinned := by decide
theorem ipfs_mask_uu : maskIpfs = stUnexpectedlyUnpinned ||| stPinned := by decide

theorem ipfsListing_pinned {d : Bool} {h : Ipfs} {s : IpfsStatus} (hs : ipfsListing d h = some s) : ipfsToTracker s = stPinned := by
  cases h <;> cases d <;> simp [ipfsListing, pinLs] at hs <;> subst hs <;> rfl

theorem localEntry_zero (i : Input) (r : Rec) :
    localEntry i true 0 r =
      match r.pin with
      | none => none
      | some p => if p.isMeta then some stSharded else if p.isRemote i.self then some stRemote
                  else match ipfsListing p.direct r.ipfs with
                       | some ips => some (ipfsToTracker ips)
                       | none => some stUnexpectedlyUnpinned := by
  unfold localEntry
  simp [wantState, wantIpfs, matchF]
  rfl

/-- the short-cuts of `localStatus` only drop entries the final `Match` would drop -/
theorem localEntry_filter (i : Input) (f : Nat) (r : Rec) :
    (localEntry i true f r).filter (fun s => matchF s f) = (localEntry i true 0 r).filter (fun s => matchF s f) := by
  rw [localEntry_zero]
  unfold localEntry
  cases hp : r.pin with
  | none => simp
  | some p =>
    by_cases hws : wantState f = true
    · simp only [hws, Bool.not_true, Bool.false_eq_true, ↓reduceIte, Bool.false_or]
      by_cases hm : p.isMeta = true
      · simp only [hm, ↓reduceIte]
        rw [matchF_comm f stSharded]
        cases hx : matchF stSharded f <;> simp [Option.filter, hx]
      · simp only [hm, Bool.false_eq_true, ↓reduceIte]
        by_cases hr : p.isRemote i.self = true
        · simp only [hr, ↓reduceIte]
          rw [matchF_comm f stRemote]
          cases hx : matchF stRemote f <;> simp [Option.filter, hx]
        · simp only [hr, Bool.false_eq_true, ↓reduceIte]
          by_cases hwi : wantIpfs f = true
          · simp only [hwi, ↓reduceIte]
            rfl
          · have hwi' : matchF f maskIpfs = false := by simpa [wantIpfs] using hwi
            have h1 := not_match_of_mask ipfs_mask_pinned (by decide) hwi'
            have h2 := not_match_of_mask ipfs_mask_uu (by decide) hwi'
            simp only [hwi, Bool.false_eq_true, ↓reduceIte]
            cases hl : ipfsListing p.direct r.ipfs with
            | none => simp [Option.filter, h2]
            | some s => simp [Option.filter, h2, ipfsListing_pinned hl, h1]
    · have hws' : matchF f maskState = false := by simpa [wantState] using hws
      have h1 := not_match_of_mask state_mask_sharded (by decide) hws'
      have h2 := not_match_of_mask state_mask_remote (by decide) hws'
      have h3 := not_match_of_mask state_mask_pinned (by decide) hws'
      have h4 := not_match_of_mask state_mask_uu (by decide) hws'
      simp only [hws, Bool.not_false, ↓reduceIte]
      by_cases hm : p.isMeta = true
      · simp [hm, Option.filter, h1]
      · by_cases hr : p.isRemote i.self = true
        · simp [hm, hr, Option.filter, h2]
        · cases hl : ipfsListing p.direct r.ipfs with
          | none => simp [hm, hr, Option.filter, h4]
          | some s => simp [hm, hr, Option.filter, ipfsListing_pinned hl, h3]


theorem filter_match_zero (e : Option Nat) : e.filter (fun s => matchF s 0) = e := by
  cases e <;> simp [Option.filter, matchF_zero]

theorem listEntry_zero (i : Input) (r : Rec) (hup : i.ipfsUp = true) :
    listEntry i 0 r = match opEntry r with
      | some s => some s
      | none => localEntry i true 0 r := by
  unfold listEntry
  simp only [hup, Bool.not_true, Bool.and_false, Bool.false_eq_true, ↓reduceIte]
  exact filter_match_zero _

/-- per CID: the filtered listing's entry is the unfiltered entry if it matches -/
theorem listEntry_filter (i : Input) (f : Nat) (r : Rec) (hup : i.ipfsUp = true) :
    listEntry i f r = (listEntry i 0 r).filter (fun s => matchF s f) := by
  rw [listEntry_zero i r hup]
  unfold listEntry
  simp only [hup, Bool.not_true, Bool.and_false, Bool.false_eq_true, ↓reduceIte]
  cases opEntry r with
  | some s => rfl
  | none => exact localEntry_filter i f r

theorem map_filter_pair (c f : Nat) (e : Option Nat) :
    (e.filter (fun s => matchF s f)).map (fun s => (c, s)) =
      (e.map (fun s => (c, s))).filter (fun x => matchF x.2 f) := by
  cases e with
  | none => rfl
  | some s => cases h : matchF s f <;> simp [Option.filter, h]

theorem statusAll_filter (i : Input) (f : Nat) (hup : i.ipfsUp = true) :
    statusAll i f = (statusAll i 0).filter (fun e => matchF e.2 f) := by
  unfold statusAll
  rw [List.filter_filterMap]
  congr 1
  funext r
  rw [listEntry_filter i f r hup, map_filter_pair]


/-! ### the universe is a set: looking a CID up in a listing -/

theorem sortedCids_pairwise : ∀ {l : List Rec}, sortedCids l = true → l.Pairwise (fun a b => a.cid < b.cid)
  | [], _ => List.Pairwise.nil
  | [a], _ => List.pairwise_singleton _ a
  | a :: b :: t, h => by
    simp only [sortedCids, Bool.and_eq_true, decide_eq_true_eq] at h
    have ih := sortedCids_pairwise h.2
    refine List.Pairwise.cons ?_ ih
    intro x hx
    rcases List.mem_cons.mp hx with rfl | hx
    · exact h.1
    · exact Nat.lt_trans h.1 (List.rel_of_pairwise_cons ih hx)

/-- entries of a per-CID enumeration -/
def enum (g : Rec → Option Nat) (l : List Rec) : List (Nat × Nat) :=
  l.filterMap (fun r => (g r).map (fun s => (r.cid, s)))

theorem lookup_enum_none (g : Rec → Option Nat) (c : Nat) :
    ∀ (l : List Rec), (∀ x ∈ l, x.cid ≠ c) → lookup (enum g l) c = none
  | [], _ => rfl
  | a :: t, h => by
    have ih := lookup_enum_none g c t (fun x hx => h x (List.mem_cons_of_mem _ hx))
    have ha : a.cid ≠ c := h a List.mem_cons_self
    unfold enum at ih ⊢
    rw [List.filterMap_cons]
    cases hg : g a with
    | none => simpa [hg] using ih
    | some s =>
      simp only [hg, Option.map_some]
      unfold lookup at ih ⊢
      rw [List.find?_cons]
      have : ((a.cid, s).1 == c) = false := by simpa using ha
      simp only [this]
      exact ih

theorem lookup_enum (g : Rec → Option Nat) :
    ∀ {l : List Rec}, l.Pairwise (fun a b => a.cid < b.cid) → ∀ r ∈ l, lookup (enum g l) r.cid = g r
  | [], _, r, hr => by cases hr
  | a :: t, hp, r, hr => by
    have hp' := List.pairwise_cons.mp hp
    unfold enum
    rw [List.filterMap_cons]
    rcases List.mem_cons.mp hr with rfl | hr'
    · cases hg : g r with
      | none =>
        simp only [hg, Option.map_none]
        exact lookup_enum_none g r.cid t (fun x hx => Nat.ne_of_gt (hp'.1 x hx))
      | some s =>
        simp [hg, lookup, List.find?_cons]
    · have hne : a.cid ≠ r.cid := Nat.ne_of_lt (hp'.1 r hr')
      have ih := lookup_enum g hp'.2 r hr'
      unfold enum at ih
      cases hg : g a with
      | none => simpa [hg] using ih
      | some s =>
        simp only [hg, Option.map_some]
        unfold lookup at ih ⊢
        rw [List.find?_cons]
        have : ((a.cid, s).1 == r.cid) = false := by simpa using hne
        simp only [this]
        exact ih

theorem statusAll_eq_enum (i : Input) (f : Nat) : statusAll i f = enum (listEntry i f) i.recs := rfl

theorem statusEach_eq_enum (i : Input) : statusEach i = enum (fun r => some (status i r)) i.recs := by
  unfold statusEach enum
  rw [show (fun r : Rec => Option.map (fun s => (r.cid, s)) (some (status i r))) =
      (some ∘ fun r : Rec => (r.cid, status i r)) from rfl, List.filterMap_eq_map]

/-- the model's observations for a list of filters -/
def modelOut (i : Input) (fs : List Nat) : Output :=
  { each := statusEach i, lists := fs.map (fun f => (f, statusAll i f)) }

theorem list0_modelOut (i : Input) {fs : List Nat} (h0 : 0 ∈ fs) : list0 (modelOut i fs) = statusAll i 0 := by
  unfold list0 modelOut
  simp only
  induction fs with
  | nil => cases h0
  | cons f t ih =>
    rw [List.map_cons, List.find?_cons]
    by_cases hf : f = 0
    · subst hf; simp
    · have : ((f, statusAll i f).1 == 0) = false := by simpa using hf
      simp only [this]
      exact ih (by rcases List.mem_cons.mp h0 with h | h; exact absurd h.symm hf; exact h)

theorem viewS_modelOut (i : Input) (fs : List Nat) (hw : wf i = true) {r : Rec} (hr : r ∈ i.recs) :
    viewS (modelOut i fs) r = status i r := by
  unfold viewS modelOut
  simp only [statusEach_eq_enum]
  rw [lookup_enum _ (sortedCids_pairwise hw) r hr]
  rfl

theorem viewL_modelOut (i : Input) {fs : List Nat} (h0 : 0 ∈ fs) (hw : wf i = true) {r : Rec} (hr : r ∈ i.recs) :
    viewL (modelOut i fs) r = (listEntry i 0 r).getD stUnpinned := by
  unfold viewL
  rw [list0_modelOut i h0, statusAll_eq_enum, lookup_enum _ (sortedCids_pairwise hw) r hr]

/-! ### one CID: both views of the model against the facts -/

/-- the recorded K02 situation: expected here, IPFS does not hold the expected
pin, no entry in the operation table -/
def gap (i : Input) (r : Rec) : Bool := r.expectedHere i.self && !r.held && (opEntry r).isNone

def vS (i : Input) (r : Rec) : Nat := status i r
def vL (i : Input) (r : Rec) : Nat := (listEntry i 0 r).getD stUnpinned

/-- everything the statement says about one CID, for the model's two views -/
def recCheck (i : Input) (r : Rec) : Bool :=
  (gap i r || vS i r == vL i r) &&
  (vS i r == vL i r || (isErr (vS i r) && isErr (vL i r))) &&
  okKnown (vS i r) && okKnown (vL i r) &&
  (!r.consistent i.self ||
    (okPinned i r (vS i r) && okPinned i r (vL i r) && okRemote i r (vS i r) && okRemote i r (vL i r) &&
     okSharded i r (vS i r) && okSharded i r (vL i r) && okUnpinned i r (vS i r) && okUnpinned i r (vL i r) &&
     okError i r (vS i r) && okError i r (vL i r) && okPending i r (vS i r) && okPending i r (vL i r)))

theorem isRemote_eq_not_here (p : Pin) (s : Nat) : p.isRemote s = !p.here s := by
  unfold Pin.isRemote Pin.here Pin.everywhere
  cases (p.rmin == -1 && p.rmax == -1) <;> simp

theorem rec_check (i : Input) (r : Rec) (hup : i.ipfsUp = true) : recCheck i r = true := by
  rcases r with ⟨cid, pin, ipfs, op⟩
  unfold recCheck gap vS vL
  rw [listEntry_zero i _ hup, localEntry_zero]
  unfold status
  simp only [hup, Bool.not_true, Bool.false_eq_true, ↓reduceIte]
  cases pin with
  | none =>
    simp only [Rec.expectedHere, Rec.elsewhere, Rec.held, Rec.consistent, Rec.inPinset, Rec.isMetaPin,
      okPinned, okRemote, okSharded, okUnpinned, okError, okPending, Rec.settled, Rec.pending, Rec.failed, opEntry]
    rcases op with _ | ⟨t, ph⟩
    · cases ipfs <;> decide
    · cases t <;> cases ph <;> cases ipfs <;> decide
  | some p =>
    cases hm : p.isMeta <;> cases hh : p.here i.self <;> cases hd : (p.depth == 0) <;>
    simp only [Rec.expectedHere, Rec.elsewhere, Rec.held, Rec.consistent, Rec.inPinset, Rec.isMetaPin,
      okPinned, okRemote, okSharded, okUnpinned, okError, okPending, Rec.settled, Rec.pending, Rec.failed, opEntry,
      isRemote_eq_not_here, Pin.direct, pinLsCid, ipfsListing, hm, hh, hd, Option.isSome_some] <;>
    (rcases op with _ | ⟨t, ph⟩
     · cases ipfs <;> decide
     · cases t <;> cases ph <;> cases ipfs <;> decide)

/-! ### assembling the clauses for the model's output -/

theorem okKnown_ne_zero {s : Nat} (h : okKnown s = true) : s ≠ 0 := by
  intro h0; subst h0; revert h; decide

theorem matchF_eq_inFilter {s : Nat} (f : Nat) (hs : s ≠ 0) : matchF s f = inFilter s f := by
  unfold matchF inFilter
  have h1 : (s == 0) = false := by simpa using hs
  by_cases h2 : s &&& f = 0
  · simp [h1, h2]
  · have : 0 < s &&& f := Nat.pos_of_ne_zero h2
    simp [h1, h2, this]

theorem mem_enum {g : Rec → Option Nat} {l : List Rec} {e : Nat × Nat} (h : e ∈ enum g l) :
    ∃ r ∈ l, g r = some e.2 ∧ r.cid = e.1 := by
  unfold enum at h
  obtain ⟨r, hr, hg⟩ := List.mem_filterMap.mp h
  cases hgr : g r with
  | none => simp [hgr] at hg
  | some s =>
    simp only [hgr, Option.map_some, Option.some.injEq] at hg
    subst hg
    exact ⟨r, hr, hgr, rfl⟩

theorem enum_pairwise (g : Rec → Option Nat) {l : List Rec} (h : l.Pairwise (fun a b => a.cid < b.cid)) :
    (enum g l).Pairwise (fun a b => a.1 < b.1) := by
  unfold enum
  refine List.Pairwise.filterMap _ ?_ h
  intro a a' hlt b hb b' hb'
  cases hga : g a with
  | none => simp [hga] at hb
  | some s =>
    cases hga' : g a' with
    | none => simp [hga'] at hb'
    | some s' =>
      simp only [hga, hga', Option.map_some, Option.some.injEq] at hb hb'
      subst hb; subst hb'
      exact hlt

theorem listingWf_of (i : Input) : ∀ (l : List (Nat × Nat)),
    (∀ e ∈ l, ∃ r ∈ i.recs, r.cid = e.1) → l.Pairwise (fun a b => a.1 < b.1) → listingWf i l = true
  | [], _, _ => rfl
  | [a], hm, _ => by
    obtain ⟨r, hr, hc⟩ := hm a List.mem_cons_self
    simp only [listingWf]
    exact List.any_eq_true.mpr ⟨r, hr, by simpa using hc⟩
  | a :: b :: t, hm, hp => by
    obtain ⟨r, hr, hc⟩ := hm a List.mem_cons_self
    have hp' := List.pairwise_cons.mp hp
    simp only [listingWf, Bool.and_eq_true, decide_eq_true_eq]
    refine ⟨⟨List.any_eq_true.mpr ⟨r, hr, by simpa using hc⟩, hp'.1 b List.mem_cons_self⟩, ?_⟩
    exact listingWf_of i (b :: t) (fun e he => hm e (List.mem_cons_of_mem _ he)) hp'.2

theorem listingWf_statusAll (i : Input) (f : Nat) (hw : wf i = true) : listingWf i (statusAll i f) = true := by
  rw [statusAll_eq_enum]
  refine listingWf_of i _ ?_ (enum_pairwise _ (sortedCids_pairwise hw))
  intro e he
  obtain ⟨r, hr, _, hc⟩ := mem_enum he
  exact ⟨r, hr, hc⟩

/-- every status of the unfiltered listing is a named one -/
theorem statusAll_zero_known (i : Input) (hup : i.ipfsUp = true) {e : Nat × Nat} (he : e ∈ statusAll i 0) :
    okKnown e.2 = true := by
  rw [statusAll_eq_enum] at he
  obtain ⟨r, _, hg, _⟩ := mem_enum he
  have h := rec_check i r hup
  simp only [recCheck, Bool.and_eq_true] at h
  have hk := h.1.2
  unfold vL at hk
  rw [hg] at hk
  exact hk

/-- the filter law in the Spec's own reading of "restricted to the filter" -/
theorem statusAll_filter_spec (i : Input) (f : Nat) (hup : i.ipfsUp = true) :
    statusAll i f = (statusAll i 0).filter (fun e => inFilter e.2 f) := by
  rw [statusAll_filter i f hup]
  apply List.filter_congr
  intro e he
  exact matchF_eq_inFilter f (okKnown_ne_zero (statusAll_zero_known i hup he))

theorem views_modelOut (i : Input) {fs : List Nat} (h0 : 0 ∈ fs) (hw : wf i = true) {r : Rec} (hr : r ∈ i.recs) :
    viewS (modelOut i fs) r = vS i r ∧ viewL (modelOut i fs) r = vL i r :=
  ⟨viewS_modelOut i fs hw hr, viewL_modelOut i h0 hw hr⟩

/-- all clauses but `views_agree`, for the model's output -/
theorem model_clauses (i : Input) (fs : List Nat) (hw : wf i = true) (h0 : 0 ∈ fs) :
    let o := modelOut i fs
    (i.recs.all (agreeErrClass i o) = true) ∧
    (bothViews i o okPinned = true) ∧ (bothViews i o okRemote = true) ∧ (bothViews i o okSharded = true) ∧
    (bothViews i o okUnpinned = true) ∧ (bothViews i o okError = true) ∧ (bothViews i o okPending = true) ∧
    (i.recs.all (fun r => !i.ipfsUp || (okKnown (viewS o r) && okKnown (viewL o r))) = true) ∧
    ((!i.ipfsUp || o.lists.all (filterLawFor o)) = true) ∧
    (o.lists.all (fun e => listingWf i e.2) = true) := by
  intro o
  have hwf : o.lists.all (fun e => listingWf i e.2) = true := by
    apply List.all_eq_true.mpr
    intro e he
    obtain ⟨f, _, rfl⟩ := List.mem_map.mp he
    exact listingWf_statusAll i f hw
  cases hup : i.ipfsUp with
  | false =>
    refine ⟨?_, ?_, ?_, ?_, ?_, ?_, ?_, ?_, ?_, hwf⟩ <;>
      first
        | (apply List.all_eq_true.mpr; intro r _; simp [agreeErrClass, quiescent, hup])
        | simp [hup]
  | true =>
    have key : ∀ r ∈ i.recs, viewS o r = vS i r ∧ viewL o r = vL i r ∧ recCheck i r = true :=
      fun r hr => ⟨(views_modelOut i h0 hw hr).1, (views_modelOut i h0 hw hr).2, rec_check i r hup⟩
    have both : ∀ (ok : Input → Rec → Nat → Bool),
        (∀ r, recCheck i r = true → r.consistent i.self = true → ok i r (vS i r) = true ∧ ok i r (vL i r) = true) →
        bothViews i o ok = true := by
      intro ok h
      apply List.all_eq_true.mpr
      intro r hr
      obtain ⟨h1, h2, h3⟩ := key r hr
      rw [h1, h2]
      cases hc : r.consistent i.self with
      | false => simp [quiescent, hc]
      | true =>
        obtain ⟨ha, hb⟩ := h r h3 hc
        simp [ha, hb]
    refine ⟨?_, ?_, ?_, ?_, ?_, ?_, ?_, ?_, ?_, hwf⟩
    · apply List.all_eq_true.mpr
      intro r hr
      obtain ⟨h1, h2, h3⟩ := key r hr
      unfold agreeErrClass
      rw [h1, h2]
      simp only [recCheck, Bool.and_eq_true] at h3
      simp only [hup, Bool.not_true, Bool.false_or]
      exact h3.1.1.1.2
    all_goals first
      | (apply both; intro r h3 hc
         simp only [recCheck, Bool.and_eq_true, Bool.or_eq_true, hc, Bool.not_true, Bool.false_eq_true, false_or] at h3
         first
           | exact ⟨h3.2.1.1.1.1.1.1.1.1.1.1.1, h3.2.1.1.1.1.1.1.1.1.1.1.2⟩
           | exact ⟨h3.2.1.1.1.1.1.1.1.1.1.2, h3.2.1.1.1.1.1.1.1.1.2⟩
           | exact ⟨h3.2.1.1.1.1.1.1.1.2, h3.2.1.1.1.1.1.1.2⟩
           | exact ⟨h3.2.1.1.1.1.1.2, h3.2.1.1.1.1.2⟩
           | exact ⟨h3.2.1.1.1.2, h3.2.1.1.2⟩
           | exact ⟨h3.2.1.2, h3.2.2⟩)
      | skip
    · apply List.all_eq_true.mpr
      intro r hr
      obtain ⟨h1, h2, h3⟩ := key r hr
      rw [h1, h2]
      simp only [recCheck, Bool.and_eq_true] at h3
      simp [h3.1.1.2, h3.1.2]
    · simp only [Bool.not_true, Bool.false_or]
      apply List.all_eq_true.mpr
      intro e he
      obtain ⟨f, _, rfl⟩ := List.mem_map.mp he
      unfold filterLawFor
      have : list0 o = statusAll i 0 := list0_modelOut i h0
      rw [this]
      simp only [beq_iff_eq]
      exact statusAll_filter_spec i f hup

/-! ### PeerMap as an association list -/

def keys (m : List (Nat × Nat)) : List Nat := m.map (·.1)

theorem peerOnce_iff_nodup : ∀ (m : List (Nat × Nat)), peerOnce m = true ↔ (keys m).Nodup
  | [] => by simp [peerOnce, keys]
  | e :: t => by
    have ih := peerOnce_iff_nodup t
    simp only [peerOnce, Bool.and_eq_true, Bool.not_eq_true', keys, List.map_cons, List.nodup_cons] at ih ⊢
    rw [ih]
    constructor
    · rintro ⟨h1, h2⟩
      refine ⟨?_, h2⟩
      intro hm
      obtain ⟨x, hx, hxe⟩ := List.mem_map.mp hm
      have : t.any (fun x => x.1 == e.1) = true := List.any_eq_true.mpr ⟨x, hx, by simp [hxe]⟩
      rw [h1] at this; cases this
    · rintro ⟨h1, h2⟩
      refine ⟨?_, h2⟩
      cases h : t.any (fun x => x.1 == e.1) with
      | false => rfl
      | true =>
        obtain ⟨x, hx, hxe⟩ := List.any_eq_true.mp h
        exact absurd (List.mem_map.mpr ⟨x, hx, by simpa using hxe⟩) h1

theorem lookup_eq_none_iff {m : List (Nat × Nat)} {q : Nat} : lookup m q = none ↔ q ∉ keys m := by
  unfold lookup keys
  induction m with
  | nil => simp
  | cons e t ih =>
    rw [List.find?_cons]
    by_cases h : e.1 = q
    · simp [h]
    · have : (e.1 == q) = false := by simpa using h
      simp only [this, List.map_cons, List.mem_cons, not_or]
      rw [ih]
      exact ⟨fun hh => ⟨fun h' => h h'.symm, hh⟩, fun hh => hh.2⟩

theorem any_key_iff {m : List (Nat × Nat)} {p : Nat} : m.any (fun e => e.1 == p) = true ↔ p ∈ keys m := by
  unfold keys
  rw [List.any_eq_true, List.mem_map]
  constructor
  · rintro ⟨x, hx, h⟩; exact ⟨x, hx, by simpa using h⟩
  · rintro ⟨x, hx, h⟩; exact ⟨x, hx, by simpa using h⟩

theorem keys_replace (m : List (Nat × Nat)) (p st : Nat) :
    keys (m.map (fun e => if e.1 == p then (p, st) else e)) = keys m := by
  unfold keys
  rw [List.map_map]
  apply List.map_congr_left
  intro e _
  by_cases h : e.1 = p
  · simp [h]
  · simp [h]

theorem lookup_replace (m : List (Nat × Nat)) (p st q : Nat) :
    lookup (m.map (fun e => if e.1 == p then (p, st) else e)) q =
      if q = p then (lookup m q).map (fun _ => st) else lookup m q := by
  unfold lookup
  induction m with
  | nil => simp
  | cons e t ih =>
    rw [List.map_cons, List.find?_cons, List.find?_cons]
    by_cases hep : e.1 = p
    · have h1 : (e.1 == p) = true := by simpa using hep
      simp only [h1, ↓reduceIte]
      by_cases hq : q = p
      · subst hq; simp [hep]
      · have h2 : (p == q) = false := by simpa using fun h => hq h.symm
        have h3 : (e.1 == q) = false := by rw [hep]; exact h2
        simp only [h2, h3]
        exact ih
    · have h1 : (e.1 == p) = false := by simpa using hep
      simp only [h1, Bool.false_eq_true, ↓reduceIte]
      by_cases heq : e.1 = q
      · have h2 : (e.1 == q) = true := by simpa using heq
        have : q ≠ p := fun h => hep (heq.trans h)
        simp [h2, this]
      · have h2 : (e.1 == q) = false := by simpa using heq
        simp only [h2]
        exact ih

theorem lookup_append_single (m : List (Nat × Nat)) (p st q : Nat) :
    lookup (m ++ [(p, st)]) q = match lookup m q with
      | some s => some s
      | none => if p = q then some st else none := by
  unfold lookup
  induction m with
  | nil => by_cases h : p = q <;> simp [h]
  | cons e t ih =>
    rw [List.cons_append, List.find?_cons, List.find?_cons]
    cases h : (e.1 == q) with
    | true => simp
    | false => simpa using ih

theorem keys_gAdd (m : List (Nat × Nat)) (p st : Nat) :
    keys (gAdd m p st) = if p ∈ keys m then keys m else keys m ++ [p] := by
  unfold gAdd
  by_cases h : p ∈ keys m
  · rw [if_pos (any_key_iff.mpr h), if_pos h, keys_replace]
  · have : ¬ (m.any (fun e => e.1 == p) = true) := fun h' => h (any_key_iff.mp h')
    rw [if_neg this, if_neg h]
    simp [keys]

theorem lookup_gAdd (m : List (Nat × Nat)) (p st q : Nat) :
    lookup (gAdd m p st) q = if q = p then some st else lookup m q := by
  unfold gAdd
  by_cases h : p ∈ keys m
  · rw [if_pos (any_key_iff.mpr h), lookup_replace]
    by_cases hq : q = p
    · subst hq
      cases hl : lookup m q with
      | none => exact absurd h (lookup_eq_none_iff.mp hl)
      | some s => simp
    · simp [hq]
  · have : ¬ (m.any (fun e => e.1 == p) = true) := fun h' => h (any_key_iff.mp h')
    rw [if_neg this, lookup_append_single]
    by_cases hq : q = p
    · subst hq
      rw [lookup_eq_none_iff.mpr h]
    · cases hl : lookup m q with
      | none =>
        have : ¬ p = q := fun h' => hq h'.symm
        simp [hq, this]
      | some s => simp [hq]

theorem peerOnce_gAdd {m : List (Nat × Nat)} (h : peerOnce m = true) (p st : Nat) : peerOnce (gAdd m p st) = true := by
  rw [peerOnce_iff_nodup] at h ⊢
  rw [keys_gAdd]
  by_cases hp : p ∈ keys m
  · rw [if_pos hp]; exact h
  · rw [if_neg hp]
    rw [List.nodup_append]
    refine ⟨h, by simp, ?_⟩
    intro a ha b hb
    simp only [List.mem_singleton] at hb
    subst hb
    exact fun hab => hp (hab ▸ ha)



/-! ### `setTrackerStatus` and the reply loop of `globalPinInfoCid` -/

theorem lookup_setAll (ps : List Nat) (st q : Nat) : ∀ (m : List (Nat × Nat)),
    lookup (setAll m ps st) q = if q ∈ ps then some st else lookup m q := by
  unfold setAll
  induction ps with
  | nil => intro m; simp
  | cons p t ih =>
    intro m
    rw [List.foldl_cons, ih, lookup_gAdd]
    by_cases h1 : q ∈ t
    · simp [h1]
    · by_cases h2 : q = p
      · simp [h2]
      · simp [h1, h2]

theorem peerOnce_setAll (ps : List Nat) (st : Nat) : ∀ {m : List (Nat × Nat)}, peerOnce m = true →
    peerOnce (setAll m ps st) = true := by
  unfold setAll
  induction ps with
  | nil => intro m h; exact h
  | cons p t ih => intro m h; rw [List.foldl_cons]; exact ih (peerOnce_gAdd h p st)

/-- one step of the reply loop -/
def replyStep (t : List (Nat × Reply Nat)) (m : List (Nat × Nat)) (p : Nat) : List (Nat × Nat) :=
  match replyOf t p with
  | .ok st => gAdd m p st
  | .auth => m
  | .err => gAdd m p stClusterError

/-- what a destination's answer makes of its entry -/
def replyVal (t : List (Nat × Reply Nat)) (p : Nat) (old : Option Nat) : Option Nat :=
  match replyOf t p with
  | .ok st => some st
  | .auth => old
  | .err => some stClusterError

theorem replyVal_idem (t : List (Nat × Reply Nat)) (p : Nat) (x : Option Nat) :
    replyVal t p (replyVal t p x) = replyVal t p x := by
  unfold replyVal; cases replyOf t p <;> rfl

theorem lookup_replyStep (t : List (Nat × Reply Nat)) (m : List (Nat × Nat)) (p q : Nat) :
    lookup (replyStep t m p) q = if q = p then replyVal t p (lookup m p) else lookup m q := by
  unfold replyStep replyVal
  cases replyOf t p with
  | ok st => rw [lookup_gAdd]
  | auth => by_cases h : q = p <;> simp [h]
  | err => rw [lookup_gAdd]

theorem lookup_replyLoop (t : List (Nat × Reply Nat)) (q : Nat) (ds : List Nat) : ∀ (m : List (Nat × Nat)),
    lookup (ds.foldl (replyStep t) m) q = if q ∈ ds then replyVal t q (lookup m q) else lookup m q := by
  induction ds with
  | nil => intro m; simp
  | cons p ps ih =>
    intro m
    rw [List.foldl_cons, ih, lookup_replyStep]
    by_cases h1 : q = p
    · subst h1
      by_cases h2 : q ∈ ps
      · simp [h2, replyVal_idem]
      · simp [h2]
    · by_cases h2 : q ∈ ps
      · simp [h1, h2]
      · simp [h1, h2]

theorem peerOnce_replyLoop (t : List (Nat × Reply Nat)) (ds : List Nat) : ∀ {m : List (Nat × Nat)},
    peerOnce m = true → peerOnce (ds.foldl (replyStep t) m) = true := by
  induction ds with
  | nil => intro m h; exact h
  | cons p ps ih =>
    intro m h
    rw [List.foldl_cons]
    apply ih
    unfold replyStep
    cases replyOf t p with
    | ok st => exact peerOnce_gAdd h p st
    | auth => exact h
    | err => exact peerOnce_gAdd h p _

theorem globalCid_some (i : GCidInput) (pin : Pin) (h : i.pin = some pin) :
    globalCid i = (destsOf i pin).1.foldl (replyStep i.replies) (setAll [] (destsOf i pin).2 stRemote) := by
  unfold globalCid
  rw [h]
  rfl

/-- a peer appears at most once per CID -/
theorem globalCid_once (i : GCidInput) : peerOnce (globalCid i) = true := by
  cases h : i.pin with
  | none =>
    unfold globalCid; rw [h]
    exact peerOnce_setAll _ _ rfl
  | some pin =>
    rw [globalCid_some i pin h]
    exact peerOnce_replyLoop _ _ (peerOnce_setAll _ _ rfl)

theorem mem_keys_of_lookup {m : List (Nat × Nat)} {e : Nat × Nat} (h : e ∈ m) : lookup m e.1 ≠ none := by
  intro hn
  exact (lookup_eq_none_iff.mp hn) (List.mem_map.mpr ⟨e, h, rfl⟩)

theorem lookup_nil (q : Nat) : lookup [] q = none := rfl

theorem gc_holds_all (i : GCidInput) : gcHolds i (globalCid i) = true := by
  unfold gcHolds gcClauses
  by_cases hf : i.follower = true
  · simp [hf, globalCid_once]
  · have hf' : i.follower = false := by simpa using hf
    simp only [hf', Bool.false_eq_true, ↓reduceIte]
    cases hp : i.pin with
    | none =>
      have hg : globalCid i = setAll [] i.members stUnpinned := by
        unfold globalCid; rw [hp]; simp [hf']
      simp only [List.all_cons, List.all_nil, Bool.and_true, Bool.and_eq_true]
      refine ⟨globalCid_once i, ?_, ?_⟩
      · apply List.all_eq_true.mpr
        intro p hpm
        rw [hg, lookup_setAll]
        simp [hpm]
      · apply List.all_eq_true.mpr
        intro e he
        have := mem_keys_of_lookup he
        rw [hg, lookup_setAll] at this
        by_cases hm : e.1 ∈ i.members
        · simpa using hm
        · simp [hm, lookup_nil] at this
    | some pin =>
      simp only [List.all_cons, List.all_nil, Bool.and_true, Bool.and_eq_true]
      have hl : ∀ q, lookup (globalCid i) q =
          if q ∈ (destsOf i pin).1 then replyVal i.replies q (if q ∈ (destsOf i pin).2 then some stRemote else none)
          else (if q ∈ (destsOf i pin).2 then some stRemote else none) := by
        intro q
        rw [globalCid_some i pin hp, lookup_replyLoop, lookup_setAll, lookup_nil]
      have hd : destsOf i pin = (allocatedPeers i.members pin,
          if pin.everywhere then [] else peersSubtract i.members pin.allocs) := by
        unfold destsOf allocatedPeers Pin.everywhere
        cases (pin.rmin == -1 && pin.rmax == -1) <;> simp [hf']
      rw [hd] at hl
      simp only at hl
      refine ⟨globalCid_once i, ?_, ?_, ?_⟩
      · apply List.all_eq_true.mpr
        intro p hpa
        rw [hl p]
        simp only [hpa, ↓reduceIte]
        have hnot : ¬ p ∈ (if pin.everywhere then [] else peersSubtract i.members pin.allocs) := by
          cases he : pin.everywhere with
          | true => simp
          | false =>
            have : allocatedPeers i.members pin = pin.allocs := by
              unfold allocatedPeers; unfold Pin.everywhere at he; simp [he]
            rw [this] at hpa
            simp [peersSubtract, hpa]
        unfold replyVal
        cases replyOf i.replies p with
        | ok st => simp
        | err => simp
        | auth => simp [hnot]
      · apply List.all_eq_true.mpr
        intro p hpm
        by_cases hpa : p ∈ allocatedPeers i.members pin
        · simp [hpa]
        · rw [hl p]
          have hev : pin.everywhere = false := by
            cases he : pin.everywhere with
            | false => rfl
            | true =>
              exfalso; apply hpa
              unfold allocatedPeers; unfold Pin.everywhere at he; simp [he, hpm]
          have : allocatedPeers i.members pin = pin.allocs := by
            unfold allocatedPeers; unfold Pin.everywhere at hev; simp [hev]
          have hin : p ∈ peersSubtract i.members pin.allocs := by
            rw [this] at hpa
            simp [peersSubtract, hpm, hpa]
          simp [hpa, hev, hin]
      · apply List.all_eq_true.mpr
        intro e he
        have hne := mem_keys_of_lookup he
        rw [hl e.1] at hne
        by_cases hpa : e.1 ∈ allocatedPeers i.members pin
        · simp [hpa]
        · simp only [hpa, ↓reduceIte] at hne
          cases hev : pin.everywhere with
          | true => simp [hev] at hne
          | false =>
            simp only [hev, Bool.false_eq_true, ↓reduceIte] at hne
            by_cases hin : e.1 ∈ peersSubtract i.members pin.allocs
            · have : e.1 ∈ i.members := by
                simp [peersSubtract] at hin; exact hin.1
              simp [this]
            · simp [hin] at hne

/-! ### `globalPinInfoSlice`: CIDs once, peers once per CID -/

def ckeys (m : List (Nat × List (Nat × Nat))) : List Nat := m.map (·.1)

/-- every CID once, and every peer once per CID -/
def sliceInv (m : List (Nat × List (Nat × Nat))) : Prop :=
  (ckeys m).Nodup ∧ ∀ e ∈ m, peerOnce e.2 = true

theorem sAdd_inv {m : List (Nat × List (Nat × Nat))} (h : sliceInv m) (c p st : Nat) : sliceInv (sAdd m c p st) := by
  unfold sAdd
  by_cases hc : m.any (fun e => e.1 == c) = true
  · rw [if_pos hc]
    constructor
    · have : ckeys (m.map (fun e => if e.1 == c then (c, gAdd e.2 p st) else e)) = ckeys m := by
        unfold ckeys
        rw [List.map_map]
        apply List.map_congr_left
        intro e _
        by_cases he : e.1 = c <;> simp [he]
      rw [this]; exact h.1
    · intro e he
      obtain ⟨x, hx, rfl⟩ := List.mem_map.mp he
      by_cases hxc : x.1 = c
      · simp only [hxc, beq_self_eq_true, ↓reduceIte]
        exact peerOnce_gAdd (h.2 x hx) p st
      · have : (x.1 == c) = false := by simpa using hxc
        simp only [this, Bool.false_eq_true, ↓reduceIte]
        exact h.2 x hx
  · rw [if_neg hc]
    constructor
    · have hnot : c ∉ ckeys m := by
        intro hm
        obtain ⟨x, hx, hxc⟩ := List.mem_map.mp hm
        exact hc (List.any_eq_true.mpr ⟨x, hx, by simpa using hxc⟩)
      unfold ckeys
      rw [List.map_append, List.nodup_append]
      refine ⟨h.1, by simp, ?_⟩
      intro a ha b hb
      simp only [List.map_cons, List.map_nil, List.mem_singleton] at hb
      subst hb
      exact fun hab => hnot (hab ▸ ha)
    · intro e he
      rcases List.mem_append.mp he with he | he
      · exact h.2 e he
      · simp only [List.mem_singleton] at he
        subst he
        exact peerOnce_gAdd (m := []) rfl p st

theorem sliceInv_report (p : Nat) (l : List (Nat × Nat)) : ∀ {m : List (Nat × List (Nat × Nat))}, sliceInv m →
    sliceInv (l.foldl (fun m e => sAdd m e.1 p e.2) m) := by
  induction l with
  | nil => intro m h; exact h
  | cons e t ih => intro m h; rw [List.foldl_cons]; exact ih (sAdd_inv h e.1 p e.2)

theorem sliceInv_members (t : List (Nat × Reply (List (Nat × Nat)))) (ms : List Nat) :
    ∀ {m : List (Nat × List (Nat × Nat))}, sliceInv m →
    sliceInv (ms.foldl (fun m p =>
      match replyOf t p with
      | .ok l => l.foldl (fun m e => sAdd m e.1 p e.2) m
      | _ => m) m) := by
  induction ms with
  | nil => intro m h; exact h
  | cons p ps ih =>
    intro m h
    rw [List.foldl_cons]
    apply ih
    cases replyOf t p with
    | ok l => exact sliceInv_report p l h
    | err => exact h
    | auth => exact h

theorem sliceInv_errors (ps : List Nat) : ∀ {m : List (Nat × List (Nat × Nat))}, sliceInv m →
    sliceInv (ps.foldl (fun m p => m.map (fun e => (e.1, gAdd e.2 p stClusterError))) m) := by
  induction ps with
  | nil => intro m h; exact h
  | cons p t ih =>
    intro m h
    rw [List.foldl_cons]
    apply ih
    constructor
    · have : ckeys (m.map (fun e => (e.1, gAdd e.2 p stClusterError))) = ckeys m := by
        unfold ckeys; rw [List.map_map]; rfl
      rw [this]; exact h.1
    · intro e he
      obtain ⟨x, hx, rfl⟩ := List.mem_map.mp he
      exact peerOnce_gAdd (h.2 x hx) p _

theorem globalSlice_inv (i : GSliceInput) : sliceInv (globalSlice i) := by
  unfold globalSlice
  exact sliceInv_errors _ (sliceInv_members _ _ ⟨List.nodup_nil, fun _ h => by cases h⟩)

theorem peerOnce_cids (m : List (Nat × List (Nat × Nat))) :
    peerOnce (m.map (fun e => (e.1, 0))) = true ↔ (ckeys m).Nodup := by
  rw [peerOnce_iff_nodup]
  unfold keys ckeys
  rw [List.map_map]
  rfl


/-! ### the Prop-level reading of the per-CID clauses -/

theorem truthful_views (i : Input) (r : Rec) (hup : i.ipfsUp = true) (hc : r.consistent i.self = true) :
    ∀ v, (v = status i r ∨ v = (listEntry i 0 r).getD stUnpinned) →
      (r.settled = true →
        (v = stPinned ↔ (r.expectedHere i.self = true ∧ r.held = true)) ∧
        (v = stRemote ↔ r.elsewhere i.self = true) ∧
        (v = stSharded ↔ r.isMetaPin = true) ∧
        (v = stUnpinned ↔ r.inPinset = false) ∧
        (isErr v = true ↔ (r.expectedHere i.self = true ∧ r.held = false))) ∧
      (r.failed = true → isErr v = true) ∧
      (v = stPinQueued → r.op = some ⟨.pin, .queued⟩) ∧ (v = stPinning → r.op = some ⟨.pin, .inProgress⟩) ∧
      (v = stUnpinQueued → r.op = some ⟨.unpin, .queued⟩) ∧ (v = stUnpinning → r.op = some ⟨.unpin, .inProgress⟩) := by
  have h := rec_check i r hup
  simp only [recCheck, Bool.and_eq_true, Bool.or_eq_true, hc, Bool.not_true, Bool.false_eq_true, false_or] at h
  obtain ⟨-, ⟨⟨⟨⟨⟨⟨⟨⟨⟨⟨⟨p1, p2⟩, r1⟩, r2⟩, s1⟩, s2⟩, u1⟩, u2⟩, e1⟩, e2⟩, q1⟩, q2⟩⟩ := h
  intro v hv
  have key : okPinned i r v = true ∧ okRemote i r v = true ∧ okSharded i r v = true ∧ okUnpinned i r v = true ∧
      okError i r v = true ∧ okPending i r v = true := by
    rcases hv with rfl | rfl
    · exact ⟨p1, r1, s1, u1, e1, q1⟩
    · exact ⟨p2, r2, s2, u2, e2, q2⟩
  obtain ⟨kp, kr, ks, ku, ke, kq⟩ := key
  clear p1 p2 r1 r2 s1 s2 u1 u2 e1 e2 q1 q2 hv
  unfold okPinned at kp; unfold okRemote at kr; unfold okSharded at ks; unfold okUnpinned at ku
  unfold okError at ke; unfold okPending at kq
  refine ⟨?_, ?_, ?_⟩
  · intro hs
    have hnf : r.failed = false := by
      simp only [Rec.settled, Bool.and_eq_true, Bool.not_eq_true'] at hs; exact hs.2
    have hnp : r.pending = false := by
      simp only [Rec.settled, Bool.and_eq_true, Bool.not_eq_true'] at hs; exact hs.1
    rw [hs] at kp kr ks ku
    rw [hnf, hnp] at ke
    refine ⟨?_, ?_, ?_, ?_, ?_⟩
    · cases h1 : r.expectedHere i.self <;> cases h2 : r.held <;> by_cases hv : v = stPinned <;> simp_all
    · cases h1 : r.elsewhere i.self <;> by_cases hv : v = stRemote <;> simp_all
    · cases h1 : r.isMetaPin <;> by_cases hv : v = stSharded <;> simp_all
    · cases h1 : r.inPinset <;> by_cases hv : v = stUnpinned <;> simp_all
    · cases h1 : r.expectedHere i.self <;> cases h2 : r.held <;> cases h3 : isErr v <;> simp_all
  · intro hf
    rw [hf] at ke
    cases h3 : isErr v <;> simp_all
  · refine ⟨?_, ?_, ?_, ?_⟩ <;> intro hv <;> subst hv <;> simp_all [stPinQueued, stPinning, stUnpinQueued, stUnpinning]

end CV.C06
