import ClusterVerif.Lemmas.C13
/-! A successful `Add` leaves the block accepted by at least one destination; the log only grows. -/
namespace CV.C13
open CV

/-- the log of `e'` extends the log of `e` (newest first) -/
def LogExt (e e' : Env) : Prop := ∃ l, e'.log = l ++ e.log

theorem LogExt.refl (e : Env) : LogExt e e := ⟨[], rfl⟩
theorem LogExt.trans {a b d : Env} (h1 : LogExt a b) (h2 : LogExt b d) : LogExt a d := by
  obtain ⟨l1, e1⟩ := h1; obtain ⟨l2, e2⟩ := h2
  exact ⟨l2 ++ l1, by rw [e2, e1, List.append_assoc]⟩
theorem LogExt.of_eq {e e' : Env} (h : e'.log = e.log) : LogExt e e' := ⟨[], by simp [h]⟩

theorem acceptedBy_ext {e e' : Env} (h : LogExt e e') (id : Nat) (ha : acceptedBy e.log id = true) :
    acceptedBy e'.log id = true := by
  obtain ⟨l, hl⟩ := h
  simp only [acceptedBy, hl, List.any_append, Bool.or_eq_true] at ha ⊢
  exact Or.inr ha

theorem ext_putRound (c : Cfg) (e : Env) (d : List Nat) (b : Nat) : LogExt e (putRound c e d b).1 := by
  unfold putRound; simp only
  split_ifs
  all_goals first | exact ⟨[], rfl⟩ | exact ⟨[_], rfl⟩

theorem ext_allocate (c : Cfg) (e : Env) : LogExt e (allocate c e).1 := by
  unfold allocate; simp only; split_ifs <;> exact ⟨[_], rfl⟩

theorem ext_pinCall (c : Cfg) (e : Env) (p : Pin) : LogExt e (pinCall c e p).1 := by
  unfold pinCall; exact ⟨[_], rfl⟩

theorem ext_putMany (c : Cfg) : ∀ (ns : List Node) (e : Env) (d : List Nat), LogExt e (putMany c e d ns).1
  | [], e, d => by simpa [putMany] using LogExt.refl e
  | n :: ns, e, d => by
    unfold putMany; simp only
    have h1 : LogExt e (putRound c { e with named := addNamed e.named n } d n.id).1 :=
      (LogExt.of_eq (e := e) (e' := { e with named := addNamed e.named n }) rfl).trans (ext_putRound c _ d n.id)
    rcases hr : putRound c { e with named := addNamed e.named n } d n.id with ⟨e1, _ | d1⟩
    · rw [hr] at h1; exact h1
    · rw [hr] at h1; simp only
      exact h1.trans ((LogExt.of_eq (e := e1) (e' := { e1 with nodes := addDelivered e1.nodes n }) rfl).trans (ext_putMany c ns _ d1))

theorem logext_flush (c : Cfg) (s : ShSt) (k : Cur) : LogExt s.env (flush c s k).1.env := by
  unfold flush
  have h1 := ext_putMany c (flushNodes s k) s.env k.dests
  rcases hp : putMany c s.env k.dests (flushNodes s k) with ⟨e1, d1, _ | _⟩
  · rw [hp] at h1; exact h1
  · rw [hp] at h1; simp only at h1 ⊢
    have h2 := ext_pinCall c e1 (flushPin c s k)
    rcases hc : pinCall c e1 (flushPin c s k) with ⟨e2, _ | _⟩ <;> rw [hc] at h2 <;> exact h1.trans h2

theorem logext_newShard (c : Cfg) (s : ShSt) : LogExt s.env (newShard c s).1.env := by
  unfold newShard
  have h1 := ext_allocate c s.env
  rcases ha : allocate c s.env with ⟨e, _ | a⟩
  · rw [ha] at h1; exact h1
  · rw [ha] at h1; simp only; split_ifs <;> exact h1

theorem attempts_length (f : List Fault) : ∀ (d : List Nat) (cnt : List (Nat × Nat)), (attempts f cnt d).2.length = d.length
  | [], _ => rfl
  | p :: ps, cnt => by simp [attempts, attempts_length f ps]

theorem mem_insertAtt (a x : Attempt) : ∀ (l : List Attempt), x ∈ insertAtt a l ↔ x = a ∨ x ∈ l
  | [] => by simp [insertAtt]
  | y :: ys => by
    unfold insertAtt
    split_ifs
    · simp
    · simp [mem_insertAtt a x ys]; tauto

theorem mem_sortAtts (x : Attempt) (l : List Attempt) : x ∈ sortAtts l ↔ x ∈ l := by
  induction l with
  | nil => simp [sortAtts]
  | cons a as ih => simp only [sortAtts, List.foldr_cons] at ih ⊢; rw [mem_insertAtt, ih]; simp

theorem putRound_log (c : Cfg) (e : Env) (d : List Nat) (b : Nat) (hd : d.isEmpty = false) :
    (putRound c e d b).1.log = .put b (sortAtts (attempts c.faults e.cnt d).2) :: e.log := by
  unfold putRound; simp only; split_ifs <;> simp_all

theorem putRound_snd (c : Cfg) (e : Env) (d : List Nat) (b : Nat) :
    (putRound c e d b).2 =
      if (((attempts c.faults e.cnt d).2.filter (fun a => a.out != .ok)).length == d.length ||
          (((attempts c.faults e.cnt d).2.filter (fun a => a.out != .rpc)).map (·.peer)).isEmpty) then none
      else some (((attempts c.faults e.cnt d).2.filter (fun a => a.out != .rpc)).map (·.peer)) := by
  unfold putRound; simp only; split_ifs <;> rfl

theorem putRound_some (c : Cfg) (e : Env) (d : List Nat) (b : Nat) (d' : List Nat)
    (h : (putRound c e d b).2 = some d') : ∃ a ∈ (attempts c.faults e.cnt d).2, a.out = PutOut.ok := by
  rw [putRound_snd] at h
  split_ifs at h with hc
  have hlen := attempts_length c.faults d e.cnt
  simp only [Bool.or_eq_true, beq_iff_eq, not_or] at hc
  obtain ⟨hne, _⟩ := hc
  by_contra hcon
  have hno : ∀ a ∈ (attempts c.faults e.cnt d).2, a.out ≠ PutOut.ok := fun a ha hok => hcon ⟨a, ha, hok⟩
  apply hne
  rw [← hlen]
  congr 1
  rw [List.filter_eq_self]
  intro a ha
  simpa using hno a ha

/-- `BlockAdder.Add` returned nil: some destination accepted the block -/
theorem putRound_ok_accepted (c : Cfg) (e : Env) (d : List Nat) (b : Nat) (d' : List Nat)
    (h : (putRound c e d b).2 = some d') : acceptedBy (putRound c e d b).1.log b = true := by
  obtain ⟨a, ha, hok⟩ := putRound_some c e d b d' h
  have hde : d.isEmpty = false := by
    cases d with
    | nil => simp [attempts] at ha
    | cons _ _ => rfl
  rw [putRound_log c e d b hde]
  have hmem : a ∈ sortAtts (attempts c.faults e.cnt d).2 := (mem_sortAtts a _).mpr ha
  have hany : (sortAtts (attempts c.faults e.cnt d).2).any (fun a => a.out == PutOut.ok) = true :=
    List.any_eq_true.mpr ⟨a, hmem, by simp [hok]⟩
  simp [acceptedBy, hany]

theorem addToCur_ok_accepted (c : Cfg) (s : ShSt) (k : Cur) (b : Blk) (h : (addToCur c s k b).2 = .ok) :
    acceptedBy (addToCur c s k b).1.env.log b.id = true ∧ LogExt s.env (addToCur c s k b).1.env := by
  unfold addToCur at h ⊢
  have h1 := putRound_ok_accepted c s.env k.dests b.id
  have h2 := ext_putRound c s.env k.dests b.id
  rcases hr : putRound c s.env k.dests b.id with ⟨e, _ | d⟩
  · rw [hr] at h; simp at h
  · rw [hr] at h1 h2; exact ⟨h1 d rfl, h2⟩

theorem logext_addToCur (c : Cfg) (s : ShSt) (k : Cur) (b : Blk) : LogExt s.env (addToCur c s k b).1.env := by
  unfold addToCur
  have h2 := ext_putRound c s.env k.dests b.id
  rcases hr : putRound c s.env k.dests b.id with ⟨e, _ | d⟩ <;> rw [hr] at h2 <;> exact h2

theorem logext_ingestFresh (c : Cfg) (s : ShSt) (b : Blk) : LogExt s.env (ingestFresh c s b).1.env := by
  unfold ingestFresh
  have h1 := logext_newShard c s
  rcases hn : newShard c s with ⟨s1, st, k⟩
  rw [hn] at h1
  cases st with
  | ok => simp only; split_ifs
          · exact h1.trans (logext_addToCur c s1 k b)
          · exact h1
  | fail => exact h1
  | panic => exact h1

theorem ingestFresh_ok_accepted (c : Cfg) (s : ShSt) (b : Blk) (h : (ingestFresh c s b).2 = .ok) :
    acceptedBy (ingestFresh c s b).1.env.log b.id = true := by
  unfold ingestFresh at h ⊢
  rcases hn : newShard c s with ⟨s1, st, k⟩
  rw [hn] at h
  cases st with
  | ok =>
    simp only at h ⊢
    split_ifs at h ⊢
    exact (addToCur_ok_accepted c s1 k b h).1
  | fail => simp at h
  | panic => simp at h

theorem logext_ingest (c : Cfg) (s : ShSt) (b : Blk) : LogExt s.env (ingest c s b).1.env := by
  unfold ingest
  cases hc : s.cur with
  | none => exact logext_ingestFresh c s b
  | some k =>
    simp only; unfold ingestIn
    split_ifs
    · exact logext_addToCur c s k b
    · exact LogExt.refl _
    · have h1 := logext_flush c s k
      rcases hf : flush c s k with ⟨s1, st⟩
      rw [hf] at h1
      cases st with
      | ok => exact h1.trans (logext_ingestFresh c s1 b)
      | fail => exact h1
      | panic => exact h1

theorem ingest_ok_accepted (c : Cfg) (s : ShSt) (b : Blk) (h : (ingest c s b).2 = .ok) :
    acceptedBy (ingest c s b).1.env.log b.id = true := by
  unfold ingest at h ⊢
  cases hc : s.cur with
  | none => rw [hc] at h; exact ingestFresh_ok_accepted c s b h
  | some k =>
    rw [hc] at h; simp only at h ⊢
    unfold ingestIn at h ⊢
    split_ifs at h ⊢
    · exact (addToCur_ok_accepted c s k b h).1
    · rcases hf : flush c s k with ⟨s1, st⟩
      rw [hf] at h
      cases st with
      | ok => exact ingestFresh_ok_accepted c s1 b h
      | fail => simp at h
      | panic => simp at h

/-- every block visited so far has been accepted by some destination -/
def AllAcc (s : ShSt) : Prop := ∀ id ∈ s.added, acceptedBy s.env.log id = true

theorem allAcc_shAdd (c : Cfg) (s : ShSt) (b : Blk) (ha : AllAcc s) (hok : (shAdd c s b).2 = .ok) :
    AllAcc (shAdd c s b).1 := by
  unfold shAdd at hok ⊢
  split_ifs at hok ⊢ with hm
  · exact ha
  · have hext := logext_ingest c { s with added := s.added ++ [b.id] } b
    have hacc := ingest_ok_accepted c { s with added := s.added ++ [b.id] } b hok
    intro id hid
    rw [ingest_added] at hid
    simp only [List.mem_append, List.mem_singleton] at hid
    rcases hid with hid | rfl
    · exact acceptedBy_ext hext id (ha id hid)
    · exact hacc

theorem allAcc_shAddAll (c : Cfg) : ∀ (l : List Blk) (s : ShSt) (i : Nat) (f : List Nat), AllAcc s →
    (shAddAll c s l i f).2.2 = f → AllAcc (shAddAll c s l i f).1
  | [], s, i, f, ha, _ => by simpa [shAddAll] using ha
  | b :: bs, s, i, f, ha, hf => by
    unfold shAddAll at hf ⊢
    have h1 := allAcc_shAdd c s b ha
    rcases hs : shAdd c s b with ⟨s1, st⟩
    rw [hs] at hf h1; simp only at hf h1 ⊢
    cases st with
    | ok => exact allAcc_shAddAll c bs s1 (i + 1) f (h1 rfl) hf
    | fail =>
      simp only at hf
      have := shAddAll_len c bs s1 (i + 1) (f ++ [i])
      rw [hf] at this; simp at this; omega
    | panic =>
      simp only at hf
      have : (f ++ [i]).length = f.length := by rw [hf]
      simp at this

theorem added_shAddAll (c : Cfg) : ∀ (l : List Blk) (s : ShSt) (i : Nat) (f : List Nat),
    (shAddAll c s l i f).2.2 = f → (shAddAll c s l i f).1.added = addFirsts s.added l
  | [], s, i, f, _ => by simp [shAddAll, addFirsts]
  | b :: bs, s, i, f, hf => by
    unfold shAddAll at hf ⊢
    have hadd := shAdd_added c s b
    rcases hs : shAdd c s b with ⟨s1, st⟩
    rw [hs] at hf hadd; simp only at hf hadd ⊢
    cases st with
    | ok =>
      simp only at hf ⊢
      rw [added_shAddAll c bs s1 (i + 1) f hf, hadd]; simp [addFirsts]
    | fail =>
      simp only at hf
      have := shAddAll_len c bs s1 (i + 1) (f ++ [i])
      rw [hf] at this; simp at this; omega
    | panic =>
      simp only at hf
      have : (f ++ [i]).length = f.length := by rw [hf]
      simp at this

theorem logext_finishCdag (c : Cfg) (s1 : ShSt) (root : Nat) : LogExt s1.env (finishCdag c s1 root).1.env := by
  unfold finishCdag; simp only
  have h1 := ext_putMany c (cdagNodes s1) s1.env [0]
  rcases hp : putMany c s1.env [0] (cdagNodes s1) with ⟨e2, d2, _ | _⟩
  · rw [hp] at h1; exact h1
  · rw [hp] at h1; simp only at h1 ⊢
    have h2 := ext_pinCall c e2 (cdagPin c (rootOf (cdagNodes s1)) root)
    rcases hc : pinCall c e2 (cdagPin c (rootOf (cdagNodes s1)) root) with ⟨e3, _ | _⟩
    · rw [hc] at h2; exact h1.trans h2
    · rw [hc] at h2; simp only at h2 ⊢
      have h3 := ext_pinCall c e3 (metaPin c (rootOf (cdagNodes s1)) root)
      rcases hm : pinCall c e3 (metaPin c (rootOf (cdagNodes s1)) root) with ⟨e4, _ | _⟩ <;> rw [hm] at h3 <;>
        exact (h1.trans h2).trans h3

theorem logext_shFinalize (c : Cfg) (s : ShSt) (root : Nat) : LogExt s.env (shFinalize c s root).1.env := by
  unfold shFinalize
  cases hc : s.cur with
  | none => exact LogExt.refl _
  | some k =>
    simp only
    have h1 := logext_flush c s k
    rcases hf : flush c s k with ⟨s1, st⟩
    rw [hf] at h1
    cases st with
    | ok => exact h1.trans (logext_finishCdag c s1 root)
    | fail => exact h1
    | panic => exact h1

theorem allDelivered_of (log : List Ev) (stream : List Blk) (h : ∀ b ∈ stream, acceptedBy log b.id = true) :
    allDelivered log stream = true := by
  simpa [allDelivered, List.all_eq_true] using h

theorem acceptedBy_reverse (log : List Ev) (id : Nat) : acceptedBy log.reverse id = acceptedBy log id := by
  simp [acceptedBy, List.any_reverse]

/-- sharded: Finalize reached with no failed Add - every block of the stream was accepted somewhere -/
theorem runShard_delivered (c : Cfg) (stream : List Blk) (fin : Option Nat)
    (hfin : (runShard c stream fin).finalized = true) (hnf : (runShard c stream fin).failed = []) :
    allDelivered (runShard c stream fin).log stream = true := by
  have hacc := allAcc_shAddAll c stream ShSt.init 0 [] (by intro id hid; simp [ShSt.init] at hid)
  have hadd := added_shAddAll c stream ShSt.init 0 []
  unfold runShard at hfin hnf ⊢
  rcases h : shAddAll c ShSt.init stream 0 [] with ⟨s, pan, failed⟩
  rw [h] at hacc hadd hfin hnf; simp only at hacc hadd hfin hnf ⊢
  cases pan with
  | true => simp at hfin
  | false =>
    simp only at hfin hnf ⊢
    cases fin with
    | none => simp at hfin
    | some r =>
      simp only at hnf ⊢
      have hfz : failed = [] := hnf
      have hall := hacc hfz
      have hmem := hadd hfz
      have hext := logext_shFinalize c s r
      apply allDelivered_of
      intro b hb
      rw [acceptedBy_reverse]
      apply acceptedBy_ext hext
      apply hall
      rw [hmem]
      exact (mem_addFirsts stream [] b.id).mpr (Or.inr ⟨b, hb, rfl⟩)

/-! ### not sharded -/

theorem logext_singlePut (c : Cfg) (s : SSt) (b : Blk) : LogExt s.env (singlePut c s b).1.env := by
  unfold singlePut
  have h := ext_putRound c s.env s.ba b.id
  rcases hr : putRound c s.env s.ba b.id with ⟨e, _ | d⟩ <;> rw [hr] at h <;> exact h

theorem singlePut_ok_accepted (c : Cfg) (s : SSt) (b : Blk) (h : (singlePut c s b).2 = .ok) :
    acceptedBy (singlePut c s b).1.env.log b.id = true := by
  unfold singlePut at h ⊢
  have h1 := putRound_ok_accepted c s.env s.ba b.id
  rcases hr : putRound c s.env s.ba b.id with ⟨e, _ | d⟩
  · rw [hr] at h; simp at h
  · rw [hr] at h1; exact h1 d rfl

theorem logext_singleAdd (c : Cfg) (s : SSt) (b : Blk) : LogExt s.env (singleAdd c s b).1.env := by
  unfold singleAdd
  cases hd : s.dests with
  | some d => exact logext_singlePut c s b
  | none =>
    simp only
    have h1 := ext_allocate c s.env
    rcases ha : allocate c s.env with ⟨e, _ | a⟩
    · rw [ha] at h1; exact h1
    · rw [ha] at h1; exact h1.trans (logext_singlePut c _ b)

theorem singleAdd_ok_accepted (c : Cfg) (s : SSt) (b : Blk) (h : (singleAdd c s b).2 = .ok) :
    acceptedBy (singleAdd c s b).1.env.log b.id = true := by
  unfold singleAdd at h ⊢
  cases hd : s.dests with
  | some d => rw [hd] at h; exact singlePut_ok_accepted c s b h
  | none =>
    rw [hd] at h; simp only at h ⊢
    rcases ha : allocate c s.env with ⟨e, _ | a⟩
    · rw [ha] at h; simp at h
    · rw [ha] at h; exact singlePut_ok_accepted c _ b h

theorem singleAddAll_delivered (c : Cfg) : ∀ (l : List Blk) (s : SSt) (i : Nat) (f : List Nat),
    (singleAddAll c s l i f).2 = f →
      LogExt s.env (singleAddAll c s l i f).1.env ∧ ∀ b ∈ l, acceptedBy (singleAddAll c s l i f).1.env.log b.id = true
  | [], s, i, f, _ => by simp [singleAddAll, LogExt.refl]
  | b :: bs, s, i, f, hf => by
    unfold singleAddAll at hf ⊢
    have hext := logext_singleAdd c s b
    have hacc := singleAdd_ok_accepted c s b
    rcases hs : singleAdd c s b with ⟨s1, st⟩
    rw [hs] at hf hext hacc; simp only at hf hext hacc ⊢
    have hlen : ∀ (l : List Blk) (s : SSt) (i : Nat) (f : List Nat), f.length ≤ (singleAddAll c s l i f).2.length := by
      intro l
      induction l with
      | nil => intro s i f; simp [singleAddAll]
      | cons x xs ih =>
        intro s i f
        unfold singleAddAll
        rcases singleAdd c s x with ⟨s2, st2⟩
        cases st2
        · exact ih s2 (i + 1) f
        · have := ih s2 (i + 1) (f ++ [i]); simp at this ⊢; omega
        · have := ih s2 (i + 1) (f ++ [i]); simp at this ⊢; omega
    cases st with
    | ok =>
      simp only at hf ⊢
      obtain ⟨h1, h2⟩ := singleAddAll_delivered c bs s1 (i + 1) f hf
      refine ⟨hext.trans h1, fun x hx => ?_⟩
      rcases List.mem_cons.mp hx with rfl | hx
      · exact acceptedBy_ext h1 _ (hacc rfl)
      · exact h2 x hx
    | fail =>
      simp only at hf
      have := hlen bs s1 (i + 1) (f ++ [i]); rw [hf] at this; simp at this; omega
    | panic =>
      simp only at hf
      have := hlen bs s1 (i + 1) (f ++ [i]); rw [hf] at this; simp at this; omega

theorem logext_singleFinalize (c : Cfg) (s : SSt) (root : Nat) : LogExt s.env (singleFinalize c s root).1.env := by
  unfold singleFinalize
  have h := ext_pinCall c s.env (rootPin c root (s.dests.getD []))
  rcases hc : pinCall c s.env (rootPin c root (s.dests.getD [])) with ⟨e, _ | _⟩ <;> rw [hc] at h <;> exact h

theorem runSingle_delivered (c : Cfg) (stream : List Blk) (fin : Option Nat)
    (hnf : (runSingle c stream fin).failed = []) : allDelivered (runSingle c stream fin).log stream = true := by
  have hd := singleAddAll_delivered c stream SSt.init 0 []
  unfold runSingle at hnf ⊢
  rcases h : singleAddAll c SSt.init stream 0 [] with ⟨s, failed⟩
  rw [h] at hd hnf; simp only at hd hnf ⊢
  cases fin with
  | none =>
    simp only at hnf ⊢
    obtain ⟨_, h2⟩ := hd hnf
    exact allDelivered_of _ _ (fun b hb => by rw [acceptedBy_reverse]; exact h2 b hb)
  | some r =>
    simp only at hnf ⊢
    obtain ⟨_, h2⟩ := hd hnf
    have hext := logext_singleFinalize c s r
    rcases hf : singleFinalize c s r with ⟨s1, st⟩
    rw [hf] at hext; simp only at hext ⊢
    exact allDelivered_of _ _ (fun b hb => by rw [acceptedBy_reverse]; exact acceptedBy_ext hext _ (h2 b hb))

end CV.C13
