import ClusterVerif.Lemmas.C17
import ClusterVerif.Spec.C17Fault

/-! Helper lemmas for the failure arms (trace model, fault scripts). -/
namespace CV.C17
open CV

/-! ### the traced loops are the loops -/
theorem redirectT_fst (self : Nat) (att : Attempt) (orc : Nat → Tick) :
    ∀ n pos log, (redirectT self att orc n pos log).1 = redirect self att orc n pos log := by
  intro n
  induction n with
  | zero => intro pos log; rfl
  | succ n ih =>
    intro pos log
    unfold redirectT redirect
    cases hl : (orc pos).leader with
    | none => rfl
    | some l =>
      simp only
      by_cases hs : (l == self) = true
      · rw [if_pos hs, if_pos hs]
      · rw [if_neg hs, if_neg hs]
        by_cases hc : ((orc pos).ok && (att (cfgAt log) true).1 == Res.ok) = true
        · rw [if_pos hc, if_pos hc]
        · rw [if_neg hc, if_neg hc]
          exact ih _ _

theorem consLoopT_fst (self retries : Nat) (att : Attempt) (orc : Nat → Tick) :
    ∀ n pos log, (consLoopT self retries att orc n pos log).1 = consLoop self retries att orc n pos log := by
  intro n
  induction n with
  | zero => intro pos log; rfl
  | succ n ih =>
    intro pos log
    unfold consLoopT consLoop
    have h := redirectT_fst self att orc (retries + 1) pos log
    rcases hx : redirectT self att orc (retries + 1) pos log with ⟨⟨k, pos', log'⟩, tr⟩
    rw [hx] at h
    simp only at h
    rw [← h]
    cases k with
    | noLeader => rfl
    | done => rfl
    | failed => rfl
    | leading =>
      simp only
      split_ifs
      · rfl
      · exact ih _ _

/-! ### error ⇔ no attempt was seen to succeed -/
theorem redirectT_trace (self : Nat) (att : Attempt) (orc : Nat → Tick) :
    ∀ n pos log,
      ((redirectT self att orc n pos log).1.1 = .done → ∃ a ∈ (redirectT self att orc n pos log).2, a.ackOk = true) ∧
      ((redirectT self att orc n pos log).1.1 ≠ .done → ∀ a ∈ (redirectT self att orc n pos log).2, a.ackOk = false) := by
  intro n
  induction n with
  | zero => intro pos log; simp [redirectT]
  | succ n ih =>
    intro pos log
    unfold redirectT
    cases hl : (orc pos).leader with
    | none => simp
    | some l =>
      simp only
      by_cases hs : (l == self) = true
      · rw [if_pos hs]; simp
      · rw [if_neg hs]
        by_cases hc : ((orc pos).ok && (att (cfgAt log) true).1 == Res.ok) = true
        · rw [if_pos hc]
          refine ⟨fun _ => ⟨_, List.mem_singleton.2 rfl, ?_⟩, fun h => absurd rfl h⟩
          simpa [Att.ackOk] using hc
        · rw [if_neg hc]
          obtain ⟨i1, i2⟩ := ih (pos + 1)
            (if ((orc pos).ok || (orc pos).lost) = true then log ++ (att (cfgAt log) true).2 else log)
          refine ⟨fun h => ?_, fun h a ha => ?_⟩
          · obtain ⟨a, ha, hk⟩ := i1 h
            exact ⟨a, List.mem_cons_of_mem _ ha, hk⟩
          · rcases List.mem_cons.1 ha with rfl | ha
            · simpa [Att.ackOk] using hc
            · exact i2 h a ha

theorem consLoopT_trace (self retries : Nat) (att : Attempt) (orc : Nat → Tick) :
    ∀ n pos log,
      ((consLoopT self retries att orc n pos log).1.1 = .ok → ∃ a ∈ (consLoopT self retries att orc n pos log).2, a.ackOk = true) ∧
      ((consLoopT self retries att orc n pos log).1.1 = .err → ∀ a ∈ (consLoopT self retries att orc n pos log).2, a.ackOk = false) := by
  intro n
  induction n with
  | zero => intro pos log; simp [consLoopT]
  | succ n ih =>
    intro pos log
    unfold consLoopT
    obtain ⟨r1, r2⟩ := redirectT_trace self att orc (retries + 1) pos log
    rcases hx : redirectT self att orc (retries + 1) pos log with ⟨⟨k, pos', log'⟩, tr⟩
    rw [hx] at r1 r2
    simp only at r1 r2
    cases k with
    | noLeader => exact ⟨fun h => (by cases h), fun _ => r2 (by simp)⟩
    | done => exact ⟨fun _ => r1 rfl, fun h => (by cases h)⟩
    | failed => exact ⟨fun h => (by cases h), fun _ => r2 (by simp)⟩
    | leading =>
      have r2' := r2 (by simp)
      simp only
      by_cases hc : ((att (cfgAt log') (orc pos').ok).1 == Res.ok) = true
      · rw [if_pos hc]
        refine ⟨fun _ => ⟨_, List.mem_append_right _ (List.mem_singleton.2 rfl), ?_⟩, fun h => (by cases h)⟩
        simpa [Att.ackOk] using hc
      · rw [if_neg hc]
        obtain ⟨i1, i2⟩ := ih (pos' + 1) log'
        refine ⟨fun h => ?_, fun h a ha => ?_⟩
        · obtain ⟨a, ha, hk⟩ := i1 h
          exact ⟨a, List.mem_append_right _ (List.mem_cons_of_mem _ ha), hk⟩
        · rcases List.mem_append.1 ha with ha | ha
          · exact r2' a ha
          · rcases List.mem_cons.1 ha with rfl | ha
            · simpa [Att.ackOk] using hc
            · exact i2 h a ha

/-! ### a failed call without a lost reply leaves the log alone -/
theorem redirectT_no_lost {self : Nat} {att : Attempt} {orc : Nat → Tick} (hE : ErrEmpty att) :
    ∀ n pos log, (redirectT self att orc n pos log).1.1 ≠ .done →
      (∀ a ∈ (redirectT self att orc n pos log).2, a.executed = true → a.answered = true) →
      (redirectT self att orc n pos log).1.2.2 = log := by
  intro n
  induction n with
  | zero => intro pos log _ _; rfl
  | succ n ih =>
    intro pos log
    unfold redirectT
    cases hl : (orc pos).leader with
    | none => intro _ _; rfl
    | some l =>
      simp only
      by_cases hs : (l == self) = true
      · rw [if_pos hs]; intro _ _; rfl
      · rw [if_neg hs]
        by_cases hc : ((orc pos).ok && (att (cfgAt log) true).1 == Res.ok) = true
        · rw [if_pos hc]; intro h; exact absurd rfl h
        · rw [if_neg hc]
          intro hnd hall
          have h0 := hall _ (List.mem_cons_self ..)
          simp only at h0
          -- the first attempt appended nothing
          have hlog : (if ((orc pos).ok || (orc pos).lost) = true then log ++ (att (cfgAt log) true).2 else log) = log := by
            by_cases hex : ((orc pos).ok || (orc pos).lost) = true
            · have hok : (orc pos).ok = true := h0 hex
              have herr : (att (cfgAt log) true).1 = .err := by
                rw [hok, Bool.true_and] at hc
                exact res_ne_ok hc
              rw [if_pos hex, hE _ _ herr, List.append_nil]
            · rw [if_neg hex]
          rw [hlog] at hnd hall ⊢
          exact ih (pos + 1) log hnd (fun a ha => hall a (List.mem_cons_of_mem _ ha))

theorem consLoopT_no_lost {self retries : Nat} {att : Attempt} {orc : Nat → Tick} (hE : ErrEmpty att) :
    ∀ n pos log, (consLoopT self retries att orc n pos log).1.1 = .err →
      (∀ a ∈ (consLoopT self retries att orc n pos log).2, a.executed = true → a.answered = true) →
      (consLoopT self retries att orc n pos log).1.2 = log := by
  intro n
  induction n with
  | zero => intro pos log _ _; rfl
  | succ n ih =>
    intro pos log
    unfold consLoopT
    have r := redirectT_no_lost (self := self) (orc := orc) hE (retries + 1) pos log
    rcases hx : redirectT self att orc (retries + 1) pos log with ⟨⟨k, pos', log'⟩, tr⟩
    rw [hx] at r
    simp only at r
    cases k with
    | noLeader => intro _ h; exact r (by simp) h
    | done => intro h; cases h
    | failed => intro _ h; exact r (by simp) h
    | leading =>
      simp only
      by_cases hc : ((att (cfgAt log') (orc pos').ok).1 == Res.ok) = true
      · rw [if_pos hc]; intro h; cases h
      · rw [if_neg hc]
        intro herr hall
        have hl : log' = log := r (by simp) (fun a ha => hall a (List.mem_append_left _ ha))
        subst hl
        exact ih (pos' + 1) log' herr (fun a ha => hall a (List.mem_append_right _ (List.mem_cons_of_mem _ ha)))

/-! ### an answered attempt of an always-succeeding call acknowledges -/

/-- `I` survives attempts and makes healthy attempts succeed -/
structure Good (att : Attempt) (I : List Entry → Prop) : Prop where
  keep : ∀ l f, I l → I (l ++ (att (cfgAt l) f).2)
  ok : ∀ l, I l → (att (cfgAt l) true).1 = .ok

theorem redirect_answered {self lead : Nat} {att : Attempt} {orc : Nat → Tick} {I : List Entry → Prop}
    (hG : Good att I) (hl : ∀ k, (orc k).leader = some lead) (hne : (lead == self) = false) :
    ∀ n pos log, I log → (∃ i, pos ≤ i ∧ i < pos + n ∧ (orc i).ok = true) →
      (redirect self att orc n pos log).1 = .done := by
  intro n
  induction n with
  | zero => intro pos log _ ⟨i, h1, h2, _⟩; omega
  | succ n ih =>
    intro pos log hI ⟨i, h1, h2, h3⟩
    unfold redirect
    rw [hl pos]
    simp only [hne, Bool.false_eq_true, if_false]
    by_cases hok : (orc pos).ok = true
    · simp [hok, hG.ok log hI]
    · have hok' : (orc pos).ok = false := by simpa using hok
      simp only [hok', Bool.false_and, Bool.false_eq_true, if_false, Bool.false_or]
      have hi : pos + 1 ≤ i := by
        rcases Nat.lt_or_ge pos i with h | h
        · omega
        · have : i = pos := by omega
          subst this; rw [hok'] at h3; cases h3
      refine ih (pos + 1) _ ?_ ⟨i, hi, by omega, h3⟩
      split_ifs
      · exact hG.keep log true hI
      · exact hI

/-- a follower's call: some forward within the `retries + 1` is answered ⇒ acknowledged -/
theorem consLoop_answered {self lead retries : Nat} {att : Attempt} {orc : Nat → Tick} {I : List Entry → Prop}
    (hG : Good att I) (hl : ∀ k, (orc k).leader = some lead) {log : List Entry} (hI : I log)
    (hne : (lead == self) = false) (h : ∃ i, i ≤ retries ∧ (orc i).ok = true) :
    (consLoop self retries att orc (retries + 1) 0 log).1 = .ok := by
  unfold consLoop
  obtain ⟨i, hi, hok⟩ := h
  have hd := redirect_answered hG hl hne (retries + 1) 0 log hI ⟨i, by omega, by omega, hok⟩
  rcases hx : redirect self att orc (retries + 1) 0 log with ⟨k, pos', log'⟩
  rw [hx] at hd
  simp only at hd
  subst hd
  rfl

/-- the leader's own call: an attempt that succeeds whatever the future says is acknowledged at once -/
theorem consLoop_leading {self retries : Nat} {att : Attempt} {orc : Nat → Tick} {log : List Entry}
    (hl : (orc 0).leader = some self) (hok : ∀ f, (att (cfgAt log) f).1 = .ok) :
    (consLoop self retries att orc (retries + 1) 0 log).1 = .ok := by
  unfold consLoop
  have : redirect self att orc (retries + 1) 0 log = (.leading, 0, log) := by
    unfold redirect; rw [hl]; simp
  rw [this]
  simp [hok]

theorem good_add_present (p : Nat) : Good (rwAddPeer p) (fun l => cfgHas (cfgAt l) p = true) where
  keep := fun l f h => by rw [rwAddPeer_present h, List.append_nil]; exact h
  ok := fun l h => by rw [rwAddPeer_present h]

theorem good_rm_absent (p : Nat) : Good (rwRemovePeer p) (fun l => cfgHas (cfgAt l) p = false) where
  keep := fun l f h => by rw [rwRemovePeer_absent h, List.append_nil]; exact h
  ok := fun l h => by rw [rwRemovePeer_absent h]

theorem good_add_any (p : Nat) : Good (rwAddPeer p) (fun _ => True) where
  keep := fun _ _ _ => trivial
  ok := fun l _ => by
    cases h : cfgHas (cfgAt l) p with
    | true => rw [rwAddPeer_present h]
    | false => rw [rwAddPeer_absent h]

theorem planOrc_leader (lead : Nat) (plan : List PT) (k : Nat) : (planOrc lead plan k).leader = some lead := by
  unfold planOrc
  cases h : plan[k]? with
  | none => rfl
  | some t => cases t <;> rfl

theorem planOrc_passes (lead : Nat) (plan : List PT) : (planOrc lead plan plan.length).ok = true := by
  unfold planOrc
  simp


/-! ### facts about a call under any oracle (restated as property theorems in Props/C17.lean) -/
theorem add_effect' (self retries : Nat) (orc : Nat → Tick) (log : List Entry) (p : Nat)
    (h : (consAddPeer self retries orc log p).1 = .ok) :
    cfgHas (cfgAt (consAddPeer self retries orc log p).2) p = true := by
  refine consLoop_ok (Q := fun l => cfgHas (cfgAt l) p = true) ?_ _ _ _ h
  intro l f _
  cases hh : cfgHas (cfgAt l) p with
  | true => rw [rwAddPeer_present hh, List.append_nil]; exact hh
  | false =>
    unfold rwAddPeer
    simp only [hh, Bool.false_eq_true, if_false]
    split_ifs
    · rw [cfgAt_append]; simp only [applyCfg]; rw [cfgHas_cfgPut]; simp
    · simp_all [rwAddPeer]

theorem rm_effect' (self retries : Nat) (orc : Nat → Tick) (log : List Entry) (p : Nat)
    (h : (consRmPeer self retries orc log p).1 = .ok) :
    cfgHas (cfgAt (consRmPeer self retries orc log p).2) p = false := by
  refine consLoop_ok (Q := fun l => cfgHas (cfgAt l) p = false) ?_ _ _ _ h
  intro l f hok
  cases hh : cfgHas (cfgAt l) p with
  | false => rw [rwRemovePeer_absent hh, List.append_nil]; exact hh
  | true =>
    unfold rwRemovePeer at hok ⊢
    simp only [hh, Bool.not_true, Bool.false_eq_true, if_false] at hok ⊢
    split_ifs at hok ⊢
    rw [cfgAt_append]; simp only [applyCfg]; rw [cfgHas_cfgErase]; simp

theorem add_once_if_absent' (self retries : Nat) (orc : Nat → Tick) (log : List Entry) (p : Nat) :
    (consAddPeer self retries orc log p).2 = log ∨
    (cfgHas (cfgAt log) p = false ∧ (consAddPeer self retries orc log p).2 = log ++ [.addVoter p]) := by
  refine consLoop_inv (I := fun l => l = log ∨ (cfgHas (cfgAt log) p = false ∧ l = log ++ [.addVoter p])) ?_ _ _ _ (Or.inl rfl)
  intro l f hl
  rcases hl with rfl | ⟨hn, rfl⟩
  · cases hh : cfgHas (cfgAt l) p with
    | true => left; rw [rwAddPeer_present hh, List.append_nil]
    | false =>
      unfold rwAddPeer
      simp only [hh, Bool.false_eq_true, if_false]
      split_ifs
      · right; exact ⟨trivial, rfl⟩
      · left; simp
  · right
    have : cfgHas (cfgAt (log ++ [.addVoter p])) p = true := by
      rw [cfgAt_append]; simp only [applyCfg]; rw [cfgHas_cfgPut]; simp
    rw [rwAddPeer_present this, List.append_nil]
    exact ⟨hn, rfl⟩

theorem rm_once_if_present' (self retries : Nat) (orc : Nat → Tick) (log : List Entry) (p : Nat) :
    (consRmPeer self retries orc log p).2 = log ∨
    (cfgHas (cfgAt log) p = true ∧ (consRmPeer self retries orc log p).2 = log ++ [.rmServer p]) := by
  refine consLoop_inv (I := fun l => l = log ∨ (cfgHas (cfgAt log) p = true ∧ l = log ++ [.rmServer p])) ?_ _ _ _ (Or.inl rfl)
  intro l f hl
  rcases hl with rfl | ⟨hn, rfl⟩
  · cases hh : cfgHas (cfgAt l) p with
    | false => left; rw [rwRemovePeer_absent hh, List.append_nil]
    | true =>
      unfold rwRemovePeer
      simp only [hh, Bool.not_true, Bool.false_eq_true, if_false]
      split_ifs
      · left; simp
      · right; exact ⟨trivial, rfl⟩
      · left; simp
  · right
    have : cfgHas (cfgAt (log ++ [.rmServer p])) p = false := by
      rw [cfgAt_append]; simp only [applyCfg]; rw [cfgHas_cfgErase]; simp
    rw [rwRemovePeer_absent this, List.append_nil]
    exact ⟨hn, rfl⟩


/-! ### fault scripts: what the model admits meets the clauses -/

/-- the fault model's log and the property's own bookkeeping describe the same cluster -/
structure FRel (s : FSt) (log : List Entry) : Prop where
  ids : cfgIds (cfgAt log) = s.members
  pins : pinsAt log = s.pinset

theorem fCallAny_some {retries : Nat} {init : List Nat} {log : List Entry} {att : Attempt} {a j lead : Nat} {res : Res}
    {fwd loc : Nat} {has : Has} {log' : List Entry} :
    ∀ orcs, fCallAny retries init log att a j lead res fwd loc has orcs = some log' →
      ∃ orc ∈ orcs, fCall retries init log att orc a j lead res fwd loc has = some log' := by
  intro orcs
  induction orcs with
  | nil => intro h; cases h
  | cons o rest ih =>
    intro h
    unfold fCallAny at h
    cases hc : fCall retries init log att o a j lead res fwd loc has with
    | some l => rw [hc] at h; exact ⟨o, List.mem_cons_self .., by rw [hc]; exact h⟩
    | none =>
      rw [hc] at h
      obtain ⟨orc, ho, hh⟩ := ih h
      exact ⟨orc, List.mem_cons_of_mem _ ho, hh⟩

theorem fCall_some {retries : Nat} {init : List Nat} {log : List Entry} {att : Attempt} {orc : Nat → Tick} {a j lead : Nat}
    {res : Res} {fwd loc : Nat} {has : Has} {log' : List Entry}
    (h : fCall retries init log att orc a j lead res fwd loc has = some log') :
    fPlaced init log a lead = true ∧ (consLoop a retries att orc (retries + 1) 0 log).1 = res ∧
    log' = (consLoop a retries att orc (retries + 1) 0 log).2 ∧ has = modelHas log' j := by
  unfold fCall at h
  simp only at h
  split_ifs at h with hc
  injection h with h
  subst h
  simp only [Bool.and_eq_true, beq_iff_eq] at hc
  obtain ⟨⟨⟨⟨h1, h2⟩, _⟩, _⟩, h5⟩ := hc
  rw [consLoopT_fst] at h2 h5 ⊢
  exact ⟨h1, h2, rfl, h5.symm⟩

theorem modelHas_all {log : List Entry} {j : Nat} : modelHas log j = .all ↔ cfgHas (cfgAt log) j = true := by
  unfold modelHas; split_ifs with h <;> simp [h]

theorem modelHas_none {log : List Entry} {j : Nat} : modelHas log j = .none ↔ cfgHas (cfgAt log) j = false := by
  unfold modelHas; split_ifs with h <;> simp [h]

theorem modelHas_ne_mixed (log : List Entry) (j : Nat) : modelHas log j ≠ .mixed := by
  unfold modelHas; split_ifs <;> simp

theorem contains_iff_cfgHas {s : FSt} {log : List Entry} (R : FRel s log) (j : Nat) :
    s.members.contains j = cfgHas (cfgAt log) j := by
  unfold cfgHas; rw [R.ids]

theorem fPlaced_lead {init : List Nat} {log : List Entry} {a lead : Nat} (h : fPlaced init log a lead = true) :
    cfgHas (cfgAt log) a = true ∧ cfgHas (cfgAt log) lead = true := by
  unfold fPlaced at h
  simp only [Bool.and_eq_true] at h
  exact ⟨h.1.2, h.2⟩

theorem fStep_add {retries : Nat} {init : List Nat} {s : FSt} {log log' : List Entry} {a j lead : Nat} {plan : List PT}
    {res : Res} {fwd loc : Nat} {has : Has} (R : FRel s log)
    (h : fStep retries init log (.add a j lead plan res fwd loc has) = some log') :
    FRel (fAdvance s (.add a j lead plan res fwd loc has)) log' ∧
    ∀ c ∈ fCheckOp retries init s (.add a j lead plan res fwd loc has), c.2 = true := by
  unfold fStep at h
  obtain ⟨orc, ho, hc⟩ := fCallAny_some _ h
  have ho' : orc = planOrc lead plan := by simpa using ho
  subst ho'
  obtain ⟨hp, hres, hlog, hhas⟩ := fCall_some hc
  have hlog' : log' = (consAddPeer a retries (planOrc lead plan) log j).2 := hlog
  have hres' : (consAddPeer a retries (planOrc lead plan) log j).1 = res := hres
  have honce := add_once_if_absent' a retries (planOrc lead plan) log j
  rw [← hlog'] at honce
  constructor
  · -- bookkeeping
    rcases honce with h1 | ⟨hn, h1⟩
    · subst h1
      refine ⟨?_, ?_⟩
      · simp only [fAdvance]
        split_ifs with hh
        · have : has = .all := by simpa using hh
          rw [this] at hhas
          have hj : j ∈ cfgIds (cfgAt log') := cfgHas_iff.1 (modelHas_all.1 hhas.symm)
          simp only
          rw [← R.ids, insertPeer_of_mem (sorted_cfgAt log') hj]
        · exact R.ids
      · simp only [fAdvance]; split_ifs <;> exact R.pins
    · have hin : cfgHas (cfgAt log') j = true := by
        rw [h1, cfgAt_append]; simp only [applyCfg]; rw [cfgHas_cfgPut]; simp
      have : has = .all := by rw [hhas]; exact modelHas_all.2 hin
      subst this
      refine ⟨?_, ?_⟩
      · simp only [fAdvance, beq_self_eq_true, if_true]
        rw [h1, cfgAt_append]; simp only [applyCfg]; rw [cfgIds_cfgPut, R.ids]
      · simp only [fAdvance, beq_self_eq_true, if_true]
        rw [h1, pinsAt_append]; simp only [applyPin]; exact R.pins
  · intro c hcm
    simp only [fCheckOp, List.mem_cons, List.mem_nil_iff, or_false] at hcm
    rcases hcm with rfl | rfl | rfl
    · -- ack_in_all
      simp only [Bool.or_eq_true, Bool.not_eq_true', beq_iff_eq]
      cases hr : res with
      | err => left; rfl
      | ok =>
        right
        rw [hr] at hres'
        have := add_effect' a retries (planOrc lead plan) log j hres'
        rw [← hlog'] at this
        rw [hhas]; exact modelHas_all.2 this
    · -- failed_not_split
      simp only [Bool.or_eq_true, Bool.and_eq_true, Bool.not_eq_true', beq_iff_eq]
      cases hm : cfgHas (cfgAt log') j with
      | true => left; right; rw [hhas]; exact modelHas_all.2 hm
      | false =>
        right
        refine ⟨by rw [hhas]; exact modelHas_none.2 hm, ?_⟩
        rw [contains_iff_cfgHas R]
        rcases honce with h1 | ⟨hn, _⟩
        · rw [h1] at hm; exact hm
        · exact hn
    · -- add_present_noop
      show (!(init.contains a && s.members.contains a && s.members.contains j && planPasses retries a lead plan) || okB res) = true
      cases hprem : (init.contains a && s.members.contains a && s.members.contains j && planPasses retries a lead plan) with
      | false => rfl
      | true =>
        simp only [Bool.not_true, Bool.false_or]
        simp only [Bool.and_eq_true] at hprem
        obtain ⟨⟨_, hj⟩, hpass⟩ := hprem
        rw [contains_iff_cfgHas R] at hj
        have hok : (consAddPeer a retries (planOrc lead plan) log j).1 = .ok := by
          unfold planPasses at hpass
          by_cases hal : (lead == a) = true
          · have : lead = a := by simpa using hal
            subst this
            exact consLoop_leading (planOrc_leader _ _ 0) (fun f => by rw [rwAddPeer_present hj])
          · refine consLoop_answered (good_add_present j) (planOrc_leader lead plan) hj (by simpa using hal) ?_
            simp only [Bool.or_eq_true, beq_iff_eq, decide_eq_true_eq] at hpass
            rcases hpass with hpass | hpass
            · exact absurd (by simp [hpass]) hal
            · exact ⟨plan.length, hpass, planOrc_passes lead plan⟩
        rw [hres'] at hok
        simp [okB, hok]


theorem fStep_rm {retries : Nat} {init : List Nat} {s : FSt} {log log' : List Entry} {a j lead : Nat} {plan : List PT}
    {res : Res} {fwd loc : Nat} {has : Has} (R : FRel s log)
    (h : fStep retries init log (.rm a j lead plan res fwd loc has) = some log') :
    FRel (fAdvance s (.rm a j lead plan res fwd loc has)) log' ∧
    ∀ c ∈ fCheckOp retries init s (.rm a j lead plan res fwd loc has), c.2 = true := by
  unfold fStep at h
  obtain ⟨orc, ho, hc⟩ := fCallAny_some _ h
  obtain ⟨hp, hres, hlog, hhas⟩ := fCall_some hc
  have hlog' : log' = (consRmPeer a retries orc log j).2 := hlog
  have hres' : (consRmPeer a retries orc log j).1 = res := hres
  have honce := rm_once_if_present' a retries orc log j
  rw [← hlog'] at honce
  constructor
  · rcases honce with h1 | ⟨hn, h1⟩
    · subst h1
      refine ⟨?_, ?_⟩
      · simp only [fAdvance]
        split_ifs with hh
        · have : has = .none := by simpa using hh
          rw [this] at hhas
          have hj : j ∉ cfgIds (cfgAt log') := cfgHas_false_iff.1 (modelHas_none.1 hhas.symm)
          simp only
          rw [← R.ids, erasePeer_of_not_mem hj]
        · exact R.ids
      · simp only [fAdvance]; split_ifs <;> exact R.pins
    · have hout : cfgHas (cfgAt log') j = false := by
        rw [h1, cfgAt_append]; simp only [applyCfg]; rw [cfgHas_cfgErase]; simp
      have : has = .none := by rw [hhas]; exact modelHas_none.2 hout
      subst this
      refine ⟨?_, ?_⟩
      · simp only [fAdvance, beq_self_eq_true, if_true]
        rw [h1, cfgAt_append]; simp only [applyCfg]; rw [cfgIds_cfgErase, R.ids]
      · simp only [fAdvance, beq_self_eq_true, if_true]
        rw [h1, pinsAt_append]; simp only [applyPin]; exact R.pins
  · intro c hcm
    simp only [fCheckOp, List.mem_cons, List.mem_nil_iff, or_false] at hcm
    rcases hcm with rfl | rfl | rfl | rfl
    · -- ack_in_all
      simp only [Bool.or_eq_true, Bool.not_eq_true', beq_iff_eq]
      cases hr : res with
      | err => left; rfl
      | ok =>
        right
        rw [hr] at hres'
        have := rm_effect' a retries orc log j hres'
        rw [← hlog'] at this
        rw [hhas]; exact modelHas_none.2 this
    · -- failed_not_split
      simp only [Bool.or_eq_true, Bool.and_eq_true, beq_iff_eq]
      cases hm : cfgHas (cfgAt log') j with
      | false => left; right; rw [hhas]; exact modelHas_none.2 hm
      | true =>
        right
        refine ⟨by rw [hhas]; exact modelHas_all.2 hm, ?_⟩
        rw [contains_iff_cfgHas R]
        rcases honce with h1 | ⟨_, h1⟩
        · rw [h1] at hm; exact hm
        · rw [h1, cfgAt_append] at hm
          simp only [applyCfg] at hm
          rw [cfgHas_cfgErase] at hm
          simp at hm
    · -- rm_absent_noop
      show (!(init.contains a && s.members.contains a && !s.members.contains j && planPasses retries a lead plan) || okB res) = true
      cases hprem : (init.contains a && s.members.contains a && !s.members.contains j && planPasses retries a lead plan) with
      | false => rfl
      | true =>
        simp only [Bool.not_true, Bool.false_or]
        simp only [Bool.and_eq_true, Bool.not_eq_true'] at hprem
        obtain ⟨⟨⟨_, ha⟩, hj⟩, hpass⟩ := hprem
        rw [contains_iff_cfgHas R] at hj ha
        obtain ⟨_, hlead⟩ := fPlaced_lead hp
        have haj : (a == j) = false := by
          cases hx : (a == j) with
          | false => rfl
          | true => have : a = j := by simpa using hx
                    subst this; rw [ha] at hj; cases hj
        have hlj : (j == lead) = false := by
          cases hx : (j == lead) with
          | false => rfl
          | true => have : j = lead := by simpa using hx
                    subst this; rw [hlead] at hj; cases hj
        have ho' : orc = planOrc lead plan := by
          unfold rmOrcs at ho
          simpa [haj, hlj] using ho
        subst ho'
        have hok : (consRmPeer a retries (planOrc lead plan) log j).1 = .ok := by
          unfold planPasses at hpass
          by_cases hal : (lead == a) = true
          · have : lead = a := by simpa using hal
            subst this
            exact consLoop_leading (planOrc_leader _ _ 0) (fun f => by rw [rwRemovePeer_absent hj])
          · refine consLoop_answered (good_rm_absent j) (planOrc_leader lead plan) hj (by simpa using hal) ?_
            simp only [Bool.or_eq_true, beq_iff_eq, decide_eq_true_eq] at hpass
            rcases hpass with hpass | hpass
            · exact absurd (by simp [hpass]) hal
            · exact ⟨plan.length, hpass, planOrc_passes lead plan⟩
        rw [hres'] at hok
        simp [okB, hok]
    · -- last_peer_kept
      show (!(s.members == [j]) || !okB res) = true
      cases hl : (s.members == [j]) with
      | false => rfl
      | true =>
        have hm : s.members = [j] := by simpa using hl
        have hids : cfgIds (cfgAt log) = [j] := by rw [R.ids, hm]
        have : consRmPeer a retries orc log j = (.err, log) :=
          consLoop_refused (fun f => rwRemovePeer_last hids f) _ _
        rw [this] at hres'
        simp only at hres'
        subst hres'
        rfl

theorem fStep_pin {retries : Nat} {init : List Nat} {s : FSt} {log log' : List Entry} {a : Nat} {p : Pin} (R : FRel s log)
    (h : fStep retries init log (.pin a p) = some log') : FRel (fAdvance s (.pin a p)) log' := by
  unfold fStep at h
  simp only at h
  split_ifs at h
  injection h with h
  subst h
  refine ⟨?_, ?_⟩
  · rw [cfgAt_append]; simp only [applyCfg, fAdvance]; exact R.ids
  · rw [pinsAt_append]; simp only [applyPin, fAdvance]; rw [R.pins]

theorem fReplay_rel {retries : Nat} {init : List Nat} : ∀ (ops : List FOp) {s : FSt} {log log' : List Entry}, FRel s log →
    fReplay retries init log ops = some log' →
    FRel (fFinal s ops) log' ∧ (fCheckOps retries init s ops).all (·.2) = true := by
  intro ops
  induction ops with
  | nil =>
    intro s log log' R h
    simp only [fReplay] at h
    injection h with h; subst h
    exact ⟨R, rfl⟩
  | cons op rest ih =>
    intro s log log' R h
    unfold fReplay at h
    cases hs : fStep retries init log op with
    | none => rw [hs] at h; cases h
    | some l1 =>
      rw [hs] at h
      simp only at h
      have key : FRel (fAdvance s op) l1 ∧ ∀ c ∈ fCheckOp retries init s op, c.2 = true := by
        cases op with
        | add a j lead plan res fwd loc has => exact fStep_add R hs
        | rm a j lead plan res fwd loc has => exact fStep_rm R hs
        | pin a p => exact ⟨fStep_pin R hs, by simp [fCheckOp]⟩
      obtain ⟨R1, hc1⟩ := key
      obtain ⟨R2, hc2⟩ := ih R1 h
      refine ⟨R2, ?_⟩
      simp only [fCheckOps, List.all_append, Bool.and_eq_true]
      exact ⟨List.all_eq_true.2 hc1, hc2⟩

theorem fRel_init (init : List Nat) : FRel (fInit init) [.boot init] := by
  refine ⟨?_, rfl⟩
  show cfgIds (cfgAt [.boot init]) = normPeers init
  simp only [cfgAt, List.foldl_cons, List.foldl_nil, applyCfg]
  exact cfgIds_initCfg init

theorem fObs_clauses {init : List Nat} {s : FSt} {log : List Entry} (R : FRel s log) {o : Obs}
    (h : fObsOk init log o = true) : (fCheckObs init s o).all (·.2) = true := by
  unfold fObsOk at h
  simp only [Bool.and_eq_true, List.all_eq_true] at h
  obtain ⟨h1, _⟩ := h
  have key : ∀ m ∈ o.members.filter (fun m => init.contains m.id && s.members.contains m.id),
      m.peers = s.members ∧ canonMap m.pins = canonMap s.pinset := by
    intro m hm
    obtain ⟨hm1, hm2⟩ := List.mem_filter.1 hm
    have := h1 m hm1
    rw [contains_iff_cfgHas R] at hm2
    simp only [hm2, Bool.not_true, Bool.false_or, Bool.and_eq_true, beq_iff_eq] at this
    rw [← R.ids, ← R.pins]
    exact ⟨this.1.1, this.1.2⟩
  simp only [fCheckObs, List.all_cons, List.all_nil, Bool.and_true, Bool.and_eq_true, List.all_eq_true, beq_iff_eq]
  exact ⟨fun m hm => (key m hm).1, fun m hm => (key m hm).2⟩

end CV.C17
