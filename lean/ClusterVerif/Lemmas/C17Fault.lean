import ClusterVerif.Lemmas.C17
import ClusterVerif.Spec.C17Fault

/-! Helper lemmas for the failure arms (trace model, fault scripts). -/
namespace CV.C17
open CV

/-! ### the traced loops are the loops -/
theorem redirectT_fst (self : Nat) (att : Attempt) (orc : Nat → Tick) :
    ∀ n pos log, (redirectT self att orc n pos log).1 = redirect self att orc n pos log := by
  intro n
  induction n with
  | zero => intro pos log; rfl
  | succ n ih =>
    intro pos log
    unfold redirectT redirect
    cases hl : (orc pos).leader with
    | none => rfl
    | some l =>
      simp only
      by_cases hs : (l == self) = true
      · rw [if_pos hs, if_pos hs]
      · rw [if_neg hs, if_neg hs]
        by_cases hc : ((orc pos).ok && (att (cfgAt log) true).1 == Res.ok) = true
        · rw [if_pos hc, if_pos hc]
        · rw [if_neg hc, if_neg hc]
          exact ih _ _

theorem consLoopT_fst (self retries : Nat) (att : Attempt) (orc : Nat → Tick) :
    ∀ n pos log, (consLoopT self retries att orc n pos log).1 = consLoop self retries att orc n pos log := by
  intro n
  induction n with
  | zero => intro pos log; rfl
  | succ n ih =>
    intro pos log
    unfold consLoopT consLoop
    have h := redirectT_fst self att orc (retries + 1) pos log
    rcases hx : redirectT self att orc (retries + 1) pos log with ⟨⟨k, pos', log'⟩, tr⟩
    rw [hx] at h
    simp only at h
    rw [← h]
    cases k with
    | noLeader => rfl
    | done => rfl
    | failed => rfl
    | leading =>
      simp only
      split_ifs
      · rfl
      · exact ih _ _

/-! ### error ⇔ no attempt was seen to succeed -/
theorem redirectT_trace (self : Nat) (att : Attempt) (orc : Nat → Tick) :
    ∀ n pos log,
      ((redirectT self att orc n pos log).1.1 = .done → ∃ a ∈ (redirectT self att orc n pos log).2, a.ackOk = true) ∧
      ((redirectT self att orc n pos log).1.1 ≠ .done → ∀ a ∈ (redirectT self att orc n pos log).2, a.ackOk = false) := by
  intro n
  induction n with
  | zero => intro pos log; simp [redirectT]
  | succ n ih =>
    intro pos log
    unfold redirectT
    cases hl : (orc pos).leader with
    | none => simp
    | some l =>
      simp only
      by_cases hs : (l == self) = true
      · rw [if_pos hs]; simp
      · rw [if_neg hs]
        by_cases hc : ((orc pos).ok && (att (cfgAt log) true).1 == Res.ok) = true
        · rw [if_pos hc]
          refine ⟨fun _ => ⟨_, List.mem_singleton.2 rfl, ?_⟩, fun h => absurd rfl h⟩
          simpa [Att.ackOk] using hc
        · rw [if_neg hc]
          obtain ⟨i1, i2⟩ := ih (pos + 1)
            (if ((orc pos).ok || (orc pos).lost) = true then log ++ (att (cfgAt log) true).2 else log)
          refine ⟨fun h => ?_, fun h a ha => ?_⟩
          · obtain ⟨a, ha, hk⟩ := i1 h
            exact ⟨a, List.mem_cons_of_mem _ ha, hk⟩
          · rcases List.mem_cons.1 ha with rfl | ha
            · simpa [Att.ackOk] using hc
            · exact i2 h a ha

theorem consLoopT_trace (self retries : Nat) (att : Attempt) (orc : Nat → Tick) :
    ∀ n pos log,
      ((consLoopT self retries att orc n pos log).1.1 = .ok → ∃ a ∈ (consLoopT self retries att orc n pos log).2, a.ackOk = true) ∧
      ((consLoopT self retries att orc n pos log).1.1 = .err → ∀ a ∈ (consLoopT self retries att orc n pos log).2, a.ackOk = false) := by
  intro n
  induction n with
  | zero => intro pos log; simp [consLoopT]
  | succ n ih =>
    intro pos log
    unfold consLoopT
    obtain ⟨r1, r2⟩ := redirectT_trace self att orc (retries + 1) pos log
    rcases hx : redirectT self att orc (retries + 1) pos log with ⟨⟨k, pos', log'⟩, tr⟩
    rw [hx] at r1 r2
    simp only at r1 r2
    cases k with
    | noLeader => exact ⟨fun h => (by cases h), fun _ => r2 (by simp)⟩
    | done => exact ⟨fun _ => r1 rfl, fun h => (by cases h)⟩
    | failed => exact ⟨fun h => (by cases h), fun _ => r2 (by simp)⟩
    | leading =>
      have r2' := r2 (by simp)
      simp only
      by_cases hc : ((att (cfgAt log') (orc pos').ok).1 == Res.ok) = true
      · rw [if_pos hc]
        refine ⟨fun _ => ⟨_, List.mem_append_right _ (List.mem_singleton.2 rfl), ?_⟩, fun h => (by cases h)⟩
        simpa [Att.ackOk] using hc
      · rw [if_neg hc]
        obtain ⟨i1, i2⟩ := ih (pos' + 1) log'
        refine ⟨fun h => ?_, fun h a ha => ?_⟩
        · obtain ⟨a, ha, hk⟩ := i1 h
          exact ⟨a, List.mem_append_right _ (List.mem_cons_of_mem _ ha), hk⟩
        · rcases List.mem_append.1 ha with ha | ha
          · exact r2' a ha
          · rcases List.mem_cons.1 ha with rfl | ha
            · simpa [Att.ackOk] using hc
            · exact i2 h a ha

/-! ### a failed call without a lost reply leaves the log alone -/
theorem redirectT_no_lost {self : Nat} {att : Attempt} {orc : Nat → Tick} (hE : ErrEmpty att) :
    ∀ n pos log, (redirectT self att orc n pos log).1.1 ≠ .done →
      (∀ a ∈ (redirectT self att orc n pos log).2, a.executed = true → a.answered = true) →
      (redirectT self att orc n pos log).1.2.2 = log := by
  intro n
  induction n with
  | zero => intro pos log _ _; rfl
  | succ n ih =>
    intro pos log
    unfold redirectT
    cases hl : (orc pos).leader with
    | none => intro _ _; rfl
    | some l =>
      simp only
      by_cases hs : (l == self) = true
      · rw [if_pos hs]; intro _ _; rfl
      · rw [if_neg hs]
        by_cases hc : ((orc pos).ok && (att (cfgAt log) true).1 == Res.ok) = true
        · rw [if_pos hc]; intro h; exact absurd rfl h
        · rw [if_neg hc]
          intro hnd hall
          have h0 := hall _ (List.mem_cons_self ..)
          simp only at h0
          -- the first attempt appended nothing
          have hlog : (if ((orc pos).ok || (orc pos).lost) = true then log ++ (att (cfgAt log) true).2 else log) = log := by
            by_cases hex : ((orc pos).ok || (orc pos).lost) = true
            · have hok : (orc pos).ok = true := h0 hex
              have herr : (att (cfgAt log) true).1 = .err := by
                rw [hok, Bool.true_and] at hc
                exact res_ne_ok hc
              rw [if_pos hex, hE _ _ herr, List.append_nil]
            · rw [if_neg hex]
          rw [hlog] at hnd hall ⊢
          exact ih (pos + 1) log hnd (fun a ha => hall a (List.mem_cons_of_mem _ ha))

theorem consLoopT_no_lost {self retries : Nat} {att : Attempt} {orc : Nat → Tick} (hE : ErrEmpty att) :
    ∀ n pos log, (consLoopT self retries att orc n pos log).1.1 = .err →
      (∀ a ∈ (consLoopT self retries att orc n pos log).2, a.executed = true → a.answered = true) →
      (consLoopT self retries att orc n pos log).1.2 = log := by
  intro n
  induction n with
  | zero => intro pos log _ _; rfl
  | succ n ih =>
    intro pos log
    unfold consLoopT
    have r := redirectT_no_lost (self := self) (orc := orc) hE (retries + 1) pos log
    rcases hx : redirectT self att orc (retries + 1) pos log with ⟨⟨k, pos', log'⟩, tr⟩
    rw [hx] at r
    simp only at r
    cases k with
    | noLeader => intro _ h; exact r (by simp) h
    | done => intro h; cases h
    | failed => intro _ h; exact r (by simp) h
    | leading =>
      simp only
      by_cases hc : ((att (cfgAt log') (orc pos').ok).1 == Res.ok) = true
      · rw [if_pos hc]; intro h; cases h
      · rw [if_neg hc]
        intro herr hall
        have hl : log' = log := r (by simp) (fun a ha => hall a (List.mem_append_left _ ha))
        subst hl
        exact ih (pos' + 1) log' herr (fun a ha => hall a (List.mem_append_right _ (List.mem_cons_of_mem _ ha)))

/-! ### an answered attempt of an always-succeeding call acknowledges -/

/-- `I` survives attempts and makes healthy attempts succeed -/
structure Good (att : Attempt) (I : List Entry → Prop) : Prop where
  keep : ∀ l f, I l → I (l ++ (att (cfgAt l) f).2)
  ok : ∀ l, I l → (att (cfgAt l) true).1 = .ok

theorem redirect_answered {self lead : Nat} {att : Attempt} {orc : Nat → Tick} {I : List Entry → Prop}
    (hG : Good att I) (hl : ∀ k, (orc k).leader = some lead) (hne : (lead == self) = false) :
    ∀ n pos log, I log → (∃ i, pos ≤ i ∧ i < pos + n ∧ (orc i).ok = true) →
      (redirect self att orc n pos log).1 = .done := by
  intro n
  induction n with
  | zero => intro pos log _ ⟨i, h1, h2, _⟩; omega
  | succ n ih =>
    intro pos log hI ⟨i, h1, h2, h3⟩
    unfold redirect
    rw [hl pos]
    simp only [hne, Bool.false_eq_true, if_false]
    by_cases hok : (orc pos).ok = true
    · simp [hok, hG.ok log hI]
    · have hok' : (orc pos).ok = false := by simpa using hok
      simp only [hok', Bool.false_and, Bool.false_eq_true, if_false, Bool.false_or]
      have hi : pos + 1 ≤ i := by
        rcases Nat.lt_or_ge pos i with h | h
        · omega
        · have : i = pos := by omega
          subst this; rw [hok'] at h3; cases h3
      refine ih (pos + 1) _ ?_ ⟨i, hi, by omega, h3⟩
      split_ifs
      · exact hG.keep log true hI
      · exact hI

/-- a follower's call: some forward within the `retries + 1` is answered ⇒ acknowledged -/
theorem consLoop_answered {self lead retries : Nat} {att : Attempt} {orc : Nat → Tick} {I : List Entry → Prop}
    (hG : Good att I) (hl : ∀ k, (orc k).leader = some lead) {log : List Entry} (hI : I log)
    (hne : (lead == self) = false) (h : ∃ i, i ≤ retries ∧ (orc i).ok = true) :
    (consLoop self retries att orc (retries + 1) 0 log).1 = .ok := by
  unfold consLoop
  obtain ⟨i, hi, hok⟩ := h
  have hd := redirect_answered hG hl hne (retries + 1) 0 log hI ⟨i, by omega, by omega, hok⟩
  rcases hx : redirect self att orc (retries + 1) 0 log with ⟨k, pos', log'⟩
  rw [hx] at hd
  simp only at hd
  subst hd
  rfl

/-- the leader's own call: an attempt that succeeds whatever the future says is acknowledged at once -/
theorem consLoop_leading {self retries : Nat} {att : Attempt} {orc : Nat → Tick} {log : List Entry}
    (hl : (orc 0).leader = some self) (hok : ∀ f, (att (cfgAt log) f).1 = .ok) :
    (consLoop self retries att orc (retries + 1) 0 log).1 = .ok := by
  unfold consLoop
  have : redirect self att orc (retries + 1) 0 log = (.leading, 0, log) := by
    unfold redirect; rw [hl]; simp
  rw [this]
  simp [hok]

theorem good_add_present (p : Nat) : Good (rwAddPeer p) (fun l => cfgHas (cfgAt l) p = true) where
  keep := fun l f h => by rw [rwAddPeer_present h, List.append_nil]; exact h
  ok := fun l h => by rw [rwAddPeer_present h]

theorem good_rm_absent (p : Nat) : Good (rwRemovePeer p) (fun l => cfgHas (cfgAt l) p = false) where
  keep := fun l f h => by rw [rwRemovePeer_absent h, List.append_nil]; exact h
  ok := fun l h => by rw [rwRemovePeer_absent h]

theorem good_add_any (p : Nat) : Good (rwAddPeer p) (fun _ => True) where
  keep := fun _ _ _ => trivial
  ok := fun l _ => by
    cases h : cfgHas (cfgAt l) p with
    | true => rw [rwAddPeer_present h]
    | false => rw [rwAddPeer_absent h]

theorem planOrc_leader (lead : Nat) (plan : List PT) (k : Nat) : (planOrc lead plan k).leader = some lead := by
  unfold planOrc
  cases h : plan[k]? with
  | none => rfl
  | some t => cases t <;> rfl

theorem planOrc_passes (lead : Nat) (plan : List PT) : (planOrc lead plan plan.length).ok = true := by
  unfold planOrc
  simp

end CV.C17
