import ClusterVerif.Lemmas.C17
import ClusterVerif.Spec.C17Fault

/-! Helper lemmas for the failure arms (trace model, fault scripts). -/
namespace CV.C17
open CV

/-! ### the traced loops are the loops -/
theorem redirectT_fst (self : Nat) (att : Attempt) (orc : Nat → Tick) :
    ∀ n pos log, (redirectT self att orc n pos log).1 = redirect self att orc n pos log := by
  intro n
  induction n with
  | zero => intro pos log; rfl
  | succ n ih =>
    intro pos log
    unfold redirectT redirect
    cases hl : (orc pos).leader with
    | none => rfl
    | some l =>
      simp only
      by_cases hs : (l == self) = true
      · rw [if_pos hs, if_pos hs]
      · rw [if_neg hs, if_neg hs]
        by_cases hc : ((orc pos).ok && (att (cfgAt log) true).1 == Res.ok) = true
        · rw [if_pos hc, if_pos hc]
        · rw [if_neg hc, if_neg hc]
          exact ih _ _

theorem consLoopT_fst (self retries : Nat) (att : Attempt) (orc : Nat → Tick) :
    ∀ n pos log, (consLoopT self retries att orc n pos log).1 = consLoop self retries att orc n pos log := by
  intro n
  induction n with
  | zero => intro pos log; rfl
  | succ n ih =>
    intro pos log
    unfold consLoopT consLoop
    have h := redirectT_fst self att orc (retries + 1) pos log
    rcases hx : redirectT self att orc (retries + 1) pos log with ⟨⟨k, pos', log'⟩, tr⟩
    rw [hx] at h
    simp only at h
    rw [← h]
    cases k with
    | noLeader => rfl
    | done => rfl
    | failed => rfl
    | leading =>
      simp only
      split_ifs
      · rfl
      · exact ih _ _

/-! ### error ⇔ no attempt was seen to succeed -/
theorem redirectT_trace (self : Nat) (att : Attempt) (orc : Nat → Tick) :
    ∀ n pos log,
      ((redirectT self att orc n pos log).1.1 = .done → ∃ a ∈ (redirectT self att orc n pos log).2, a.ackOk = true) ∧
      ((redirectT self att orc n pos log).1.1 ≠ .done → ∀ a ∈ (redirectT self att orc n pos log).2, a.ackOk = false) := by
  intro n
  induction n with
  | zero => intro pos log; simp [redirectT]
  | succ n ih =>
    intro pos log
    unfold redirectT
    cases hl : (orc pos).leader with
    | none => simp
    | some l =>
      simp only
      by_cases hs : (l == self) = true
      · rw [if_pos hs]; simp
      · rw [if_neg hs]
        by_cases hc : ((orc pos).ok && (att (cfgAt log) true).1 == Res.ok) = true
        · rw [if_pos hc]
          refine ⟨fun _ => ⟨_, List.mem_singleton.2 rfl, ?_⟩, fun h => absurd rfl h⟩
          simpa [Att.ackOk] using hc
        · rw [if_neg hc]
          obtain ⟨i1, i2⟩ := ih (pos + 1)
            (if ((orc pos).ok || (orc pos).lost) = true then log ++ (att (cfgAt log) true).2 else log)
          refine ⟨fun h => ?_, fun h a ha => ?_⟩
          · obtain ⟨a, ha, hk⟩ := i1 h
            exact ⟨a, List.mem_cons_of_mem _ ha, hk⟩
          · rcases List.mem_cons.1 ha with rfl | ha
            · simpa [Att.ackOk] using hc
            · exact i2 h a ha

theorem consLoopT_trace (self retries : Nat) (att : Attempt) (orc : Nat → Tick) :
    ∀ n pos log,
      ((consLoopT self retries att orc n pos log).1.1 = .ok → ∃ a ∈ (consLoopT self retries att orc n pos log).2, a.ackOk = true) ∧
      ((consLoopT self retries att orc n pos log).1.1 = .err → ∀ a ∈ (consLoopT self retries att orc n pos log).2, a.ackOk = false) := by
  intro n
  induction n with
  | zero => intro pos log; simp [consLoopT]
  | succ n ih =>
    intro pos log
    unfold consLoopT
    obtain ⟨r1, r2⟩ := redirectT_trace self att orc (retries + 1) pos log
    rcases hx : redirectT self att orc (retries + 1) pos log with ⟨⟨k, pos', log'⟩, tr⟩
    rw [hx] at r1 r2
    simp only at r1 r2
    cases k with
    | noLeader => exact ⟨fun h => (by cases h), fun _ => r2 (by simp)⟩
    | done => exact ⟨fun _ => r1 rfl, fun h => (by cases h)⟩
    | failed => exact ⟨fun h => (by cases h), fun _ => r2 (by simp)⟩
    | leading =>
      have r2' := r2 (by simp)
      simp only
      by_cases hc : ((att (cfgAt log') (orc pos').ok).1 == Res.ok) = true
      · rw [if_pos hc]
        refine ⟨fun _ => ⟨_, List.mem_append_right _ (List.mem_singleton.2 rfl), ?_⟩, fun h => (by cases h)⟩
        simpa [Att.ackOk] using hc
      · rw [if_neg hc]
        obtain ⟨i1, i2⟩ := ih (pos' + 1) log'
        refine ⟨fun h => ?_, fun h a ha => ?_⟩
        · obtain ⟨a, ha, hk⟩ := i1 h
          exact ⟨a, List.mem_append_right _ (List.mem_cons_of_mem _ ha), hk⟩
        · rcases List.mem_append.1 ha with ha | ha
          · exact r2' a ha
          · rcases List.mem_cons.1 ha with rfl | ha
            · simpa [Att.ackOk] using hc
            · exact i2 h a ha

/-! ### a failed call without a lost reply leaves the log alone -/
theorem redirectT_no_lost {self : Nat} {att : Attempt} {orc : Nat → Tick} (hE : ErrEmpty att) :
    ∀ n pos log, (redirectT self att orc n pos log).1.1 ≠ .done →
      (∀ a ∈ (redirectT self att orc n pos log).2, a.executed = true → a.answered = true) →
      (redirectT self att orc n pos log).1.2.2 = log := by
  intro n
  induction n with
  | zero => intro pos log _ _; rfl
  | succ n ih =>
    intro pos log
    unfold redirectT
    cases hl : (orc pos).leader with
    | none => intro _ _; rfl
    | some l =>
      simp only
      by_cases hs : (l == self) = true
      · rw [if_pos hs]; intro _ _; rfl
      · rw [if_neg hs]
        by_cases hc : ((orc pos).ok && (att (cfgAt log) true).1 == Res.ok) = true
        · rw [if_pos hc]; intro h; exact absurd rfl h
        · rw [if_neg hc]
          intro hnd hall
          have h0 := hall _ (List.mem_cons_self ..)
          simp only at h0
          -- the first attempt appended nothing
          have hlog : (if ((orc pos).ok || (orc pos).lost) = true then log ++ (att (cfgAt log) true).2 else log) = log := by
            by_cases hex : ((orc pos).ok || (orc pos).lost) = true
            · have hok : (orc pos).ok = true := h0 hex
              have herr : (att (cfgAt log) true).1 = .err := by
                rw [hok, Bool.true_and] at hc
                exact res_ne_ok hc
              rw [if_pos hex, hE _ _ herr, List.append_nil]
            · rw [if_neg hex]
          rw [hlog] at hnd hall ⊢
          exact ih (pos + 1) log hnd (fun a ha => hall a (List.mem_cons_of_mem _ ha))

theorem consLoopT_no_lost {self retries : Nat} {att : Attempt} {orc : Nat → Tick} (hE : ErrEmpty att) :
    ∀ n pos log, (consLoopT self retries att orc n pos log).1.1 = .err →
      (∀ a ∈ (consLoopT self retries att orc n pos log).2, a.executed = true → a.answered = true) →
      (consLoopT self retries att orc n pos log).1.2 = log := by
  intro n
  induction n with
  | zero => intro pos log _ _; rfl
  | succ n ih =>
    intro pos log
    unfold consLoopT
    have r := redirectT_no_lost (self := self) (orc := orc) hE (retries + 1) pos log
    rcases hx : redirectT self att orc (retries + 1) pos log with ⟨⟨k, pos', log'⟩, tr⟩
    rw [hx] at r
    simp only at r
    cases k with
    | noLeader => intro _ h; exact r (by simp) h
    | done => intro h; cases h
    | failed => intro _ h; exact r (by simp) h
    | leading =>
      simp only
      by_cases hc : ((att (cfgAt log') (orc pos').ok).1 == Res.ok) = true
      · rw [if_pos hc]; intro h; cases h
      · rw [if_neg hc]
        intro herr hall
        have hl : log' = log := r (by simp) (fun a ha => hall a (List.mem_append_left _ ha))
        subst hl
        exact ih (pos' + 1) log' herr (fun a ha => hall a (List.mem_append_right _ (List.mem_cons_of_mem _ ha)))

/-! ### an answered attempt of an always-succeeding call acknowledges -/

/-- `I` survives attempts and makes healthy attempts succeed -/
structure Good (att : Attempt) (I : List Entry → Prop) : Prop where
  keep : ∀ l f, I l → I (l ++ (att (cfgAt l) f).2)
  ok : ∀ l, I l → (att (cfgAt l) true).1 = .ok

theorem redirect_answered {self lead : Nat} {att : Attempt} {orc : Nat → Tick} {I : List Entry → Prop}
    (hG : Good att I) (hl : ∀ k, (orc k).leader = some lead) (hne : (lead == self) = false) :
    ∀ n pos log, I log → (∃ i, pos ≤ i ∧ i < pos + n ∧ (orc i).ok = true) →
      (redirect self att orc n pos log).1 = .done := by
  intro n
  induction n with
  | zero => intro pos log _ ⟨i, h1, h2, _⟩; omega
  | succ n ih =>
    intro pos log hI ⟨i, h1, h2, h3⟩
    unfold redirect
    rw [hl pos]
    simp only [hne, Bool.false_eq_true, if_false]
    by_cases hok : (orc pos).ok = true
    · simp [hok, hG.ok log hI]
    · have hok' : (orc pos).ok = false := by simpa using hok
      simp only [hok', Bool.false_and, Bool.false_eq_true, if_false, Bool.false_or]
      have hi : pos + 1 ≤ i := by
        rcases Nat.lt_or_ge pos i with h | h
        · omega
        · have : i = pos := by omega
          subst this; rw [hok'] at h3; cases h3
      refine ih (pos + 1) _ ?_ ⟨i, hi, by omega, h3⟩
      split_ifs
      · exact hG.keep log true hI
      · exact hI

/-- a follower's call: some forward within the `retries + 1` is answered ⇒ acknowledged -/
theorem consLoop_answered {self lead retries : Nat} {att : Attempt} {orc : Nat → Tick} {I : List Entry → Prop}
    (hG : Good att I) (hl : ∀ k, (orc k).leader = some lead) {log : List Entry} (hI : I log)
    (hne : (lead == self) = false) (h : ∃ i, i ≤ retries ∧ (orc i).ok = true) :
    (consLoop self retries att orc (retries + 1) 0 log).1 = .ok := by
  unfold consLoop
  obtain ⟨i, hi, hok⟩ := h
  have hd := redirect_answered hG hl hne (retries + 1) 0 log hI ⟨i, by omega, by omega, hok⟩
  rcases hx : redirect self att orc (retries + 1) 0 log with ⟨k, pos', log'⟩
  rw [hx] at hd
  simp only at hd
  subst hd
  rfl

/-- the leader's own call: an attempt that succeeds whatever the future says is acknowledged at once -/
theorem consLoop_leading {self retries : Nat} {att : Attempt} {orc : Nat → Tick} {log : List Entry}
    (hl : (orc 0).leader = some self) (hok : ∀ f, (att (cfgAt log) f).1 = .ok) :
    (consLoop self retries att orc (retries + 1) 0 log).1 = .ok := by
  unfold consLoop
  have : redirect self att orc (retries + 1) 0 log = (.leading, 0, log) := by
    unfold redirect; rw [hl]; simp
  rw [this]
  simp [hok]

theorem good_add_present (p : Nat) : Good (rwAddPeer p) (fun l => cfgHas (cfgAt l) p = true) where
  keep := fun l f h => by rw [rwAddPeer_present h, List.append_nil]; exact h
  ok := fun l h => by rw [rwAddPeer_present h]

theorem good_rm_absent (p : Nat) : Good (rwRemovePeer p) (fun l => cfgHas (cfgAt l) p = false) where
  keep := fun l f h => by rw [rwRemovePeer_absent h, List.append_nil]; exact h
  ok := fun l h => by rw [rwRemovePeer_absent h]

theorem good_add_any (p : Nat) : Good (rwAddPeer p) (fun _ => True) where
  keep := fun _ _ _ => trivial
  ok := fun l _ => by
    cases h : cfgHas (cfgAt l) p with
    | true => rw [rwAddPeer_present h]
    | false => rw [rwAddPeer_absent h]

theorem planOrc_leader (self lead : Nat) (plan : List PT) (hx : plan.contains .x = false) (hp : plan.contains .p = false)
    (k : Nat) :
    (planOrc self lead plan k).leader = some lead := by
  unfold planOrc
  cases h : plan[k]? with
  | none => rfl
  | some t =>
    cases t with
    | f => rfl
    | l => rfl
    | x =>
      have : PT.x ∈ plan := List.mem_of_getElem? h
      have : plan.contains .x = true := by simpa using this
      rw [hx] at this; cases this
    | p =>
      have : PT.p ∈ plan := List.mem_of_getElem? h
      have : plan.contains .p = true := by simpa using this
      rw [hp] at this; cases this

theorem planOrc_passes (self lead : Nat) (plan : List PT) : (planOrc self lead plan plan.length).ok = true := by
  unfold planOrc
  simp


/-! ### facts about a call under any oracle (restated as property theorems in Props/C17.lean) -/
theorem add_effect' (self retries : Nat) (orc : Nat → Tick) (log : List Entry) (p : Nat)
    (h : (consAddPeer self retries orc log p).1 = .ok) :
    cfgHas (cfgAt (consAddPeer self retries orc log p).2) p = true := by
  refine consLoop_ok (Q := fun l => cfgHas (cfgAt l) p = true) ?_ _ _ _ h
  intro l f _
  cases hh : cfgHas (cfgAt l) p with
  | true => rw [rwAddPeer_present hh, List.append_nil]; exact hh
  | false =>
    unfold rwAddPeer
    simp only [hh, Bool.false_eq_true, if_false]
    split_ifs
    · rw [cfgAt_append]; simp only [applyCfg]; rw [cfgHas_cfgPut]; simp
    · simp_all [rwAddPeer]

theorem rm_effect' (self retries : Nat) (orc : Nat → Tick) (log : List Entry) (p : Nat)
    (h : (consRmPeer self retries orc log p).1 = .ok) :
    cfgHas (cfgAt (consRmPeer self retries orc log p).2) p = false := by
  refine consLoop_ok (Q := fun l => cfgHas (cfgAt l) p = false) ?_ _ _ _ h
  intro l f hok
  cases hh : cfgHas (cfgAt l) p with
  | false => rw [rwRemovePeer_absent hh, List.append_nil]; exact hh
  | true =>
    unfold rwRemovePeer at hok ⊢
    simp only [hh, Bool.not_true, Bool.false_eq_true, if_false] at hok ⊢
    split_ifs at hok ⊢
    rw [cfgAt_append]; simp only [applyCfg]; rw [cfgHas_cfgErase]; simp

theorem add_once_if_absent' (self retries : Nat) (orc : Nat → Tick) (log : List Entry) (p : Nat) :
    (consAddPeer self retries orc log p).2 = log ∨
    (cfgHas (cfgAt log) p = false ∧ (consAddPeer self retries orc log p).2 = log ++ [.addVoter p]) := by
  refine consLoop_inv (I := fun l => l = log ∨ (cfgHas (cfgAt log) p = false ∧ l = log ++ [.addVoter p])) ?_ _ _ _ (Or.inl rfl)
  intro l f hl
  rcases hl with rfl | ⟨hn, rfl⟩
  · cases hh : cfgHas (cfgAt l) p with
    | true => left; rw [rwAddPeer_present hh, List.append_nil]
    | false =>
      unfold rwAddPeer
      simp only [hh, Bool.false_eq_true, if_false]
      split_ifs
      · right; exact ⟨trivial, rfl⟩
      · left; simp
  · right
    have : cfgHas (cfgAt (log ++ [.addVoter p])) p = true := by
      rw [cfgAt_append]; simp only [applyCfg]; rw [cfgHas_cfgPut]; simp
    rw [rwAddPeer_present this, List.append_nil]
    exact ⟨hn, rfl⟩

theorem rm_once_if_present' (self retries : Nat) (orc : Nat → Tick) (log : List Entry) (p : Nat) :
    (consRmPeer self retries orc log p).2 = log ∨
    (cfgHas (cfgAt log) p = true ∧ (consRmPeer self retries orc log p).2 = log ++ [.rmServer p]) := by
  refine consLoop_inv (I := fun l => l = log ∨ (cfgHas (cfgAt log) p = true ∧ l = log ++ [.rmServer p])) ?_ _ _ _ (Or.inl rfl)
  intro l f hl
  rcases hl with rfl | ⟨hn, rfl⟩
  · cases hh : cfgHas (cfgAt l) p with
    | false => left; rw [rwRemovePeer_absent hh, List.append_nil]
    | true =>
      unfold rwRemovePeer
      simp only [hh, Bool.not_true, Bool.false_eq_true, if_false]
      split_ifs
      · left; simp
      · right; exact ⟨trivial, rfl⟩
      · left; simp
  · right
    have : cfgHas (cfgAt (log ++ [.rmServer p])) p = false := by
      rw [cfgAt_append]; simp only [applyCfg]; rw [cfgHas_cfgErase]; simp
    rw [rwRemovePeer_absent this, List.append_nil]
    exact ⟨hn, rfl⟩


/-! ### fault scripts: what the model admits meets the clauses -/

/-- the fault model's log and the property's own bookkeeping describe the same cluster -/
structure FRel (s : FSt) (log : List Entry) : Prop where
  ids : cfgIds (cfgAt log) = s.members
  pins : pinsAt log = s.pinset

theorem fCallAny_some {retries : Nat} {init : List Nat} {log : List Entry} {att : Attempt} {a j lead : Nat} {res : Res}
    {fwd loc : Nat} {has : Has} {log' : List Entry} :
    ∀ orcs, fCallAny retries init log att a j lead res fwd loc has orcs = some log' →
      ∃ orc ∈ orcs, fCall retries init log att orc a j lead res fwd loc has = some log' := by
  intro orcs
  induction orcs with
  | nil => intro h; cases h
  | cons o rest ih =>
    intro h
    unfold fCallAny at h
    cases hc : fCall retries init log att o a j lead res fwd loc has with
    | some l => rw [hc] at h; exact ⟨o, List.mem_cons_self .., by rw [hc]; exact h⟩
    | none =>
      rw [hc] at h
      obtain ⟨orc, ho, hh⟩ := ih h
      exact ⟨orc, List.mem_cons_of_mem _ ho, hh⟩

theorem fCall_some {retries : Nat} {init : List Nat} {log : List Entry} {att : Attempt} {orc : Nat → Tick} {a j lead : Nat}
    {res : Res} {fwd loc : Nat} {has : Has} {log' : List Entry}
    (h : fCall retries init log att orc a j lead res fwd loc has = some log') :
    fPlaced init log a lead = true ∧ (consLoop a retries att orc (retries + 1) 0 log).1 = res ∧
    log' = (consLoop a retries att orc (retries + 1) 0 log).2 ∧ has = modelHas log' j := by
  unfold fCall at h
  simp only at h
  split_ifs at h with hc
  injection h with h
  subst h
  simp only [Bool.and_eq_true, beq_iff_eq] at hc
  obtain ⟨⟨⟨⟨h1, h2⟩, _⟩, _⟩, h5⟩ := hc
  rw [consLoopT_fst] at h2 h5 ⊢
  exact ⟨h1, h2, rfl, h5.symm⟩

theorem modelHas_all {log : List Entry} {j : Nat} : modelHas log j = .all ↔ cfgHas (cfgAt log) j = true := by
  unfold modelHas; split_ifs with h <;> simp [h]

theorem modelHas_none {log : List Entry} {j : Nat} : modelHas log j = .none ↔ cfgHas (cfgAt log) j = false := by
  unfold modelHas; split_ifs with h <;> simp [h]

theorem modelHas_ne_mixed (log : List Entry) (j : Nat) : modelHas log j ≠ .mixed := by
  unfold modelHas; split_ifs <;> simp

theorem contains_iff_cfgHas {s : FSt} {log : List Entry} (R : FRel s log) (j : Nat) :
    s.members.contains j = cfgHas (cfgAt log) j := by
  unfold cfgHas; rw [R.ids]

theorem fPlaced_lead {init : List Nat} {log : List Entry} {a lead : Nat} (h : fPlaced init log a lead = true) :
    cfgHas (cfgAt log) a = true ∧ cfgHas (cfgAt log) lead = true := by
  unfold fPlaced at h
  simp only [Bool.and_eq_true] at h
  exact ⟨h.1.2, h.2⟩

theorem fStep_add {retries : Nat} {init : List Nat} {s : FSt} {log log' : List Entry} {a j lead : Nat} {plan : List PT}
    {res : Res} {fwd loc : Nat} {has : Has} (R : FRel s log)
    (h : fStep retries init log (.add a j lead plan res fwd loc has) = some log') :
    FRel (fAdvance s (.add a j lead plan res fwd loc has)) log' ∧
    ∀ c ∈ fCheckOp retries init s (.add a j lead plan res fwd loc has), c.2 = true := by
  unfold fStep at h
  obtain ⟨orc, ho, hc⟩ := fCallAny_some _ h
  obtain ⟨hp, hres, hlog, hhas⟩ := fCall_some hc
  have hlog' : log' = (consAddPeer a retries orc log j).2 := hlog
  have hres' : (consAddPeer a retries orc log j).1 = res := hres
  have honce := add_once_if_absent' a retries orc log j
  rw [← hlog'] at honce
  constructor
  · -- bookkeeping
    rcases honce with h1 | ⟨hn, h1⟩
    · subst h1
      refine ⟨?_, ?_⟩
      · simp only [fAdvance]
        split_ifs with hh
        · have : has = .all := by simpa using hh
          rw [this] at hhas
          have hj : j ∈ cfgIds (cfgAt log') := cfgHas_iff.1 (modelHas_all.1 hhas.symm)
          simp only
          rw [← R.ids, insertPeer_of_mem (sorted_cfgAt log') hj]
        · exact R.ids
      · simp only [fAdvance]; split_ifs <;> exact R.pins
    · have hin : cfgHas (cfgAt log') j = true := by
        rw [h1, cfgAt_append]; simp only [applyCfg]; rw [cfgHas_cfgPut]; simp
      have : has = .all := by rw [hhas]; exact modelHas_all.2 hin
      subst this
      refine ⟨?_, ?_⟩
      · simp only [fAdvance, beq_self_eq_true, if_true]
        rw [h1, cfgAt_append]; simp only [applyCfg]; rw [cfgIds_cfgPut, R.ids]
      · simp only [fAdvance, beq_self_eq_true, if_true]
        rw [h1, pinsAt_append]; simp only [applyPin]; exact R.pins
  · intro c hcm
    simp only [fCheckOp, List.mem_cons, List.mem_nil_iff, or_false] at hcm
    rcases hcm with rfl | rfl | rfl
    · -- ack_in_all
      simp only [Bool.or_eq_true, Bool.not_eq_true', beq_iff_eq]
      cases hr : res with
      | err => left; rfl
      | ok =>
        right
        rw [hr] at hres'
        have := add_effect' a retries orc log j hres'
        rw [← hlog'] at this
        rw [hhas]; exact modelHas_all.2 this
    · -- failed_not_split
      simp only [Bool.or_eq_true, Bool.and_eq_true, Bool.not_eq_true', beq_iff_eq]
      cases hm : cfgHas (cfgAt log') j with
      | true => left; right; rw [hhas]; exact modelHas_all.2 hm
      | false =>
        right
        refine ⟨by rw [hhas]; exact modelHas_none.2 hm, ?_⟩
        rw [contains_iff_cfgHas R]
        rcases honce with h1 | ⟨hn, _⟩
        · rw [h1] at hm; exact hm
        · exact hn
    · -- add_present_noop
      show (!(init.contains a && s.members.contains a && s.members.contains j && planPasses retries a lead plan) || okB res) = true
      cases hprem : (init.contains a && s.members.contains a && s.members.contains j && planPasses retries a lead plan) with
      | false => rfl
      | true =>
        simp only [Bool.not_true, Bool.false_or]
        simp only [Bool.and_eq_true] at hprem
        obtain ⟨⟨_, hj⟩, hpass⟩ := hprem
        rw [contains_iff_cfgHas R] at hj
        have hpass0 := hpass
        unfold planPasses at hpass0
        simp only [Bool.and_eq_true, Bool.not_eq_true'] at hpass0
        have ho' : orc = planOrc a lead plan := by
          have hnp' : PT.p ∉ plan := by simpa using hpass0.1.2
          unfold pExtra at ho
          simpa [hnp'] using ho
        subst ho'
        have hok : (consAddPeer a retries (planOrc a lead plan) log j).1 = .ok := by
          unfold planPasses at hpass
          simp only [Bool.and_eq_true, Bool.not_eq_true'] at hpass
          obtain ⟨⟨hnx, hnp⟩, hpass⟩ := hpass
          by_cases hal : (lead == a) = true
          · have : lead = a := by simpa using hal
            subst this
            exact consLoop_leading (planOrc_leader _ _ _ hnx hnp 0) (fun f => by rw [rwAddPeer_present hj])
          · refine consLoop_answered (good_add_present j) (planOrc_leader a lead plan hnx hnp) hj (by simpa using hal) ?_
            simp only [Bool.or_eq_true, beq_iff_eq, decide_eq_true_eq] at hpass
            rcases hpass with hpass | hpass
            · exact absurd (by simp [hpass]) hal
            · exact ⟨plan.length, hpass, planOrc_passes a lead plan⟩
        rw [hres'] at hok
        simp [okB, hok]


theorem fStep_rm {retries : Nat} {init : List Nat} {s : FSt} {log log' : List Entry} {a j lead : Nat} {plan : List PT}
    {res : Res} {fwd loc : Nat} {has : Has} (R : FRel s log)
    (h : fStep retries init log (.rm a j lead plan res fwd loc has) = some log') :
    FRel (fAdvance s (.rm a j lead plan res fwd loc has)) log' ∧
    ∀ c ∈ fCheckOp retries init s (.rm a j lead plan res fwd loc has), c.2 = true := by
  unfold fStep at h
  obtain ⟨orc, ho, hc⟩ := fCallAny_some _ h
  obtain ⟨hp, hres, hlog, hhas⟩ := fCall_some hc
  have hlog' : log' = (consRmPeer a retries orc log j).2 := hlog
  have hres' : (consRmPeer a retries orc log j).1 = res := hres
  have honce := rm_once_if_present' a retries orc log j
  rw [← hlog'] at honce
  constructor
  · rcases honce with h1 | ⟨hn, h1⟩
    · subst h1
      refine ⟨?_, ?_⟩
      · simp only [fAdvance]
        split_ifs with hh
        · have : has = .none := by simpa using hh
          rw [this] at hhas
          have hj : j ∉ cfgIds (cfgAt log') := cfgHas_false_iff.1 (modelHas_none.1 hhas.symm)
          simp only
          rw [← R.ids, erasePeer_of_not_mem hj]
        · exact R.ids
      · simp only [fAdvance]; split_ifs <;> exact R.pins
    · have hout : cfgHas (cfgAt log') j = false := by
        rw [h1, cfgAt_append]; simp only [applyCfg]; rw [cfgHas_cfgErase]; simp
      have : has = .none := by rw [hhas]; exact modelHas_none.2 hout
      subst this
      refine ⟨?_, ?_⟩
      · simp only [fAdvance, beq_self_eq_true, if_true]
        rw [h1, cfgAt_append]; simp only [applyCfg]; rw [cfgIds_cfgErase, R.ids]
      · simp only [fAdvance, beq_self_eq_true, if_true]
        rw [h1, pinsAt_append]; simp only [applyPin]; exact R.pins
  · intro c hcm
    simp only [fCheckOp, List.mem_cons, List.mem_nil_iff, or_false] at hcm
    rcases hcm with rfl | rfl | rfl | rfl
    · -- ack_in_all
      simp only [Bool.or_eq_true, Bool.not_eq_true', beq_iff_eq]
      cases hr : res with
      | err => left; rfl
      | ok =>
        right
        rw [hr] at hres'
        have := rm_effect' a retries orc log j hres'
        rw [← hlog'] at this
        rw [hhas]; exact modelHas_none.2 this
    · -- failed_not_split
      simp only [Bool.or_eq_true, Bool.and_eq_true, beq_iff_eq]
      cases hm : cfgHas (cfgAt log') j with
      | false => left; right; rw [hhas]; exact modelHas_none.2 hm
      | true =>
        right
        refine ⟨by rw [hhas]; exact modelHas_all.2 hm, ?_⟩
        rw [contains_iff_cfgHas R]
        rcases honce with h1 | ⟨_, h1⟩
        · rw [h1] at hm; exact hm
        · rw [h1, cfgAt_append] at hm
          simp only [applyCfg] at hm
          rw [cfgHas_cfgErase] at hm
          simp at hm
    · -- rm_absent_noop
      show (!(init.contains a && s.members.contains a && !s.members.contains j && planPasses retries a lead plan) || okB res) = true
      cases hprem : (init.contains a && s.members.contains a && !s.members.contains j && planPasses retries a lead plan) with
      | false => rfl
      | true =>
        simp only [Bool.not_true, Bool.false_or]
        simp only [Bool.and_eq_true, Bool.not_eq_true'] at hprem
        obtain ⟨⟨⟨_, ha⟩, hj⟩, hpass⟩ := hprem
        rw [contains_iff_cfgHas R] at hj ha
        obtain ⟨_, hlead⟩ := fPlaced_lead hp
        have haj : (a == j) = false := by
          cases hx : (a == j) with
          | false => rfl
          | true => have : a = j := by simpa using hx
                    subst this; rw [ha] at hj; cases hj
        have hlj : (j == lead) = false := by
          cases hx : (j == lead) with
          | false => rfl
          | true => have : j = lead := by simpa using hx
                    subst this; rw [hlead] at hj; cases hj
        have hpass0 := hpass
        unfold planPasses at hpass0
        simp only [Bool.and_eq_true, Bool.not_eq_true'] at hpass0
        have ho' : orc = planOrc a lead plan := by
          have hnp' : PT.p ∉ plan := by simpa using hpass0.1.2
          unfold rmOrcs pExtra at ho
          simpa [haj, hlj, hnp'] using ho
        subst ho'
        have hok : (consRmPeer a retries (planOrc a lead plan) log j).1 = .ok := by
          unfold planPasses at hpass
          simp only [Bool.and_eq_true, Bool.not_eq_true'] at hpass
          obtain ⟨⟨hnx, hnp⟩, hpass⟩ := hpass
          by_cases hal : (lead == a) = true
          · have : lead = a := by simpa using hal
            subst this
            exact consLoop_leading (planOrc_leader _ _ _ hnx hnp 0) (fun f => by rw [rwRemovePeer_absent hj])
          · refine consLoop_answered (good_rm_absent j) (planOrc_leader a lead plan hnx hnp) hj (by simpa using hal) ?_
            simp only [Bool.or_eq_true, beq_iff_eq, decide_eq_true_eq] at hpass
            rcases hpass with hpass | hpass
            · exact absurd (by simp [hpass]) hal
            · exact ⟨plan.length, hpass, planOrc_passes a lead plan⟩
        rw [hres'] at hok
        simp [okB, hok]
    · -- last_peer_kept
      show (!(s.members == [j]) || !okB res) = true
      cases hl : (s.members == [j]) with
      | false => rfl
      | true =>
        have hm : s.members = [j] := by simpa using hl
        have hids : cfgIds (cfgAt log) = [j] := by rw [R.ids, hm]
        have : consRmPeer a retries orc log j = (.err, log) :=
          consLoop_refused (fun f => rwRemovePeer_last hids f) _ _
        rw [this] at hres'
        simp only at hres'
        subst hres'
        rfl

theorem fStep_pin {retries : Nat} {init : List Nat} {s : FSt} {log log' : List Entry} {a : Nat} {p : Pin} (R : FRel s log)
    (h : fStep retries init log (.pin a p) = some log') : FRel (fAdvance s (.pin a p)) log' := by
  unfold fStep at h
  simp only at h
  split_ifs at h
  injection h with h
  subst h
  refine ⟨?_, ?_⟩
  · rw [cfgAt_append]; simp only [applyCfg, fAdvance]; exact R.ids
  · rw [pinsAt_append]; simp only [applyPin, fAdvance]; rw [R.pins]

theorem fReplay_rel {retries : Nat} {init : List Nat} : ∀ (ops : List FOp) {s : FSt} {log log' : List Entry}, FRel s log →
    fReplay retries init log ops = some log' →
    FRel (fFinal s ops) log' ∧ (fCheckOps retries init s ops).all (·.2) = true := by
  intro ops
  induction ops with
  | nil =>
    intro s log log' R h
    simp only [fReplay] at h
    injection h with h; subst h
    exact ⟨R, rfl⟩
  | cons op rest ih =>
    intro s log log' R h
    unfold fReplay at h
    cases hs : fStep retries init log op with
    | none => rw [hs] at h; cases h
    | some l1 =>
      rw [hs] at h
      simp only at h
      have key : FRel (fAdvance s op) l1 ∧ ∀ c ∈ fCheckOp retries init s op, c.2 = true := by
        cases op with
        | add a j lead plan res fwd loc has => exact fStep_add R hs
        | rm a j lead plan res fwd loc has => exact fStep_rm R hs
        | pin a p => exact ⟨fStep_pin R hs, by simp [fCheckOp]⟩
      obtain ⟨R1, hc1⟩ := key
      obtain ⟨R2, hc2⟩ := ih R1 h
      refine ⟨R2, ?_⟩
      simp only [fCheckOps, List.all_append, Bool.and_eq_true]
      exact ⟨List.all_eq_true.2 hc1, hc2⟩

theorem fRel_init (init : List Nat) : FRel (fInit init) [.boot init] := by
  refine ⟨?_, rfl⟩
  show cfgIds (cfgAt [.boot init]) = normPeers init
  simp only [cfgAt, List.foldl_cons, List.foldl_nil, applyCfg]
  exact cfgIds_initCfg init

theorem fObs_clauses {init : List Nat} {s : FSt} {log : List Entry} (R : FRel s log) {o : Obs}
    (h : fObsOk init log o = true) : (fCheckObs init s o).all (·.2) = true := by
  unfold fObsOk at h
  simp only [Bool.and_eq_true, List.all_eq_true] at h
  obtain ⟨h1, _⟩ := h
  have key : ∀ m ∈ o.members.filter (fun m => init.contains m.id && s.members.contains m.id),
      m.peers = s.members ∧ canonMap m.pins = canonMap s.pinset := by
    intro m hm
    obtain ⟨hm1, hm2⟩ := List.mem_filter.1 hm
    have := h1 m hm1
    rw [contains_iff_cfgHas R] at hm2
    simp only [hm2, Bool.not_true, Bool.false_or, Bool.and_eq_true, beq_iff_eq] at this
    rw [← R.ids, ← R.pins]
    exact ⟨this.1.1, this.1.2⟩
  simp only [fCheckObs, List.all_cons, List.all_nil, Bool.and_true, Bool.and_eq_true, List.all_eq_true, beq_iff_eq]
  exact ⟨fun m hm => (key m hm).1, fun m hm => (key m hm).2⟩


/-! ### a joiner during a burst of pins -/

/-- a peer that `WaitForSync` lets through has applied every entry logged before its own addition: if no entry below
    index `a` gives it a vote, its state is the state at `a` extended by what it applied since -/
theorem joiner_sync_lemma (log : List Entry) (j h a : Nat)
    (hr : syncReady log true { id := j, have_ := h, applied := h } = true)
    (hfirst : ∀ k e, log[k]? = some e → e.enfranchises j = true → a ≤ k) :
    a < h ∧ pinsAt (log.take h) = ((log.take h).drop a).foldl applyPin (pinsAt (log.take a)) := by
  unfold syncReady at hr
  simp only [Bool.true_and, Bool.and_eq_true, beq_iff_eq] at hr
  obtain ⟨hv, _⟩ := hr
  unfold Member.cfg cfgAt at hv
  simp only at hv
  rcases cfgVoter_foldl _ _ hv with h0 | ⟨k, e, hk, he⟩
  · simp [cfgVoter] at h0
  · have hklt : k < h := by
      have := (List.getElem?_eq_some_iff.1 hk).1
      rw [List.length_take] at this
      omega
    have hk' : log[k]? = some e := by
      rw [List.getElem?_take] at hk
      split_ifs at hk
      exact hk
    have hak := hfirst k e hk' he
    refine ⟨by omega, ?_⟩
    unfold pinsAt
    rw [← List.foldl_append]
    congr 1
    have : log.take a = (log.take h).take a := by
      rw [List.take_take]; congr 1; omega
    rw [this, List.take_append_drop]


/-! ### the join suite: what the model admits meets the clauses -/
def putAll (ps : List Pin) (m : PinMap) : PinMap := ps.foldl (fun m p => PinMap.put p.stored m) m

theorem stored_cid (p : Pin) : p.stored.cid = p.cid := rfl

theorem wf_putAll (ps : List Pin) : ∀ {m : PinMap}, m.wf = true → (putAll ps m).wf = true := by
  induction ps with
  | nil => intro m h; exact h
  | cons q rest ih => intro m h; exact ih (wf_put h _)

theorem get_putAll_not_mem (ps : List Pin) (c : Nat) (hc : ∀ q ∈ ps, q.cid ≠ c) :
    ∀ {m : PinMap}, m.wf = true → (putAll ps m).get c = m.get c := by
  induction ps with
  | nil => intro m _; rfl
  | cons q rest ih =>
    intro m h
    show (putAll rest (PinMap.put q.stored m)).get c = m.get c
    rw [ih (fun x hx => hc x (List.mem_cons_of_mem _ hx)) (wf_put h _), get_put h]
    have : q.stored.cid ≠ c := hc q (List.mem_cons_self ..)
    rw [if_neg this]

theorem get_putAll_mem (ps : List Pin) (hn : (ps.map (·.cid)).Nodup) {p : Pin} (hp : p ∈ ps) :
    ∀ {m : PinMap}, m.wf = true → (putAll ps m).get p.cid = some p.stored := by
  induction ps with
  | nil => cases hp
  | cons q rest ih =>
    intro m h
    simp only [List.map_cons, List.nodup_cons] at hn
    show (putAll rest (PinMap.put q.stored m)).get p.cid = some p.stored
    rcases List.mem_cons.1 hp with rfl | hp'
    · rw [get_putAll_not_mem rest _ (fun x hx hxe => hn.1 (List.mem_map.2 ⟨x, hx, hxe⟩)) (wf_put h _),
        get_put h]
      simp [stored_cid]
    · exact ih hn.2 hp' (wf_put h _)

theorem pinsAt_append_pinEntries (log : List Entry) (ps : List Pin) :
    pinsAt (log ++ ps.map Entry.pin) = putAll ps (pinsAt log) := by
  unfold pinsAt putAll
  rw [List.foldl_append, List.foldl_map]
  rfl

theorem cfgAt_append_pinEntries (log : List Entry) (ps : List Pin) : cfgAt (log ++ ps.map Entry.pin) = cfgAt log :=
  cfgAt_append_pins log _ (by intro e he; obtain ⟨q, _, rfl⟩ := List.mem_map.1 he; rfl)

theorem canon_get (m : PinMap) (c : Nat) : (canonMap m).get c = (m.get c).map canonPin := by
  induction m with
  | nil => rfl
  | cons q rest ih =>
    show PinMap.get (canonPin q :: canonMap rest) c = _
    rw [get_cons, get_cons]
    have : (canonPin q).cid = q.cid := rfl
    rw [this]
    split_ifs
    · rfl
    · exact ih

/-- entries that do not touch cid `c` leave its value alone -/
theorem get_foldl_applyPin_other (es : List Entry) (c : Nat)
    (h : ∀ e ∈ es, (∀ q, e = .pin q → q.cid ≠ c) ∧ (∀ d, e ≠ .unpin d)) :
    ∀ {m : PinMap}, m.wf = true → (es.foldl applyPin m).get c = m.get c := by
  induction es with
  | nil => intro m _; rfl
  | cons e rest ih =>
    intro m hw
    simp only [List.foldl_cons]
    rw [ih (fun x hx => h x (List.mem_cons_of_mem _ hx)) (wf_applyPin hw e)]
    have he := h e (List.mem_cons_self ..)
    cases e with
    | pin q =>
      simp only [applyPin]
      rw [get_put hw]
      have : q.stored.cid ≠ c := he.1 q rfl
      rw [if_neg this]
    | unpin d => exact absurd rfl (he.2 d)
    | boot ids => rfl
    | addVoter q => rfl
    | addNonvoter q => rfl
    | rmServer q => rfl

structure WfJ (k : JCase) : Prop where
  fresh : k.joiner ∉ k.init
  distinct : ((k.pre ++ k.burst).map (·.cid)).Nodup
  acked : k.acked ≤ k.burst.length

theorem jLog_split (k : JCase) (m : Nat) (hm : m ≤ (k.pre ++ k.burst).length) :
    (jLog k m).take (m + 1) = [.boot k.init] ++ ((k.pre ++ k.burst).take m).map Entry.pin ∧
    (jLog k m).drop (m + 1) = [.addVoter k.joiner] ++ ((k.pre ++ k.burst).drop m).map Entry.pin := by
  have hl : ([Entry.boot k.init] ++ ((k.pre ++ k.burst).take m).map Entry.pin).length = m + 1 := by
    rw [List.length_append, List.length_map, List.length_take, Nat.min_eq_left hm]; simp; omega
  unfold jLog
  constructor
  · rw [List.append_assoc ([Entry.boot k.init] ++ _), List.take_left' hl]
  · rw [List.append_assoc ([Entry.boot k.init] ++ _), List.drop_left' hl]

theorem jLog_cfg (k : JCase) (m : Nat) : cfgIds (cfgAt (jLog k m)) = insertPeer k.joiner (normPeers k.init) := by
  unfold jLog
  rw [cfgAt_append_pinEntries, cfgAt_append, cfgAt_append_pinEntries]
  simp only [applyCfg]
  rw [cfgIds_cfgPut]
  congr 1
  show cfgIds (cfgAt [.boot k.init]) = normPeers k.init
  simp only [cfgAt, List.foldl_cons, List.foldl_nil, applyCfg]
  exact cfgIds_initCfg k.init

theorem jLog_pins (k : JCase) (m : Nat) : pinsAt (jLog k m) = putAll (k.pre ++ k.burst) [] := by
  unfold jLog
  rw [pinsAt_append_pinEntries, pinsAt_append, pinsAt_append_pinEntries]
  simp only [applyPin]
  have : pinsAt [Entry.boot k.init] = [] := rfl
  rw [this]
  unfold putAll
  rw [← List.foldl_append, List.take_append_drop]


theorem mem_take_mono {α : Type} {l : List α} {n m : Nat} (h : n ≤ m) {x : α} (hx : x ∈ l.take n) : x ∈ l.take m := by
  have : l.take n = (l.take m).take n := by rw [List.take_take]; congr 1; omega
  rw [this] at hx
  exact List.mem_of_mem_take hx

/-- the joiner's state when `WaitForSync` let it through holds every pin logged before its addition -/
theorem jReady_holds (k : JCase) (hw : WfJ k) (m h : Nat) (hm : m ≤ (k.pre ++ k.burst).length)
    (hr : syncReady (jLog k m) true { id := k.joiner, have_ := h, applied := h } = true)
    {p : Pin} (hp : p ∈ (k.pre ++ k.burst).take m) :
    (pinsAt ((jLog k m).take h)).get p.cid = some p.stored := by
  obtain ⟨htake, hdrop⟩ := jLog_split k m hm
  have hfirst : ∀ i e, (jLog k m)[i]? = some e → e.enfranchises k.joiner = true → m + 1 ≤ i := by
    intro i e hi he
    by_contra hlt
    have hlt' : i < m + 1 := by omega
    have : ((jLog k m).take (m + 1))[i]? = some e := by
      rw [List.getElem?_take, if_pos hlt']; exact hi
    rw [htake] at this
    have hmem : e ∈ [Entry.boot k.init] ++ ((k.pre ++ k.burst).take m).map Entry.pin := List.mem_of_getElem? this
    rcases List.mem_append.1 hmem with h1 | h1
    · have : e = .boot k.init := by simpa using h1
      subst this
      simp only [Entry.enfranchises] at he
      exact hw.fresh (by simpa using he)
    · obtain ⟨q, _, rfl⟩ := List.mem_map.1 h1
      simp [Entry.enfranchises] at he
  obtain ⟨_, hpins⟩ := joiner_sync_lemma (jLog k m) k.joiner h (m + 1) hr hfirst
  rw [hpins, htake, pinsAt_append_pinEntries]
  have hwf : (putAll ((k.pre ++ k.burst).take m) (pinsAt [Entry.boot k.init])).wf = true := wf_putAll _ (wf_pinsAt _)
  have hnodupA : (((k.pre ++ k.burst).take m).map (·.cid)).Nodup := by
    rw [List.map_take]
    exact (List.take_sublist _ _).nodup hw.distinct
  rw [get_foldl_applyPin_other _ p.cid ?_ hwf]
  · exact get_putAll_mem _ hnodupA hp (wf_pinsAt _)
  · intro e he
    have he' : e ∈ (jLog k m).drop (m + 1) := by
      have h1 : e ∈ ((jLog k m).take h).drop (m + 1) := he
      rw [List.drop_take] at h1
      exact List.mem_of_mem_take h1
    rw [hdrop] at he'
    rcases List.mem_append.1 he' with h1 | h1
    · have : e = .addVoter k.joiner := by simpa using h1
      subst this
      exact ⟨fun q hq => (by cases hq), fun d hd => (by cases hd)⟩
    · obtain ⟨q, hq, rfl⟩ := List.mem_map.1 h1
      refine ⟨fun q' hq' => ?_, fun d hd => (by cases hd)⟩
      injection hq' with hq'
      subst hq'
      -- p is among the first m pins, q among the others: distinct cids
      intro hc
      have hsplit : (k.pre ++ k.burst) = (k.pre ++ k.burst).take m ++ (k.pre ++ k.burst).drop m := (List.take_append_drop m _).symm
      have hd := hw.distinct
      rw [hsplit, List.map_append, List.nodup_append] at hd
      exact hd.2.2 _ (List.mem_map.2 ⟨p, hp, rfl⟩) _ (List.mem_map.2 ⟨q, hq, rfl⟩) hc.symm


theorem join_allowed_holds' (k : JCase) (hw : WfJ k) (ha : jAllowed k = true) : jHolds k = true := by
  simp only [jAllowed, Bool.and_eq_true, List.any_eq_true, List.mem_range, decide_eq_true_eq, beq_iff_eq,
    List.all_eq_true] at ha
  obtain ⟨⟨⟨⟨hres, _⟩, _⟩, _⟩, m, hmr, ⟨hpos, h, _, hr, hready⟩, hobs, _⟩ := ha
  have hm : m ≤ (k.pre ++ k.burst).length := by omega
  have hobs' : ∀ mo ∈ k.obs.members.filter (fun mo => (k.joiner :: k.init).contains mo.id),
      mo.peers = cfgIds (cfgAt (jLog k m)) ∧ canonMap mo.pins = canonMap (pinsAt (jLog k m)) := by
    intro mo hmo
    obtain ⟨h1, h2⟩ := List.mem_filter.1 hmo
    have := hobs mo h1
    simp only [h2, Bool.not_true, Bool.false_or, Bool.and_eq_true, beq_iff_eq] at this
    exact this
  unfold jHolds jClauses
  simp only [List.all_cons, List.all_nil, Bool.and_true, Bool.and_eq_true]
  refine ⟨?_, ?_, ?_⟩
  · -- joiner_synced
    simp only [Bool.or_eq_true, List.all_eq_true, beq_iff_eq]
    right
    intro p hp
    have hp' : p ∈ (k.pre ++ k.burst).take m := by
      have : k.pre ++ k.burst.take k.acked = (k.pre ++ k.burst).take (k.pre.length + k.acked) :=
        (List.take_length_add_append k.acked).symm
      rw [this] at hp
      exact mem_take_mono hpos hp
    have hg := jReady_holds k hw m h hm hr hp'
    have hc : canonMap k.ready = canonMap (pinsAt ((jLog k m).take h)) := hready.symm
    rw [hc, canon_get, hg]
    rfl
  · simp only [Bool.or_eq_true, List.all_eq_true, beq_iff_eq]
    right
    intro mo hmo
    rw [(hobs' mo hmo).1, jLog_cfg]
  · simp only [List.all_eq_true, beq_iff_eq]
    intro mo hmo
    rw [(hobs' mo hmo).2, jLog_pins]
    rfl

end CV.C17
