import ClusterVerif.Spec.C13
import Mathlib.Data.List.Basic
import Mathlib.Tactic.SplitIfs
/-! Helper lemmas for the C13 bookkeeping theorems. -/
namespace CV.C13
open CV

/-! ### the scripted cluster side: only `pinCall` touches the pin record -/

theorem putRound_pins (c : Cfg) (e : Env) (d : List Nat) (b : Nat) : (putRound c e d b).1.pins = e.pins := by
  unfold putRound; simp only; split_ifs <;> rfl

theorem allocate_pins (c : Cfg) (e : Env) : (allocate c e).1.pins = e.pins := by
  unfold allocate; simp only; split_ifs <;> rfl

theorem pinCall_pins (c : Cfg) (e : Env) (p : Pin) :
    (pinCall c e p).1.pins = e.pins ++ [(sentPin p, (pinCall c e p).2)] := by
  unfold pinCall; rfl

theorem pinCall_snd (c : Cfg) (e : Env) (p : Pin) : (pinCall c e p).2 = !c.pfail.contains e.nPin := by
  unfold pinCall; rfl

theorem putMany_pins (c : Cfg) : ∀ (ns : List Node) (e : Env) (d : List Nat), (putMany c e d ns).1.pins = e.pins
  | [], e, d => by simp [putMany]
  | n :: ns, e, d => by
    unfold putMany
    simp only
    rcases h : putRound c { e with named := addNamed e.named n } d n.id with ⟨e1, _ | d1⟩
    · have := putRound_pins c { e with named := addNamed e.named n } d n.id
      rw [h] at this; simpa using this
    · have := putRound_pins c { e with named := addNamed e.named n } d n.id
      rw [h] at this
      simp only
      rw [putMany_pins c ns]; simpa using this

theorem acceptedPins_append (a b : List (Pin × Bool)) : acceptedPins (a ++ b) = acceptedPins a ++ acceptedPins b := by
  simp [acceptedPins, List.filterMap_append]

@[simp] theorem acceptedPins_single_true (p : Pin) : acceptedPins [(p, true)] = [p] := by simp [acceptedPins]
@[simp] theorem acceptedPins_single_false (p : Pin) : acceptedPins [(p, false)] = [] := by simp [acceptedPins]
@[simp] theorem acceptedPins_nil : acceptedPins [] = [] := rfl


/-! ### flush -/

theorem flush_cases (c : Cfg) (s : ShSt) (k : Cur) :
    (∃ s', flush c s k = (s', .ok) ∧ s'.shards = s.shards ++ [flushRec c s k] ∧ s'.cur = none ∧ s'.added = s.added ∧
        acceptedPins s'.env.pins = acceptedPins s.env.pins ++ [(flushRec c s k).pin]) ∨
    (∃ s' d, flush c s k = (s', .fail) ∧ s'.shards = s.shards ∧ s'.cur = some { k with dests := d } ∧ s'.added = s.added ∧
        acceptedPins s'.env.pins = acceptedPins s.env.pins) := by
  unfold flush
  rcases h : putMany c s.env k.dests (flushNodes s k) with ⟨e1, d1, _ | _⟩
  · right
    have hp := putMany_pins c (flushNodes s k) s.env k.dests
    rw [h] at hp
    exact ⟨_, d1, rfl, rfl, rfl, rfl, by simpa using congrArg acceptedPins hp⟩
  · have hp := putMany_pins c (flushNodes s k) s.env k.dests
    rw [h] at hp; simp only at hp
    simp only
    rcases hc : pinCall c e1 (flushPin c s k) with ⟨e2, _ | _⟩
    · right
      have h3 := pinCall_pins c e1 (flushPin c s k)
      rw [hc] at h3; simp only at h3
      exact ⟨_, d1, rfl, rfl, rfl, rfl, by simp [h3, acceptedPins_append, hp]⟩
    · left
      have h3 := pinCall_pins c e1 (flushPin c s k)
      rw [hc] at h3; simp only at h3
      exact ⟨_, rfl, rfl, rfl, rfl, by simp [h3, acceptedPins_append, hp, flushRec]⟩


/-! ### allocation, new shard, adding to the current shard -/

theorem allocate_nodup (c : Cfg) (e : Env) (hwf : c.allocs.all nodupNat = true) :
    ∀ a, (allocate c e).2 = some a → nodupNat a = true := by
  intro a h
  unfold allocate at h
  simp only at h
  split_ifs at h with h1 h2
  · simp at h; subst h; rfl
  · simp at h
    subst h
    cases hg : c.allocs[e.nAlloc % c.allocs.length]? with
    | none => rfl
    | some x =>
      have hx : x ∈ c.allocs := List.mem_of_getElem? hg
      simpa using (List.all_eq_true.mp hwf) x hx

theorem newShard_frame (c : Cfg) (s : ShSt) :
    (newShard c s).1.shards = s.shards ∧ (newShard c s).1.added = s.added ∧ (newShard c s).1.prev = s.prev ∧
    (newShard c s).1.env.pins = s.env.pins := by
  unfold newShard
  rcases h : allocate c s.env with ⟨e, _ | a⟩
  · have := allocate_pins c s.env; rw [h] at this; simp only at this; simp [this]
  · have := allocate_pins c s.env; rw [h] at this; simp only at this
    simp only; split_ifs <;> simp [this]

theorem newShard_ok (c : Cfg) (s : ShSt) (hwf : c.allocs.all nodupNat = true) (s' : ShSt) (k : Cur)
    (h : newShard c s = (s', .ok, k)) : s'.cur = some k ∧ k.blocks = [] ∧ nodupNat k.allocs = true := by
  unfold newShard at h
  rcases ha : allocate c s.env with ⟨e, _ | a⟩
  · rw [ha] at h; simp at h
  · rw [ha] at h
    simp only at h
    split_ifs at h
    · simp at h
    · simp only [Prod.mk.injEq] at h
      obtain ⟨h1, _, h3⟩ := h
      subst h1; subst h3
      refine ⟨rfl, rfl, ?_⟩
      have := allocate_nodup c s.env hwf a (by rw [ha])
      exact this

theorem newShard_notok (c : Cfg) (s : ShSt) (s' : ShSt) (st : Status) (k : Cur)
    (h : newShard c s = (s', st, k)) (hst : st ≠ .ok) : s'.cur = s.cur := by
  unfold newShard at h
  rcases ha : allocate c s.env with ⟨e, _ | a⟩
  · rw [ha] at h; simp at h; obtain ⟨h1, _, _⟩ := h; subst h1; rfl
  · rw [ha] at h
    simp only at h
    split_ifs at h
    · simp at h; obtain ⟨h1, _, _⟩ := h; subst h1; rfl
    · simp at h; exact absurd h.2.1.symm hst

theorem addToCur_frame (c : Cfg) (s : ShSt) (k : Cur) (b : Blk) :
    (addToCur c s k b).1.shards = s.shards ∧ (addToCur c s k b).1.added = s.added ∧
    (addToCur c s k b).1.env.pins = s.env.pins ∧ (addToCur c s k b).2 ≠ .panic ∧
    ∃ d, (addToCur c s k b).1.cur = some { k with blocks := k.blocks ++ [b], dests := d } := by
  unfold addToCur
  have hp := putRound_pins c s.env k.dests b.id
  rcases h : putRound c s.env k.dests b.id with ⟨e, _ | d⟩
  · rw [h] at hp; exact ⟨rfl, rfl, hp, by simp, k.dests, rfl⟩
  · rw [h] at hp; exact ⟨rfl, rfl, hp, by simp, d, rfl⟩


/-! ### makeDAG: more than one node exactly when the links do not fit one node -/

theorem piecesAux_length (n : Nat) : ∀ (fuel : Nat) (l : List Nat), (piecesAux n fuel l).length = fuel
  | 0, _ => rfl
  | f + 1, l => by simp [piecesAux, piecesAux_length n f]

theorem leafIds_length (named : List Node) : ∀ (ls : List (List Nat)) (next : Nat), (leafIds named next ls).length = ls.length
  | [], _ => rfl
  | l :: ls, next => by
    unfold leafIds
    cases nodeId named l <;> simp [leafIds_length named ls]

theorem makeDAG_length (named : List Node) (links : List Nat) :
    (makeDAG named links).length = if links.length ≤ Gen.maxLinks then 1 else links.length / Gen.maxLinks + 2 := by
  unfold makeDAG
  split_ifs
  · rfl
  · simp [leafIds_length, piecesAux_length]

theorem makeDAG_indirect_iff (named : List Node) (links : List Nat) :
    (makeDAG named links).length > 1 ↔ links.length > Gen.maxLinks := by
  rw [makeDAG_length]
  split_ifs with h
  · omega
  · constructor
    · intro _; omega
    · intro _; have := Nat.zero_le (links.length / Gen.maxLinks); omega

/-! ### invariants of the sharding state -/

def curBlocks (s : ShSt) : List Blk :=
  match s.cur with
  | some k => k.blocks
  | none => []

/-- every block linked so far, in link order: the flushed shards, then the current one -/
def allBlocks (s : ShSt) : List Blk := s.shards.flatMap (·.blocks) ++ curBlocks s

/-- what holds of every flushed shard -/
structure ShardOk (c : Cfg) (r : ShardRec) : Prop where
  type : r.pin.type = .shardT
  size : (r.blocks.map (·.size)).sum < c.opts.shard
  depth : r.pin.depth = if r.nnodes > 1 then 2 else 1
  allocs : r.pin.allocs = if c.opts.rmin < 0 then [] else r.allocs
  nodup : nodupNat r.allocs = true
  indirect : r.nnodes > 1 ↔ r.blocks.length > Gen.maxLinks
  nnpos : 0 < r.nnodes
  psize : r.pin.opts.shard = (r.blocks.map (·.size)).sum

structure Inv (c : Cfg) (S : List Blk) (s : ShSt) : Prop where
  pins : acceptedPins s.env.pins = s.shards.map (·.pin)
  shards : ∀ r ∈ s.shards, ShardOk c r
  cur : ∀ k, s.cur = some k → (k.blocks ≠ [] → k.size < c.opts.shard) ∧ nodupNat k.allocs = true
  mem : ∀ b ∈ allBlocks s, b ∈ S

theorem sentPin_type (p : Pin) : (sentPin p).type = p.type := by unfold sentPin; split_ifs <;> rfl
theorem sentPin_depth (p : Pin) : (sentPin p).depth = p.depth := by unfold sentPin; split_ifs <;> rfl
theorem sentPin_cid (p : Pin) : (sentPin p).cid = p.cid := by unfold sentPin; split_ifs <;> rfl
theorem sentPin_ref (p : Pin) : (sentPin p).ref = p.ref := by unfold sentPin; split_ifs <;> rfl
theorem sentPin_opts (p : Pin) : (sentPin p).opts = p.opts := by unfold sentPin; split_ifs <;> rfl
theorem sentPin_allocs (p : Pin) : (sentPin p).allocs = if p.opts.rmin < 0 then [] else p.allocs := by
  unfold sentPin; split_ifs <;> rfl

theorem indirectGuard_eq (nn nl : Nat) : indirectGuard nn nl = decide (nn > 1) := by
  simp [indirectGuard, Gen.guardUsesLinks, Gen.guardConst]

theorem flushRec_ok (c : Cfg) (s : ShSt) (k : Cur) (hsz : k.size < c.opts.shard) (hnd : nodupNat k.allocs = true) :
    ShardOk c (flushRec c s k) where
  type := by simp [flushRec, sentPin_type, flushPin, shardPin]
  size := by simpa [flushRec, Cur.size] using hsz
  depth := by
    simp only [flushRec, sentPin_depth, flushPin, shardPin, indirectGuard_eq, Gen.depthIndirect, Gen.depthDirect]
    by_cases h : (flushNodes s k).length > 1 <;> simp [h]
  allocs := by simp [flushRec, sentPin_allocs, flushPin, shardPin, workOpts]
  nodup := by simpa [flushRec] using hnd
  indirect := by
    have := makeDAG_indirect_iff s.env.named (k.blocks.map (·.id))
    simpa [flushRec, flushNodes] using this
  nnpos := by
    simp only [flushRec, flushNodes, makeDAG_length]
    split_ifs
    · omega
    · exact Nat.succ_pos _
  psize := by simp [flushRec, sentPin_opts, flushPin, shardPin, Cur.size]

theorem size_ne_zero_blocks (k : Cur) (h : k.size ≠ 0) : k.blocks ≠ [] := by
  intro h0; apply h; simp [Cur.size, h0]

theorem inv_addToCur (c : Cfg) (S : List Blk) (s : ShSt) (k : Cur) (b : Blk) (hinv : Inv c S s) (hcur : s.cur = some k)
    (hfit : fits k.size b.size c.opts.shard = true) (hb : b ∈ S) : Inv c S (addToCur c s k b).1 := by
  obtain ⟨hsh, _, hpins, _, d, hc⟩ := addToCur_frame c s k b
  have hfit' : k.size + b.size < c.opts.shard := by simpa [fits, Gen.fitStrict] using hfit
  constructor
  · rw [hpins, hsh]; exact hinv.pins
  · rw [hsh]; exact hinv.shards
  · intro k' hk'
    rw [hc] at hk'; cases hk'
    refine ⟨fun _ => ?_, (hinv.cur k hcur).2⟩
    simpa [Cur.size, List.sum_append] using hfit'
  · intro x hx
    simp only [allBlocks, curBlocks, hc, hsh, List.mem_append] at hx
    rcases hx with hx | hx | hx
    · exact hinv.mem x (by simp [allBlocks, hx])
    · exact hinv.mem x (by simp [allBlocks, curBlocks, hcur, hx])
    · simp at hx; subst hx; exact hb

theorem inv_newShard (c : Cfg) (S : List Blk) (s : ShSt) (hwf : c.allocs.all nodupNat = true) (hinv : Inv c S s)
    (hnone : s.cur = none) : Inv c S (newShard c s).1 := by
  obtain ⟨hsh, _, _, hpins⟩ := newShard_frame c s
  rcases h : newShard c s with ⟨s', st, k⟩
  rw [h] at hsh hpins; simp only at hsh hpins ⊢
  by_cases hst : st = .ok
  · subst hst
    obtain ⟨hc, hb, hn⟩ := newShard_ok c s hwf s' k h
    constructor
    · rw [hpins, hsh]; exact hinv.pins
    · rw [hsh]; exact hinv.shards
    · intro k' hk'; rw [hc] at hk'; cases hk'; exact ⟨fun h => absurd hb h, hn⟩
    · intro x hx
      simp only [allBlocks, curBlocks, hc, hb, hsh, List.append_nil] at hx
      exact hinv.mem x (by simp [allBlocks, curBlocks, hnone, hx])
  · have hc := newShard_notok c s s' st k h hst
    constructor
    · rw [hpins, hsh]; exact hinv.pins
    · rw [hsh]; exact hinv.shards
    · intro k' hk'; rw [hc, hnone] at hk'; cases hk'
    · intro x hx
      simp only [allBlocks, curBlocks, hc, hnone, hsh, List.append_nil] at hx
      exact hinv.mem x (by simp [allBlocks, curBlocks, hnone, hx])

theorem inv_flush (c : Cfg) (S : List Blk) (s : ShSt) (k : Cur) (hinv : Inv c S s) (hcur : s.cur = some k)
    (hsz : k.size < c.opts.shard) : Inv c S (flush c s k).1 := by
  rcases flush_cases c s k with ⟨s', h, hsh, hc, _, hp⟩ | ⟨s', d, h, hsh, hc, _, hp⟩
  · rw [h]; simp only
    constructor
    · rw [hp, hsh, hinv.pins]; simp
    · intro r hr; rw [hsh] at hr
      rcases List.mem_append.mp hr with hr | hr
      · exact hinv.shards r hr
      · simp at hr; subst hr; exact flushRec_ok c s k hsz (hinv.cur k hcur).2
    · intro k' hk'; rw [hc] at hk'; cases hk'
    · intro x hx
      simp only [allBlocks, curBlocks, hc, hsh, List.flatMap_append, List.append_nil, List.mem_append] at hx
      rcases hx with hx | hx
      · exact hinv.mem x (by simp only [allBlocks, List.mem_append]; exact Or.inl hx)
      · simp [flushRec] at hx
        exact hinv.mem x (by simp [allBlocks, curBlocks, hcur, hx])
  · rw [h]; simp only
    constructor
    · rw [hp, hsh]; exact hinv.pins
    · rw [hsh]; exact hinv.shards
    · intro k' hk'; rw [hc] at hk'; cases hk'; exact hinv.cur k hcur
    · intro x hx
      simp only [allBlocks, curBlocks, hc, hsh] at hx
      exact hinv.mem x (by simpa [allBlocks, curBlocks, hcur] using hx)


theorem inv_ingestFresh (c : Cfg) (S : List Blk) (s : ShSt) (b : Blk) (hwf : c.allocs.all nodupNat = true)
    (hinv : Inv c S s) (hnone : s.cur = none) (hb : b ∈ S) : Inv c S (ingestFresh c s b).1 := by
  have hi := inv_newShard c S s hwf hinv hnone
  unfold ingestFresh
  rcases h : newShard c s with ⟨s1, st, k⟩
  rw [h] at hi; simp only at hi
  cases st with
  | ok =>
    simp only
    obtain ⟨hc, _, _⟩ := newShard_ok c s hwf s1 k h
    split_ifs with hf
    · exact inv_addToCur c S s1 k b hi hc hf hb
    · exact hi
  | fail => exact hi
  | panic => exact hi

theorem inv_ingestIn (c : Cfg) (S : List Blk) (s : ShSt) (k : Cur) (b : Blk) (hwf : c.allocs.all nodupNat = true)
    (hinv : Inv c S s) (hcur : s.cur = some k) (hb : b ∈ S) : Inv c S (ingestIn c s k b).1 := by
  unfold ingestIn
  split_ifs with hf hz
  · exact inv_addToCur c S s k b hinv hcur hf hb
  · exact hinv
  · have hz' : k.size ≠ 0 := by simpa using hz
    have hsz := (hinv.cur k hcur).1 (size_ne_zero_blocks k hz')
    have hfl := inv_flush c S s k hinv hcur hsz
    rcases flush_cases c s k with ⟨s', h, _, hc, _, _⟩ | ⟨s', d, h, _, _, _, _⟩
    · rw [h] at hfl ⊢; simp only at hfl ⊢
      exact inv_ingestFresh c S s' b hwf hfl hc hb
    · rw [h] at hfl ⊢; exact hfl

theorem inv_ingest (c : Cfg) (S : List Blk) (s : ShSt) (b : Blk) (hwf : c.allocs.all nodupNat = true)
    (hinv : Inv c S s) (hb : b ∈ S) : Inv c S (ingest c s b).1 := by
  unfold ingest
  cases hc : s.cur with
  | none => exact inv_ingestFresh c S s b hwf hinv hc hb
  | some k => exact inv_ingestIn c S s k b hwf hinv hc hb

theorem inv_added (c : Cfg) (S : List Blk) (s : ShSt) (l : List Nat) (hinv : Inv c S s) : Inv c S { s with added := l } :=
  ⟨hinv.pins, hinv.shards, hinv.cur, hinv.mem⟩

theorem inv_shAdd (c : Cfg) (S : List Blk) (s : ShSt) (b : Blk) (hwf : c.allocs.all nodupNat = true)
    (hinv : Inv c S s) (hb : b ∈ S) : Inv c S (shAdd c s b).1 := by
  unfold shAdd
  split_ifs
  · exact hinv
  · exact inv_ingest c S _ b hwf (inv_added c S s _ hinv) hb

/-! ### when no Add has failed: the links are exactly the blocks visited -/

structure Good (s : ShSt) : Prop where
  part : (allBlocks s).map (·.id) = s.added
  ne : ∀ k, s.cur = some k → k.blocks ≠ []

/-- the state in the middle of an Add of `b`: `b` is marked visited but not linked yet -/
structure Mid (s : ShSt) (b : Blk) : Prop where
  part : (allBlocks s).map (·.id) ++ [b.id] = s.added
  ne : ∀ k, s.cur = some k → k.blocks ≠ []

theorem good_addToCur (c : Cfg) (s : ShSt) (k : Cur) (b : Blk) (hcur : s.cur = some k)
    (hpart : (s.shards.flatMap (·.blocks) ++ k.blocks).map (·.id) ++ [b.id] = s.added) : Good (addToCur c s k b).1 := by
  obtain ⟨hsh, had, _, _, d, hc⟩ := addToCur_frame c s k b
  constructor
  · rw [had, ← hpart]; simp [allBlocks, curBlocks, hc, hsh]
  · intro k' hk'; rw [hc] at hk'; cases hk'; simp

theorem ingestFresh_ok_good (c : Cfg) (s : ShSt) (b : Blk) (hwf : c.allocs.all nodupNat = true) (hnone : s.cur = none)
    (hpart : (s.shards.flatMap (·.blocks)).map (·.id) ++ [b.id] = s.added)
    (hok : (ingestFresh c s b).2 = .ok) : Good (ingestFresh c s b).1 := by
  obtain ⟨hsh, had, _, _⟩ := newShard_frame c s
  unfold ingestFresh at hok ⊢
  rcases h : newShard c s with ⟨s1, st, k⟩
  rw [h] at hok hsh had; simp only at hok hsh had ⊢
  cases st with
  | ok =>
    simp only at hok ⊢
    obtain ⟨hc, hb, _⟩ := newShard_ok c s hwf s1 k h
    split_ifs at hok ⊢ with hf
    exact good_addToCur c s1 k b hc (by rw [hsh, had, hb]; simpa using hpart)
  | fail => simp at hok
  | panic => simp at hok

theorem ingest_ok_good (c : Cfg) (s : ShSt) (b : Blk) (hwf : c.allocs.all nodupNat = true) (hmid : Mid s b)
    (hok : (ingest c s b).2 = .ok) : Good (ingest c s b).1 := by
  unfold ingest at hok ⊢
  cases hc : s.cur with
  | none =>
    rw [hc] at hok; simp only at hok ⊢
    exact ingestFresh_ok_good c s b hwf hc (by simpa [allBlocks, curBlocks, hc] using hmid.part) hok
  | some k =>
    rw [hc] at hok; simp only at hok ⊢
    unfold ingestIn at hok ⊢
    split_ifs at hok ⊢ with hf hz
    · exact good_addToCur c s k b hc (by simpa [allBlocks, curBlocks, hc] using hmid.part)
    · rcases flush_cases c s k with ⟨s', h, hsh, hcn, had, _⟩ | ⟨s', d, h, _, _, _, _⟩
      · rw [h] at hok ⊢
        refine ingestFresh_ok_good c s' b hwf hcn ?_ hok
        rw [hsh, had, ← hmid.part]
        simp [allBlocks, curBlocks, hc, flushRec]
      · rw [h] at hok; simp at hok

theorem shAdd_ok_good (c : Cfg) (s : ShSt) (b : Blk) (hwf : c.allocs.all nodupNat = true) (hg : Good s)
    (hok : (shAdd c s b).2 = .ok) : Good (shAdd c s b).1 := by
  unfold shAdd at hok ⊢
  split_ifs at hok ⊢ with hm
  · exact hg
  · exact ingest_ok_good c _ b hwf ⟨by simp [allBlocks, curBlocks] at *; simpa [allBlocks, curBlocks] using congrArg (· ++ [b.id]) hg.part, hg.ne⟩ hok


/-! ### the whole stream -/

theorem ingestFresh_added (c : Cfg) (s : ShSt) (b : Blk) : (ingestFresh c s b).1.added = s.added := by
  obtain ⟨_, had, _, _⟩ := newShard_frame c s
  unfold ingestFresh
  rcases h : newShard c s with ⟨s1, st, k⟩
  rw [h] at had; simp only at had
  cases st with
  | ok =>
    simp only; split_ifs
    · rw [(addToCur_frame c s1 k b).2.1, had]
    · exact had
  | fail => exact had
  | panic => exact had

theorem ingest_added (c : Cfg) (s : ShSt) (b : Blk) : (ingest c s b).1.added = s.added := by
  unfold ingest
  cases hc : s.cur with
  | none => exact ingestFresh_added c s b
  | some k =>
    simp only; unfold ingestIn
    split_ifs
    · exact (addToCur_frame c s k b).2.1
    · rfl
    · rcases flush_cases c s k with ⟨s', h, _, _, had, _⟩ | ⟨s', d, h, _, _, had, _⟩
      · rw [h]; simp only; rw [ingestFresh_added, had]
      · rw [h]; exact had

/-- the blocks visited, in order of first visit -/
def addFirsts (acc : List Nat) (l : List Blk) : List Nat :=
  l.foldl (fun a b => if a.contains b.id then a else a ++ [b.id]) acc

theorem shAdd_added (c : Cfg) (s : ShSt) (b : Blk) :
    (shAdd c s b).1.added = if s.added.contains b.id then s.added else s.added ++ [b.id] := by
  unfold shAdd; split_ifs
  · rfl
  · rw [ingest_added]

theorem shAddAll_len (c : Cfg) : ∀ (l : List Blk) (s : ShSt) (i : Nat) (f : List Nat),
    f.length ≤ (shAddAll c s l i f).2.2.length
  | [], s, i, f => by simp [shAddAll]
  | b :: bs, s, i, f => by
    unfold shAddAll
    rcases h : shAdd c s b with ⟨s1, st⟩
    cases st with
    | ok => exact shAddAll_len c bs s1 (i + 1) f
    | fail =>
      have := shAddAll_len c bs s1 (i + 1) (f ++ [i])
      simp only; simp at this; omega
    | panic => simp

theorem inv_shAddAll (c : Cfg) (S : List Blk) (hwf : c.allocs.all nodupNat = true) :
    ∀ (l : List Blk) (s : ShSt) (i : Nat) (f : List Nat), Inv c S s → (∀ b ∈ l, b ∈ S) → Inv c S (shAddAll c s l i f).1
  | [], s, i, f, hinv, _ => by simpa [shAddAll] using hinv
  | b :: bs, s, i, f, hinv, hl => by
    unfold shAddAll
    have h1 := inv_shAdd c S s b hwf hinv (hl b (by simp))
    rcases h : shAdd c s b with ⟨s1, st⟩
    rw [h] at h1; simp only at h1
    cases st with
    | ok => exact inv_shAddAll c S hwf bs s1 (i + 1) f h1 (fun x hx => hl x (by simp [hx]))
    | fail => exact inv_shAddAll c S hwf bs s1 (i + 1) _ h1 (fun x hx => hl x (by simp [hx]))
    | panic => exact h1

/-- no Add failed: nothing was appended to the list of failed positions -/
theorem good_shAddAll (c : Cfg) (hwf : c.allocs.all nodupNat = true) :
    ∀ (l : List Blk) (s : ShSt) (i : Nat) (f : List Nat), Good s → (shAddAll c s l i f).2.2 = f →
      Good (shAddAll c s l i f).1 ∧ (shAddAll c s l i f).2.1 = false ∧ (shAddAll c s l i f).1.added = addFirsts s.added l
  | [], s, i, f, hg, _ => by simp [shAddAll, addFirsts, hg]
  | b :: bs, s, i, f, hg, hf => by
    unfold shAddAll at hf ⊢
    have hgood := shAdd_ok_good c s b hwf hg
    have hadd := shAdd_added c s b
    rcases h : shAdd c s b with ⟨s1, st⟩
    rw [h] at hf hgood hadd; simp only at hf hgood hadd ⊢
    cases st with
    | ok =>
      simp only at hf ⊢
      have := good_shAddAll c hwf bs s1 (i + 1) f (hgood rfl) hf
      refine ⟨this.1, this.2.1, ?_⟩
      rw [this.2.2, hadd]; simp [addFirsts]
    | fail =>
      simp only at hf
      have := shAddAll_len c bs s1 (i + 1) (f ++ [i])
      rw [hf] at this; simp at this; omega
    | panic =>
      simp only at hf
      have : (f ++ [i]).length = f.length := by rw [hf]
      simp at this

theorem mem_addFirsts (l : List Blk) : ∀ (acc : List Nat) (x : Nat), x ∈ addFirsts acc l ↔ x ∈ acc ∨ ∃ b ∈ l, b.id = x := by
  induction l with
  | nil => intro acc x; simp [addFirsts]
  | cons b bs ih =>
    intro acc x
    simp only [addFirsts, List.foldl_cons] at ih ⊢
    rw [ih]
    split_ifs with hc
    · simp only [List.mem_cons, exists_eq_or_imp]
      constructor
      · rintro (h | h)
        · exact Or.inl h
        · exact Or.inr (Or.inr h)
      · rintro (h | h | h)
        · exact Or.inl h
        · left; subst h; simpa using hc
        · exact Or.inr h
    · simp only [List.mem_append, List.mem_cons, List.not_mem_nil, or_false, exists_eq_or_imp]
      constructor
      · rintro ((h | h) | h)
        · exact Or.inl h
        · exact Or.inr (Or.inl h.symm)
        · exact Or.inr (Or.inr h)
      · rintro (h | h | h)
        · exact Or.inl (Or.inl h)
        · exact Or.inl (Or.inr h.symm)
        · exact Or.inr h

theorem nodup_addFirsts (l : List Blk) : ∀ (acc : List Nat), acc.Nodup → (addFirsts acc l).Nodup := by
  induction l with
  | nil => intro acc h; simpa [addFirsts] using h
  | cons b bs ih =>
    intro acc h
    simp only [addFirsts, List.foldl_cons] at ih ⊢
    apply ih
    split_ifs with hc
    · exact h
    · rw [List.nodup_append]
      refine ⟨h, by simp, ?_⟩
      intro a ha x hx
      simp at hx; subst hx
      intro hax; subst hax
      exact hc (by simpa using ha)

theorem nodupNat_iff (l : List Nat) : nodupNat l = true ↔ l.Nodup := by
  induction l with
  | nil => simp [nodupNat]
  | cons x xs ih => simp [nodupNat, ih]


/-! ### sizes looked up in the stream -/

theorem sizeIn_of_mem : ∀ (l : List Blk) (b : Blk), consistent l = true → b ∈ l → sizeIn l b.id = b.size
  | [], b, _, hb => by simp at hb
  | x :: xs, b, hc, hb => by
    simp only [consistent, Bool.and_eq_true, List.all_eq_true] at hc
    unfold sizeIn
    simp only [List.find?_cons]
    by_cases hx : x.id = b.id
    · simp only [hx, beq_self_eq_true]
      rcases List.mem_cons.mp hb with rfl | hb'
      · rfl
      · have := hc.1 b hb'
        simp [hx] at this; exact this.symm
    · have hne : (x.id == b.id) = false := by simpa using hx
      simp only [hne]
      rcases List.mem_cons.mp hb with rfl | hb'
      · exact absurd rfl hx
      · exact sizeIn_of_mem xs b hc.2 hb'

theorem sum_sizeIn (l : List Blk) (hc : consistent l = true) (bs : List Blk) (hm : ∀ b ∈ bs, b ∈ l) :
    ((bs.map (·.id)).map (sizeIn l)).sum = (bs.map (·.size)).sum := by
  induction bs with
  | nil => rfl
  | cons b bs ih =>
    simp only [List.map_cons, List.sum_cons]
    rw [sizeIn_of_mem l b hc (hm b (by simp)), ih (fun x hx => hm x (by simp [hx]))]

/-! ### sorted duplicate-free lists -/

theorem mem_insertNat (a x : Nat) : ∀ (l : List Nat), x ∈ insertNat a l ↔ x = a ∨ x ∈ l
  | [] => by simp [insertNat]
  | y :: ys => by
    unfold insertNat
    split_ifs with h1 h2
    · simp
    · have : a = y := by simpa using h2
      subst this; simp
    · simp [mem_insertNat a x ys]; tauto

theorem length_insertNat (a : Nat) : ∀ (l : List Nat), a ∉ l → (insertNat a l).length = l.length + 1
  | [], _ => by simp [insertNat]
  | y :: ys, h => by
    unfold insertNat
    have hay : a ≠ y := fun e => h (by simp [e])
    split_ifs with h1 h2
    · simp
    · exact absurd (by simpa using h2) hay
    · simp [length_insertNat a ys (fun e => h (by simp [e]))]

theorem mem_sortDedup (x : Nat) (l : List Nat) : x ∈ sortDedup l ↔ x ∈ l := by
  induction l with
  | nil => simp [sortDedup]
  | cons a as ih => simp only [sortDedup, List.foldr_cons] at ih ⊢; rw [mem_insertNat, ih]; simp

theorem length_sortDedup (l : List Nat) (h : l.Nodup) : (sortDedup l).length = l.length := by
  induction l with
  | nil => rfl
  | cons a as ih =>
    simp only [sortDedup, List.foldr_cons] at ih ⊢
    rw [List.nodup_cons] at h
    rw [length_insertNat _ _ (by rw [← sortDedup, mem_sortDedup]; exact h.1), ih h.2]; simp

theorem allocsAreDests_ok (req : Opts) (p : Pin) (d : List Nat) (hnd : nodupNat d = true)
    (hp : p.allocs = if req.rmin < 0 then [] else d) : allocsAreDests req p (sortDedup d) = true := by
  unfold allocsAreDests
  split_ifs with h
  · simp [hp, h]
  · simp [hp, h, length_sortDedup d ((nodupNat_iff d).mp hnd)]


/-! ### Finalize (sharding) -/

theorem finishCdag_cases (c : Cfg) (s1 : ShSt) (root : Nat) :
    (finishCdag c s1 root).1.shards = s1.shards ∧
    (((finishCdag c s1 root).2.1 = .ok ∧ (finishCdag c s1 root).2.2 = some (rootOf (cdagNodes s1)) ∧
        acceptedPins (finishCdag c s1 root).1.env.pins = acceptedPins s1.env.pins ++
          [sentPin (cdagPin c (rootOf (cdagNodes s1)) root), sentPin (metaPin c (rootOf (cdagNodes s1)) root)]) ∨
     ((finishCdag c s1 root).2.1 = .fail ∧
        (acceptedPins (finishCdag c s1 root).1.env.pins = acceptedPins s1.env.pins ∨
         acceptedPins (finishCdag c s1 root).1.env.pins = acceptedPins s1.env.pins ++
          [sentPin (cdagPin c (rootOf (cdagNodes s1)) root)]))) := by
  unfold finishCdag
  simp only
  have hp := putMany_pins c (cdagNodes s1) s1.env [0]
  rcases h : putMany c s1.env [0] (cdagNodes s1) with ⟨e2, d2, _ | _⟩
  · rw [h] at hp; simp only at hp
    simp [hp]
  · rw [h] at hp; simp only at hp
    have h3 := pinCall_pins c e2 (cdagPin c (rootOf (cdagNodes s1)) root)
    rcases hc : pinCall c e2 (cdagPin c (rootOf (cdagNodes s1)) root) with ⟨e3, _ | _⟩
    · rw [hc] at h3; simp only at h3
      simp [hc, h3, acceptedPins_append, hp]
    · rw [hc] at h3; simp only at h3
      have h4 := pinCall_pins c e3 (metaPin c (rootOf (cdagNodes s1)) root)
      rcases hm : pinCall c e3 (metaPin c (rootOf (cdagNodes s1)) root) with ⟨e4, _ | _⟩
      · rw [hm] at h4; simp only at h4
        simp [hc, hm, h4, h3, acceptedPins_append, hp, acceptedPins]
      · rw [hm] at h4; simp only at h4
        simp [hc, hm, h4, h3, acceptedPins_append, hp, acceptedPins]

/-- what the bookkeeping clauses need to know about the outcome of a sharded add -/
structure ShOutOk (c : Cfg) (stream : List Blk) (o : Out) : Prop where
  shards : ∀ r ∈ o.shards, ShardOk c r ∧ ∀ b ∈ r.blocks, b ∈ stream
  fail : o.status ≠ .ok → ∀ p ∈ acceptedPins o.pins, p.type = .shardT ∨ p.type = .clusterDagT
  ok : o.status = .ok → ∃ cd, o.cdag = some cd ∧ acceptedPins o.pins = o.shards.map (·.pin) ++
        [sentPin (cdagPin c cd o.root), sentPin (metaPin c cd o.root)]
  part : o.status = .ok → (o.shards.flatMap (·.blocks)).map (·.id) = addFirsts [] stream

theorem inv_init (c : Cfg) (S : List Blk) : Inv c S ShSt.init :=
  ⟨rfl, by simp [ShSt.init], by simp [ShSt.init], by simp [ShSt.init, allBlocks, curBlocks]⟩

theorem good_init : Good ShSt.init := ⟨rfl, by simp [ShSt.init]⟩

theorem inv_shards_mem (c : Cfg) (S : List Blk) (s : ShSt) (hinv : Inv c S s) :
    ∀ r ∈ s.shards, ShardOk c r ∧ ∀ b ∈ r.blocks, b ∈ S := by
  intro r hr
  refine ⟨hinv.shards r hr, fun b hb => hinv.mem b ?_⟩
  simp only [allBlocks, List.mem_append, List.mem_flatMap]
  exact Or.inl ⟨r, hr, hb⟩

theorem inv_pins_types (c : Cfg) (S : List Blk) (s : ShSt) (hinv : Inv c S s) :
    ∀ p ∈ acceptedPins s.env.pins, p.type = .shardT := by
  intro p hp
  rw [hinv.pins] at hp
  obtain ⟨r, hr, rfl⟩ := List.mem_map.mp hp
  exact (hinv.shards r hr).type

def mkFail (failed : List Nat) (st : Status) (fz : Bool) (r : Nat) (t : ShSt) : Out :=
  { status := st, failed := failed, finalized := fz, root := r, log := t.env.log.reverse, nodes := deliveredNodes t.env,
    pins := t.env.pins, shards := t.shards, cdag := none, sentAll := [] }

theorem runShard_ok (c : Cfg) (stream : List Blk) (fin : Option Nat) (hwf : c.allocs.all nodupNat = true)
    (hcontract : (runShard c stream fin).finalized = true → (runShard c stream fin).failed = []) :
    ShOutOk c stream (runShard c stream fin) := by
  have hinv := inv_shAddAll c stream hwf stream ShSt.init 0 [] (inv_init c stream) (fun b hb => hb)
  have hgood := good_shAddAll c hwf stream ShSt.init 0 [] good_init
  unfold runShard at hcontract ⊢
  rcases h : shAddAll c ShSt.init stream 0 [] with ⟨s, pan, failed⟩
  rw [h] at hinv hgood hcontract; simp only at hinv hgood hcontract ⊢
  -- the three ways of not reaching a successful Finalize share this
  have failCase : ∀ (st : Status) (fz : Bool) (r : Nat) (t : ShSt), Inv c stream t → st ≠ .ok →
      ShOutOk c stream (mkFail failed st fz r t) := by
    intro st fz r t hi hst
    exact ⟨inv_shards_mem c stream t hi, fun _ p hp => Or.inl (inv_pins_types c stream t hi p hp),
      fun h => absurd h hst, fun h => absurd h hst⟩
  cases pan with
  | true => exact failCase .panic false 0 s hinv (by simp)
  | false =>
    simp only
    cases fin with
    | none => exact failCase .fail false 0 s hinv (by simp)
    | some r =>
      simp only at hcontract ⊢
      -- Finalize was reached, so by the contract no Add failed
      have hfz : failed = [] := hcontract trivial
      unfold shFinalize
      cases hc : s.cur with
      | none => simp only; exact failCase .fail true r s hinv (by simp)
      | some k =>
        simp only
        obtain ⟨hg, _, hadd⟩ := hgood hfz
        have hsz := (hinv.cur k hc).1 (hg.ne k hc)
        have hfl := inv_flush c stream s k hinv hc hsz
        rcases flush_cases c s k with ⟨s1, hf, hsh, hcn, had, hp⟩ | ⟨s1, d, hf, hsh, hcn, had, hp⟩
        · rw [hf] at hfl ⊢; simp only at hfl ⊢
          obtain ⟨hfsh, hfc⟩ := finishCdag_cases c s1 r
          rcases hr : finishCdag c s1 r with ⟨s2, st, cd⟩
          rw [hr] at hfsh hfc; simp only at hfsh hfc ⊢
          rcases hfc with ⟨hst, hcd, hpins⟩ | ⟨hst, hpins⟩
          · subst hst
            refine ⟨by rw [hfsh]; exact inv_shards_mem c stream s1 hfl, fun h => absurd rfl h, fun _ => ?_, fun _ => ?_⟩
            · exact ⟨_, hcd, by rw [hpins, hfl.pins, hfsh]⟩
            · have hadd' : s.added = addFirsts [] stream := hadd
              simp only [hfsh, hsh]
              rw [← hadd', ← hg.part]
              simp [allBlocks, curBlocks, hc, flushRec]
          · subst hst
            refine ⟨by rw [hfsh]; exact inv_shards_mem c stream s1 hfl, fun _ p hp => ?_, fun h => by simp at h, fun h => by simp at h⟩
            rcases hpins with hpins | hpins
            · rw [hpins] at hp; exact Or.inl (inv_pins_types c stream s1 hfl p hp)
            · rw [hpins] at hp
              rcases List.mem_append.mp hp with hp | hp
              · exact Or.inl (inv_pins_types c stream s1 hfl p hp)
              · simp at hp; subst hp; right; simp [sentPin_type, cdagPin]
        · rw [hf] at hfl ⊢; simp only at hfl ⊢
          exact failCase .fail true r s1 hfl (by simp)


/-! ### from the outcome to the clauses (sharding) -/

theorem filter_shards_none (c : Cfg) (l : List ShardRec) (t : PinType) (ht : t ≠ .shardT) (h : ∀ r ∈ l, ShardOk c r) :
    (l.map (·.pin)).filter (fun p => p.type == t) = [] := by
  rw [List.filter_eq_nil_iff]
  intro p hp
  obtain ⟨r, hr, rfl⟩ := List.mem_map.mp hp
  rw [(h r hr).type]
  simpa using fun e => ht e.symm

theorem shardView_blocks (l : List ShardRec) :
    (l.map shardView).flatMap (·.blocks) = (l.flatMap (·.blocks)).map (·.id) := by
  induction l with
  | nil => rfl
  | cons r rs ih => simp [shardView, ih]

theorem partition_ok (stream : List Blk) : shardsPartitionList (addFirsts [] stream) stream = true := by
  unfold shardsPartitionList
  simp only [Bool.and_eq_true, List.all_eq_true, List.contains_iff_mem, List.any_eq_true, beq_iff_eq]
  refine ⟨⟨(nodupNat_iff _).mpr (nodup_addFirsts stream [] List.nodup_nil), fun b hb => ?_⟩, fun x hx => ?_⟩
  · exact (mem_addFirsts stream [] b.id).mpr (Or.inr ⟨b, hb, rfl⟩)
  · rcases (mem_addFirsts stream [] x).mp hx with h | ⟨b, hb, rfl⟩
    · simp at h
    · exact ⟨b, hb, rfl⟩

theorem cdag_beq_meta : (PinType.clusterDagT == PinType.metaT) = false := by decide
theorem meta_beq_cdag : (PinType.metaT == PinType.clusterDagT) = false := by decide

theorem sharded_book (c : Cfg) (stream : List Blk) (o : Out) (cl rb rp ri : Bool) (hs : c.shard = true)
    (hcons : consistent stream = true) (h : ShOutOk c stream o) :
    (pinClauses c (o.view stream cl rb rp ri)).all (·.2) = true := by
  have hshards := h.shards
  have hall : ∀ r ∈ o.shards, ShardOk c r := fun r hr => (hshards r hr).1
  -- the clauses that speak about every accepted shard pin, whatever the outcome
  have hlimit : shardUnderLimit c (o.view stream cl rb rp ri) = true := by
    simp only [shardUnderLimit, Out.view, List.all_map, List.all_eq_true, Function.comp, decide_eq_true_eq]
    intro r hr
    have := sum_sizeIn stream hcons r.blocks (hshards r hr).2
    simp only [shardView, List.map_map] at this ⊢
    rw [this]; simpa using (hall r hr).size
  have hdepth : shardDepthCovers (o.view stream cl rb rp ri) = true := by
    simp only [shardDepthCovers, Out.view, List.all_map, List.all_eq_true, Function.comp]
    intro r hr
    simp only [shardView, (hall r hr).depth]
    by_cases hn : r.nnodes > 1 <;> simp [hn]
  have hallocs : shardAllocs c (o.view stream cl rb rp ri) = true := by
    simp only [shardAllocs, Out.view, List.all_map, List.all_eq_true, Function.comp]
    intro r hr
    exact allocsAreDests_ok c.opts r.pin r.allocs (hall r hr).nodup (hall r hr).allocs
  by_cases hok : o.status = .ok
  · obtain ⟨cd, hcd, hpins⟩ := h.ok hok
    have hpart := h.part hok
    have hm := filter_shards_none c o.shards .metaT (by decide) hall
    have hc := filter_shards_none c o.shards .clusterDagT (by decide) hall
    have hentries : shardedEntries (o.view stream cl rb rp ri) = true := by
      simp only [shardedEntries, metaPins, cdagPins, Out.view, hpins, List.filter_append, hm, hc, List.nil_append,
        Bool.and_eq_true, List.all_eq_true]
      constructor
      · intro p hp
        rcases List.mem_append.mp hp with hp | hp
        · obtain ⟨r, hr, rfl⟩ := List.mem_map.mp hp
          simp [(hall r hr).type]
        · simp at hp
          rcases hp with rfl | rfl <;> simp [sentPin_type, cdagPin, metaPin]
      · simp [List.filter, sentPin_type, cdagPin, metaPin, sentPin_cid, sentPin_ref, hok, cdag_beq_meta, meta_beq_cdag]
    have hmeta : metaOptions c (o.view stream cl rb rp ri) = true := by
      simp only [metaOptions, metaPins, Out.view, hpins, List.filter_append, hm, List.nil_append]
      simp [List.filter, sentPin_type, cdagPin, metaPin, sentPin_opts, optsAsRequested, workOpts, cdag_beq_meta, meta_beq_cdag]
    have hlists : cdagListsShards (o.view stream cl rb rp ri) = true := by
      simp [cdagListsShards, Out.view, hcd, shardView, Function.comp]
    have hpartition : shardsPartition (o.view stream cl rb rp ri) = true := by
      simp only [shardsPartition, allShardBlocks, Out.view, shardView_blocks, hpart]
      exact partition_ok stream
    have hvok : (o.view stream cl rb rp ri).ok = true := by simp [Out.view, hok]
    simp [pinClauses, hvok, hs, hentries, hmeta, hlists, hpartition, hlimit, hdepth, hallocs]
  · have hno : noRootPin (o.view stream cl rb rp ri) = true := by
      simp only [noRootPin, Out.view, List.all_eq_true, Bool.and_eq_true, bne_iff_ne, ne_eq]
      intro p hp
      rcases h.fail hok p hp with ht | ht <;> simp [ht]
    have hvok : (o.view stream cl rb rp ri).ok = false := by simpa [Out.view] using hok
    simp [pinClauses, hvok, hs, hno, hlimit, hdepth, hallocs]


/-! ### not sharded -/

structure SInv (s : SSt) : Prop where
  pins : s.env.pins = []
  nodup : ∀ d, s.dests = some d → nodupNat d = true

theorem sinv_singlePut (c : Cfg) (s : SSt) (b : Blk) (h : SInv s) : SInv (singlePut c s b).1 := by
  unfold singlePut
  have hp := putRound_pins c s.env s.ba b.id
  rcases hr : putRound c s.env s.ba b.id with ⟨e, _ | d⟩ <;> rw [hr] at hp <;> exact ⟨by simpa [h.pins] using hp, h.nodup⟩

theorem sinv_singleAdd (c : Cfg) (s : SSt) (b : Blk) (hwf : c.allocs.all nodupNat = true) (h : SInv s) :
    SInv (singleAdd c s b).1 := by
  unfold singleAdd
  cases hd : s.dests with
  | some d => exact sinv_singlePut c s b h
  | none =>
    simp only
    have hp := allocate_pins c s.env
    have hn := allocate_nodup c s.env hwf
    rcases ha : allocate c s.env with ⟨e, _ | a⟩
    · rw [ha] at hp; exact ⟨by simpa [h.pins] using hp, by simp [hd]⟩
    · rw [ha] at hp hn
      exact sinv_singlePut c _ b ⟨by simpa [h.pins] using hp, by intro d hd'; simp at hd'; subst hd'; exact hn a rfl⟩

theorem sinv_singleAddAll (c : Cfg) (hwf : c.allocs.all nodupNat = true) :
    ∀ (l : List Blk) (s : SSt) (i : Nat) (f : List Nat), SInv s → SInv (singleAddAll c s l i f).1
  | [], s, i, f, h => by simpa [singleAddAll] using h
  | b :: bs, s, i, f, h => by
    unfold singleAddAll
    have h1 := sinv_singleAdd c s b hwf h
    rcases hs : singleAdd c s b with ⟨s1, st⟩
    rw [hs] at h1
    cases st <;> exact sinv_singleAddAll c hwf bs s1 (i + 1) _ h1

theorem single_book (c : Cfg) (stream : List Blk) (fin : Option Nat) (cl rb rp ri : Bool) (hs : c.shard = false)
    (hwf : c.allocs.all nodupNat = true) :
    (pinClauses c ((runSingle c stream fin).view stream cl rb rp ri)).all (·.2) = true := by
  have hinv := sinv_singleAddAll c hwf stream SSt.init 0 [] ⟨rfl, by simp [SSt.init]⟩
  unfold runSingle
  rcases h : singleAddAll c SSt.init stream 0 [] with ⟨s, failed⟩
  rw [h] at hinv; simp only at hinv ⊢
  cases fin with
  | none =>
    simp [pinClauses, Out.view, hs, noRootPin, hinv.pins]
  | some r =>
    simp only
    unfold singleFinalize
    have hp := pinCall_pins c s.env (rootPin c r (s.dests.getD []))
    rcases hc : pinCall c s.env (rootPin c r (s.dests.getD [])) with ⟨e, _ | _⟩
    · rw [hc] at hp; simp only at hp
      simp [pinClauses, Out.view, hs, noRootPin, hinv.pins, hp]
    · rw [hc] at hp; simp only at hp
      have hnd : nodupNat (s.dests.getD []) = true := by
        cases hd : s.dests with
        | none => rfl
        | some d => exact hinv.nodup d hd
      have hal : c.local = false → allocsAreDests c.opts (sentPin (rootPin c r (s.dests.getD []))) (sentOf c s.dests) = true := by
        intro hl
        have : sentOf c s.dests = sortDedup (s.dests.getD []) := by
          unfold sentOf; cases s.dests <;> simp [hl, sortDedup]
        rw [this]
        exact allocsAreDests_ok c.opts _ _ hnd (by simp [sentPin_allocs, rootPin, pinWithOpts, workOpts])
      simp [pinClauses, Out.view, hs, hinv.pins, hp, singleExactlyRoot, singleRootOptions, singleRootAllocs,
        sentPin_cid, sentPin_type, sentPin_opts, sentPin_depth, rootPin, pinWithOpts, workOpts, optsAsRequested, modeToDepth]
      by_cases hl : c.local = true
      · exact Or.inl hl
      · right
        simpa [rootPin, pinWithOpts, workOpts, modeToDepth] using hal (by simpa using hl)


/-! ### whatever fails and whatever the caller does next: before the last step of Finalize only shard pins -/

/-- `s'` has accepted the pins of `s` and then only shard pins -/
def Ext (s s' : ShSt) : Prop :=
  ∃ l, acceptedPins s'.env.pins = acceptedPins s.env.pins ++ l ∧ ∀ p ∈ l, p.type = PinType.shardT

theorem Ext.refl (s : ShSt) : Ext s s := ⟨[], by simp, by simp⟩

theorem Ext.trans {a b d : ShSt} (h1 : Ext a b) (h2 : Ext b d) : Ext a d := by
  obtain ⟨l1, e1, t1⟩ := h1
  obtain ⟨l2, e2, t2⟩ := h2
  refine ⟨l1 ++ l2, by rw [e2, e1, List.append_assoc], ?_⟩
  intro p hp
  rcases List.mem_append.mp hp with hp | hp
  · exact t1 p hp
  · exact t2 p hp

theorem Ext.of_pins_eq {s s' : ShSt} (h : s'.env.pins = s.env.pins) : Ext s s' := ⟨[], by simp [h], by simp⟩

theorem ext_flush (c : Cfg) (s : ShSt) (k : Cur) : Ext s (flush c s k).1 := by
  rcases flush_cases c s k with ⟨s', h, _, _, _, hp⟩ | ⟨s', d, h, _, _, _, hp⟩
  · rw [h]; exact ⟨[(flushRec c s k).pin], hp, by simp [flushRec, sentPin_type, flushPin, shardPin]⟩
  · rw [h]; exact ⟨[], by simpa using hp, by simp⟩

theorem ext_ingestFresh (c : Cfg) (s : ShSt) (b : Blk) : Ext s (ingestFresh c s b).1 := by
  obtain ⟨_, _, _, hp⟩ := newShard_frame c s
  unfold ingestFresh
  rcases h : newShard c s with ⟨s1, st, k⟩
  rw [h] at hp; simp only at hp
  cases st with
  | ok =>
    simp only; split_ifs
    · exact Ext.of_pins_eq (by rw [(addToCur_frame c s1 k b).2.2.1, hp])
    · exact Ext.of_pins_eq hp
  | fail => exact Ext.of_pins_eq hp
  | panic => exact Ext.of_pins_eq hp

theorem ext_ingest (c : Cfg) (s : ShSt) (b : Blk) : Ext s (ingest c s b).1 := by
  unfold ingest
  cases hc : s.cur with
  | none => exact ext_ingestFresh c s b
  | some k =>
    simp only; unfold ingestIn
    split_ifs
    · exact Ext.of_pins_eq (addToCur_frame c s k b).2.2.1
    · exact Ext.refl s
    · have h1 := ext_flush c s k
      rcases hf : flush c s k with ⟨s1, st⟩
      rw [hf] at h1
      cases st with
      | ok => exact h1.trans (ext_ingestFresh c s1 b)
      | fail => exact h1
      | panic => exact h1

theorem ext_shAdd (c : Cfg) (s : ShSt) (b : Blk) : Ext s (shAdd c s b).1 := by
  unfold shAdd; split_ifs
  · exact Ext.refl s
  · exact (Ext.of_pins_eq (s := s) (s' := { s with added := s.added ++ [b.id] }) rfl).trans (ext_ingest c _ b)

theorem ext_shAddAll (c : Cfg) : ∀ (l : List Blk) (s : ShSt) (i : Nat) (f : List Nat), Ext s (shAddAll c s l i f).1
  | [], s, i, f => by simpa [shAddAll] using Ext.refl s
  | b :: bs, s, i, f => by
    unfold shAddAll
    have h1 := ext_shAdd c s b
    rcases h : shAdd c s b with ⟨s1, st⟩
    rw [h] at h1
    cases st with
    | ok => exact h1.trans (ext_shAddAll c bs s1 (i + 1) f)
    | fail => exact h1.trans (ext_shAddAll c bs s1 (i + 1) _)
    | panic => exact h1

/-- an add that does not report success has had no data pin and no meta pin accepted - for every
    fault script, every allocation script, and even when the caller went on after a failed Add -/
theorem runShard_no_root_pin (c : Cfg) (stream : List Blk) (fin : Option Nat)
    (hfail : (runShard c stream fin).status ≠ .ok) :
    ∀ p ∈ acceptedPins (runShard c stream fin).pins, p.type = .shardT ∨ p.type = .clusterDagT := by
  have hext := ext_shAddAll c stream ShSt.init 0 []
  unfold runShard at hfail ⊢
  rcases h : shAddAll c ShSt.init stream 0 [] with ⟨s, pan, failed⟩
  rw [h] at hext hfail; simp only at hext hfail ⊢
  have base : ∀ t : ShSt, Ext ShSt.init t → ∀ p ∈ acceptedPins t.env.pins, p.type = .shardT ∨ p.type = .clusterDagT := by
    intro t ⟨l, hl, ht⟩ p hp
    rw [hl] at hp; simp [ShSt.init, Env.init] at hp
    exact Or.inl (ht p hp)
  cases pan with
  | true => exact base s hext
  | false =>
    simp only at hfail ⊢
    cases fin with
    | none => exact base s hext
    | some r =>
      simp only at hfail ⊢
      unfold shFinalize at hfail ⊢
      cases hc : s.cur with
      | none => exact base s hext
      | some k =>
        simp only [hc] at hfail ⊢
        have h1 := hext.trans (ext_flush c s k)
        rcases hf : flush c s k with ⟨s1, st⟩
        rw [hf] at h1 hfail; simp only at h1 hfail ⊢
        cases st with
        | fail => exact base s1 h1
        | panic => exact base s1 h1
        | ok =>
          simp only at hfail ⊢
          obtain ⟨_, hcases⟩ := finishCdag_cases c s1 r
          rcases hcases with ⟨hst, _, _⟩ | ⟨_, hpins⟩
          · exact absurd hst hfail
          · intro p hp
            rcases hpins with hpins | hpins
            · rw [hpins] at hp; exact base s1 h1 p hp
            · rw [hpins] at hp
              rcases List.mem_append.mp hp with hp | hp
              · exact base s1 h1 p hp
              · simp at hp; subst hp; right; simp [sentPin_type, cdagPin]

theorem runSingle_no_root_pin (c : Cfg) (stream : List Blk) (fin : Option Nat) (hwf : c.allocs.all nodupNat = true)
    (hfail : (runSingle c stream fin).status ≠ .ok) : acceptedPins (runSingle c stream fin).pins = [] := by
  have hinv := sinv_singleAddAll c hwf stream SSt.init 0 [] ⟨rfl, by simp [SSt.init]⟩
  unfold runSingle at hfail ⊢
  rcases h : singleAddAll c SSt.init stream 0 [] with ⟨s, failed⟩
  rw [h] at hinv hfail; simp only at hinv hfail ⊢
  cases fin with
  | none => simp [hinv.pins]
  | some r =>
    simp only at hfail ⊢
    unfold singleFinalize at hfail ⊢
    have hp := pinCall_pins c s.env (rootPin c r (s.dests.getD []))
    rcases hc : pinCall c s.env (rootPin c r (s.dests.getD [])) with ⟨e, _ | _⟩
    · rw [hc] at hp; simp only at hp ⊢; simp [hp, hinv.pins]
    · rw [hc] at hfail; simp at hfail



theorem runSingle_success (c : Cfg) (stream : List Blk) (fin : Option Nat) (hwf : c.allocs.all nodupNat = true)
    (hok : (runSingle c stream fin).status = .ok) :
    ∃ r d, fin = some r ∧ nodupNat d = true ∧ (runSingle c stream fin).root = r ∧
      acceptedPins (runSingle c stream fin).pins = [sentPin (rootPin c r d)] ∧
      (c.local = false → (runSingle c stream fin).sentAll = sortDedup d) := by
  have hinv := sinv_singleAddAll c hwf stream SSt.init 0 [] ⟨rfl, by simp [SSt.init]⟩
  unfold runSingle at hok ⊢
  rcases h : singleAddAll c SSt.init stream 0 [] with ⟨s, failed⟩
  rw [h] at hinv hok; simp only at hinv hok ⊢
  cases fin with
  | none => simp at hok
  | some r =>
    simp only at hok ⊢
    unfold singleFinalize at hok ⊢
    have hp := pinCall_pins c s.env (rootPin c r (s.dests.getD []))
    rcases hc : pinCall c s.env (rootPin c r (s.dests.getD [])) with ⟨e, _ | _⟩
    · rw [hc] at hok; simp at hok
    · rw [hc] at hp; simp only at hp ⊢
      refine ⟨r, s.dests.getD [], rfl, ?_, rfl, by simp [hp, hinv.pins], ?_⟩
      · cases hd : s.dests with
        | none => rfl
        | some d => exact hinv.nodup d hd
      · intro hl
        unfold sentOf; cases s.dests <;> simp [hl, sortDedup]

end CV.C13
