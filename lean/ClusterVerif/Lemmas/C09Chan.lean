import ClusterVerif.Model.C09Chan
/-
Helper lemmas for the alert-channel model (`Model/C09Chan.lean`): the invariant that makes the
REPAIRED `alert` (count only what was sent) lose no alert, for every history.
-/
namespace CV.C09.Chan

/-- `fs`: whatever was forgotten had its alert enqueued; `rep`: a positive count for the stored
metric's stamp means its alert was enqueued; `stb`/`afb`: stamps in use are positions already passed. -/
structure Inv (n : Nat) (s : St) : Prop where
  fs : ∀ x ∈ s.forgot, x ∈ s.sent
  rep : ∀ p st e, s.stored p = some (st, e) → s.af p = st → 1 ≤ s.cnt p → (p, st) ∈ s.sent
  stb : ∀ p st e, s.stored p = some (st, e) → 1 ≤ st ∧ st ≤ n
  afb : ∀ p, s.af p ≤ n

theorem Inv.mono {n m : Nat} {s : St} (h : Inv n s) (hnm : n ≤ m) : Inv m s :=
  ⟨h.fs, h.rep, fun p st e hs => ⟨(h.stb p st e hs).1, Nat.le_trans (h.stb p st e hs).2 hnm⟩,
   fun p => Nat.le_trans (h.afb p) hnm⟩

theorem init_inv : Inv 0 St.init :=
  ⟨fun x hx => by simp [St.init] at hx, fun p st e hs => by simp [St.init] at hs,
   fun p st e hs => by simp [St.init] at hs, fun p => by simp [St.init]⟩

theorem stampOf_of {s : St} {p st : Nat} {e : Bool} (h : s.stored p = some (st, e)) : stampOf s p = st := by
  simp [stampOf, h]

theorem cnt0_pos {s : St} {p st : Nat} {e : Bool} (h : s.stored p = some (st, e)) (hc : 1 ≤ cnt0 s p) :
    s.af p = st ∧ 1 ≤ s.cnt p := by
  unfold cnt0 at hc
  rw [stampOf_of h] at hc
  by_cases ha : s.af p = st
  · simp [ha] at hc; exact ⟨ha, hc⟩
  · simp [ha] at hc

/-- the repaired `alert` keeps the invariant -/
theorem alert_inv (cap maxA n : Nat) (hm : 1 ≤ maxA) (s : St) (p st : Nat) (e : Bool)
    (hs : s.stored p = some (st, e)) (h : Inv n s) : Inv n (alert true cap maxA s p).1 := by
  have hso := stampOf_of hs
  unfold alert
  by_cases h1 : maxA ≤ cnt0 s p
  · -- forget
    have hc := cnt0_pos hs (Nat.le_trans hm h1)
    have hin : (p, st) ∈ s.sent := h.rep p st e hs hc.1 hc.2
    simp only [h1, if_true, hso]
    refine ⟨?_, ?_, ?_, ?_⟩
    · intro x hx
      rcases List.mem_cons.mp hx with hx | hx
      · exact hx ▸ hin
      · exact h.fs x hx
    · intro q st' e' hq ha hcq
      by_cases hqp : q = p
      · simp [upd, hqp] at hq
      · simp [upd, hqp] at hq ha hcq
        exact h.rep q st' e' hq ha hcq
    · intro q st' e' hq
      by_cases hqp : q = p
      · simp [upd, hqp] at hq
      · simp [upd, hqp] at hq
        exact h.stb q st' e' hq
    · intro q
      by_cases hqp : q = p
      · simp [upd, hqp]
      · simp [upd, hqp]; exact h.afb q
  · by_cases h2 : s.ch.length < cap
    · -- sent
      simp only [h1, if_false, h2, if_true, hso]
      refine ⟨?_, ?_, ?_, ?_⟩
      · intro x hx
        exact List.mem_cons_of_mem _ (h.fs x hx)
      · intro q st' e' hq ha hcq
        by_cases hqp : q = p
        · subst hqp
          simp only [] at hq
          rw [hs] at hq
          have : st' = st := by
            have := Option.some.inj hq
            exact (congrArg Prod.fst this).symm
          subst this
          exact List.mem_cons_self
        · simp [upd, hqp] at hq ha hcq
          exact List.mem_cons_of_mem _ (h.rep q st' e' hq ha hcq)
      · intro q st' e' hq
        exact h.stb q st' e' hq
      · intro q
        by_cases hqp : q = p
        · simp [upd, hqp]; exact (h.stb p st e hs).2
        · simp [upd, hqp]; exact h.afb q
    · -- channel full: the count stays what it was
      simp only [h1, if_false, h2, if_true, hso]
      refine ⟨h.fs, ?_, ?_, ?_⟩
      · intro q st' e' hq ha hcq
        by_cases hqp : q = p
        · subst hqp
          simp only [] at hq
          rw [hs] at hq
          have : st' = st := by
            have := Option.some.inj hq
            exact (congrArg Prod.fst this).symm
          subst this
          simp [upd] at hcq
          have hc := cnt0_pos hs hcq
          exact h.rep q st' e hs hc.1 hc.2
        · simp [upd, hqp] at hq ha hcq
          exact h.rep q st' e' hq ha hcq
      · intro q st' e' hq
        exact h.stb q st' e' hq
      · intro q
        by_cases hqp : q = p
        · simp [upd, hqp]; exact (h.stb p st e hs).2
        · simp [upd, hqp]; exact h.afb q

theorem checkPeers_inv (cap maxA n : Nat) (hm : 1 ≤ maxA) :
    ∀ (l : List Nat) (s : St), Inv n s → Inv n (checkPeers true cap maxA s l).1
  | [], s, h => by simpa [checkPeers] using h
  | p :: ps, s, h => by
    unfold checkPeers
    cases hs : s.stored p with
    | none => simpa using checkPeers_inv cap maxA n hm ps s h
    | some m =>
      obtain ⟨st, e⟩ := m
      cases e with
      | false => simpa using checkPeers_inv cap maxA n hm ps s h
      | true =>
        have ha := alert_inv cap maxA n hm s p st true hs h
        simp only [if_true]
        by_cases hr : (alert true cap maxA s p).2 = true
        · simpa [hr] using ha
        · simp only [hr]
          exact checkPeers_inv cap maxA n hm ps _ ha

theorem step_inv (cap maxA n : Nat) (hm : 1 ≤ maxA) (univ : List Nat) (s : St) (o : Op) (h : Inv n s) :
    Inv (n + 1) (step true cap maxA univ n s o).1 := by
  cases o with
  | add p e =>
    refine ⟨h.fs, ?_, ?_, ?_⟩
    · intro q st' e' hq ha hcq
      by_cases hqp : q = p
      · subst hqp
        simp [step, upd] at hq ha hcq
        have := h.afb q
        omega
      · simp [step, upd, hqp] at hq ha hcq
        exact h.rep q st' e' hq ha hcq
    · intro q st' e' hq
      by_cases hqp : q = p
      · subst hqp
        simp [step, upd] at hq
        omega
      · simp [step, upd, hqp] at hq
        have := h.stb q st' e' hq
        omega
    · intro q
      have := h.afb q
      simp [step]; omega
  | check l => exact (checkPeers_inv cap maxA n hm l s h).mono (Nat.le_succ n)
  | drain k =>
    have h' : Inv n (step true cap maxA univ n s (Op.drain k)).1 := ⟨h.fs, h.rep, h.stb, h.afb⟩
    exact h'.mono (Nat.le_succ n)

theorem runFrom_inv (cap maxA : Nat) (hm : 1 ≤ maxA) (univ : List Nat) :
    ∀ (ops : List Op) (n : Nat) (s : St), Inv n s → Inv (n + ops.length) (runFrom true cap maxA univ n s ops).1
  | [], n, s, h => by simpa [runFrom] using h
  | o :: r, n, s, h => by
    have h1 := step_inv cap maxA n hm univ s o h
    have h2 := runFrom_inv cap maxA hm univ r (n + 1) _ h1
    simp only [runFrom, List.length_cons]
    have e : n + 1 + r.length = n + (r.length + 1) := by omega
    rw [← e]; exact h2

end CV.C09.Chan
