import ClusterVerif.Model.C01Commit
import Mathlib.Data.List.Basic

/-! Invariants of the commit-path model for the expected statement skeleton. -/
namespace CV.C01.Commit

def noSucc (l : List Outcome) : Prop := ∀ x ∈ l, x.success = false

theorem noSucc_nil : noSucc [] := by intro x hx; cases hx

theorem noSucc_cons {x : Outcome} {l : List Outcome} (hx : x.success = false) (hl : noSucc l) : noSucc (x :: l) := by
  intro y hy
  rcases List.mem_cons.1 hy with rfl | hy
  · exact hx
  · exact hl y hy

theorem noSucc_append {a b : List Outcome} (ha : noSucc a) (hb : noSucc b) : noSucc (a ++ b) := by
  intro y hy
  rcases List.mem_append.1 hy with h | h
  · exact ha y h
  · exact hb y h

/-- what `redirectToLeader` guarantees about the attempts it went through -/
def RedirPost (n : Nat) (fe : Bool) (res : Redir) (c : List Outcome) : Prop :=
  match res with
  | .failed => noSucc c
  | .lead true => ∃ p, c = p ++ [Outcome.selfApplyOk] ∧ noSucc p
  | .lead false => noSucc c
  | .forwarded true => noSucc c
  | .forwarded false => (∃ p, c = p ++ [Outcome.fwdOk] ∧ noSucc p) ∨ (c = [] ∧ fe = false ∧ n = 0)

theorem redirect_spec (n : Nat) (fe : Bool) (o : List Outcome) :
    (redirect expectedRedir n fe o).2.1 ++ (redirect expectedRedir n fe o).2.2 = o ∧
    (redirect expectedRedir n fe o).2.1.length ≤ n ∧
    RedirPost n fe (redirect expectedRedir n fe o).1 (redirect expectedRedir n fe o).2.1 := by
  induction n generalizing fe o with
  | zero =>
    refine ⟨rfl, Nat.le_refl _, ?_⟩
    unfold redirect RedirPost
    cases fe
    · exact Or.inr ⟨rfl, rfl, rfl⟩
    · exact noSucc_nil
  | succ n ih =>
    cases o with
    | nil => exact ⟨rfl, Nat.zero_le _, noSucc_nil⟩
    | cons x rest =>
      cases x with
      | noLeader =>
        refine ⟨rfl, by simp [redirect], ?_⟩
        exact noSucc_cons rfl noSucc_nil
      | selfApplyOk =>
        refine ⟨rfl, by simp [redirect], ?_⟩
        exact ⟨[], rfl, noSucc_nil⟩
      | selfApplyErr =>
        refine ⟨rfl, by simp [redirect], ?_⟩
        exact noSucc_cons rfl noSucc_nil
      | fwdOk =>
        refine ⟨rfl, by simp [redirect], ?_⟩
        exact Or.inl ⟨[], rfl, noSucc_nil⟩
      | fwdErr =>
        obtain ⟨h1, h2, h3⟩ := ih true rest
        have hred : redirect expectedRedir (n + 1) fe (Outcome.fwdErr :: rest) =
            ((redirect expectedRedir n true rest).1, Outcome.fwdErr :: (redirect expectedRedir n true rest).2.1,
             (redirect expectedRedir n true rest).2.2) := rfl
        rw [hred]
        refine ⟨by simp [h1], by simp; omega, ?_⟩
        generalize (redirect expectedRedir n true rest).1 = res at h3 ⊢
        generalize (redirect expectedRedir n true rest).2.1 = c at h3 ⊢
        cases res with
        | failed => exact noSucc_cons rfl h3
        | lead b =>
          cases b with
          | true =>
            obtain ⟨p, hp, hn⟩ := h3
            exact ⟨Outcome.fwdErr :: p, by simp [hp], noSucc_cons rfl hn⟩
          | false => exact noSucc_cons rfl h3
        | forwarded e =>
          cases e with
          | true => exact noSucc_cons rfl h3
          | false =>
            rcases h3 with ⟨p, hp, hn⟩ | ⟨_, hfe, _⟩
            · exact Or.inl ⟨Outcome.fwdErr :: p, by simp [hp], noSucc_cons rfl hn⟩
            · cases hfe

/-- what the outer loop guarantees -/
def OuterPost (n : Nat) (fe : Bool) (r : Result) : Prop :=
  (r.err = false → (∃ p s, r.consumed = p ++ [s] ∧ s.success = true ∧ noSucc p) ∨ (r.consumed = [] ∧ fe = false ∧ n = 0)) ∧
  (r.err = true → noSucc r.consumed)

theorem outer_spec (retries n : Nat) (fe : Bool) (o : List Outcome) :
    (outer expectedRedir expectedOuter retries n fe o).consumed <+: o ∧
    (outer expectedRedir expectedOuter retries n fe o).consumed.length ≤ n * (retries + 1) ∧
    OuterPost n fe (outer expectedRedir expectedOuter retries n fe o) := by
  induction n generalizing fe o with
  | zero =>
    refine ⟨List.nil_prefix, by simp [outer], ?_⟩
    unfold outer OuterPost
    refine ⟨?_, ?_⟩
    · intro h; exact Or.inr ⟨rfl, h, rfl⟩
    · intro _; exact noSucc_nil
  | succ n ih =>
    have hatt : attempts expectedRedir.inclusive retries = retries + 1 := rfl
    obtain ⟨h1, h2, h3⟩ := redirect_spec (retries + 1) false o
    unfold outer
    rw [hatt]
    generalize hq : redirect expectedRedir (retries + 1) false o = q at h1 h2 h3
    obtain ⟨res, c, rest⟩ := q
    simp only at h1 h2 h3 ⊢
    have hpre : c <+: o := ⟨rest, h1⟩
    have hlen : c.length ≤ (n + 1) * (retries + 1) := by
      have : retries + 1 ≤ (n + 1) * (retries + 1) := Nat.le_mul_of_pos_left _ (Nat.succ_pos n)
      omega
    cases res with
    | failed =>
      refine ⟨hpre, hlen, ?_, ?_⟩
      · intro h; cases h
      · intro _; exact h3
    | forwarded e =>
      cases e with
      | true =>
        refine ⟨hpre, hlen, ?_, ?_⟩
        · intro h; cases h
        · intro _; exact h3
      | false =>
        refine ⟨hpre, hlen, ?_, ?_⟩
        · intro _
          rcases h3 with ⟨p, hp, hn⟩ | ⟨_, _, h0⟩
          · exact Or.inl ⟨p, Outcome.fwdOk, hp, rfl, hn⟩
          · cases h0
        · intro h; cases h
    | lead b =>
      cases b with
      | true =>
        refine ⟨hpre, hlen, ?_, ?_⟩
        · intro _
          obtain ⟨p, hp, hn⟩ := h3
          exact Or.inl ⟨p, Outcome.selfApplyOk, hp, rfl, hn⟩
        · intro h; cases h
      | false =>
        obtain ⟨i1, i2, i3⟩ := ih true rest
        have hk : (if expectedOuter.applyKept = true then true else fe) = true := rfl
        simp only [hk]
        generalize outer expectedRedir expectedOuter retries n true rest = r at i1 i2 i3 ⊢
        refine ⟨?_, ?_, ?_, ?_⟩
        · obtain ⟨t, ht⟩ := i1
          exact ⟨t, by rw [← h1, ← ht]; simp⟩
        · simp only [List.length_append]
          have : (n + 1) * (retries + 1) = n * (retries + 1) + (retries + 1) := Nat.succ_mul n (retries + 1)
          omega
        · intro herr
          rcases i3.1 herr with ⟨p, s, hp, hs, hn⟩ | ⟨_, hfe, _⟩
          · exact Or.inl ⟨c ++ p, s, by simp [hp], hs, noSucc_append h3 hn⟩
          · cases hfe
        · intro herr
          exact noSucc_append h3 (i3.2 herr)

theorem commit_post (retries : Nat) (oracle : List Outcome) :
    (commit expectedRedir expectedOuter retries oracle).consumed <+: oracle ∧
    (commit expectedRedir expectedOuter retries oracle).consumed.length ≤ (retries + 1) * (retries + 1) ∧
    OuterPost (retries + 1) false (commit expectedRedir expectedOuter retries oracle) :=
  outer_spec retries (retries + 1) false oracle


end CV.C01.Commit
