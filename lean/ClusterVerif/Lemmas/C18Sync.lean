import ClusterVerif.Model.C18SyncProgs
import Mathlib.Data.List.Basic
import Mathlib.Tactic.Cases
import Mathlib.Tactic.ByContra
import Mathlib.Tactic.Push
import Mathlib.Tactic.Ring

/-! C18 — synchronisation semantics: soundness of the exhaustive exploration, happens-before
lemmas (`sync_drf_core`), and the kernel-checked certificates of the three shutdown protocols. -/
namespace CV.C18.Sync

/-! ### 1. exploration is sound -/

theorem NSet.mem_toList {x : Nat} : ∀ {T : NSet}, T.mem x = true → x ∈ T.toList
  | .leaf, h => by simp [NSet.mem] at h
  | .node l k r, h => by
    simp only [NSet.mem] at h
    simp only [NSet.toList, List.mem_append, List.mem_cons]
    cases h1 : Nat.blt x k with
    | true => rw [h1] at h; exact Or.inl (NSet.mem_toList h)
    | false =>
      rw [h1] at h; simp only [cond_false] at h
      cases h2 : Nat.blt k x with
      | true => rw [h2] at h; exact Or.inr (Or.inr (NSet.mem_toList h))
      | false =>
        have e1 : ¬ x < k := by intro hh; rw [← Nat.blt_eq] at hh; rw [hh] at h1; cases h1
        have e2 : ¬ k < x := by intro hh; rw [← Nat.blt_eq] at hh; rw [hh] at h2; cases h2
        exact Or.inr (Or.inl (by omega))

theorem NSet.memF_eq (T : NSet) (x : Nat) : T.memF x = T.mem x := by
  cases x <;> rfl

theorem instrAt_some_lt {P : List Code} {cfg : Cfg} {s t : Nat} {ins : Instr}
    (h : instrAt P cfg s t = some ins) : t < P.length := by
  unfold instrAt at h
  cases hp : P[t]? with
  | none => rw [hp] at h; cases h
  | some code =>
    by_contra hlt
    have : P[t]? = none := List.getElem?_eq_none (by omega)
    rw [this] at hp; cases hp

theorem step_some_inv {P : List Code} {cfg : Cfg} {s t a : Nat} {r : Nat × SEv}
    (h : step P cfg s t a = some r) :
    panicCode s = 0 ∧ ∃ ins, instrAt P cfg s t = some ins ∧ a ≤ ins.alts.length := by
  unfold step at h
  cases h0 : Nat.beq (dig s 0) 0 with
  | false => rw [h0] at h; simp at h
  | true =>
    rw [h0] at h
    refine ⟨Nat.eq_of_beq_eq_true h0, ?_⟩
    cases hi : instrAt P cfg s t with
    | none => rw [hi] at h; simp at h
    | some ins =>
      refine ⟨ins, rfl, ?_⟩
      rw [hi] at h
      simp only [] at h
      cases ha : ins.alts[a]? with
      | some alt =>
        have := (List.getElem?_eq_some_iff.mp ha).1
        omega
      | none =>
        rw [ha] at h
        simp only [] at h
        cases hb : Nat.beq a ins.alts.length with
        | true => have := Nat.eq_of_beq_eq_true hb; omega
        | false => rw [hb] at h; simp at h

theorem step_mem_succs {P : List Code} {cfg : Cfg} {s t a : Nat} {r : Nat × SEv}
    (h : step P cfg s t a = some r) : r.1 ∈ succs P cfg s := by
  obtain ⟨_, ins, hi, ha⟩ := step_some_inv h
  unfold succs
  rw [List.mem_flatMap]
  refine ⟨t, List.mem_range.mpr (instrAt_some_lt hi), ?_⟩
  unfold threadSuccs
  rw [hi]
  simp only [List.mem_filterMap, List.mem_range]
  exact ⟨a, by omega, by rw [h]; rfl⟩

theorem mem_succs_step {P : List Code} {cfg : Cfg} {s s' : Nat}
    (h : s' ∈ succs P cfg s) : ∃ c : Choice, (stepC P cfg s c).isSome = true := by
  unfold succs at h
  rw [List.mem_flatMap] at h
  obtain ⟨t, _, ht⟩ := h
  unfold threadSuccs at ht
  cases hi : instrAt P cfg s t with
  | none => rw [hi] at ht; simp at ht
  | some ins =>
    rw [hi] at ht
    simp only [List.mem_filterMap] at ht
    obtain ⟨a, _, ha⟩ := ht
    refine ⟨(t, a), ?_⟩
    unfold stepC
    cases hs : step P cfg s t a with
    | none => rw [hs] at ha; simp at ha
    | some r => rfl

theorem closed_step {P : List Code} {cfg : Cfg} {T : NSet} (hc : closedB P cfg T = true)
    {s : Nat} (hs : s ∈ T.toList) {c : Choice} {r : Nat × SEv} (h : stepC P cfg s c = some r) :
    r.1 ∈ T.toList := by
  unfold closedB at hc
  rw [List.all_eq_true] at hc
  have h1 := hc s hs
  rw [List.all_eq_true] at h1
  have h2 := h1 r.1 (step_mem_succs h)
  rw [NSet.memF_eq] at h2
  exact NSet.mem_toList h2

theorem closed_reach_from {P : List Code} {cfg : Cfg} {T : NSet} (hc : closedB P cfg T = true) :
    ∀ (sched : List Choice) (s0 s : Nat) (evs : List SEv), s0 ∈ T.toList →
      run P cfg s0 sched = some (s, evs) → s ∈ T.toList := by
  intro sched
  induction sched with
  | nil => intro s0 s evs h0 h; simp [run] at h; rw [← h.1]; exact h0
  | cons c rest ih =>
    intro s0 s evs h0 h
    unfold run at h
    cases hs : stepC P cfg s0 c with
    | none => rw [hs] at h; simp at h
    | some r =>
      obtain ⟨s1, e⟩ := r
      rw [hs] at h
      simp only [] at h
      cases hr : run P cfg s1 rest with
      | none => rw [hr] at h; simp at h
      | some r2 =>
        obtain ⟨s2, es⟩ := r2
        rw [hr] at h
        simp only [Option.some.injEq, Prod.mk.injEq] at h
        rw [← h.1]
        exact ih s1 s2 es (closed_step hc h0 hs) hr

/-- a set that contains the initial state and is closed under every step of every thread contains
every state reachable by any schedule -/
theorem closed_reach {P : List Code} {cfg : Cfg} {T : NSet} {init : Nat}
    (h0 : T.mem init = true) (hc : closedB P cfg T = true) :
    ∀ (sched : List Choice) (s : Nat) (evs : List SEv),
      run P cfg init sched = some (s, evs) → s ∈ T.toList :=
  fun sched s evs h => closed_reach_from hc sched init s evs (NSet.mem_toList h0) h

/-- for ALL interleavings: no panic, no deadlock, no racy state -/
theorem safe_all_interleavings {P : List Code} {cfg : Cfg} {T : NSet} {init : Nat}
    (h0 : T.mem init = true) (hc : closedB P cfg T = true) (hs : safeB P cfg T.toList = true) :
    ∀ (sched : List Choice) (s : Nat) (evs : List SEv), run P cfg init sched = some (s, evs) →
      panicCode s = 0 ∧
      (allFinished P cfg s = true ∨ ∃ c : Choice, (stepC P cfg s c).isSome = true) ∧
      racyB P cfg s = false := by
  intro sched s evs h
  have hm := closed_reach h0 hc sched s evs h
  unfold safeB at hs
  rw [List.all_eq_true] at hs
  have h1 := hs s hm
  simp only [Bool.and_eq_true, Bool.not_eq_true'] at h1
  obtain ⟨⟨hp, hl⟩, hr⟩ := h1
  refine ⟨Nat.eq_of_beq_eq_true hp, ?_, hr⟩
  unfold liveB at hl
  rw [Bool.or_eq_true] at hl
  cases hl with
  | inl hf => exact Or.inl hf
  | inr hne =>
    right
    cases hsu : succs P cfg s with
    | nil => rw [hsu] at hne; simp at hne
    | cons s' rest => exact mem_succs_step (s' := s') (by rw [hsu]; exact List.mem_cons_self)

/-! ### 2. happens-before on traces -/

theorem poEdge_inv {tr : List SEv} {i j : Nat} (h : poEdge tr i j = true) :
    i < j ∧ ∃ ei ej, tr[i]? = some ei ∧ tr[j]? = some ej ∧ ei.tid = ej.tid := by
  unfold poEdge at h
  rw [Bool.and_eq_true] at h
  obtain ⟨h1, h2⟩ := h
  refine ⟨of_decide_eq_true h1, ?_⟩
  cases hi : tr[i]? with
  | none => rw [hi] at h2; simp at h2
  | some ei =>
    cases hj : tr[j]? with
    | none => rw [hi, hj] at h2; simp at h2
    | some ej => rw [hi, hj] at h2; exact ⟨ei, ej, rfl, rfl, by simpa using h2⟩

/-- the source of a synchronisation edge is a release-type event; its target is an acquire-type
event, or (go statement) any event of the started goroutine -/
theorem syncEdge_inv {tr : List SEv} {i j : Nat} (h : syncEdge tr i j = true) :
    i < j ∧ ∃ ei ej, tr[i]? = some ei ∧ tr[j]? = some ej ∧ isRelease ei = true ∧
      (isAcquire ej = true ∨ ∃ t', ei = .spawn t' ej.tid) := by
  unfold syncEdge at h
  rw [Bool.and_eq_true] at h
  obtain ⟨h1, h2⟩ := h
  refine ⟨of_decide_eq_true h1, ?_⟩
  cases hi : tr[i]? with
  | none => rw [hi] at h2; simp at h2
  | some ei =>
    cases hj : tr[j]? with
    | none => rw [hi, hj] at h2; cases ei <;> simp at h2
    | some ej =>
      rw [hi, hj] at h2
      refine ⟨ei, ej, rfl, rfl, ?_⟩
      cases ei <;> cases ej <;> simp [isRelease, isAcquire, SEv.tid] at h2 ⊢ <;> (try exact h2.symm)

/-- the invariant behind `sync_drf_core` -/
theorem hb_inv {tr : List SEv} {i j : Nat} (h : HB tr i j) :
    i < j ∧ ∃ ei ej, tr[i]? = some ei ∧ tr[j]? = some ej ∧ (ei.tid ≠ ej.tid →
      ∃ p q, i ≤ p ∧ p < q ∧ q ≤ j ∧
        (∃ ep, tr[p]? = some ep ∧ ep.tid = ei.tid ∧ isRelease ep = true) ∧
        (∃ ea, tr[q]? = some ea ∧ ea.tid = ej.tid ∧
          (isAcquire ea = true ∨ ∃ r t', p ≤ r ∧ r < q ∧ tr[r]? = some (.spawn t' ea.tid)))) := by
  induction h with
  | po hpo =>
    obtain ⟨hlt, ei, ej, hi, hj, ht⟩ := poEdge_inv hpo
    exact ⟨hlt, ei, ej, hi, hj, fun hne => absurd ht hne⟩
  | @sync i j hs =>
    obtain ⟨hlt, ei, ej, hi, hj, hr, ha⟩ := syncEdge_inv hs
    refine ⟨hlt, ei, ej, hi, hj, fun _ => ⟨i, j, Nat.le_refl _, hlt, Nat.le_refl _, ⟨ei, hi, rfl, hr⟩, ⟨ej, hj, rfl, ?_⟩⟩⟩
    cases ha with
    | inl h => exact Or.inl h
    | inr h => obtain ⟨t', h⟩ := h; exact Or.inr ⟨i, t', Nat.le_refl _, hlt, by rw [hi, h]⟩
  | @trans i j k _ _ ih1 ih2 =>
    obtain ⟨hlt1, ei, ej, hi, hj, imp1⟩ := ih1
    obtain ⟨hlt2, ej', ek, hj', hk, imp2⟩ := ih2
    have : ej' = ej := by rw [hj] at hj'; exact (Option.some.inj hj').symm
    subst this
    refine ⟨by omega, ei, ek, hi, hk, ?_⟩
    intro hne
    by_cases h1 : ei.tid = ej'.tid
    · have hne2 : ej'.tid ≠ ek.tid := by rw [← h1]; exact hne
      obtain ⟨p, q, hp, hpq, hq, ⟨ep, hep, hept, hepr⟩, hQ⟩ := imp2 hne2
      exact ⟨p, q, by omega, hpq, hq, ⟨ep, hep, by rw [hept, h1], hepr⟩, hQ⟩
    · obtain ⟨p, q, hp, hpq, hq, hP, ⟨ea, hea, heat, hacq⟩⟩ := imp1 h1
      by_cases h2 : ej'.tid = ek.tid
      · exact ⟨p, q, hp, hpq, by omega, hP, ⟨ea, hea, by rw [heat, h2], hacq⟩⟩
      · obtain ⟨p2, q2, hp2, hpq2, hq2, _, ⟨ea2, hea2, heat2, hacq2⟩⟩ := imp2 h2
        refine ⟨p, q2, hp, by omega, hq2, hP, ⟨ea2, hea2, heat2, ?_⟩⟩
        cases hacq2 with
        | inl h => exact Or.inl h
        | inr h =>
          obtain ⟨r, t', hr1, hr2, hr3⟩ := h
          exact Or.inr ⟨r, t', by omega, hr2, hr3⟩

theorem hb_lt {tr : List SEv} {i j : Nat} (h : HB tr i j) : i < j := (hb_inv h).1

theorem access_not_release {e : SEv} {a : Tid × Loc × Bool} (h : isAccess e = some a) :
    isRelease e = false := by
  cases e <;> simp [isAccess] at h <;> rfl

theorem access_not_acquire {e : SEv} {a : Tid × Loc × Bool} (h : isAccess e = some a) :
    isAcquire e = false := by
  cases e <;> simp [isAccess] at h <;> rfl

/-- two memory accesses of different threads that are ordered by ANY chain of program-order, lock,
channel, WaitGroup, cancellation or go-statement edges are separated by a release-type event `p` of
the first thread (strictly after the first access) and a later event `q` of the second thread that
is an acquire-type event strictly before the second access, or is preceded (at some `r ≥ p`) by
the go statement that started the second thread (then possibly `q = j`) -/
theorem sync_drf_core {tr : List SEv} {i j : Nat} {ei ej : SEv} {ai aj : Tid × Loc × Bool}
    (h : HB tr i j) (hi : tr[i]? = some ei) (hj : tr[j]? = some ej) (hne : ei.tid ≠ ej.tid)
    (hai : isAccess ei = some ai) (haj : isAccess ej = some aj) :
    ∃ p q, i < p ∧ p < q ∧ q ≤ j ∧
      (∃ ep, tr[p]? = some ep ∧ ep.tid = ei.tid ∧ isRelease ep = true) ∧
      (∃ ea, tr[q]? = some ea ∧ ea.tid = ej.tid ∧
        ((isAcquire ea = true ∧ q < j) ∨
          ∃ r t', p ≤ r ∧ r < q ∧ tr[r]? = some (.spawn t' ea.tid))) := by
  obtain ⟨_, ei', ej', hi', hj', imp⟩ := hb_inv h
  have e1 : ei' = ei := by rw [hi] at hi'; exact (Option.some.inj hi').symm
  have e2 : ej' = ej := by rw [hj] at hj'; exact (Option.some.inj hj').symm
  subst e1; subst e2
  obtain ⟨p, q, hp, hpq, hq, ⟨ep, hep, hept, hepr⟩, ⟨ea, hea, heat, hacq⟩⟩ := imp hne
  have hpi : p ≠ i := by
    intro hh; subst hh
    rw [hi'] at hep
    have : ep = ei' := (Option.some.inj hep).symm
    subst this
    rw [access_not_release hai] at hepr; cases hepr
  refine ⟨p, q, by omega, hpq, hq, ⟨ep, hep, hept, hepr⟩, ⟨ea, hea, heat, ?_⟩⟩
  cases hacq with
  | inr hsp => exact Or.inr hsp
  | inl hac =>
    left
    refine ⟨hac, ?_⟩
    have hqj : q ≠ j := by
      intro hh; subst hh
      rw [hj'] at hea
      have : ea = ej' := (Option.some.inj hea).symm
      subst this
      rw [access_not_acquire haj] at hac; cases hac
    omega

/-- in particular two such accesses are never adjacent in the trace -/
theorem hb_not_adjacent {tr : List SEv} {i j : Nat} {ei ej : SEv} {ai aj : Tid × Loc × Bool}
    (h : HB tr i j) (hi : tr[i]? = some ei) (hj : tr[j]? = some ej) (hne : ei.tid ≠ ej.tid)
    (hai : isAccess ei = some ai) (haj : isAccess ej = some aj) : j ≠ i + 1 := by
  obtain ⟨p, q, h1, h2, h3, _, _⟩ := sync_drf_core h hi hj hne hai haj
  omega

/-! ### 3. the three protocols: certificates and refutations -/

theorem run_witness {P : List Code} {cfg : Cfg} {init : Nat} {sched : List Choice}
    {f : Nat × List SEv → Bool} (h : (run P cfg init sched).map f = some true) :
    ∃ s evs, run P cfg init sched = some (s, evs) ∧ f (s, evs) = true := by
  cases hr : run P cfg init sched with
  | none => rw [hr] at h; cases h
  | some r =>
    obtain ⟨s, evs⟩ := r
    rw [hr] at h
    exact ⟨s, evs, rfl, Option.some.inj h⟩

theorem stuck_of_succs_isEmpty {P : List Code} {cfg : Cfg} {s : Nat}
    (h : (succs P cfg s).isEmpty = true) : ∀ c : Choice, stepC P cfg s c = none := by
  intro c
  cases hs : stepC P cfg s c with
  | none => rfl
  | some r =>
    have := step_mem_succs (P := P) (cfg := cfg) (s := s) (t := c.1) (a := c.2) hs
    rw [List.isEmpty_iff.mp h] at this
    cases this

/-- deadlocked: not panicked, some started thread has not finished, nothing can move -/
def deadB (P : List Code) (cfg : Cfg) (s : Nat) : Bool :=
  Nat.beq (panicCode s) 0 && !allFinished P cfg s && (succs P cfg s).isEmpty

theorem deadB_sound {P : List Code} {cfg : Cfg} {s : Nat} (h : deadB P cfg s = true) :
    panicCode s = 0 ∧ allFinished P cfg s = false ∧ ∀ c : Choice, stepC P cfg s c = none := by
  unfold deadB at h
  simp only [Bool.and_eq_true, Bool.not_eq_true'] at h
  exact ⟨Nat.eq_of_beq_eq_true h.1.1, h.1.2, stuck_of_succs_isEmpty h.2⟩

open Progs

/-- what the kernel checks for an "in use" program -/
def Certified (P : List Code) (cfg : Cfg) (init : Nat) (T : NSet) : Prop :=
  progOk P cfg = true ∧ T.mem init = true ∧ closedB P cfg T = true ∧ safeB P cfg T.toList = true

theorem Certified.safe {P : List Code} {cfg : Cfg} {init : Nat} {T : NSet} (h : Certified P cfg init T) :
    ∀ (sched : List Choice) (s : Nat) (evs : List SEv), run P cfg init sched = some (s, evs) →
      panicCode s = 0 ∧
      (allFinished P cfg s = true ∨ ∃ c : Choice, (stepC P cfg s c).isSome = true) ∧
      racyB P cfg s = false :=
  safe_all_interleavings h.2.1 h.2.2.1 h.2.2.2

theorem progA_certified : Certified progA (cfgA 5) initA RA :=
  ⟨by decide +kernel, by decide +kernel, by decide +kernel, by decide +kernel⟩

theorem progB_certified : Certified progB (cfgB 6) initB RB :=
  ⟨by decide +kernel, by decide +kernel, by decide +kernel, by decide +kernel⟩

theorem progC00Old_certified : Certified progC00Old (cfgCOld 8) initCOld RC00Old :=
  ⟨by decide +kernel, by decide +kernel, by decide +kernel, by decide +kernel⟩

/-- (a) stateless pin tracker in use: for all interleavings no panic, no deadlock, no racy state -/
theorem progA_safe : ∀ (sched : List Choice) (s : Nat) (evs : List SEv),
    run progA (cfgA 5) initA sched = some (s, evs) →
      panicCode s = 0 ∧
      (allFinished progA (cfgA 5) s = true ∨ ∃ c : Choice, (stepC progA (cfgA 5) s c).isSome = true) ∧
      racyB progA (cfgA 5) s = false := progA_certified.safe

/-- (b) crdt consensus in use -/
theorem progB_safe : ∀ (sched : List Choice) (s : Nat) (evs : List SEv),
    run progB (cfgB 6) initB sched = some (s, evs) →
      panicCode s = 0 ∧
      (allFinished progB (cfgB 6) s = true ∨ ∃ c : Choice, (stepC progB (cfgB 6) s c).isSome = true) ∧
      racyB progB (cfgB 6) s = false := progB_certified.safe

/-- (c) `Cluster.Shutdown`, restricted: `watchPeers` without its removal branch and `ready()`
returning by `ctx.Done()` -/
theorem progC00Old_safe : ∀ (sched : List Choice) (s : Nat) (evs : List SEv),
    run progC00Old (cfgCOld 8) initCOld sched = some (s, evs) →
      panicCode s = 0 ∧
      (allFinished progC00Old (cfgCOld 8) s = true ∨ ∃ c : Choice, (stepC progC00Old (cfgCOld 8) s c).isSome = true) ∧
      racyB progC00Old (cfgCOld 8) s = false := progC00Old_certified.safe

/-! refutations: one schedule each -/

def schedA1 : List Choice := [(0,0), (1,0), (1,1), (1,0), (1,0), (0,0)]
/-- (a1) `SetClient` concurrently with `Shutdown`: send on the closed `rpcReady` -/
theorem progA1_panics : ∃ s evs, run progA1 (cfgA 2) (mkInit (cfgA 2) [0]) schedA1 = some (s, evs) ∧
    panicCode s = 1 ∧ evs.getLast? = some (.panic 0 1) := by
  obtain ⟨s, evs, h, hf⟩ := run_witness (P := progA1) (cfg := cfgA 2) (init := mkInit (cfgA 2) [0])
    (sched := schedA1) (f := fun r => Nat.beq (panicCode r.1) 1 && decide (r.2.getLast? = some (.panic 0 1)))
    (by decide +kernel)
  simp only [Bool.and_eq_true, decide_eq_true_eq] at hf
  exact ⟨s, evs, h, Nat.eq_of_beq_eq_true hf.1, hf.2⟩

def schedA2 : List Choice := [(0,0)]
/-- (a2) `SetClient` twice: the second send blocks for ever -/
theorem progA2_deadlocks : ∃ s evs, run progA2 (cfgA 1) (mkInit (cfgA 1) [0]) schedA2 = some (s, evs) ∧
    panicCode s = 0 ∧ allFinished progA2 (cfgA 1) s = false ∧ ∀ c : Choice, stepC progA2 (cfgA 1) s c = none := by
  obtain ⟨s, evs, h, hf⟩ := run_witness (P := progA2) (cfg := cfgA 1) (init := mkInit (cfgA 1) [0])
    (sched := schedA2) (f := fun r => deadB progA2 (cfgA 1) r.1) (by decide +kernel)
  exact ⟨s, evs, h, deadB_sound hf⟩

def schedA3p : List Choice := [(0,0),(0,0),(1,1),(2,1),(1,0),(1,0),(2,0),(2,0)]
/-- (a3) `Shutdown` without the mutex, twice: close of the closed `rpcReady` -/
theorem progA3_panics : ∃ s evs, run progA3 (cfgA 3) (mkInit (cfgA 3) [0]) schedA3p = some (s, evs) ∧
    panicCode s = 2 ∧ evs.getLast? = some (.panic 2 2) := by
  obtain ⟨s, evs, h, hf⟩ := run_witness (P := progA3) (cfg := cfgA 3) (init := mkInit (cfgA 3) [0])
    (sched := schedA3p) (f := fun r => Nat.beq (panicCode r.1) 2 && decide (r.2.getLast? = some (.panic 2 2)))
    (by decide +kernel)
  simp only [Bool.and_eq_true, decide_eq_true_eq] at hf
  exact ⟨s, evs, h, Nat.eq_of_beq_eq_true hf.1, hf.2⟩

def schedA3r : List Choice := [(0,0),(0,0),(1,1),(1,0),(1,0),(1,0)]
/-- (a3) ... and a racy state on `spt.shutdown` -/
theorem progA3_racy : ∃ s evs, run progA3 (cfgA 3) (mkInit (cfgA 3) [0]) schedA3r = some (s, evs) ∧
    racyB progA3 (cfgA 3) s = true :=
  run_witness (f := fun r => racyB progA3 (cfgA 3) r.1) (by decide +kernel)

def schedB1 : List Choice := [(0,0),(0,0),(0,0),(1,1),(3,0),(3,1),(3,0)]
/-- (b1) `Shutdown` before `<-Ready()`: `setup` writes `css.crdt` while `Shutdown` reads it -/
theorem progB1_racy : ∃ s evs, run progB1 (cfgB 4) (mkInit (cfgB 4) [0]) schedB1 = some (s, evs) ∧
    racyB progB1 (cfgB 4) s = true :=
  run_witness (f := fun r => racyB progB1 (cfgB 4) r.1) (by decide +kernel)

def schedB2 : List Choice := [(0,0),(1,0),(1,1),(1,0),(1,1),(1,0),(1,0),(0,0)]
/-- (b2) `Shutdown` before `SetClient`: send on the closed `rpcReady` -/
theorem progB2_panics : ∃ s evs, run progB2 (cfgB 2) (mkInit (cfgB 2) [0]) schedB2 = some (s, evs) ∧
    panicCode s = 1 ∧ evs.getLast? = some (.panic 0 1) := by
  obtain ⟨s, evs, h, hf⟩ := run_witness (P := progB2) (cfg := cfgB 2) (init := mkInit (cfgB 2) [0])
    (sched := schedB2) (f := fun r => Nat.beq (panicCode r.1) 1 && decide (r.2.getLast? = some (.panic 0 1)))
    (by decide +kernel)
  simp only [Bool.and_eq_true, decide_eq_true_eq] at hf
  exact ⟨s, evs, h, Nat.eq_of_beq_eq_true hf.1, hf.2⟩

/-- NewCluster; watchPeers: tick, "not in peerset" (about to Lock); Shutdown (T4): Lock, reads,
cancel, now in `wg.Wait()`; ready() and the API user leave by `ctx.Done()`; the rest of T0 -/
def schedCOld : List Choice :=
  [(0,0),(0,0),(0,0),(0,0),(0,0),(0,0),(1,1),(1,1),(4,0),(4,1),(4,0),(4,0),(4,0),(2,1),(2,0),(3,1),(0,0),(0,0)]
/-- (c) as in `cluster.go`: DEADLOCK. `watchPeers` (counted in `c.wg`) waits for `shutdownLock`,
which a `Shutdown` holds while it waits in `c.wg.Wait()` -/
theorem progCOld_deadlocks : ∃ s evs, run progCOld (cfgCOld 8) initCOld schedCOld = some (s, evs) ∧
    panicCode s = 0 ∧ allFinished progCOld (cfgCOld 8) s = false ∧ ∀ c : Choice, stepC progCOld (cfgCOld 8) s c = none := by
  obtain ⟨s, evs, h, hf⟩ := run_witness (P := progCOld) (cfg := cfgCOld 8) (init := initCOld)
    (sched := schedCOld) (f := fun r => deadB progCOld (cfgCOld 8) r.1) (by decide +kernel)
  exact ⟨s, evs, h, deadB_sound hf⟩

/-- NewCluster and users; ready(): consensus ready, `close(c.readyCh)` (about to Lock); Shutdown
(T4): Lock, reads, cancel, now in `wg.Wait()`; watchPeers leaves by `ctx.Done()`; `<-c.Ready()` -/
def schedC0Old : List Choice :=
  [(0,0),(0,0),(0,0),(0,0),(0,0),(0,0),(0,0),(0,0),(2,0),(2,0),(4,0),(4,1),(4,0),(4,0),(4,0),(1,0),(1,0),(3,0)]
/-- (c) even without the removal branch: DEADLOCK. `ready()` (counted in `c.wg`) waits for
`shutdownLock` after `close(c.readyCh)`, a `Shutdown` holds it while it waits in `c.wg.Wait()` -/
theorem progC0Old_deadlocks : ∃ s evs, run progC0Old (cfgCOld 8) initCOld schedC0Old = some (s, evs) ∧
    panicCode s = 0 ∧ allFinished progC0Old (cfgCOld 8) s = false ∧ ∀ c : Choice, stepC progC0Old (cfgCOld 8) s c = none := by
  obtain ⟨s, evs, h, hf⟩ := run_witness (P := progC0Old) (cfg := cfgCOld 8) (init := initCOld)
    (sched := schedC0Old) (f := fun r => deadB progC0Old (cfgCOld 8) r.1) (by decide +kernel)
  exact ⟨s, evs, h, deadB_sound hf⟩

/-! ### 4a. digits -/

theorem B_pos : 0 < B := by decide
theorem Bpow_pos (i : Nat) : 0 < B ^ i := Nat.pow_pos B_pos

theorem dig_setDig_same (s i v : Nat) : dig (setDig s i v) i = v % B := by
  unfold dig setDig
  rw [Nat.add_mul_div_left _ _ (Bpow_pos i), Nat.div_eq_of_lt (Nat.mod_lt _ (Bpow_pos i)), Nat.zero_add,
    Nat.add_mul_mod_self_left, Nat.mod_mod]

theorem dig_setDig_ne (s : Nat) {i j : Nat} (v : Nat) (h : i ≠ j) : dig (setDig s i v) j = dig s j := by
  unfold dig setDig
  rcases Nat.lt_or_gt_of_ne h with hlt | hgt
  · -- i < j
    obtain ⟨d, rfl⟩ : ∃ d, j = i + 1 + d := ⟨j - (i + 1), by omega⟩
    have hlo : s % B ^ i + B ^ i * (v % B) < B ^ (i + 1) := by
      have h1 := Nat.mod_lt s (Bpow_pos i)
      have h2 := Nat.mod_lt v B_pos
      have h3 : B ^ i * (v % B) ≤ B ^ i * (B - 1) := Nat.mul_le_mul_left _ (by omega)
      have hB : B - 1 + 1 = B := by have := B_pos; omega
      have h4 : B ^ (i + 1) = B ^ i * (B - 1) + B ^ i := by
        calc B ^ (i + 1) = B ^ i * (B - 1 + 1) := by rw [hB, Nat.pow_succ]
          _ = B ^ i * (B - 1) + B ^ i := Nat.mul_succ _ _
      omega
    have e : s % B ^ i + B ^ i * (v % B + B * (s / B ^ (i + 1)))
        = (s % B ^ i + B ^ i * (v % B)) + B ^ (i + 1) * (s / B ^ (i + 1)) := by ring
    have ej : B ^ (i + 1 + d) = B ^ (i + 1) * B ^ d := Nat.pow_add _ _ _
    have hK := Bpow_pos (i + 1)
    rw [e, ej]
    generalize B ^ (i + 1) = K at *
    rw [← Nat.div_div_eq_div_mul, ← Nat.div_div_eq_div_mul,
      Nat.add_mul_div_left _ _ hK, Nat.div_eq_of_lt hlo, Nat.zero_add]
  · -- j < i
    obtain ⟨d, rfl⟩ : ∃ d, i = j + 1 + d := ⟨i - (j + 1), by omega⟩
    have e : B ^ (j + 1 + d) = B ^ j * (B * B ^ d) := by ring
    have e2 : s % (B ^ j * (B * B ^ d)) + B ^ j * (B * B ^ d) * (v % B + B * (s / B ^ (j + 1 + d + 1)))
        = s % (B ^ j * (B * B ^ d)) + B ^ j * (B * (B ^ d * (v % B + B * (s / B ^ (j + 1 + d + 1))))) := by ring
    rw [e, e2, Nat.add_mul_div_left _ _ (Bpow_pos j), Nat.add_mul_mod_self_left,
      Nat.mod_mul_right_div_self, Nat.mod_mod_of_dvd _ (Dvd.intro _ rfl)]

/-! ### 4. a panicked state is reached exactly by a `panic` event -/

theorem fire_zero (cfg : Cfg) (s t : Nat) (op : Op) :
    (isPanic (fire cfg s t op).2 = false ∧ dig (fire cfg s t op).1 0 = dig s 0) ∨
    (∃ c, (fire cfg s t op).2 = .panic t c ∧ dig (fire cfg s t op).1 0 = c ∧ c ≠ 0) := by
  cases op <;> simp only [fire] <;> (try split) <;>
    first
    | exact Or.inl ⟨rfl, rfl⟩
    | exact Or.inl ⟨rfl, trivial⟩
    | exact Or.inl ⟨rfl, dig_setDig_ne _ _ (by simp only [oPc, oMuX, oMuR, oLen, oClosed, oWg, oCtx, oCell]; omega)⟩
    | exact Or.inr ⟨_, rfl, (dig_setDig_same _ _ _).trans (by decide), by decide⟩

theorem step_zero {P : List Code} {cfg : Cfg} {s t a : Nat} {r : Nat × SEv}
    (h : step P cfg s t a = some r) :
    panicCode s = 0 ∧ ((isPanic r.2 = false ∧ panicCode r.1 = 0) ∨
      (∃ c, r.2 = .panic t c ∧ panicCode r.1 = c ∧ c ≠ 0)) := by
  have h0 := (step_some_inv h).1
  refine ⟨h0, ?_⟩
  unfold step at h
  have hb : Nat.beq (dig s 0) 0 = true := by rw [show dig s 0 = 0 from h0]; rfl
  rw [hb] at h
  simp only [if_true] at h
  cases hi : instrAt P cfg s t with
  | none => rw [hi] at h; simp at h
  | some ins =>
    rw [hi] at h
    simp only [] at h
    have hpc : ∀ s1 pc, dig (setPc cfg s1 t pc) 0 = dig s1 0 := fun s1 pc =>
      dig_setDig_ne _ _ (by simp only [oPc]; omega)
    cases ha : ins.alts[a]? with
    | some alt =>
      rw [ha] at h
      simp only [] at h
      split at h
      · have := Option.some.inj h
        subst this
        simp only [panicCode, hpc]
        rcases fire_zero cfg s t alt.op with ⟨h1, h2⟩ | ⟨c, h1, h2, h3⟩
        · exact Or.inl ⟨h1, by rw [h2]; exact h0⟩
        · exact Or.inr ⟨c, h1, h2, h3⟩
      · cases h
    | none =>
      rw [ha] at h
      simp only [] at h
      split at h
      · split at h
        · split at h
          · have := Option.some.inj h
            subst this
            simp only [panicCode, hpc]
            exact Or.inl ⟨rfl, h0⟩
          · cases h
        · cases h
      · cases h

/-- along any execution from an unpanicked state: either nothing panicked (no `panic` event, final
state unpanicked), or the LAST event is `panic t code`, it is the only `panic` event, and `code`
(≠ 0) is the final state's panic code. So "no reachable panicked state" is "no execution ever
sends on a closed channel / closes a closed channel / makes a WaitGroup negative / unlocks an
unlocked mutex". -/
theorem run_panic {P : List Code} {cfg : Cfg} : ∀ (sched : List Choice) (s s' : Nat) (evs : List SEv),
    run P cfg s sched = some (s', evs) → panicCode s = 0 →
      (panicCode s' = 0 ∧ ∀ e ∈ evs, isPanic e = false) ∨
      (∃ t evs0, evs = evs0 ++ [.panic t (panicCode s')] ∧ panicCode s' ≠ 0 ∧
        ∀ e ∈ evs0, isPanic e = false) := by
  intro sched
  induction sched with
  | nil =>
    intro s s' evs h h0
    simp [run] at h
    obtain ⟨rfl, rfl⟩ := h
    exact Or.inl ⟨h0, by simp⟩
  | cons c rest ih =>
    intro s s' evs h h0
    unfold run at h
    cases hs : stepC P cfg s c with
    | none => rw [hs] at h; simp at h
    | some r =>
      obtain ⟨s1, e⟩ := r
      rw [hs] at h
      simp only [] at h
      cases hr : run P cfg s1 rest with
      | none => rw [hr] at h; simp at h
      | some r2 =>
        obtain ⟨s2, es⟩ := r2
        rw [hr] at h
        simp only [Option.some.injEq, Prod.mk.injEq] at h
        obtain ⟨rfl, rfl⟩ := h
        rcases (step_zero hs).2 with ⟨hnp, hz⟩ | ⟨code, he, hc, hne⟩
        · rcases ih s1 s2 es hr hz with ⟨h1, h2⟩ | ⟨t, evs0, h1, h2, h3⟩
          · left
            refine ⟨h1, ?_⟩
            intro e' he'
            rcases List.mem_cons.mp he' with rfl | hm
            · exact hnp
            · exact h2 e' hm
          · right
            refine ⟨t, e :: evs0, by rw [h1]; rfl, h2, ?_⟩
            intro e' he'
            rcases List.mem_cons.mp he' with rfl | hm
            · exact hnp
            · exact h3 e' hm
        · -- panicked: the run stops here
          cases rest with
          | nil =>
            simp [run] at hr
            obtain ⟨rfl, rfl⟩ := hr
            right
            simp only at he hc
            refine ⟨c.1, [], by rw [he, hc]; rfl, by rw [hc]; exact hne, by simp⟩
          | cons c2 rest2 =>
            exfalso
            unfold run at hr
            cases hs2 : stepC P cfg s1 c2 with
            | none => rw [hs2] at hr; simp at hr
            | some r3 =>
              have hz := (step_zero hs2).1
              simp only at hc
              exact hne (hc.symm.trans hz)

/-! ### 5. operational justification of the synchronisation edges -/

theorem step_cases {P : List Code} {cfg : Cfg} {s t a : Nat} {r : Nat × SEv}
    (h : step P cfg s t a = some r) :
    ∃ ins, instrAt P cfg s t = some ins ∧
      ((∃ alt, ins.alts[a]? = some alt ∧ enabled cfg s alt.op = true ∧
          r = (setPc cfg (fire cfg s t alt.op).1 t alt.next, (fire cfg s t alt.op).2)) ∨
       (∃ pc, r = (setPc cfg s t pc, .tau t))) := by
  have h0 := (step_some_inv h).1
  unfold step at h
  have hb : Nat.beq (dig s 0) 0 = true := by rw [show dig s 0 = 0 from h0]; rfl
  rw [hb] at h
  simp only [if_true] at h
  cases hi : instrAt P cfg s t with
  | none => rw [hi] at h; simp at h
  | some ins =>
    rw [hi] at h
    simp only [] at h
    refine ⟨ins, rfl, ?_⟩
    cases ha : ins.alts[a]? with
    | some alt =>
      rw [ha] at h
      simp only [] at h
      split at h
      · rename_i hen
        exact Or.inl ⟨alt, rfl, hen, (Option.some.inj h).symm⟩
      · cases h
    | none =>
      rw [ha] at h
      simp only [] at h
      split at h
      · split at h
        · split at h
          · rename_i pc _ _
            exact Or.inr ⟨pc, (Option.some.inj h).symm⟩
          · cases h
        · cases h
      · cases h

theorem progOk_alt {P : List Code} {cfg : Cfg} (hok : progOk P cfg = true) {s t a : Nat} {ins : Instr}
    {alt : Alt} (hi : instrAt P cfg s t = some ins) (ha : ins.alts[a]? = some alt) :
    opOk cfg alt.op = true ∧ t < cfg.nT := by
  have ht := instrAt_some_lt hi
  unfold progOk at hok
  rw [Bool.and_eq_true] at hok
  obtain ⟨hlen, hall⟩ := hok
  have hlen := Nat.eq_of_beq_eq_true hlen
  refine ⟨?_, by omega⟩
  unfold instrAt at hi
  cases hp : P[t]? with
  | none => rw [hp] at hi; cases hi
  | some code =>
    rw [hp] at hi
    simp only [] at hi
    have hcode : code ∈ P := List.mem_of_getElem? hp
    split at hi
    · cases hi
    · rename_i pc _
      have hins : ins ∈ code := List.mem_of_getElem? hi
      have halt : alt ∈ ins.alts := List.mem_of_getElem? ha
      rw [List.all_eq_true] at hall
      have h1 := hall code hcode
      rw [Bool.and_eq_true, List.all_eq_true] at h1
      have h2 := h1.2 ins hins
      rw [Bool.and_eq_true, List.all_eq_true] at h2
      have h3 := h2.1 alt halt
      rw [Bool.and_eq_true] at h3
      exact h3.1

/-- the closed flag of channel `c` changes only by a `close _ c` event -/
theorem fire_closed {cfg : Cfg} (s t : Nat) {op : Op} {c : Nat} (hok : opOk cfg op = true)
    (hc : c < cfg.caps.length) :
    dig (fire cfg s t op).1 (oClosed cfg c) = dig s (oClosed cfg c) ∨ (fire cfg s t op).2 = .close t c := by
  by_cases hcc : op = .close c
  · subst hcc
    simp only [fire]
    split
    · exact Or.inr rfl
    · exact Or.inl (dig_setDig_ne _ _ (by simp only [oClosed]; omega))
  · left
    cases op with
    | close c' =>
      have hne : ¬ ((c' : Nat) = c) := fun hh => hcc (by rw [hh])
      simp only [fire, opOk, Nat.blt_eq] at hok ⊢
      rcases Nat.lt_or_gt_of_ne hne with hlt | hgt <;> split <;>
        exact dig_setDig_ne _ _ (by simp only [oClosed]; omega)
    | _ =>
      simp only [fire, opOk, Nat.blt_eq, Bool.and_eq_true] at hok ⊢ <;>
      ((try split) <;>
       first
       | rfl
       | exact dig_setDig_ne _ _ (by simp only [oPc, oMuX, oMuR, oLen, oClosed, oWg, oCtx, oCell]; omega))

theorem step_closed {P : List Code} {cfg : Cfg} (hok : progOk P cfg = true) {s t a : Nat} {r : Nat × SEv}
    (h : step P cfg s t a = some r) {c : Nat} (hc : c < cfg.caps.length) :
    dig r.1 (oClosed cfg c) = dig s (oClosed cfg c) ∨ r.2 = .close t c := by
  obtain ⟨ins, hi, hcase⟩ := step_cases h
  rcases hcase with ⟨alt, ha, _, rfl⟩ | ⟨pc, rfl⟩
  · obtain ⟨hop, ht⟩ := progOk_alt hok hi ha
    have hpc : dig (setPc cfg (fire cfg s t alt.op).1 t alt.next) (oClosed cfg c)
        = dig (fire cfg s t alt.op).1 (oClosed cfg c) :=
      dig_setDig_ne _ _ (by simp only [oPc, oClosed]; omega)
    simp only [hpc]
    exact fire_closed s t hop hc
  · left
    have ht := instrAt_some_lt hi
    have hlen : P.length = cfg.nT := by
      unfold progOk at hok
      rw [Bool.and_eq_true] at hok
      exact Nat.eq_of_beq_eq_true hok.1
    exact dig_setDig_ne _ _ (by simp only [oPc, oClosed]; omega)

theorem fire_recvZero {cfg : Cfg} {s t t' c : Nat} {op : Op}
    (h : (fire cfg s t op).2 = .recvZero t' c) (hen : enabled cfg s op = true) :
    dig s (oClosed cfg c) ≠ 0 := by
  cases op with
  | recv c0 =>
    simp only [fire] at h
    split at h
    · rename_i hlen
      simp only [SEv.recvZero.injEq] at h
      obtain ⟨_, rfl⟩ := h
      simp only [enabled, hlen, Bool.not_true, Bool.false_or, Bool.not_eq_true'] at hen
      intro hz
      rw [hz] at hen
      cases hen
    · cases h
  | _ => simp only [fire] at h; (try split at h) <;> cases h

theorem step_recvZero {P : List Code} {cfg : Cfg} {s t a : Nat} {r : Nat × SEv}
    (h : step P cfg s t a = some r) {t' c : Nat} (he : r.2 = .recvZero t' c) :
    dig s (oClosed cfg c) ≠ 0 := by
  obtain ⟨ins, _, hcase⟩ := step_cases h
  rcases hcase with ⟨alt, _, hen, rfl⟩ | ⟨pc, rfl⟩
  · exact fire_recvZero he hen
  · cases he

theorem recvZero_after_close_from {P : List Code} {cfg : Cfg} (hok : progOk P cfg = true) :
    ∀ (sched : List Choice) (s s' : Nat) (evs : List SEv), run P cfg s sched = some (s', evs) →
      ∀ (j t c : Nat), c < cfg.caps.length → evs[j]? = some (.recvZero t c) →
        dig s (oClosed cfg c) ≠ 0 ∨ ∃ i t', i < j ∧ evs[i]? = some (.close t' c) := by
  intro sched
  induction sched with
  | nil =>
    intro s s' evs h j t c _ hj
    simp [run] at h
    rw [h.2] at hj
    simp at hj
  | cons ch rest ih =>
    intro s s' evs h j t c hc hj
    unfold run at h
    cases hs : stepC P cfg s ch with
    | none => rw [hs] at h; simp at h
    | some r =>
      obtain ⟨s1, e⟩ := r
      rw [hs] at h
      simp only [] at h
      cases hr : run P cfg s1 rest with
      | none => rw [hr] at h; simp at h
      | some r2 =>
        obtain ⟨s2, es⟩ := r2
        rw [hr] at h
        simp only [Option.some.injEq, Prod.mk.injEq] at h
        obtain ⟨rfl, rfl⟩ := h
        cases j with
        | zero =>
          simp only [List.getElem?_cons_zero, Option.some.injEq] at hj
          exact Or.inl (step_recvZero hs hj)
        | succ j' =>
          simp only [List.getElem?_cons_succ] at hj
          rcases ih s1 s2 es hr j' t c hc hj with h1 | ⟨i, t', hi, hei⟩
          · rcases step_closed hok hs hc with h2 | h2
            · left; simp only at h2; rw [← h2]; exact h1
            · right
              exact ⟨0, ch.1, by omega, by simp only [List.getElem?_cons_zero]; simp only at h2; rw [h2]⟩
          · exact Or.inr ⟨i + 1, t', by omega, by simp only [List.getElem?_cons_succ]; exact hei⟩

/-- every receive-of-zero from channel `c` is preceded by a `close` of `c` -/
theorem recvZero_after_close {P : List Code} {cfg : Cfg} (hok : progOk P cfg = true)
    {init : Nat} {c : Nat} (hc : c < cfg.caps.length) (h0 : dig init (oClosed cfg c) = 0)
    {sched : List Choice} {s : Nat} {evs : List SEv} (h : run P cfg init sched = some (s, evs))
    {j t : Nat} (hj : evs[j]? = some (.recvZero t c)) :
    ∃ i t', i < j ∧ evs[i]? = some (.close t' c) := by
  rcases recvZero_after_close_from hok sched init s evs h j t c hc hj with h1 | h1
  · exact absurd h0 h1
  · exact h1

/-- the cancelled flag of context `k` changes only by a `cancel _ k` event -/
theorem fire_ctx {cfg : Cfg} (s t : Nat) {op : Op} {k : Nat} (hok : opOk cfg op = true)
    (hk : k < cfg.nCtx) :
    dig (fire cfg s t op).1 (oCtx cfg k) = dig s (oCtx cfg k) ∨ (fire cfg s t op).2 = .cancel t k := by
  by_cases hcc : op = .cancel k
  · subst hcc
    exact Or.inr rfl
  · left
    cases op with
    | cancel k' =>
      have hne : ¬ ((k' : Nat) = k) := fun hh => hcc (by rw [hh])
      simp only [fire, opOk, Nat.blt_eq] at hok ⊢
      rcases Nat.lt_or_gt_of_ne hne with hlt | hgt <;>
        exact dig_setDig_ne _ _ (by simp only [oCtx]; omega)
    | _ =>
      simp only [fire, opOk, Nat.blt_eq, Bool.and_eq_true] at hok ⊢ <;>
      ((try split) <;>
       first
       | rfl
       | exact dig_setDig_ne _ _ (by simp only [oPc, oMuX, oMuR, oLen, oClosed, oWg, oCtx, oCell]; omega))

theorem step_ctx {P : List Code} {cfg : Cfg} (hok : progOk P cfg = true) {s t a : Nat} {r : Nat × SEv}
    (h : step P cfg s t a = some r) {k : Nat} (hk : k < cfg.nCtx) :
    dig r.1 (oCtx cfg k) = dig s (oCtx cfg k) ∨ r.2 = .cancel t k := by
  obtain ⟨ins, hi, hcase⟩ := step_cases h
  rcases hcase with ⟨alt, ha, _, rfl⟩ | ⟨pc, rfl⟩
  · obtain ⟨hop, ht⟩ := progOk_alt hok hi ha
    have hpc : dig (setPc cfg (fire cfg s t alt.op).1 t alt.next) (oCtx cfg k)
        = dig (fire cfg s t alt.op).1 (oCtx cfg k) :=
      dig_setDig_ne _ _ (by simp only [oPc, oCtx]; omega)
    simp only [hpc]
    exact fire_ctx s t hop hk
  · left
    have ht := instrAt_some_lt hi
    have hlen : P.length = cfg.nT := by
      unfold progOk at hok
      rw [Bool.and_eq_true] at hok
      exact Nat.eq_of_beq_eq_true hok.1
    exact dig_setDig_ne _ _ (by simp only [oPc, oCtx]; omega)

theorem fire_done {cfg : Cfg} {s t t' k : Nat} {op : Op}
    (h : (fire cfg s t op).2 = .done t' k) (hen : enabled cfg s op = true) :
    dig s (oCtx cfg k) ≠ 0 := by
  cases op with
  | done k0 =>
    simp only [fire, SEv.done.injEq] at h
    obtain ⟨_, rfl⟩ := h
    simp only [enabled, Bool.not_eq_true'] at hen
    intro hz
    rw [hz] at hen
    cases hen
  | _ => simp only [fire] at h; (try split at h) <;> cases h

theorem step_done {P : List Code} {cfg : Cfg} {s t a : Nat} {r : Nat × SEv}
    (h : step P cfg s t a = some r) {t' k : Nat} (he : r.2 = .done t' k) :
    dig s (oCtx cfg k) ≠ 0 := by
  obtain ⟨ins, _, hcase⟩ := step_cases h
  rcases hcase with ⟨alt, _, hen, rfl⟩ | ⟨pc, rfl⟩
  · exact fire_done he hen
  · cases he

theorem done_after_cancel_from {P : List Code} {cfg : Cfg} (hok : progOk P cfg = true) :
    ∀ (sched : List Choice) (s s' : Nat) (evs : List SEv), run P cfg s sched = some (s', evs) →
      ∀ (j t k : Nat), k < cfg.nCtx → evs[j]? = some (.done t k) →
        dig s (oCtx cfg k) ≠ 0 ∨ ∃ i t', i < j ∧ evs[i]? = some (.cancel t' k) := by
  intro sched
  induction sched with
  | nil =>
    intro s s' evs h j t k _ hj
    simp [run] at h
    rw [h.2] at hj
    simp at hj
  | cons ch rest ih =>
    intro s s' evs h j t k hk hj
    unfold run at h
    cases hs : stepC P cfg s ch with
    | none => rw [hs] at h; simp at h
    | some r =>
      obtain ⟨s1, e⟩ := r
      rw [hs] at h
      simp only [] at h
      cases hr : run P cfg s1 rest with
      | none => rw [hr] at h; simp at h
      | some r2 =>
        obtain ⟨s2, es⟩ := r2
        rw [hr] at h
        simp only [Option.some.injEq, Prod.mk.injEq] at h
        obtain ⟨rfl, rfl⟩ := h
        cases j with
        | zero =>
          simp only [List.getElem?_cons_zero, Option.some.injEq] at hj
          exact Or.inl (step_done hs hj)
        | succ j' =>
          simp only [List.getElem?_cons_succ] at hj
          rcases ih s1 s2 es hr j' t k hk hj with h1 | ⟨i, t', hi, hei⟩
          · rcases step_ctx hok hs hk with h2 | h2
            · left; simp only at h2; rw [← h2]; exact h1
            · right
              exact ⟨0, ch.1, by omega, by simp only [List.getElem?_cons_zero]; simp only at h2; rw [h2]⟩
          · exact Or.inr ⟨i + 1, t', by omega, by simp only [List.getElem?_cons_succ]; exact hei⟩

/-- every observation `<-ctx.Done()` of context `k` is preceded by a `cancel` of `k` -/
theorem done_after_cancel {P : List Code} {cfg : Cfg} (hok : progOk P cfg = true)
    {init : Nat} {k : Nat} (hk : k < cfg.nCtx) (h0 : dig init (oCtx cfg k) = 0)
    {sched : List Choice} {s : Nat} {evs : List SEv} (h : run P cfg init sched = some (s, evs))
    {j t : Nat} (hj : evs[j]? = some (.done t k)) :
    ∃ i t', i < j ∧ evs[i]? = some (.cancel t' k) := by
  rcases done_after_cancel_from hok sched init s evs h j t k hk hj with h1 | h1
  · exact absurd h0 h1
  · exact h1


theorem fire_tid (cfg : Cfg) (s t : Nat) (op : Op) : (fire cfg s t op).2.tid = t := by
  cases op <;> simp only [fire] <;> (try split) <;> rfl

theorem instrAt_live {P : List Code} {cfg : Cfg} {s t : Nat} {ins : Instr}
    (h : instrAt P cfg s t = some ins) : dig s (oPc cfg t) ≠ 0 := by
  unfold instrAt at h
  split at h
  · cases h
  · split at h
    · cases h
    · rename_i hd
      rw [hd]; exact Nat.succ_ne_zero _

/-- the started flag of thread `u` changes only by a `spawn _ u` event -/
theorem fire_pc {cfg : Cfg} (s t : Nat) {op : Op} {u : Nat} (hok : opOk cfg op = true)
    (hu : u < cfg.nT) :
    dig (fire cfg s t op).1 (oPc cfg u) = dig s (oPc cfg u) ∨ (fire cfg s t op).2 = .spawn t u := by
  by_cases hcc : op = .spawn u
  · subst hcc
    exact Or.inr rfl
  · left
    cases op with
    | spawn u' =>
      have hne : ¬ ((u' : Nat) = u) := fun hh => hcc (by rw [hh])
      simp only [fire, opOk, Nat.blt_eq] at hok ⊢
      rcases Nat.lt_or_gt_of_ne hne with hlt | hgt <;>
        exact dig_setDig_ne _ _ (by simp only [oPc]; omega)
    | _ =>
      simp only [fire, opOk, Nat.blt_eq, Bool.and_eq_true] at hok ⊢ <;>
      ((try split) <;>
       first
       | rfl
       | exact dig_setDig_ne _ _ (by simp only [oPc, oMuX, oMuR, oLen, oClosed, oWg, oCtx, oCell]; omega))

theorem step_tid {P : List Code} {cfg : Cfg} {s t a : Nat} {r : Nat × SEv}
    (h : step P cfg s t a = some r) : r.2.tid = t ∧ dig s (oPc cfg t) ≠ 0 := by
  obtain ⟨ins, hi, hcase⟩ := step_cases h
  refine ⟨?_, instrAt_live hi⟩
  rcases hcase with ⟨alt, _, _, rfl⟩ | ⟨pc, rfl⟩
  · exact fire_tid _ _ _ _
  · rfl

theorem step_pc {P : List Code} {cfg : Cfg} (hok : progOk P cfg = true) {s t a : Nat} {r : Nat × SEv}
    (h : step P cfg s t a = some r) {u : Nat} (hu : u < cfg.nT) (hl : dig r.1 (oPc cfg u) ≠ 0) :
    dig s (oPc cfg u) ≠ 0 ∨ r.2 = .spawn t u := by
  by_cases htu : t = u
  · subst htu; exact Or.inl (step_tid h).2
  · obtain ⟨ins, hi, hcase⟩ := step_cases h
    have hne : oPc cfg t ≠ oPc cfg u := by simp only [oPc]; omega
    rcases hcase with ⟨alt, ha, _, rfl⟩ | ⟨pc, rfl⟩
    · obtain ⟨hop, _⟩ := progOk_alt hok hi ha
      have hpc : dig (setPc cfg (fire cfg s t alt.op).1 t alt.next) (oPc cfg u)
          = dig (fire cfg s t alt.op).1 (oPc cfg u) := dig_setDig_ne _ _ hne
      simp only [hpc] at hl ⊢
      rcases fire_pc s t hop hu with h2 | h2
      · left; rw [← h2]; exact hl
      · exact Or.inr h2
    · left
      have hpc : dig (setPc cfg s t pc) (oPc cfg u) = dig s (oPc cfg u) := dig_setDig_ne _ _ hne
      simp only [hpc] at hl
      exact hl

theorem spawned_after_spawn_from {P : List Code} {cfg : Cfg} (hok : progOk P cfg = true) :
    ∀ (sched : List Choice) (s s' : Nat) (evs : List SEv), run P cfg s sched = some (s', evs) →
      ∀ (j : Nat) (e : SEv), e.tid < cfg.nT → evs[j]? = some e →
        dig s (oPc cfg e.tid) ≠ 0 ∨ ∃ i t', i < j ∧ evs[i]? = some (.spawn t' e.tid) := by
  intro sched
  induction sched with
  | nil =>
    intro s s' evs h j e _ hj
    simp [run] at h
    rw [h.2] at hj
    simp at hj
  | cons ch rest ih =>
    intro s s' evs h j e hu hj
    unfold run at h
    cases hs : stepC P cfg s ch with
    | none => rw [hs] at h; simp at h
    | some r =>
      obtain ⟨s1, e1⟩ := r
      rw [hs] at h
      simp only [] at h
      cases hr : run P cfg s1 rest with
      | none => rw [hr] at h; simp at h
      | some r2 =>
        obtain ⟨s2, es⟩ := r2
        rw [hr] at h
        simp only [Option.some.injEq, Prod.mk.injEq] at h
        obtain ⟨rfl, rfl⟩ := h
        cases j with
        | zero =>
          simp only [List.getElem?_cons_zero, Option.some.injEq] at hj
          subst hj
          have := step_tid hs
          simp only at this
          left; rw [this.1]; exact this.2
        | succ j' =>
          simp only [List.getElem?_cons_succ] at hj
          rcases ih s1 s2 es hr j' e hu hj with h1 | ⟨i, t', hi, hei⟩
          · rcases step_pc hok hs hu h1 with h2 | h2
            · exact Or.inl h2
            · right
              exact ⟨0, ch.1, by omega, by simp only [List.getElem?_cons_zero]; simp only at h2; rw [h2]⟩
          · exact Or.inr ⟨i + 1, t', by omega, by simp only [List.getElem?_cons_succ]; exact hei⟩

/-- every event of a thread that is not started initially is preceded by the go statement
(`spawn`) that starts it -/
theorem spawned_after_spawn {P : List Code} {cfg : Cfg} (hok : progOk P cfg = true)
    {init : Nat} {sched : List Choice} {s : Nat} {evs : List SEv}
    (h : run P cfg init sched = some (s, evs)) {j : Nat} {e : SEv} (hj : evs[j]? = some e)
    (hu : e.tid < cfg.nT) (h0 : dig init (oPc cfg e.tid) = 0) :
    ∃ i t', i < j ∧ evs[i]? = some (.spawn t' e.tid) := by
  rcases spawned_after_spawn_from hok sched init s evs h j e hu hj with h1 | h1
  · exact absurd h0 h1
  · exact h1


theorem dig_lt (s i : Nat) : dig s i < B := Nat.mod_lt _ B_pos

/-- effect of an enabled operation on the length of channel `c` -/
theorem fire_len {cfg : Cfg} (s t : Nat) {op : Op} {c : Nat} (hok : opOk cfg op = true)
    (hen : enabled cfg s op = true) (hc : c < cfg.caps.length) (hcap : cfg.caps.getD c 0 < B) :
    ((fire cfg s t op).2 = .send t c ∧ dig (fire cfg s t op).1 (oLen cfg c) = dig s (oLen cfg c) + 1) ∨
    ((fire cfg s t op).2 = .recv t c ∧ dig s (oLen cfg c) ≠ 0 ∧
      dig (fire cfg s t op).1 (oLen cfg c) = dig s (oLen cfg c) - 1) ∨
    (isSendOn c (fire cfg s t op).2 = false ∧ isRecvOn c (fire cfg s t op).2 = false ∧
      dig (fire cfg s t op).1 (oLen cfg c) = dig s (oLen cfg c)) := by
  by_cases h1 : op = .send c
  · subst h1
    simp only [fire]
    split
    · rename_i hcl
      left
      refine ⟨rfl, ?_⟩
      rw [dig_setDig_same]
      simp only [enabled, hcl, Bool.not_true, Bool.false_or, Nat.blt_eq] at hen
      exact Nat.mod_eq_of_lt (by omega)
    · right; right
      exact ⟨rfl, rfl, dig_setDig_ne _ _ (by simp only [oLen]; omega)⟩
  · by_cases h2 : op = .recv c
    · subst h2
      simp only [fire]
      split
      · right; right; exact ⟨rfl, rfl, rfl⟩
      · rename_i hl
        right; left
        have hne : dig s (oLen cfg c) ≠ 0 := fun hz => hl (by rw [hz]; rfl)
        refine ⟨rfl, hne, ?_⟩
        rw [dig_setDig_same]
        have := dig_lt s (oLen cfg c)
        exact Nat.mod_eq_of_lt (by omega)
    · right; right
      cases op with
      | send c' =>
        have hne : ¬ ((c' : Nat) = c) := fun hh => h1 (by rw [hh])
        have hb : (c == c') = false := by
          cases hcc : c == c' with
          | false => rfl
          | true => exact absurd (of_decide_eq_true hcc).symm hne
        simp only [fire, opOk, Nat.blt_eq] at hok ⊢
        rcases Nat.lt_or_gt_of_ne hne with hlt | hgt <;> split <;>
          exact ⟨by simp only [isSendOn, hb], rfl, dig_setDig_ne _ _ (by simp only [oLen]; omega)⟩
      | recv c' =>
        have hne : ¬ ((c' : Nat) = c) := fun hh => h2 (by rw [hh])
        have hb : (c == c') = false := by
          cases hcc : c == c' with
          | false => rfl
          | true => exact absurd (of_decide_eq_true hcc).symm hne
        simp only [fire, opOk, Nat.blt_eq] at hok ⊢
        rcases Nat.lt_or_gt_of_ne hne with hlt | hgt <;> split <;>
          first
          | exact ⟨rfl, rfl, rfl⟩
          | exact ⟨rfl, by simp only [isRecvOn, hb], dig_setDig_ne _ _ (by simp only [oLen]; omega)⟩
      | _ =>
        simp only [fire, opOk, Nat.blt_eq, Bool.and_eq_true] at hok ⊢
        ((try split) <;>
         first
         | exact ⟨rfl, rfl, rfl⟩
         | exact ⟨rfl, rfl, trivial⟩
         | exact ⟨rfl, rfl, dig_setDig_ne _ _ (by simp only [oPc, oMuX, oMuR, oLen, oClosed, oWg, oCtx, oCell]; omega)⟩)

theorem step_len {P : List Code} {cfg : Cfg} (hok : progOk P cfg = true) {s t a : Nat} {r : Nat × SEv}
    (h : step P cfg s t a = some r) {c : Nat} (hc : c < cfg.caps.length) (hcap : cfg.caps.getD c 0 < B) :
    (r.2 = .send t c ∧ dig r.1 (oLen cfg c) = dig s (oLen cfg c) + 1) ∨
    (r.2 = .recv t c ∧ dig s (oLen cfg c) ≠ 0 ∧ dig r.1 (oLen cfg c) = dig s (oLen cfg c) - 1) ∨
    (isSendOn c r.2 = false ∧ isRecvOn c r.2 = false ∧ dig r.1 (oLen cfg c) = dig s (oLen cfg c)) := by
  obtain ⟨ins, hi, hcase⟩ := step_cases h
  have ht := instrAt_some_lt hi
  have hlen : P.length = cfg.nT := by
    unfold progOk at hok
    rw [Bool.and_eq_true] at hok
    exact Nat.eq_of_beq_eq_true hok.1
  have hne : oPc cfg t ≠ oLen cfg c := by simp only [oPc, oLen]; omega
  rcases hcase with ⟨alt, ha, hen, rfl⟩ | ⟨pc, rfl⟩
  · obtain ⟨hop, _⟩ := progOk_alt hok hi ha
    have hpc : dig (setPc cfg (fire cfg s t alt.op).1 t alt.next) (oLen cfg c)
        = dig (fire cfg s t alt.op).1 (oLen cfg c) := dig_setDig_ne _ _ hne
    simp only [hpc]
    exact fire_len s t hop hen hc hcap
  · right; right
    exact ⟨rfl, rfl, dig_setDig_ne _ _ hne⟩

theorem recv_le_send_from {P : List Code} {cfg : Cfg} (hok : progOk P cfg = true) :
    ∀ (sched : List Choice) (s s' : Nat) (evs : List SEv), run P cfg s sched = some (s', evs) →
      ∀ (c k : Nat), c < cfg.caps.length → cfg.caps.getD c 0 < B →
        countBefore evs (isRecvOn c) k ≤ dig s (oLen cfg c) + countBefore evs (isSendOn c) k := by
  intro sched
  induction sched with
  | nil =>
    intro s s' evs h c k _ _
    simp [run] at h
    rw [h.2]
    simp [countBefore]
  | cons ch rest ih =>
    intro s s' evs h c k hc hcap
    unfold run at h
    cases hs : stepC P cfg s ch with
    | none => rw [hs] at h; simp at h
    | some r =>
      obtain ⟨s1, e⟩ := r
      rw [hs] at h
      simp only [] at h
      cases hr : run P cfg s1 rest with
      | none => rw [hr] at h; simp at h
      | some r2 =>
        obtain ⟨s2, es⟩ := r2
        rw [hr] at h
        simp only [Option.some.injEq, Prod.mk.injEq] at h
        obtain ⟨rfl, rfl⟩ := h
        cases k with
        | zero => simp [countBefore]
        | succ k' =>
          have ih' := ih s1 s2 es hr c k' hc hcap
          simp only [countBefore, List.take_succ_cons, List.filter_cons] at ih' ⊢
          rcases step_len hok hs hc hcap with ⟨h1, h2⟩ | ⟨h1, h2, h3⟩ | ⟨h1, h2, h3⟩
          · simp only at h1 h2
            subst h1
            simp only [isSendOn, isRecvOn, beq_self_eq_true, if_true, List.length_cons]
            simp only [Bool.false_eq_true, if_false]
            omega
          · simp only at h1 h2 h3
            subst h1
            simp only [isSendOn, isRecvOn, beq_self_eq_true, if_true, List.length_cons]
            simp only [Bool.false_eq_true, if_false]
            omega
          · simp only at h1 h2 h3
            simp only [h1, h2, Bool.false_eq_true, if_false]
            omega

/-- at every prefix of an execution from a state where channel `c` is empty, the number of
receives from `c` is at most the number of sends on `c`: the n-th receive has an n-th send before
it (the source of its `syncEdge`) -/
theorem recv_after_send {P : List Code} {cfg : Cfg} (hok : progOk P cfg = true)
    {init : Nat} {c : Nat} (hc : c < cfg.caps.length) (hcap : cfg.caps.getD c 0 < B)
    (h0 : dig init (oLen cfg c) = 0)
    {sched : List Choice} {s : Nat} {evs : List SEv} (h : run P cfg init sched = some (s, evs))
    (k : Nat) : countBefore evs (isRecvOn c) k ≤ countBefore evs (isSendOn c) k := by
  have := recv_le_send_from hok sched init s evs h c k hc hcap
  omega


end CV.C18.Sync
