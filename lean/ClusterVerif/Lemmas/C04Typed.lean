import ClusterVerif.Lemmas.C04

/-! Round 8c helper lemmas for Props/C04: the effect of the adders' pin object (`rpcPin`) that is NEW at its cid,
    and the outcome "refused, nothing changed" satisfies every clause. -/
namespace CV.C04
open CV

/-- what `pin()` logs for a pin object that is new at its cid: same type / reference / depth; allocations as sent
    unless the pin is to be pinned everywhere or carried none -/
def SentLike (cfg : Cfg) (p q : Pin) : Prop :=
  q.cid = p.cid ∧ q.type = p.type ∧ q.ref = p.ref ∧ q.depth = p.depth ∧
  (p.allocs = [] ∨ (effRmin cfg p = -1 ∧ effRmax cfg p = -1) ∨ q.allocs = p.allocs)

theorem sentLike_setupFactors (cfg : Cfg) (p : Pin) : SentLike cfg p (setupFactors cfg p) := by
  unfold setupFactors SentLike
  simp only
  split_ifs with h
  · refine ⟨rfl, rfl, rfl, rfl, Or.inr (Or.inl ?_)⟩
    simpa using h
  · exact ⟨rfl, rfl, rfl, rfl, Or.inr (Or.inr rfl)⟩

theorem setupFactors_allocs_empty (cfg : Cfg) (p : Pin) (h : (setupFactors cfg p).allocs = []) :
    p.allocs = [] ∨ (effRmin cfg p = -1 ∧ effRmax cfg p = -1) := by
  unfold setupFactors at h
  simp only at h
  split_ifs at h with h1
  · right; simpa using h1
  · left; exact h

/-- `pinBody` on a cid without an entry: refused, or exactly one pin logged that is like the one sent -/
theorem pinBody_new (cfg : Cfg) (pre : PinMap) (p : Pin) (ch : List Nat) (hnone : pre.get p.cid = none) :
    (pinBody cfg pre p [] ch).res = none ∨
    ∃ q, SentLike cfg p q ∧ (pinBody cfg pre p [] ch).post = PinMap.put q.stored pre := by
  have hk : keepOrNew (none : Option Pin) (setupFactors cfg p) [] = setupFactors cfg p := rfl
  have hs := sentLike_setupFactors cfg p
  unfold pinBody
  simp only [hnone, hk]
  split_ifs with h1 h2 h3 h4 h5
  · exact Or.inl rfl
  · exact Or.inl rfl
  · exact Or.inl rfl
  · exact Or.inr ⟨_, hs, rfl⟩
  · split
    · refine Or.inr ⟨{ setupFactors cfg p with allocs := ch }, ?_, rfl⟩
      obtain ⟨a, b, c, d, _⟩ := hs
      refine ⟨a, b, c, d, ?_⟩
      have he : (setupFactors cfg p).allocs = [] := by simpa using h5
      rcases setupFactors_allocs_empty cfg p he with h | h
      · exact Or.inl h
      · exact Or.inr (Or.inl h)
    · exact Or.inl rfl
  · exact Or.inr ⟨_, hs, rfl⟩

theorem pinOp_noUpdate (cfg : Cfg) (pre : PinMap) (p : Pin) (ch : List Nat)
    (hf : cfg.follower = false) (hu : viaUpdate p.cid p.opts = none) :
    pinOp cfg pre p [] ch = pinBody cfg pre p [] ch := by
  unfold pinOp
  simp only [hf, Bool.false_eq_true, if_false, List.isEmpty_nil, if_true]
  unfold viaUpdate at hu
  cases hup : p.opts.update with
  | none => rfl
  | some u =>
    rw [hup] at hu
    simp only at hu
    split_ifs at hu with h1
    simp only [h1, Bool.false_eq_true, if_false]

/-- the clause `rpc_pin_stored_as_sent` holds for every successful `rpcPin` of the model -/
theorem rpcPin_sent_effect (cfg : Cfg) (pre : PinMap) (p : Pin) (ch : List Nat) (hw : pre.wf = true)
    (hf : cfg.follower = false) (hr : (pinOp cfg pre p [] ch).res ≠ none) :
    sentAsIs cfg pre (pinOp cfg pre p [] ch).post p = true := by
  unfold sentAsIs
  cases hg : pre.get p.cid with
  | some e => rfl
  | none =>
    cases hv : viaUpdate p.cid p.opts with
    | some u => rfl
    | none =>
      rw [pinOp_noUpdate cfg pre p ch hf hv] at hr ⊢
      rcases pinBody_new cfg pre p ch hg with h | ⟨q, ⟨hc, ht, hrf, hd, ha⟩, hp⟩
      · exact absurd h hr
      · have hqc : q.stored.cid = p.cid := hc
        rw [hp, get_put hw, if_pos hqc]
        have e1 : q.stored.type = q.type := rfl
        have e2 : q.stored.ref = q.ref := rfl
        have e3 : q.stored.depth = q.depth := rfl
        have e4 : q.stored.allocs = q.allocs := rfl
        simp only [e1, e2, e3, e4, ht, hrf, hd, beq_self_eq_true, Bool.true_and]
        have m1 : effMin cfg p.opts = effRmin cfg p := rfl
        have m2 : effMax cfg p.opts = effRmax cfg p := rfl
        rw [m1, m2]
        rcases ha with h | ⟨h1, h2⟩ | h
        · simp [h]
        · simp [h1, h2]
        · simp [h]

/-- "refused, nothing changed" satisfies every clause whenever the request is not one the statement lists as
    having to succeed (there is none): the generic clauses hold for `err pre`, unless the request MUST be refused
    and was — so for every request -/
theorem holds_refused (cfg : Cfg) (pre : PinMap) (op : Op) (hw : pre.wf = true) :
    holds cfg pre op none pre = true := by
  unfold holds clauses genericClauses
  simp [hw, sameMap_self]

end CV.C04
