import ClusterVerif.Model.C16Req
import ClusterVerif.Gen.C16
namespace CV.C16.ReqM
open CV.C16 CV.C16.Dec

theorem req_rm (c : Nat) (d : Int) : reqOf Gen.reqSites genT "Unpin" ⟨c, 0, d⟩ = some (.rm c) := by
  rfl

theorem req_upd (f c : Nat) (d : Int) : reqOf Gen.reqSites genT "pinUpdate" ⟨c, f, d⟩ = some (.upd f c false) := by
  rfl

theorem pinType_gen (d : Int) :
    pinTypeT Gen.toPinModeTable Gen.pinModeStringTable d = some (if d = 0 then "direct" else "recursive") := by
  by_cases h1 : d = -1
  · subst h1; rfl
  · by_cases h0 : d = 0
    · subst h0; rfl
    · simp [pinTypeT, Gen.toPinModeTable, Gen.pinModeStringTable, pickDepth, guardDepth, cmpInt, pickName, guardName, h1, h0]

theorem pinArgs_gen (d : Int) :
    pinArgsPairs Gen.pinArgsTable d =
      some (if d < 0 then [("recursive", WVal.txt "true")] else if d = 0 then [("recursive", WVal.txt "false")]
            else [("recursive", WVal.txt "true"), ("max-depth", WVal.num d)]) := by
  by_cases hn : d < 0
  · simp [pinArgsPairs, Gen.pinArgsTable, pickDepth, guardDepth, cmpInt, hn, setsOf]
  · by_cases h0 : d = 0
    · subst h0; rfl
    · simp [pinArgsPairs, Gen.pinArgsTable, pickDepth, guardDepth, cmpInt, hn, h0, setsOf]

theorem req_ls (c : Nat) (d : Int) : reqOf Gen.reqSites genT "PinLsCid" ⟨c, 0, d⟩ = some (.ls c (typeRec d)) := by
  have h := pinType_gen d
  by_cases h0 : d = 0
  · subst h0; rfl
  · simp only [h0, if_false] at h
    simp [reqOf, siteOf, Gen.reqSites, wire, paramsOf, evalParam, genT, h, daemonReads, qargs, qget, typeRec, h0]

theorem req_add (c : Nat) (d : Int) : reqOf Gen.reqSites genT "pinProgress" ⟨c, 0, d⟩ = some (addReq c d) := by
  have h := pinArgs_gen d
  by_cases hn : d < 0
  · simp only [hn, if_true] at h
    have h0 : d ≠ 0 := by omega
    have hp : ¬ d > 0 := by omega
    simp [reqOf, siteOf, Gen.reqSites, wire, paramsOf, evalParam, genT, h, daemonReads, qargs, qget, optBool, addReq, typeRec, h0, hp]
  · by_cases h0 : d = 0
    · subst h0; rfl
    · have hp : d > 0 := by omega
      simp only [hn, h0, if_false] at h
      simp [reqOf, siteOf, Gen.reqSites, wire, paramsOf, evalParam, genT, h, daemonReads, qargs, qget, optBool, addReq, typeRec, h0, hp]


theorem isPinned_gen (st : St) (d : Int) :
    isPinnedT Gen.isPinnedTable st d = some (decide ((if d = 0 then St.direct else St.recursive) = st)) := by
  by_cases hn : d < 0
  · have h0 : d ≠ 0 := by omega
    simp [isPinnedT, Gen.isPinnedTable, pickDepth, guardDepth, cmpInt, St.ofConst, hn, h0]
  · by_cases h0 : d = 0
    · subst h0; simp [isPinnedT, Gen.isPinnedTable, pickDepth, guardDepth, cmpInt, St.ofConst]
    · have hp : d > 0 := by omega
      simp [isPinnedT, Gen.isPinnedTable, pickDepth, guardDepth, cmpInt, St.ofConst, hn, h0, hp]

theorem fromString_indirect (x : String) : fromStringT Gen.fromStringTable ("indirect" ++ x) = some .indirect := by
  simp [fromStringT, pickStr, guardStr, Gen.fromStringTable, St.ofConst, String.toList_append]

theorem typeRec_modeDepth (b : Bool) : typeRec (modeDepth b) = b := by
  cases b <;> rfl

theorem rebuild_ls (c : Nat) (b : Bool) (d : Int) : rebuild Gen.reqSites genT d (.ls c b) = .ls c b := by
  simp [rebuild, req_ls, typeRec_modeDepth]

theorem rebuildTrace_run (i : Input) : rebuildTrace Gen.reqSites genT i (run i).trace = (run i).trace := by
  unfold run
  cases i.op with
  | pin =>
    simp only [pin]
    split
    · simp [rebuildTrace, req_ls]
    · split
      · simp [rebuildTrace, req_ls]
      · split
        · simp [rebuildTrace, rebuild, req_ls, req_add, addReq]
        · split <;> simp [rebuildTrace, rebuild, req_ls, req_add, req_upd, addReq, typeRec_modeDepth]
  | unpin =>
    simp only [unpin]
    split <;> simp [rebuildTrace, rebuild, req_rm]
  | ls =>
    simp only [lsOp]
    split <;> simp [rebuildTrace, req_ls]

theorem rebuildTable_gen (i : Input) (m : MOut) : rebuildTable Gen.reqSites genT i m = m.final := by
  unfold rebuildTable
  split
  · simp [req_upd]
  · rfl

/-- the edit of seeded change C16g as a table: pin/update without its `unpin` parameter -/
def sitesNoUnpin : List ReqSite :=
  Gen.reqSites.map (fun s => if s.fn = "pinUpdate" then { s with params := s.params.filter (fun p => p.key != "unpin") } else s)

theorem noUnpin_reads_true (f c : Nat) (d : Int) : reqOf sitesNoUnpin genT "pinUpdate" ⟨c, f, d⟩ = some (.upd f c true) := by
  rfl

end CV.C16.ReqM
