/-
C18 (round 8b) — one-schedule refutations of misuse / realistic wrong edits of the protocols of `Model/C18SyncProgs2.lean`
(stateless tracker in use, informers, metrics checker, crdt batching queue). Core Lean only.
-/
import ClusterVerif.Lemmas.C18Sync
import ClusterVerif.Model.C18SyncProgs2

namespace CV.C18.Sync
open Progs

/-- New (both workers started); `Track` handed out before `SetClient`; `Track` enqueues; the pin worker takes the
operation: it is about to read `spt.rpcClient` while `SetClient` is about to write it -/
def schedT1 : List Choice := [(0,0),(0,0),(0,0),(3,0),(1,0)]
/-- (t1) MISUSE: a `Track` before `SetClient` returned: racy state on `spt.rpcClient` (no lock, and the queue edge
send → receive orders the worker's read only after writes that precede the send) -/
theorem progT1_racy : ∃ s evs, run progT1 (cfgT 6) initT schedT1 = some (s, evs) ∧ racyB progT1 (cfgT 6) s = true :=
  run_witness (f := fun r => racyB progT1 (cfgT 6) r.1) (by decide +kernel)

/-- New, SetClient, users started; `Track` fills `pinCh` (1 of 1); `Recover` runs to its end (fills `unpinCh`);
`Shutdown` locks, cancels; both workers leave through `ctx.Done()`; `Shutdown` finishes — the second `Track` send
has no receiver left -/
def schedT2 : List Choice :=
  [(0,0),(0,0),(0,0),(0,0),(0,0),(0,0),(0,0),(3,0),(4,0),(4,0),(4,0),(5,0),(5,1),(5,0),(1,1),(2,1),(5,0),(5,0),(5,0),(5,0)]
/-- (t2) WRONG EDIT: `enqueue` with a blocking send: DEADLOCK — after `Shutdown` the workers are gone and a `Track`
on the full queue never returns -/
theorem progT2_deadlocks : ∃ s evs, run progT2 (cfgT 6) initT schedT2 = some (s, evs) ∧
    panicCode s = 0 ∧ allFinished progT2 (cfgT 6) s = false ∧ ∀ c : Choice, stepC progT2 (cfgT 6) s c = none := by
  obtain ⟨s, evs, h, hf⟩ := run_witness (P := progT2) (cfg := cfgT 6) (init := initT)
    (sched := schedT2) (f := fun r => deadB progT2 (cfgT 6) r.1) (by decide +kernel)
  exact ⟨s, evs, h, deadB_sound hf⟩

/-- New, SetClient, users started; `Shutdown`: lock, flag, cancel, close(rpcReady), close(pinCh); then `Track` sends -/
def schedT3 : List Choice := [(0,0),(0,0),(0,0),(0,0),(0,0),(0,0),(0,0),(5,0),(5,1),(5,0),(5,0),(5,0),(3,0)]
/-- (t3) WRONG EDIT: `Shutdown` also closes the operation queue: PANIC, a `Track` in use sends on the closed channel -/
theorem progT3_panics : ∃ s evs, run progT3 (cfgT 6) initT schedT3 = some (s, evs) ∧
    panicCode s = 1 ∧ evs.getLast? = some (.panic 3 1) := by
  obtain ⟨s, evs, h, hf⟩ := run_witness (P := progT3) (cfg := cfgT 6) (init := initT)
    (sched := schedT3) (f := fun r => Nat.beq (panicCode r.1) 1 && decide (r.2.getLast? = some (.panic 3 1)))
    (by decide +kernel)
  simp only [Bool.and_eq_true, decide_eq_true_eq] at hf
  exact ⟨s, evs, h, Nat.eq_of_beq_eq_true hf.1, hf.2⟩

/-- SetClient, users started; `GetMetric`: lock, sees a client, unlock (about to read the field again); `Shutdown`: lock
(about to write nil) -/
def schedI1 : List Choice := [(0,0),(0,0),(0,0),(0,0),(0,0),(0,0),(1,0),(1,1),(1,0),(3,0)]
/-- (i1) WRONG EDIT: `GetMetric` uses the field again after its critical section: racy state with `Shutdown`'s write
(and the value read can be nil: a nil dereference) -/
theorem progI1_racy : ∃ s evs, run progI1 (cfgI 5) initI schedI1 = some (s, evs) ∧ racyB progI1 (cfgI 5) s = true :=
  run_witness (f := fun r => racyB progI1 (cfgI 5) r.1) (by decide +kernel)

/-- SetClient, `GetMetric` and the unlocked `Shutdown` started; `GetMetric` locks: its read and `Shutdown`'s write are both enabled -/
def schedI2 : List Choice := [(0,0),(0,0),(0,0),(0,0),(0,0),(0,0),(1,0)]
/-- (i2) WRONG EDIT (revert of 85a92cc): `Shutdown` without `mu`: racy state on `rpcClient` -/
theorem progI2_racy : ∃ s evs, run progI2 (cfgI 5) initI schedI2 = some (s, evs) ∧ racyB progI2 (cfgI 5) s = true :=
  run_witness (f := fun r => racyB progI2 (cfgI 5) r.1) (by decide +kernel)

/-- everything started; `Watch`: first tick, alert sent (1 of 2), second tick begun; `CheckAll`: alert sent (2 of 2);
`Watch` takes `failedPeersMu` and reaches its send on the full channel; the context is cancelled; the consumer leaves
through `ctx.Done()` — nobody receives any more and `Watch` never looks at `ctx.Done()` again -/
def schedW1 : List Choice :=
  [(0,0),(0,0),(0,0),(0,0),(1,0),(1,0),(1,0),(1,0),(1,0),(1,0),(1,0),(1,0),(3,0),(3,1),(3,0),(3,0),(3,0),(3,0),(1,0),(1,1),(1,0),(4,0),(2,1)]
/-- (w1) WRONG EDIT: `alert` with a blocking send inside `failedPeersMu`: DEADLOCK — `Watch` sits in the send for
ever, holding the mutex, and does not stop when its context is cancelled -/
theorem progW1_deadlocks : ∃ s evs, run progW1 (cfgW 5) initW schedW1 = some (s, evs) ∧
    panicCode s = 0 ∧ allFinished progW1 (cfgW 5) s = false ∧ ∀ c : Choice, stepC progW1 (cfgW 5) s c = none := by
  obtain ⟨s, evs, h, hf⟩ := run_witness (P := progW1) (cfg := cfgW 5) (init := initW)
    (sched := schedW1) (f := fun r => deadB progW1 (cfgW 5) r.1) (by decide +kernel)
  exact ⟨s, evs, h, deadB_sound hf⟩

/-- `Watch`, the consumer and `CheckAll` started; `Watch`: tick, map read (about to write the map) while `CheckAll` is about to read it -/
def schedW2 : List Choice := [(0,0),(0,0),(0,0),(1,0),(1,0)]
/-- (w2) WRONG EDIT (M9): `alert` without `failedPeersMu`: racy state on the `failedPeers` / `alertedFor` maps
(`Watch`'s `CheckPeers` against a direct `CheckAll`) -/
theorem progW2_racy : ∃ s evs, run progW2 (cfgW 5) initW schedW2 = some (s, evs) ∧ racyB progW2 (cfgW 5) s = true :=
  run_witness (f := fun r => racyB progW2 (cfgW 5) r.1) (by decide +kernel)

/-- New, setup (rpcReady, fields, batchWorker started, readyCh), `<-Ready()`, users started; two `LogPin`s fill the
queue; `Shutdown`: lock, cancel; `batchWorker` leaves through `ctx.Done()`; both `Shutdown`s finish; the third `LogPin` blocks -/
def schedQ1 : List Choice :=
  [(0,0),(0,0),(1,1),(1,0),(1,0),(1,0),(1,0),(0,0),(0,0),(0,0),(0,0),(3,0),(3,0),(4,0),(4,1),(4,0),(2,0),(4,0),(4,0),(4,0),(4,0),(5,0),(5,0),(5,0)]
/-- (q1) WRONG EDIT: `LogPin` with a blocking send on `batchItemCh`: DEADLOCK — after `Shutdown` the `batchWorker`
is gone and a `LogPin` on the full queue never returns -/
theorem progQ1_deadlocks : ∃ s evs, run progQ1 (cfgB 6) initB schedQ1 = some (s, evs) ∧
    panicCode s = 0 ∧ allFinished progQ1 (cfgB 6) s = false ∧ ∀ c : Choice, stepC progQ1 (cfgB 6) s c = none := by
  obtain ⟨s, evs, h, hf⟩ := run_witness (P := progQ1) (cfg := cfgB 6) (init := initB)
    (sched := schedQ1) (f := fun r => deadB progQ1 (cfgB 6) r.1) (by decide +kernel)
  exact ⟨s, evs, h, deadB_sound hf⟩

/-- a thread standing at an instruction with a default branch can always move -/
theorem dflt_never_blocks {P : List Code} {cfg : Cfg} {s t pc : Nat} {ins : Instr}
    (h0 : panicCode s = 0) (hi : instrAt P cfg s t = some ins) (hd : ins.dflt = some pc) :
    ∃ a, (step P cfg s t a).isSome = true := by
  have h0' : Nat.beq (dig s 0) 0 = true := by
    unfold panicCode at h0; rw [h0]; rfl
  cases hall : ins.alts.all (fun alt => !enabled cfg s alt.op) with
  | true =>
    refine ⟨ins.alts.length, ?_⟩
    simp [step, h0', hi, hd, hall]
  | false =>
    have hex : ∃ alt ∈ ins.alts, enabled cfg s alt.op = true := by
      have := hall
      rw [List.all_eq_false] at this
      obtain ⟨alt, hmem, hne⟩ := this
      exact ⟨alt, hmem, by simpa using hne⟩
    obtain ⟨alt, hmem, hen⟩ := hex
    obtain ⟨i, hi'⟩ := List.mem_iff_getElem?.mp hmem
    refine ⟨i, ?_⟩
    simp [step, h0', hi, hi', hen]

end CV.C18.Sync
