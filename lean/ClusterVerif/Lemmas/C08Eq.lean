import ClusterVerif.Lemmas.C08
import Mathlib.Data.List.Basic
import Mathlib.Data.List.Nodup
import Mathlib.Data.List.Perm.Basic
import Mathlib.Data.String.Basic
/-!
C08 — completeness and the exact characterisation of the model of `PinOptions.Equals` / `Pin.Equals`.

* `sortS_perm_eq`, `sortS_eq_iff_perm` — `sort.Strings` (the insertion sort `sortS`) identifies exactly
  the permutations, so the comparison of the sorted (user) allocations is the comparison as multisets.
* `opts_equals_iff`, `pin_equals_iff` — what `Equals` compares, and how; no hypothesis.  Absent from the
  right-hand side, hence ignored: `pinUpdate`, the metadata entry of the empty key, the `p2p` flag of an
  origin, the order and (beyond the length) the multiplicity of the origins.
* `opts_equals_complete`, `pin_equals_complete` — `Equals` finds equal whatever the Spec's strict
  comparison (`optsSameStrict`, `pinRest`) finds equal, for metadata with unique keys (a Go map).
-/
namespace CV.C08

/-! ### `sort.Strings` identifies exactly the permutations -/

/-- the order `insertS` branches on (core `String.le`, i.e. `¬ y < x`) is the one of Mathlib's
    `LinearOrder String`: total, transitive, antisymmetric -/
theorem strLe_total (x y : String) : x ≤ y ∨ y ≤ x := le_total x y
theorem strLe_trans {x y z : String} (h1 : x ≤ y) (h2 : y ≤ z) : x ≤ z := le_trans h1 h2
theorem strLe_antisymm {x y : String} (h1 : x ≤ y) (h2 : y ≤ x) : x = y := le_antisymm h1 h2

theorem insertS_sorted (x : String) : ∀ l : List String, l.Pairwise (· ≤ ·) → (insertS x l).Pairwise (· ≤ ·)
  | [], _ => by simp [insertS]
  | y :: ys, h => by
    rw [List.pairwise_cons] at h
    unfold insertS
    by_cases hxy : x ≤ y
    · rw [if_pos hxy, List.pairwise_cons]
      refine ⟨?_, List.pairwise_cons.2 h⟩
      intro z hz
      rcases List.mem_cons.1 hz with e | hz
      · rw [e]; exact hxy
      · exact strLe_trans hxy (h.1 z hz)
    · rw [if_neg hxy, List.pairwise_cons]
      refine ⟨?_, insertS_sorted x ys h.2⟩
      intro z hz
      have hz' := (insertS_perm x ys).mem_iff.1 hz
      rcases List.mem_cons.1 hz' with e | hz''
      · rw [e]
        rcases strLe_total x y with h' | h'
        · exact absurd h' hxy
        · exact h'
      · exact h.1 z hz''

theorem sortS_sorted : ∀ l : List String, (sortS l).Pairwise (· ≤ ·)
  | [] => by simp [sortS]
  | x :: xs => by
    unfold sortS
    exact insertS_sorted x (sortS xs) (sortS_sorted xs)

/-- sorting two permutations of one another gives the same list -/
theorem sortS_perm_eq {a b : List String} (h : a.Perm b) : sortS a = sortS b :=
  List.Perm.eq_of_pairwise (fun _ _ _ _ h1 h2 => strLe_antisymm h1 h2) (sortS_sorted a) (sortS_sorted b)
    ((sortS_perm a).trans (h.trans (sortS_perm b).symm))

theorem perm_of_sortS_eq {a b : List String} (h : sortS a = sortS b) : a.Perm b :=
  (sortS_perm a).symm.trans (h ▸ sortS_perm b)

theorem sortS_eq_iff_perm {a b : List String} : sortS a = sortS b ↔ a.Perm b :=
  ⟨perm_of_sortS_eq, sortS_perm_eq⟩

/-- the Bool form used by the Spec (`List.isPerm`) -/
theorem sortS_eq_iff_isPerm {a b : List String} : sortS a = sortS b ↔ a.isPerm b = true := by
  rw [List.isPerm_iff]; exact sortS_eq_iff_perm

/-! ### the exact characterisation of `Equals` -/

/-- `PinOptions.Equals` says "equal" exactly when: name, mode, both replication factors, shard size and
    expiry are equal; the user allocations are equal as multisets; every non-empty metadata key of `a` is
    in `b` with the same value and every non-empty metadata key of `b` is a key of `a`; the origins have the
    same number of entries and the same set of addresses.  Nothing else is looked at. -/
theorem opts_equals_iff (a b : PinOptions) :
    optsEquals a b = true ↔
      (a.name = b.name ∧ a.mode = b.mode ∧ a.rmax = b.rmax ∧ a.rmin = b.rmin ∧ a.shardSize = b.shardSize ∧
       a.userAllocs.Perm b.userAllocs ∧ a.expireAt = b.expireAt ∧
       (∀ k v, (k, v) ∈ a.metadata → k ≠ emptyStr → lookupKV k b.metadata = some v) ∧
       (∀ k v, (k, v) ∈ b.metadata → k ≠ emptyStr → (lookupKV k a.metadata).isSome = true) ∧
       a.origins.length = b.origins.length ∧
       (∀ o ∈ a.origins, ∃ o' ∈ b.origins, o.tok = o'.tok) ∧
       (∀ o ∈ b.origins, ∃ o' ∈ a.origins, o.tok = o'.tok)) := by
  simp only [optsEquals, Bool.and_eq_true, beq_iff_eq]
  rw [metaSub_iff, metaKeys_iff, originsSub_iff, originsSub_iff, sortS_eq_iff_perm]
  constructor
  · rintro ⟨⟨⟨⟨⟨⟨⟨⟨⟨⟨⟨⟨h1, h2⟩, h3⟩, h4⟩, h5⟩, _⟩, h7⟩, h8⟩, h9⟩, h10⟩, h11⟩, h12⟩, h13⟩
    exact ⟨h1, h2, h3, h4, h5, h7, h8, h9, h10, h11, h12, h13⟩
  · rintro ⟨h1, h2, h3, h4, h5, h7, h8, h9, h10, h11, h12, h13⟩
    exact ⟨⟨⟨⟨⟨⟨⟨⟨⟨⟨⟨⟨h1, h2⟩, h3⟩, h4⟩, h5⟩, h7.length_eq⟩, h7⟩, h8⟩, h9⟩, h10⟩, h11⟩, h12⟩, h13⟩

/-- `Pin.Equals`: CID, type, depth and reference equal, allocations equal as multisets, options `Equals` -/
theorem pin_equals_iff (a b : Pin) :
    pinEquals a b = true ↔
      (a.cid = b.cid ∧ a.type = b.type ∧ a.maxDepth = b.maxDepth ∧ a.reference = b.reference ∧
       a.allocs.Perm b.allocs ∧ optsEquals a.opts b.opts = true) := by
  simp only [pinEquals, Bool.and_eq_true, beq_iff_eq]
  rw [sortS_eq_iff_perm]
  constructor
  · rintro ⟨⟨⟨⟨⟨h1, h2⟩, h3⟩, h4⟩, h5⟩, h6⟩
    exact ⟨h1, h2, h3, h4, h5, h6⟩
  · rintro ⟨h1, h2, h3, h4, h5, h6⟩
    exact ⟨⟨⟨⟨⟨h1, h2⟩, h3⟩, h4⟩, h5⟩, h6⟩

/-! ### completeness against the Spec's strict comparison -/

/-- the keys of a metadata map are distinct (it is a Go map); `Props.uniqueKeys po` is `uniqueKeysL po.metadata` -/
def uniqueKeysL (m : List (String × String)) : Prop := (m.map (·.1)).Nodup

instance (m : List (String × String)) : Decidable (uniqueKeysL m) := by unfold uniqueKeysL; infer_instance

theorem mem_metaNonEmpty {m : List (String × String)} {k v : String} :
    (k, v) ∈ metaNonEmpty m ↔ (k, v) ∈ m ∧ k ≠ emptyStr := by
  simp only [metaNonEmpty, List.mem_filter, bne_iff_ne, ne_eq]

/-- the first metadata loop succeeds when the non-empty-key entries are the same up to order and the
    keys of the right-hand map are distinct -/
theorem metaSub_of_perm {a b : List (String × String)} (hb : (b.map (·.1)).Nodup)
    (h : (metaNonEmpty a).Perm (metaNonEmpty b)) : metaSub a b = true := by
  rw [metaSub_iff]
  intro k v hm hk
  have h1 : (k, v) ∈ metaNonEmpty b := h.mem_iff.1 (mem_metaNonEmpty.2 ⟨hm, hk⟩)
  exact lookupKV_of_mem_nodup hb (mem_metaNonEmpty.1 h1).1

/-- the second metadata loop: no uniqueness needed -/
theorem metaKeys_of_perm {a b : List (String × String)}
    (h : (metaNonEmpty a).Perm (metaNonEmpty b)) : metaKeys a b = true := by
  rw [metaKeys_iff]
  intro k v hm hk
  have h1 : (k, v) ∈ metaNonEmpty a := h.mem_iff.2 (mem_metaNonEmpty.2 ⟨hm, hk⟩)
  exact lookupKV_isSome_of_mem (mem_metaNonEmpty.1 h1).1

theorem originsSub_of_perm {a b : List Origin} (h : (a.map (·.tok)).Perm (b.map (·.tok))) :
    originsSub a b = true := by
  rw [originsSub_iff]
  intro o ho
  have h1 : o.tok ∈ b.map (·.tok) := h.mem_iff.1 (List.mem_map.2 ⟨o, ho, rfl⟩)
  obtain ⟨o', ho', e⟩ := List.mem_map.1 h1
  exact ⟨o', ho', e.symm⟩

/-- `PinOptions.Equals` finds equal whatever `optsSameStrict` does.  Only the keys of `b`'s metadata have
    to be distinct (the first loop reads `b` by key); nothing is needed of `a`. -/
theorem opts_equals_complete (a b : PinOptions) (hb : (b.metadata.map (·.1)).Nodup)
    (h : optsSameStrict a b = true) : optsEquals a b = true := by
  simp only [optsSameStrict, Bool.and_eq_true, beq_iff_eq, List.isPerm_iff] at h
  obtain ⟨⟨⟨⟨⟨⟨⟨⟨h1, h2⟩, h3⟩, h4⟩, h5⟩, h6⟩, h7⟩, h8⟩, h9⟩ := h
  rw [opts_equals_iff]
  have hlen : a.origins.length = b.origins.length := by
    have := h9.length_eq
    rwa [List.length_map, List.length_map] at this
  exact ⟨h1, h2, h4, h3, h5, h6, h7, metaSub_iff.1 (metaSub_of_perm hb h8), metaKeys_iff.1 (metaKeys_of_perm h8),
    hlen, originsSub_iff.1 (originsSub_of_perm h9), originsSub_iff.1 (originsSub_of_perm h9.symm)⟩

/-- `Pin.Equals` finds equal whatever `pinRest` together with `optsSameStrict` does -/
theorem pin_equals_complete (a b : Pin) (hb : (b.opts.metadata.map (·.1)).Nodup)
    (h1 : pinRest a b = true) (h2 : optsSameStrict a.opts b.opts = true) : pinEquals a b = true := by
  simp only [pinRest, Bool.and_eq_true, beq_iff_eq, List.isPerm_iff] at h1
  obtain ⟨⟨⟨⟨g1, g2⟩, g3⟩, g4⟩, g5⟩ := h1
  rw [pin_equals_iff]
  exact ⟨g1, g2, g3, g4, g5, opts_equals_complete _ _ hb h2⟩

/-- the statements with the symmetric pair of hypotheses (as `Props.opts_equals_sound` has them) -/
theorem opts_equals_complete' (a b : PinOptions) (_ha : uniqueKeysL a.metadata) (hb : uniqueKeysL b.metadata)
    (h : optsSameStrict a b = true) : optsEquals a b = true := opts_equals_complete a b hb h

theorem pin_equals_complete' (a b : Pin) (_ha : uniqueKeysL a.opts.metadata) (hb : uniqueKeysL b.opts.metadata)
    (h1 : pinRest a b = true) (h2 : optsSameStrict a.opts b.opts = true) : pinEquals a b = true :=
  pin_equals_complete a b hb h1 h2

/-- the uniqueness hypothesis on `b` cannot be dropped: with a repeated key `optsSameStrict` holds of a value
    and itself while the first loop of `Equals` reads the first entry for the second one -/
def dupMeta : PinOptions :=
  { rmin := 1, rmax := 2, name := "~n", mode := 0, shardSize := 0, userAllocs := [], expireAt := Time.zero,
    metadata := [("~k", "~v1"), ("~k", "~v2")], pinUpdate := none, origins := [] }

/-! ### examples -/

def exA : PinOptions :=
  { rmin := 1, rmax := 3, name := "~n", mode := 0, shardSize := 7, userAllocs := ["p2", "p1", "p3"],
    expireAt := ⟨5, 6⟩, metadata := [("~k1", "~v1"), ("~", "~x"), ("~k2", "~v2")], pinUpdate := some "c1",
    origins := [⟨"mp1", true⟩, ⟨"mp0", true⟩] }

/-- `exA` with every list reordered, another `pinUpdate`, another value under the empty metadata key -/
def exB : PinOptions :=
  { exA with userAllocs := ["p3", "p2", "p1"], metadata := [("~k2", "~v2"), ("~k1", "~v1"), ("~", "~y")],
             pinUpdate := none, origins := [⟨"mp0", true⟩, ⟨"mp1", true⟩] }

/-- the hypotheses of `opts_equals_complete` hold of a non-trivial pair (and the two values differ) -/
example : uniqueKeysL exA.metadata ∧ uniqueKeysL exB.metadata ∧ optsSameStrict exA exB = true ∧ exA ≠ exB := by decide

/-- … and so does its conclusion, as the theorem says -/
example : optsEquals exA exB = true := opts_equals_complete exA exB (by decide) (by decide)
example : optsEquals exA exB = true := by decide

/-- `Equals` ignores `pinUpdate`: two options differing only there are Equal -/
example : optsEquals exA { exA with pinUpdate := none } = true ∧ exA ≠ { exA with pinUpdate := none } := by decide

/-- … and the `p2p` flag of an origin, and repeats among the origins as long as the lengths agree -/
example : optsEquals { exA with origins := [⟨"mp0", true⟩, ⟨"mp0", true⟩, ⟨"mp1", true⟩] }
                     { exA with origins := [⟨"mp1", false⟩, ⟨"mp1", true⟩, ⟨"mp0", true⟩] } = true := by decide

/-- the uniqueness hypothesis is needed: a repeated key makes `Equals` irreflexive while `optsSameStrict` is reflexive -/
example : optsSameStrict dupMeta dupMeta = true ∧ optsEquals dupMeta dupMeta = false := by decide

end CV.C08
