import ClusterVerif.Model.C07Sys
/-! Helper lemmas for `Props/C07.lean`. -/
namespace CV.C07

/-! ### the closure over an association list -/

theorem lookup_some_mem {pol : Policy} {k : String} {v : Int} (h : lookup pol k = some v) : (k, v) ∈ pol := by
  induction pol with
  | nil => simp [lookup] at h
  | cons e rest ih =>
    obtain ⟨k', v'⟩ := e
    unfold lookup at h
    by_cases hk : (k' == k) = true
    · simp only [hk, if_true, Option.some.injEq] at h
      have : k' = k := by simpa using hk
      subst this; subst h; exact List.mem_cons_self
    · simp only [hk, Bool.false_eq_true, if_false] at h
      exact List.mem_cons_of_mem _ (ih h)

theorem lookup_filter_ne (pol : Policy) (k ep : String) (h : (k == ep) = false) :
    lookup (pol.filter (fun e => !(e.1 == k))) ep = lookup pol ep := by
  induction pol with
  | nil => rfl
  | cons e rest ih =>
    obtain ⟨k', v'⟩ := e
    by_cases hk : (k' == k) = true
    · have hk' : k' = k := by simpa using hk
      have : (k' == ep) = false := by rw [hk']; exact h
      simp [List.filter, hk, lookup, this, ih]
    · have hk2 : (k' == k) = false := by simpa using hk
      simp only [List.filter, hk2, Bool.not_false, lookup]
      rw [ih]

theorem lookup_filter_eq (pol : Policy) (k : String) :
    lookup (pol.filter (fun e => !(e.1 == k))) k = none := by
  induction pol with
  | nil => rfl
  | cons e rest ih =>
    obtain ⟨k', v'⟩ := e
    by_cases hk : (k' == k) = true
    · simp [List.filter, hk, ih]
    · have hk2 : (k' == k) = false := by simpa using hk
      simp only [List.filter, hk2, Bool.not_false, lookup, Bool.false_eq_true, if_false]
      exact ih

/-- a Go map assignment / delete, seen through `lookup` -/
theorem lookup_override (pol : Policy) (k ep : String) (v : Option Int) :
    lookup (override pol k v) ep = if (k == ep) = true then v else lookup pol ep := by
  by_cases hk : (k == ep) = true
  · have : k = ep := by simpa using hk
    subst this
    cases v with
    | none => simp [override, lookup_filter_eq]
    | some x => simp [override, lookup]
  · have hk2 : (k == ep) = false := by simpa using hk
    cases v with
    | none => simp [override, hk2, lookup_filter_ne _ _ _ hk2]
    | some x => simp [override, lookup, hk2, lookup_filter_ne _ _ _ hk2]

theorem level_zero_deny {v : Verdict} (h : v.level = 0) : v = .deny := by
  cases v <;> simp [Verdict.level] at h ⊢

theorem level_two_allow {v : Verdict} (h : 2 ≤ v.level) : v = .allow := by
  cases v <;> simp [Verdict.level] at h ⊢

theorem class_level_zero {c : Class} (h : c.level = 0) : c = .closed := by
  cases c <;> simp [Class.level] at h ⊢

theorem class_level_two {c : Class} (h : 2 ≤ c.level) : c = .open_ := by
  cases c <;> simp [Class.level] at h ⊢

/-- "no weaker than the intent", for any closure and table -/
def NoWeaker (cl : Closure) (pol : Policy) : Prop :=
  ∀ ep : String, (cl.verdict pol ep).level ≤ (intentOf ep).level

theorem intentOf_open_mem {ep : String} (h : intentOf ep = .open_) : ep ∈ openSet := by
  unfold intentOf at h
  cases hf : intent.find? (fun e => e.1 == ep) with
  | none => simp [hf] at h
  | some e =>
    simp only [hf] at h
    have hm := List.mem_of_find?_eq_some hf
    have hp := List.find?_some hf
    have he : e.1 = ep := by simpa using hp
    have key : ∀ e ∈ intent, e.2 = Class.open_ → e.1 ∈ openSet := by decide
    rw [← he]; exact key e hm h

/-- what the two RPC clauses need, from `NoWeaker` alone -/
theorem noWeaker_untrusted {cl : Closure} {pol : Policy} (h : NoWeaker cl pol) {ep : String}
    (ha : authorizeWith cl pol false ep = true) : ep ∈ openSet := by
  have hv : cl.verdict pol ep = .allow := by
    unfold authorizeWith at ha
    cases hc : cl.verdict pol ep <;> simp [hc] at ha ⊢
  have := h ep
  rw [hv] at this
  exact intentOf_open_mem (class_level_two this)

theorem noWeaker_localOnly {cl : Closure} {pol : Policy} (h : NoWeaker cl pol) {ep : String} (t : Bool)
    (hl : localOnly ep = true) : authorizeWith cl pol t ep = false := by
  have hi : intentOf ep = .closed := by simpa [localOnly] using hl
  have := h ep
  rw [hi] at this
  have hv := level_zero_deny (Nat.le_zero.mp this)
  simp [authorizeWith, hv]

/-! ### trust -/

theorem parseTrusted_eq (raw : List (Option Nat)) (acc : List Nat) :
    parseTrusted raw acc =
      if raw.contains none then { trustAll := true, listed := [] }
      else { trustAll := false, listed := acc.reverse ++ raw.filterMap id } := by
  induction raw generalizing acc with
  | nil => simp [parseTrusted]
  | cons x rest ih =>
    cases x with
    | none => simp [parseTrusted]
    | some p =>
      simp only [parseTrusted, ih, List.contains_cons]
      simp

theorem mem_setInsert (s : List Nat) (q p : Nat) : p ∈ setInsert s q ↔ p = q ∨ p ∈ s := by
  unfold setInsert
  by_cases h : s.contains q = true
  · have hq : q ∈ s := by simpa using h
    simp only [h, if_true]
    constructor
    · intro hp; exact Or.inr hp
    · rintro (rfl | hp)
      · exact hq
      · exact hp
  · have hq : q ∉ s := by simpa using h
    simp [hq]

theorem mem_setDelete (s : List Nat) (q p : Nat) : p ∈ setDelete s q ↔ p ∈ s ∧ p ≠ q := by
  unfold setDelete
  simp [List.mem_filter]

theorem contains_setInsert (s : List Nat) (q p : Nat) :
    (setInsert s q).contains p = (p == q || s.contains p) := by
  rw [Bool.eq_iff_iff]; simp [mem_setInsert]

theorem contains_setDelete (s : List Nat) (q p : Nat) :
    (setDelete s q).contains p = (s.contains p && !(p == q)) := by
  rw [Bool.eq_iff_iff]; simp [mem_setDelete]

theorem contains_foldl_insert (l s : List Nat) (p : Nat) :
    (l.foldl (fun s q => applySetOp .insert s q) s).contains p = (s.contains p || l.contains p) := by
  induction l generalizing s with
  | nil => simp
  | cons x rest ih =>
    have e : (fun (s : List Nat) q => applySetOp SetOp.insert s q) = (fun s q => setInsert s q) := rfl
    rw [List.foldl_cons, ih]
    simp only [applySetOp, contains_setInsert, List.contains_cons]
    cases (p == x) <;> cases s.contains p <;> cases rest.contains p <;> rfl

/-- a call list seen through membership: the last call about `p` decides, else the start set -/
theorem contains_after_calls (sh : ConsensusShape) (hT : sh.trustOp = .insert) (hD : sh.distrustOp = .delete)
    (hA : sh.addPeerOp = .noop) (ops : List TOp) (s : List Nat) (p : Nat) :
    (ops.foldl (applyOp sh) s).contains p = (lastCall ops p).getD (s.contains p) := by
  induction ops generalizing s with
  | nil => simp [lastCall]
  | cons op rest ih =>
    simp only [List.foldl_cons, ih, lastCall]
    cases hl : lastCall rest p with
    | some b => simp
    | none =>
      cases op with
      | trust q =>
        simp only [applyOp, hT, applySetOp, contains_setInsert, Option.getD_none]
        by_cases hq : q = p
        · subst hq; simp
        · have h1 : (q == p) = false := by simpa using hq
          have h2 : (p == q) = false := by simpa using (Ne.symm hq)
          simp [h1, h2]
      | distrust q =>
        simp only [applyOp, hD, applySetOp, contains_setDelete, Option.getD_none]
        by_cases hq : q = p
        · subst hq; simp
        · have h1 : (q == p) = false := by simpa using hq
          have h2 : (p == q) = false := by simpa using (Ne.symm hq)
          simp [h1, h2]
      | handshake q =>
        simp only [applyOp, hA, applySetOp, Option.getD_none]

theorem contains_filterMap_id (raw : List (Option Nat)) (p : Nat) :
    (raw.filterMap id).contains p = raw.contains (some p) := by
  induction raw with
  | nil => rfl
  | cons x rest ih =>
    cases x with
    | none =>
      simp
    | some q =>
      simp only [List.filterMap_cons, id, List.contains_cons, ih]
      by_cases h : p = q
      · subst h; simp
      · have h1 : (p == q) = false := by simpa using h
        have h2 : (some p == some q) = false := by simpa using h
        simp [h1, h2]

/-! ### configuration sources -/

theorem loopTrusted_false (raw : List (Option Nat)) (acc : List Nat) :
    loopTrusted false raw acc = parseTrusted raw acc := by
  induction raw generalizing acc with
  | nil => rfl
  | cons x rest ih =>
    cases x with
    | none => rfl
    | some p => simp only [loopTrusted, parseTrusted, ih]

theorem filterMap_map_some (l : List Nat) : (l.map some).filterMap id = l := by
  induction l with
  | nil => rfl
  | cons x rest ih => simp [ih]

theorem contains_none_map_some (l : List Nat) : (l.map some).contains none = false := by
  induction l with
  | nil => rfl
  | cons x rest ih =>
    have : (none == some x) = false := rfl
    simp only [List.map_cons, List.contains_cons, this, ih, Bool.or_self]

/-- rendering a parsed configuration and parsing it again changes nothing -/
theorem parse_toJSON (raw : List (Option Nat)) :
    parseTrusted (toJSONTrust (parseTrusted raw [])) [] = parseTrusted raw [] := by
  rw [parseTrusted_eq raw []]
  by_cases h : raw.contains none = true
  · simp only [h, if_true, toJSONTrust, parseTrusted]
  · simp only [h, Bool.false_eq_true, if_false, toJSONTrust, List.reverse_nil, List.nil_append]
    rw [parseTrusted_eq]
    simp only [contains_none_map_some, filterMap_map_some, Bool.false_eq_true, if_false, List.reverse_nil,
      List.nil_append]

/-- one source, on a configuration that is the parse of the list in effect -/
theorem cfgStep_parse (sh : CfgShape) (hd : sh.defaultTrustAll = true)
    (ha : sh.applyResetsTrustAll = true) (hp : sh.applyResetsPeers = true)
    (eff : List (Option Nat)) (src : Source) :
    cfgStep sh (parseTrusted eff []) src = parseTrusted (effStep eff src) [] := by
  cases src with
  | default => simp [cfgStep, defaultCfg, hd, effStep, parseTrusted]
  | load raw => simp [cfgStep, applyJSON, ha, hp, effStep, loopTrusted_false]
  | env v =>
    cases v with
    | none =>
      simp only [cfgStep, applyJSON, ha, hp, if_true, effStep, loopTrusted_false]
      exact parse_toJSON eff
    | some raw => simp [cfgStep, applyJSON, ha, hp, effStep, loopTrusted_false]

theorem foldl_cfgStep_parse (sh : CfgShape) (hd : sh.defaultTrustAll = true)
    (ha : sh.applyResetsTrustAll = true) (hp : sh.applyResetsPeers = true)
    (srcs : List Source) (eff : List (Option Nat)) :
    srcs.foldl (cfgStep sh) (parseTrusted eff []) = parseTrusted (srcs.foldl effStep eff) [] := by
  induction srcs generalizing eff with
  | nil => rfl
  | cons s rest ih =>
    simp only [List.foldl_cons]
    rw [cfgStep_parse sh hd ha hp, ih]

theorem parseTrusted_star {raw : List (Option Nat)} (h : starListed raw = true) :
    parseTrusted raw [] = { trustAll := true, listed := [] } := by
  have hc : raw.contains none = true := h
  rw [parseTrusted_eq]; simp only [hc, if_true]

theorem parseTrusted_nostar {raw : List (Option Nat)} (h : starListed raw = false) :
    parseTrusted raw [] = { trustAll := false, listed := raw.filterMap id } := by
  have hc : raw.contains none = false := h
  rw [parseTrusted_eq]; simp only [hc, Bool.false_eq_true, if_false, List.reverse_nil, List.nil_append]

theorem sameSetNat_refl (l : List Nat) : sameSetNat l l = true := by
  simp [sameSetNat]

end CV.C07
