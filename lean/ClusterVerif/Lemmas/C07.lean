import ClusterVerif.Spec.C07
import ClusterVerif.Gen.C07
