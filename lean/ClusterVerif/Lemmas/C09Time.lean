import ClusterVerif.Lemmas.C09

/-!
C09 — lemmas about time inside a history: positions of a run, the clock, and the life of
one (name, peer) between two renewals ("episode"): not yet alerted (`E0`), alerted once
(`E1`), forgotten (`E2`).
-/
namespace CV.C09

/-! ### positions of a run -/

theorem runFrom_append (P : Params) : ∀ (a b : List Op) (i : Nat) (s : State),
    runFrom P i s (a ++ b) = runFrom P i s a ++ runFrom P (i + a.length) (stateAfter P i s a) b := by
  intro a
  induction a with
  | nil => intro b i s; simp [runFrom, stateAfter]
  | cons op rest ih =>
    intro b i s
    simp only [List.cons_append, runFrom, stateAfter, List.length_cons, ih]
    rw [show i + 1 + rest.length = i + (rest.length + 1) by omega]

theorem stateAfter_append (P : Params) : ∀ (a b : List Op) (i : Nat) (s : State),
    stateAfter P i s (a ++ b) = stateAfter P (i + a.length) (stateAfter P i s a) b := by
  intro a
  induction a with
  | nil => intro b i s; simp [stateAfter]
  | cons op rest ih =>
    intro b i s
    simp only [List.cons_append, stateAfter, List.length_cons, ih]
    congr 1
    omega

theorem runFrom_length (P : Params) : ∀ (ops : List Op) (i : Nat) (s : State), (runFrom P i s ops).length = ops.length := by
  intro ops
  induction ops with
  | nil => intro i s; rfl
  | cons op rest ih => intro i s; simp [runFrom, ih]

/-- the observation at position `j` is the one of the step taken there, from the state reached there -/
theorem runFrom_getElem? (P : Params) : ∀ (ops : List Op) (i : Nat) (s : State) (j : Nat) (op : Op),
    ops[j]? = some op →
    (runFrom P i s ops)[j]? = some (step P (i + j) (stateAfter P i s (ops.take j)) op).2 := by
  intro ops
  induction ops with
  | nil => intro i s j op h; simp at h
  | cons o rest ih =>
    intro i s j op h
    cases j with
    | zero =>
      simp only [List.getElem?_cons_zero, Option.some.injEq] at h
      subst h
      simp [runFrom, stateAfter]
    | succ j =>
      simp only [List.getElem?_cons_succ] at h
      simp only [runFrom, List.getElem?_cons_succ, List.take_succ_cons, stateAfter]
      rw [ih (i + 1) _ j op h]
      congr 3
      omega

/-! ### the clock -/

def advOf : Op → Nat
  | .advance d => d
  | _ => 0

theorem alertK_now (P : Params) (acc : State × List Alert) (k : Key) : (alertK P acc k).1.now = acc.1.now := by
  unfold alertK; simp only; split_ifs <;> rfl

theorem checkOneP_now (P : Params) (i : Nat) (acc : State × List Alert) (k : Key) :
    (checkOneP P i acc k).1.now = acc.1.now := by
  unfold checkOneP; split_ifs <;> first | rfl | exact alertK_now P acc k

theorem checkOneA_now (P : Params) (i : Nat) (acc : State × List Alert) (k : Key) :
    (checkOneA P i acc k).1.now = acc.1.now := by
  unfold checkOneA; split_ifs <;> first | rfl | exact alertK_now P acc k

theorem foldP_now (P : Params) (i : Nat) : ∀ (L : List Key) (acc : State × List Alert),
    (L.foldl (checkOneP P i) acc).1.now = acc.1.now := by
  intro L
  induction L with
  | nil => intro acc; rfl
  | cons k rest ih => intro acc; simp only [List.foldl_cons]; rw [ih, checkOneP_now]

theorem foldA_now (P : Params) (i : Nat) : ∀ (L : List Key) (acc : State × List Alert),
    (L.foldl (checkOneA P i) acc).1.now = acc.1.now := by
  intro L
  induction L with
  | nil => intro acc; rfl
  | cons k rest ih => intro acc; simp only [List.foldl_cons]; rw [ih, checkOneA_now]

theorem step_now (P : Params) (i : Nat) (s : State) (op : Op) : (step P i s op).1.now = s.now + advOf op := by
  cases op with
  | add m => simp [step, State.add, advOf]
  | rmPeer p => simp [step, State.rmPeer, advOf]
  | rmMetrics n p => simp [step, State.rmMetrics, advOf]
  | setPeers ps => simp [step, advOf]
  | query n => simp [step, advOf]
  | advance d => simp [step, advOf]
  | checkPeers l => simp only [step, checkPeers, advOf]; rw [foldP_now]; rfl
  | tick =>
    simp only [step, tick, advOf]
    cases hps : s.ps with
    | unknown => simp only [checkAll]; rw [foldA_now]; rfl
    | error => rfl
    | known l => simp only [checkPeers]; rw [foldP_now]; rfl

theorem stateAfter_now (P : Params) : ∀ (ops : List Op) (i : Nat) (s : State),
    (stateAfter P i s ops).now = ops.foldl (fun t op => match op with | .advance d => t + d | _ => t) s.now := by
  intro ops
  induction ops with
  | nil => intro i s; rfl
  | cons op rest ih =>
    intro i s
    simp only [stateAfter, List.foldl_cons]
    rw [ih, step_now]
    cases op <;> simp [advOf]

/-- the model's clock at position `j` is `clockAt` -/
theorem now_at (P : Params) (ps0 : Peerset) (t0 : Nat) (ops : List Op) (j : Nat) :
    (stateAfter P 0 (State.init ps0 t0) (ops.take j)).now = clockAt t0 ops j := by
  rw [stateAfter_now]; rfl

/-! ### the invariants of `Lemmas/C09` along a run -/

def Good (P : Params) (hist : List Op) (i : Nat) (s : State) : Prop :=
  ∃ t, Inv P hist s t ∧ Sync s t ∧ Fresh i s t

theorem good_init (P : Params) (hist : List Op) (ps : Peerset) (t0 : Nat) : Good P hist 0 (State.init ps t0) :=
  ⟨_, inv_init P hist ps t0, sync_init ps t0, fresh_init ps t0⟩

theorem good_step {P : Params} (hc : 0 < P.cap) (hmax : P.maxA = 1) {hist : List Op} (hids : (ids hist).Nodup)
    {i : Nat} {s : State} (hG : Good P hist i s) (op : Op) (hop : op ∈ hist) (hid : ∀ m, op = .add m → m.id = i) :
    Good P hist (i + 1) (step P i s op).1 := by
  obtain ⟨t, hI, hS, hF⟩ := hG
  obtain ⟨hI', _, hst⟩ := op_step hc hmax hids i hI op hop
  obtain ⟨hS', hF', _⟩ := hst hS hF hid
  exact ⟨_, hI', hS', hF'⟩

theorem good_after {P : Params} (hc : 0 < P.cap) (hmax : P.maxA = 1) {hist : List Op} (hids : (ids hist).Nodup) :
    ∀ (ops : List Op) (i : Nat) (s : State), Good P hist i s → (∀ op ∈ ops, op ∈ hist) → idsAt i ops = true →
      Good P hist (i + ops.length) (stateAfter P i s ops) := by
  intro ops
  induction ops with
  | nil => intro i s h _ _; simpa [stateAfter] using h
  | cons op rest ih =>
    intro i s hG hsub hid
    obtain ⟨h1, h2⟩ := idsAt_cons hid
    have := ih (i + 1) _ (good_step hc hmax hids hG op (hsub op (by simp)) h1) (fun o ho => hsub o (by simp [ho])) h2
    simp only [stateAfter, List.length_cons]
    rwa [show i + (rest.length + 1) = i + 1 + rest.length by omega]

theorem idsAt_append : ∀ (a b : List Op) (i : Nat), idsAt i (a ++ b) = true → idsAt i a = true ∧ idsAt (i + a.length) b = true := by
  intro a
  induction a with
  | nil => intro b i h; exact ⟨rfl, by simpa using h⟩
  | cons op rest ih =>
    intro b i h
    obtain ⟨h1, h2⟩ := idsAt_cons (by simpa using h)
    obtain ⟨ha, hb⟩ := ih b (i + 1) h2
    refine ⟨?_, by rw [show i + (op :: rest).length = i + 1 + rest.length by simp; omega]; exact hb⟩
    cases op <;> simp [idsAt] <;> first | exact ha | exact ⟨by simpa using h1 _ rfl, ha⟩

theorem Good.cnt {P : Params} {hist : List Op} {i : Nat} {s : State} (h : Good P hist i s) : ∀ k, s.cnt k ≤ 1 := by
  obtain ⟨t, hI, _, _⟩ := h; exact hI.cnt
theorem Good.nodup {P : Params} {hist : List Op} {i : Nat} {s : State} (h : Good P hist i s) : s.keys.Nodup := by
  obtain ⟨t, hI, _, _⟩ := h; exact hI.nodup
theorem Good.stored {P : Params} {hist : List Op} {i : Nat} {s : State} (h : Good P hist i s) :
    ∀ k, s.win k ≠ none → k ∈ s.keys := by
  obtain ⟨t, hI, _, _⟩ := h; exact hI.stored
theorem Good.af_le {P : Params} {hist : List Op} {i : Nat} {s : State} (h : Good P hist i s) : ∀ k, s.af k ≤ i := by
  obtain ⟨t, _, _, hF⟩ := h; exact hF.1

/-! ### what a check does to one (name, peer), read off `Track` -/

theorem alerts_nodup_count {l : List Key} (h : l.Nodup) (k : Key) : l.count k = if k ∈ l then 1 else 0 := by
  split_ifs with hm
  · exact List.count_eq_one_of_mem h hm
  · exact List.count_eq_zero_of_not_mem hm

/-- an alert raised by the check at `op` names a pair whose latest metric is stored and expired now -/
theorem alert_is_expired {P : Params} {i : Nat} {s : State} (hc : ∀ k, s.cnt k ≤ 1) (hnd : s.keys.Nodup)
    (hmax : P.maxA = 1) (op : Op) (hop : isCheck op = true) {al : List Alert} {fg : List Key}
    (ho : (step P i s op).2 = .check al fg) {k : Key} (hk : k ∈ alertKeys al) :
    ∃ m, latestOf s k = some m ∧ m.expire < s.now ∧ ecnt s k = 0 := by
  have hT := track_check P hmax i s hc hnd op
  rw [step_check P i s op hop] at ho
  simp only [Obs.check.injEq] at ho
  rw [← ho.1] at hk
  obtain ⟨h0, hh⟩ := alerted_facts hT hk
  obtain ⟨m, hm, hx⟩ := hot_expired hh
  exact ⟨m, hm, by simpa [Metric.expiredAt] using hx, h0⟩

/-! ### one (name, peer) between two renewals -/

/-- the op concerns (name, peer) `k` from outside the checker: an arrival for it or a removal -/
def touches (k : Key) : Op → Bool
  | .add m => (m.name, m.peer) == k
  | .rmPeer p => p == k.2
  | .rmMetrics n p => (n, p) == k
  | _ => false

/-- stored, not alerted since it arrived -/
def E0 (k : Key) (m : Metric) (s : State) : Prop := latestOf s k = some m ∧ ecnt s k = 0
/-- stored, alerted once -/
def E1 (k : Key) (m : Metric) (s : State) : Prop := latestOf s k = some m ∧ ecnt s k = 1
/-- nothing stored -/
def E2 (k : Key) (s : State) : Prop := s.win k = none

/-- alerts for `k` in one observation -/
def alertsIn (k : Key) : Obs → Nat
  | .check a _ => (alertKeys a).count k
  | _ => 0

theorem alertsFor_cons (k : Key) (o : Obs) (os : List Obs) : alertsFor k (o :: os) = alertsIn k o + alertsFor k os := by
  cases o <;> simp [alertsFor, alertsIn]

theorem alertsFor_append (k : Key) : ∀ (a b : List Obs), alertsFor k (a ++ b) = alertsFor k a + alertsFor k b := by
  intro a
  induction a with
  | nil => intro b; simp [alertsFor]
  | cons o rest ih => intro b; simp only [List.cons_append, alertsFor_cons, ih]; omega

theorem step_untouched (P : Params) (i : Nat) (s : State) (op : Op) (k : Key) (hop : isCheck op = false)
    (ht : touches k op = false) :
    (step P i s op).1.win k = s.win k ∧ ca (step P i s op).1 k = ca s k ∧ alertsIn k (step P i s op).2 = 0 := by
  cases op with
  | add m =>
    have : ¬ k = (m.name, m.peer) := by
      intro h; simp [touches, h] at ht
    simp [step, State.add, upd, this, ca, alertsIn]
  | rmPeer p =>
    have : ¬ k.2 = p := by intro h; simp [touches, h] at ht
    simp [step, State.rmPeer, this, ca, alertsIn]
  | rmMetrics n p =>
    have : ¬ k = (n, p) := by intro h; simp [touches, h] at ht
    simp [step, State.rmMetrics, upd, this, ca, alertsIn]
  | setPeers ps => simp [step, ca, alertsIn]
  | query n => simp [step, ca, alertsIn]
  | advance d => simp [step, ca, alertsIn]
  | tick => simp [isCheck] at hop
  | checkPeers l => simp [isCheck] at hop

theorem ecnt_of_ca {s s' : State} {k : Key} (hw : s'.win k = s.win k) (hc : ca s' k = ca s k) :
    latestOf s' k = latestOf s k ∧ ecnt s' k = ecnt s k :=
  ⟨latestOf_congr hw, ecnt_congr hw hc⟩

/-- One step of the life of `k` (the step is not an arrival for `k` nor a removal of it). -/
theorem episode_step (P : Params) (hmax : P.maxA = 1) (i : Nat) (s : State) (hc : ∀ k, s.cnt k ≤ 1)
    (hnd : s.keys.Nodup) (op : Op) (k : Key) (m : Metric) (ht : touches k op = false) :
    (E0 k m s → (E0 k m (step P i s op).1 ∧ alertsIn k (step P i s op).2 = 0 ∧
                    ¬ (isCheck op = true ∧ k ∈ visited s op ∧ Hot P i s k)) ∨
                ((E1 k m (step P i s op).1 ∨ E2 k (step P i s op).1) ∧ alertsIn k (step P i s op).2 = 1 ∧
                    isCheck op = true ∧ m.expire < s.now)) ∧
    (E1 k m s → (E1 k m (step P i s op).1 ∨ E2 k (step P i s op).1) ∧ alertsIn k (step P i s op).2 = 0) ∧
    (E2 k s → E2 k (step P i s op).1 ∧ alertsIn k (step P i s op).2 = 0) := by
  by_cases hop : isCheck op = true
  · have hT := track_check P hmax i s hc hnd op
    rw [step_check P i s op hop]
    simp only [alertsIn]
    rw [alerts_nodup_count hT.nodup]
    refine ⟨?_, ?_, ?_⟩
    · rintro ⟨hl, h0⟩
      rcases hT.phase k with ⟨hw, hcc, hn⟩ | ⟨hw, _, h1, hm, hh⟩ | ⟨hw, _, hh, ⟨h1, _⟩ | ⟨_, hm⟩⟩
      · left
        obtain ⟨e1, e2⟩ := ecnt_of_ca hw hcc
        refine ⟨⟨by rw [e1]; exact hl, by rw [e2]; exact h0⟩, by simp [hn], ?_⟩
        rintro ⟨_, hv, hh⟩
        exact hT.prog k (List.mem_reverse.2 hv) hh ⟨hw, hcc, hn⟩
      · right
        obtain ⟨m', hm', hx⟩ := hot_expired hh
        rw [hl] at hm'; cases hm'
        refine ⟨Or.inl ⟨by rw [latestOf_congr hw]; exact hl, ?_⟩, by simp [hm], hop,
          by simpa [Metric.expiredAt] using hx⟩
        simp only [ca, Prod.mk.injEq] at h1
        unfold ecnt; rw [latestOf_congr hw, h1.2, h1.1]; simp
      · omega
      · right
        obtain ⟨m', hm', hx⟩ := hot_expired hh
        rw [hl] at hm'; cases hm'
        exact ⟨Or.inr hw, by simp [hm], hop, by simpa [Metric.expiredAt] using hx⟩
    · rintro ⟨hl, h1⟩
      rcases hT.phase k with ⟨hw, hcc, hn⟩ | ⟨_, h0, _⟩ | ⟨hw, _, _, ⟨_, hn⟩ | ⟨h0, _⟩⟩
      · obtain ⟨e1, e2⟩ := ecnt_of_ca hw hcc
        exact ⟨Or.inl ⟨by rw [e1]; exact hl, by rw [e2]; exact h1⟩, by simp [hn]⟩
      · omega
      · exact ⟨Or.inr hw, by simp [hn]⟩
      · omega
    · intro h2
      have hnh : ¬ Hot P i s k := by
        rintro ⟨h, _⟩; simp [latestOf, show s.win k = none from h2] at h
      rcases hT.phase k with ⟨hw, _, hn⟩ | ⟨_, _, _, _, hh⟩ | ⟨_, _, hh, _⟩
      · exact ⟨by unfold E2; rw [hw]; exact h2, by simp [hn]⟩
      · exact absurd hh hnh
      · exact absurd hh hnh
  · have hop' : isCheck op = false := by simpa using hop
    obtain ⟨hw, hcc, ha⟩ := step_untouched P i s op k hop' ht
    obtain ⟨e1, e2⟩ := ecnt_of_ca hw hcc
    refine ⟨?_, ?_, ?_⟩
    · rintro ⟨hl, h0⟩
      exact Or.inl ⟨⟨by rw [e1]; exact hl, by rw [e2]; exact h0⟩, ha, by simp [hop']⟩
    · rintro ⟨hl, h1⟩
      exact ⟨Or.inl ⟨by rw [e1]; exact hl, by rw [e2]; exact h1⟩, ha⟩
    · intro h2
      exact ⟨by unfold E2; rw [hw]; exact h2, ha⟩

/-- Along a stretch of history without arrival for `k` and without removal of it. `hit j` says the
    op at offset `j` is a check that visits `k` and finds it failed (expired latest metric; fewer
    than 6 samples or the accrual oracle agrees). -/
def hitAt (P : Params) (k : Key) (i : Nat) (s : State) (ops : List Op) (j : Nat) : Prop :=
  ∃ op, ops[j]? = some op ∧ isCheck op = true ∧
    k ∈ visited (stateAfter P i s (ops.take j)) op ∧ Hot P (i + j) (stateAfter P i s (ops.take j)) k

theorem hitAt_succ {P : Params} {k : Key} {i : Nat} {s : State} {op : Op} {rest : List Op} {j : Nat}
    (h : hitAt P k i s (op :: rest) (j + 1)) : hitAt P k (i + 1) (step P i s op).1 rest j := by
  obtain ⟨o, ho, hc, hv, hh⟩ := h
  refine ⟨o, by simpa using ho, hc, ?_, ?_⟩
  · simpa [stateAfter] using hv
  · have : i + (j + 1) = i + 1 + j := by omega
    rw [this] at hh
    simpa [stateAfter] using hh

theorem episode_run {P : Params} (hcap : 0 < P.cap) (hmax : P.maxA = 1) {hist : List Op} (hids : (ids hist).Nodup)
    (k : Key) (m : Metric) :
    ∀ (ops : List Op) (i : Nat) (s : State), Good P hist i s → (∀ op ∈ ops, op ∈ hist) → idsAt i ops = true →
      (∀ op ∈ ops, touches k op = false) →
      (E0 k m s → alertsFor k (runFrom P i s ops) ≤ 1 ∧
          ((∃ j, hitAt P k i s ops j) → alertsFor k (runFrom P i s ops) = 1)) ∧
      (E1 k m s ∨ E2 k s → alertsFor k (runFrom P i s ops) = 0) := by
  intro ops
  induction ops with
  | nil =>
    intro i s _ _ _ _
    refine ⟨fun _ => ⟨by simp [runFrom, alertsFor], ?_⟩, fun _ => by simp [runFrom, alertsFor]⟩
    rintro ⟨j, op, h, _⟩; simp at h
  | cons op rest ih =>
    intro i s hG hsub hid ht
    obtain ⟨hid1, hid2⟩ := idsAt_cons hid
    have hG' := good_step hcap hmax hids hG op (hsub op (by simp)) hid1
    obtain ⟨ih0, ih12⟩ := ih (i + 1) _ hG' (fun o ho => hsub o (by simp [ho])) hid2
      (fun o ho => ht o (by simp [ho]))
    obtain ⟨s0, s1, s2⟩ := episode_step P hmax i s hG.cnt hG.nodup op k m (ht op (by simp))
    simp only [runFrom, alertsFor_cons]
    refine ⟨fun h0 => ?_, fun h12 => ?_⟩
    · rcases s0 h0 with ⟨h0', ha, hnot⟩ | ⟨h12', ha, _, _⟩
      · obtain ⟨hle, hex⟩ := ih0 h0'
        refine ⟨by omega, ?_⟩
        rintro ⟨j, hj⟩
        cases j with
        | zero =>
          exfalso
          obtain ⟨o, ho, hc, hv, hh⟩ := hj
          simp only [List.getElem?_cons_zero, Option.some.injEq] at ho
          subst ho
          exact hnot ⟨hc, by simpa [stateAfter] using hv, by simpa [stateAfter] using hh⟩
        | succ j =>
          rw [ha, hex ⟨j, hitAt_succ hj⟩]
      · have := ih12 h12'
        exact ⟨by omega, fun _ => by omega⟩
    · rcases h12 with h1 | h2
      · obtain ⟨h12', ha⟩ := s1 h1
        rw [ha, ih12 h12']
      · obtain ⟨h2', ha⟩ := s2 h2
        rw [ha, ih12 (Or.inr h2')]

theorem window_latest_add' (w : Window) (m : Metric) (h : w ≠ []) : (w.add m).latest = some m := by
  cases w with
  | nil => exact absurd rfl h
  | cons a t => simp [Window.add, Window.latest]

theorem ringRep_ne_nil {cap : Nat} {w : Window} {xs : List Metric} (hc : 0 < cap) (h : RingRep cap w xs) : w ≠ [] := by
  intro hw
  have h2 := congrArg List.length h.2
  have h1 := h.1
  simp [hw] at h2
  omega

/-- the arrival of `m` at position `i` starts an episode: stored, alert count cleared -/
theorem add_starts_episode {P : Params} (hcap : 0 < P.cap) {hist : List Op} {i : Nat} {s : State}
    (hG : Good P hist i s) (m : Metric) (hid : m.id = i) : E0 (m.name, m.peer) m (step P i s (.add m)).1 := by
  have hl : latestOf (s.add P m) (m.name, m.peer) = some m := by
    unfold latestOf
    simp only [State.add, upd, if_true, Option.bind_some]
    apply window_latest_add'
    cases hw : s.win (m.name, m.peer) with
    | none => exact ringRep_ne_nil hcap (ringRep_new P.cap)
    | some w =>
      obtain ⟨t, hI, _, _⟩ := hG
      obtain ⟨xs, hr, _⟩ := hI.ringSome _ w hw
      exact ringRep_ne_nil hcap hr
  refine ⟨hl, ?_⟩
  show ecnt (s.add P m) (m.name, m.peer) = 0
  unfold ecnt
  rw [hl]
  have := hG.af_le (m.name, m.peer)
  have haf : (s.add P m).af (m.name, m.peer) = s.af (m.name, m.peer) := rfl
  simp only [haf, stampOf]
  split_ifs with h
  · omega
  · rfl

end CV.C09
