import ClusterVerif.Props.C03
