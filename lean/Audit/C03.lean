import ClusterVerif.Props.C03
#print axioms CV.C03.allowed_holds
#print axioms CV.C03.allocate_allowed
#print axioms CV.C03.allocate_holds
#print axioms CV.C03.valid_factors_no_panic
#print axioms CV.C03.factorsValid_iff
