import ClusterVerif.Props.C03
#print axioms CV.C03.allowed_holds
#print axioms CV.C03.allocate_allowed
#print axioms CV.C03.allocate_holds
#print axioms CV.C03.valid_factors_no_panic
#print axioms CV.C03.factorsValid_iff
#print axioms CV.C03.gen_allocate_skeleton
#print axioms CV.C03.gen_classification_order
#print axioms CV.C03.gen_obtain_skeleton
#print axioms CV.C03.gen_valid_skeleton
#print axioms CV.C03.gen_allocators
