#!/bin/bash
# usage: tools/merge_branch.sh Cxx   — merges the builder branch wt-Cxx into main (union of known findings, ours on conflicts)
set -eu
id=$1
cd /verif
python3 - "$id" <<'PY'
import json, subprocess, sys
pid = sys.argv[1]
theirs = json.loads(subprocess.run(["git", "show", "wt-%s:known_findings.json" % pid], stdout=subprocess.PIPE, text=True, check=True).stdout)
ours = json.load(open("known_findings.json"))
# the builder of a property owns the K-entries of that property: replace ours by theirs; everything else: add if the id is new
mine = [f for f in theirs["findings"] if f.get("property") == pid and not f["id"].startswith("F")]
keep = [f for f in ours["findings"] if not (f.get("property") == pid and not f["id"].startswith("F"))]
have = {f["id"] for f in keep}
clash = [f["id"] for f in mine if f["id"] in have]
if clash:
    print("ID CLASH, rename on the branch first:", clash); sys.exit(1)
newF = [f for f in theirs["findings"] if f["id"].startswith("F") and f["id"] not in have and f["id"] not in {m["id"] for m in mine}]
ours["findings"] = keep + mine + newF
json.dump(ours, open("known_findings.json", "w"), indent=1)
print("known findings of", pid, ":", [(f["id"], f["status"]) for f in mine])
PY
git add known_findings.json; git commit -qm "known_findings: entries from wt-$id" || true
cp known_findings.json /tmp/kf-merge-$$.json
git merge -q -X ours wt-$id -m "merge wt-$id" || { echo "MERGE NEEDS ATTENTION"; git status --short | head; exit 1; }
# a textual merge of known_findings.json can duplicate entries: the file computed above is the result
cp /tmp/kf-merge-$$.json known_findings.json; rm -f /tmp/kf-merge-$$.json
git add known_findings.json; git commit -qm "known_findings: computed union after merging wt-$id" || true
echo merged $id; git log --oneline | head -2
