#!/bin/bash
# usage: tools/merge_branch.sh Cxx   — merges the builder branch wt-Cxx into main (union of known findings, ours on conflicts)
set -eu
id=$1
cd /verif
python3 - "$id" <<'PY'
import json, subprocess, sys
pid = sys.argv[1]
theirs = json.loads(subprocess.run(["git", "show", "wt-%s:known_findings.json" % pid], stdout=subprocess.PIPE, text=True, check=True).stdout)
ours = json.load(open("known_findings.json"))
have = {f["id"] for f in ours["findings"]}
added = []
for f in theirs["findings"]:
    if f["id"] not in have:
        ours["findings"].append(f); added.append(f["id"])
json.dump(ours, open("known_findings.json", "w"), indent=1)
print("known findings added:", added)
PY
git add known_findings.json; git commit -qm "known_findings: entries from wt-$id" || true
git merge -q -X ours wt-$id -m "merge wt-$id" || { echo "MERGE NEEDS ATTENTION"; git status --short | head; exit 1; }
# their known_findings edits to existing entries are dropped by -X ours; keep ours
echo merged $id; git log --oneline | head -2
