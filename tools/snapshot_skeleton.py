import os
#!/usr/bin/env python3
"""usage: tools/snapshot_skeleton.py Cxx
Copies lean/ClusterVerif/Gen/Cxx.lean (just regenerated from /repo) to lean/ClusterVerif/Model/CxxSource.lean under the
namespace CV.Cxx.Expected. Run it ONLY after re-reading the changed source against the hand-written model: the snapshot is the
statement "this is the source text the model transcribes"; Props/Cxx.lean proves Gen = Expected by rfl on every run."""
import re, sys
pid = sys.argv[1]
ROOT = os.path.dirname(os.path.dirname(os.path.abspath(__file__)))  # the checkout this script lives in (a builder worktree must not write into /verif)
gen = open(os.path.join(ROOT, "lean/ClusterVerif/Gen/%s.lean" % pid)).read()
body = gen.split("namespace CV.%s.Gen" % pid, 1)[1].rsplit("end CV.%s.Gen" % pid, 1)[0]
names = []
ns = []
for line in body.splitlines():
    m = re.match(r"^namespace (\w+)", line)
    if m: ns.append(m.group(1)); continue
    m = re.match(r"^end (\w+)", line)
    if m and ns and ns[-1] == m.group(1): ns.pop(); continue
    m = re.match(r"^def (\w+) : List String", line)
    if m: names.append(".".join(ns + [m.group(1)]))
out = """/-!
# %s — the source text the hand-written model transcribes (snapshot)

Taken with `tools/snapshot_skeleton.py %s` from the translator output after the model was last read against the source.
`Gen/%s.lean` is regenerated from /repo on every run and `Props/%s.lean` proves `Gen.f = Expected.f` for every function below
(`rfl`): an edit to any of these functions breaks that obligation, and the check then searches for a failing input with the
correspondence run (a rewrite that keeps the behaviour ends as `no-failing-input-found`, see DESIGN 2.2).
-/
namespace CV.%s.Expected
%s
end CV.%s.Expected
""" % (pid, pid, pid, pid, pid, body.rstrip() + "\n", pid)
open(os.path.join(ROOT, "lean/ClusterVerif/Model/%sSource.lean" % pid), "w").write(out)
thms = "\n".join("theorem gen_source_%s : Gen.%s = Expected.%s := rfl" % (n.replace(".", "_"), n, n) for n in names)
print(thms)
