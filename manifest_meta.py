ALL_IDS = ["C%02d" % i for i in range(1, 19)]
NOT_APPLICABLE_REASONS = {}
