ALL_IDS = ["C%02d" % i for i in range(1, 19)]
NOT_APPLICABLE_REASONS = {}
META = {}
META["C03"] = {
    "text": "Kernel-checked theorem allowed_holds: for every input (any peers, metric states, lists, factor pair, both strategies) and every "
            "output the model relation of allocate() admits under any map-iteration order and any tie-break of Go's unstable sort, all clauses "
            "of the property hold (no size bound). The relation is tied to today's code by running the real allocate()/allocators/metrics.Store "
            "on thousands of seeded cases per run and checking (a) the real output is in the relation and (b) the Lean property checker on the real output.",
    "note": "Trusted: Lean kernel (+propext, Classical.choice, Quot.sound), the hand-written model/spec, the Go harness and its store-backed monitor, "
            "verif_export.go wrappers. A non-numeric metric is treated as unusable for new allocations.",
    "technique": "Lean 4 theorem over relational model + differential correspondence with the real allocate()",
}
