"""Round-7 mutation self-test. usage: cp -a /repo /tmp/repo-C16 && python3 notes/C16_mutants7.py <worktree> [name...]
Each edit is applied to the scratch copy /tmp/repo-C16 and `VERIF_REPO=/tmp/repo-C16 ./check C16` is run in <worktree>."""
import subprocess, sys, os
R="/tmp/repo-C16"
F=R+"/ipfsconn/ipfshttp/ipfshttp.go"
CHK="\tif res.StatusCode == http.StatusOK {\n\t\treturn nil, nil\n\t}\n\n\tbody, err := ioutil.ReadAll(res.Body)"
M={
 "N1-checkResponse-accepts-3xx": (F, CHK, CHK.replace("res.StatusCode == http.StatusOK {", "res.StatusCode == http.StatusOK || res.StatusCode/100 == 3 {")),
 "N2-checkResponse-accepts-any-2xx": (F, CHK, CHK.replace("res.StatusCode == http.StatusOK {", "res.StatusCode >= 200 && res.StatusCode < 300 {")),
 "N3-undecodable-error-body-is-an-ipfsError": (F, "\t// No error response with useful message from ipfs\n\treturn nil, fmt.Errorf(", "\t// No error response with useful message from ipfs\n\tif err == nil {\n\t\treturn body, ipfsError{path: path, code: res.StatusCode, Message: string(body)}\n\t}\n\treturn nil, fmt.Errorf("),
 "N4-empty-200-body-of-pin-ls-is-unpinned": (F, "\tvar res ipfsPinLsResp\n\terr = json.Unmarshal(body, &res)\n\tif err != nil {\n\t\tlogger.Error(\"error parsing pin/ls?arg=cid response:\")", "\tif len(body) == 0 {\n\t\treturn api.IPFSPinStatusUnpinned, nil\n\t}\n\tvar res ipfsPinLsResp\n\terr = json.Unmarshal(body, &res)\n\tif err != nil {\n\t\tlogger.Error(\"error parsing pin/ls?arg=cid response:\")"),
 "N5-shortcut-tests-recursive-whatever-the-depth": (F, "\tif pinStatus.IsPinned(maxDepth) {\n\t\tlogger.Debug(\"IPFS object is already pinned: \", hash)", "\tif pinStatus.IsPinned(-1) {\n\t\tlogger.Debug(\"IPFS object is already pinned: \", hash)"),
 "N6-C16f-unpin-probe": "PATCH:/tmp/mut/out-C16f/patch.diff",
 "N7-no-timeout-for-pin-rm": (F, "\tctx, cancel := context.WithTimeout(ctx, ipfs.config.UnpinTimeout)", "\tctx, cancel := context.WithCancel(ctx)"),
 "N8-reverse-of-the-K28-repair": (F, "\tctx, cancel := context.WithTimeout(ctx, ipfs.config.PinTimeout)\n\tdefer cancel()\n\n\tpath := fmt.Sprintf(\"pin/update", "\tpath := fmt.Sprintf(\"pin/update"),
 "N9-postCtx-hands-an-error-object-back-as-a-reply": (F, "\terrBody, err := checkResponse(path, res)\n\tif err != nil {\n\t\treturn errBody, err\n\t}", "\terrBody, err := checkResponse(path, res)\n\tif err != nil {\n\t\tif _, ok := err.(ipfsError); ok {\n\t\t\treturn errBody, nil\n\t\t}\n\t\treturn errBody, err\n\t}"),
 "N10-source-lookup-error-ends-the-pin": (F, "\t\tpinStatus, _ := ipfs.PinLsCid(ctx, fromPin)\n", "\t\tpinStatus, err := ipfs.PinLsCid(ctx, fromPin)\n\t\tif err != nil {\n\t\t\treturn err\n\t\t}\n"),
 "N11-doPostCtx-rewrites-204-to-200": (F, "\tres, err := ipfs.client.Do(req)\n\tif err != nil {\n\t\tlogger.Error(\"error posting to IPFS:\", err)\n\t}\n", "\tres, err := ipfs.client.Do(req)\n\tif err != nil {\n\t\tlogger.Error(\"error posting to IPFS:\", err)\n\t}\n\tif res != nil && res.StatusCode == http.StatusNoContent {\n\t\tres.StatusCode = http.StatusOK\n\t}\n"),
 "N12-BlockPut-ignores-the-response": (F, "\tvar res ipfsBlockPutResp\n\terr = json.Unmarshal(body, &res)\n\tif err != nil {\n\t\treturn err\n\t}\n\n\tlogger.Debug(\"block/put response CID\", res.Key)\n\trespCid, err := cid.Decode(res.Key)\n\tif err != nil {\n\t\tlogger.Error(\"cannot parse CID from BlockPut response\")\n\t\treturn err\n\t}\n", "\tvar res ipfsBlockPutResp\n\t_ = json.Unmarshal(body, &res)\n\trespCid, _ := cid.Decode(res.Key)\n"),
 "N13-Resolve-falls-back-to-the-path-on-a-decode-error": (F, "\tvar resp ipfsResolveResp\n\terr = json.Unmarshal(res, &resp)\n\tif err != nil {\n\t\tlogger.Error(\"could not unmarshal response: \" + err.Error())\n\t\treturn cid.Undef, err\n\t}\n", "\tvar resp ipfsResolveResp\n\terr = json.Unmarshal(res, &resp)\n\tif err != nil || resp.Path == \"\" {\n\t\tseg := strings.Split(strings.TrimRight(path, \"/\"), \"/\")\n\t\treturn cid.Decode(seg[len(seg)-1])\n\t}\n"),
 "N14-RepoGC-without-checkResponse": (F, "\t_, err = checkResponse(\"repo/gc\", res)\n\tif err != nil {\n\t\tlogger.Error(err)\n\t\treturn nil, err\n\t}\n\n\tdec := json.NewDecoder(res.Body)\n\trepoGC", "\tdec := json.NewDecoder(res.Body)\n\trepoGC"),
 "N15-SwarmPeers-skips-undecodable-peers": (F, "\t\tpID, err := peer.Decode(p.Peer)\n\t\tif err != nil {\n\t\t\tlogger.Error(err)\n\t\t\treturn swarm, err\n\t\t}", "\t\tpID, err := peer.Decode(p.Peer)\n\t\tif err != nil {\n\t\t\tcontinue\n\t\t}"),
}
wt=sys.argv[1]
which=sys.argv[2:] or list(M)
for name in which:
    subprocess.run(["git","-C",R,"checkout","-q","."])
    spec=M[name]
    if isinstance(spec,str):
        p=subprocess.run(["git","-C",R,"apply",spec[6:]],stdout=subprocess.PIPE,stderr=subprocess.STDOUT,text=True)
        if p.returncode!=0:
            print(name,"PATCH DOES NOT APPLY",p.stdout[:300]); continue
    else:
        f,*pairs=spec
        s=open(f).read()
        if any(pairs[k] not in s for k in range(0,len(pairs),2)):
            print(name,"PATTERN NOT FOUND"); continue
        for k in range(0,len(pairs),2):
            s=s.replace(pairs[k],pairs[k+1],1)
        open(f,"w").write(s)
    env=dict(os.environ,VERIF_REPO=R)
    p=subprocess.run(["./check","C16"],cwd=wt,env=env,stdout=subprocess.PIPE,stderr=subprocess.STDOUT,text=True)
    lines=[l[:420] for l in p.stdout.split("\n") if l.strip() and not l.startswith("KNOWN-FINDING")]
    print("=====",name,"exit",p.returncode)
    for l in lines[-5:]: print("   ",l)
    sys.stdout.flush()
subprocess.run(["git","-C",R,"checkout","-q","."])
