import subprocess, sys, os, re
R="/tmp/repo-C16"
F=R+"/ipfsconn/ipfshttp/ipfshttp.go"
T=R+"/api/types.go"
M={
 "M1-empty-non200-is-success": (F, "\tbody, err := ioutil.ReadAll(res.Body)\n\tif err == nil {\n\t\tvar ipfsErr ipfsError", "\tbody, err := ioutil.ReadAll(res.Body)\n\tif err == nil && len(body) == 0 {\n\t\treturn nil, nil\n\t}\n\tif err == nil {\n\t\tvar ipfsErr ipfsError"),
 "M2-update-unpin-true": (F, "pin/update?arg=%s&arg=%s&unpin=false", "pin/update?arg=%s&arg=%s&unpin=true"),
 "M3-skip-ls-shortcut": (F, "\tif pinStatus.IsPinned(maxDepth) {\n\t\tlogger.Debug(\"IPFS object is already pinned: \", hash)", "\tif false && pinStatus.IsPinned(maxDepth) {\n\t\tlogger.Debug(\"IPFS object is already pinned: \", hash)"),
 "M4-any-message-is-progress": (F, "if p > lastProgress {", "if p >= lastProgress {"),
 "M5-unexpected-eof-is-clean": (F, "\t\t\t\tif err == io.EOF {\n\t\t\t\t\treturn nil // clean exit. Pinned!", "\t\t\t\tif err == io.EOF || err == io.ErrUnexpectedEOF {\n\t\t\t\t\treturn nil // clean exit. Pinned!"),
 "M6-unpin-tolerates-any-ipfs-error": (F, "\t\tif !ok ||\n\t\t\t(ipfsErr.Message != dspinner.ErrNotPinned.Error() &&\n\t\t\t\tipfsErr.Message != ipldpinner.ErrNotPinned.Error()) {", "\t\t_ = ipfsErr\n\t\t_ = dspinner.ErrNotPinned\n\t\t_ = ipldpinner.ErrNotPinned\n\t\tif !ok {"),
 "M7-ls-network-error-is-unpinned": (F, "if body == nil && err != nil { // Network error, daemon down", "if false && body == nil && err != nil { // Network error, daemon down"),
 "M8-update-from-direct-source": (F, "if pinStatus.IsPinned(-1) { // pinned recursively.", "if pinStatus.IsPinned(-1) || pinStatus.IsPinned(0) { // pinned recursively."),
 "M9-topinmode-depth-direct": (T, "\tdefault:\n\t\tlogger.Warnf(\"bad pin depth: %d\", pd)\n\t\treturn PinModeRecursive", "\tdefault:\n\t\tlogger.Warnf(\"bad pin depth: %d\", pd)\n\t\treturn PinModeDirect"),
 "M10-watchdog-never-cancels": (F, "\t\t\t\t\t// timeout request\n\t\t\t\t\tcancelRequest()\n\t\t\t\t\treturn", "\t\t\t\t\t// timeout request\n\t\t\t\t\treturn"),
 "M11-origins-unbounded": (F, "if bound > 10 {", "if bound > 100 {"),
 "M13-direct-pinned-recursively": (F, "\tcase maxDepth == 0:\n\t\tq.Set(\"recursive\", \"false\")", "\tcase maxDepth == 0:\n\t\tq.Set(\"recursive\", \"true\")"),
 "M14-unpin-disable-ignored": (F, "\tif ipfs.config.UnpinDisable {\n\t\treturn errors.New(\"ipfs unpinning is disallowed by configuration on this peer\")\n\t}\n\n\tdefer ipfs.updateInformerMetric(ctx)\n\n\tpath := fmt.Sprintf(\"pin/rm", "\tif false && ipfs.config.UnpinDisable {\n\t\treturn errors.New(\"ipfs unpinning is disallowed by configuration on this peer\")\n\t}\n\n\tdefer ipfs.updateInformerMetric(ctx)\n\n\tpath := fmt.Sprintf(\"pin/rm"),
 "M15-truncated-body-accepted": (F, "\t\tlogger.Errorf(\"error reading response body: %s\", err)\n\t\treturn nil, err", "\t\tlogger.Errorf(\"error reading response body: %s\", err)\n\t\treturn body, nil"),
 "M16-ispinned-direct-accepts-recursive": (T, "\tcase maxDepth == 0:\n\t\treturn ips == IPFSPinStatusDirect", "\tcase maxDepth == 0:\n\t\treturn ips == IPFSPinStatusDirect || ips == IPFSPinStatusRecursive"),
 "M21-404-is-ok": (F, "\tif res.StatusCode == http.StatusOK {\n\t\treturn nil, nil\n\t}\n\n\tbody, err := ioutil.ReadAll(res.Body)", "\tif res.StatusCode == http.StatusOK || res.StatusCode == http.StatusNotFound {\n\t\treturn nil, nil\n\t}\n\n\tbody, err := ioutil.ReadAll(res.Body)"),
 "M22-pin-ignores-ls-error": (F, "\tpinStatus, err := ipfs.PinLsCid(ctx, pin)\n\tif err != nil {\n\t\treturn err\n\t}\n\n\tif pinStatus.IsPinned(maxDepth) {", "\tpinStatus, err := ipfs.PinLsCid(ctx, pin)\n\tif err != nil {\n\t\tpinStatus = api.IPFSPinStatusUnpinned\n\t}\n\n\tif pinStatus.IsPinned(maxDepth) {"),
 "M23-update-for-any-source-answer": (F, "\t\tpinStatus, _ := ipfs.PinLsCid(ctx, fromPin)\n\t\tif pinStatus.IsPinned(-1) { // pinned recursively.", "\t\tpinStatus, lerr := ipfs.PinLsCid(ctx, fromPin)\n\t\tif lerr == nil || pinStatus.IsPinned(-1) { // pinned recursively."),
 "M24-progress-false": (F, "pin/add?arg=%s&%s&progress=true", "pin/add?arg=%s&%s&progress=false"),
 "M25-ispinned-depth-accepts-direct": (T, "\tcase maxDepth > 0:\n\t\t// FIXME: when we know how ipfs returns partial pins.\n\t\treturn ips == IPFSPinStatusRecursive", "\tcase maxDepth > 0:\n\t\t// FIXME: when we know how ipfs returns partial pins.\n\t\treturn ips == IPFSPinStatusRecursive || ips == IPFSPinStatusDirect"),
 "M26-stream-error-unnoticed-both": (F, "\t\tif pins.Type == \"error\" {", "\t\tif false && pins.Type == \"error\" {", "\t\t\t\t\tif streamErr := res.Trailer.Get(\"X-Stream-Error\"); streamErr != \"\" {", "\t\t\t\t\tif streamErr := res.Trailer.Get(\"X-Stream-Error\"); false && streamErr != \"\" {"),
 "M27-stream-error-object-unnoticed": (F, "\t\tif pins.Type == \"error\" {", "\t\tif false && pins.Type == \"error\" {"),
 "M28-stream-error-trailer-unnoticed": (F, "\t\t\t\t\tif streamErr := res.Trailer.Get(\"X-Stream-Error\"); streamErr != \"\" {", "\t\t\t\t\tif streamErr := res.Trailer.Get(\"X-Stream-Error\"); false && streamErr != \"\" {"),
 "M17-ls-always-type-recursive": (F, "\tpinType := pin.MaxDepth.ToPinMode().String()", "\tpinType := \"recursive\"\n\t_ = pin.MaxDepth.ToPinMode()"),
 "M18-ipfs-error-on-add-ignored": (F, "\t_, err = checkResponse(path, res)\n\tif err != nil {\n\t\treturn err\n\t}\n\n\tdec := json.NewDecoder(res.Body)", "\t_, err = checkResponse(path, res)\n\tif _, isIpfs := err.(ipfsError); err != nil && !isIpfs {\n\t\treturn err\n\t}\n\n\tdec := json.NewDecoder(res.Body)"),
}
which=sys.argv[1:] or list(M)
for name in which:
    f,*pairs=M[name]
    subprocess.run(["git","-C",R,"checkout","-q","."])
    s=open(f).read()
    if any(pairs[k] not in s for k in range(0,len(pairs),2)):
        print(name,"PATTERN NOT FOUND"); continue
    for k in range(0,len(pairs),2):
        s=s.replace(pairs[k],pairs[k+1],1)
    open(f,"w").write(s)
    env=dict(os.environ,VERIF_REPO=R)
    p=subprocess.run(["./check","C16"],cwd="/work/C16",env=env,stdout=subprocess.PIPE,stderr=subprocess.STDOUT,text=True)
    lines=[l[:330] for l in p.stdout.split("\n") if l.strip() and not l.startswith("KNOWN-FINDING")]
    print("=====",name,"exit",p.returncode)
    for l in lines[-4:]: print("   ",l)
    sys.stdout.flush()
subprocess.run(["git","-C",R,"checkout","-q","."])
