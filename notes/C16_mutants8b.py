#!/usr/bin/env python3
"""Round-8b mutants for C16 (request construction, api/types.go tables; P5/P7 of round 8 re-run).
Usage: cp -a /repo /tmp/repo-C16 && python3 notes/C16_mutants8b.py Q1 [P5 P7 ...]"""
import subprocess, sys
R = '/tmp/repo-C16'
F = R + '/ipfsconn/ipfshttp/ipfshttp.go'
T = R + '/api/types.go'
def rep(path, a, b):
    s = open(path).read()
    assert s.count(a) >= 1, a
    open(path, 'w').write(s.replace(a, b, 1))
for m in sys.argv[1:]:
    if m == 'Q1':    # seeded change C16g: pin/update built by a helper that leaves unpin=false out
        subprocess.check_call(['git', 'apply', '--unsafe-paths', '--directory=' + R, '/root/wt/C16b/seeded/C16g/patch.diff'], cwd='/')
    elif m == 'Q2':  # pinUpdate called with source and target swapped
        rep(F, 'return ipfs.pinUpdate(ctx, from, pin.Cid)', 'return ipfs.pinUpdate(ctx, pin.Cid, from)')
    elif m == 'Q3':  # pinArgs: depth 0 falls into the recursive arm
        rep(F, 'case maxDepth < 0:\n\t\tq.Set("recursive", "true")', 'case maxDepth <= 0:\n\t\tq.Set("recursive", "true")')
    elif m == 'Q4':  # IsPinned: positive depth satisfied by a direct pin
        rep(T, 'case maxDepth > 0:\n\t\t// FIXME: when we know how ipfs returns partial pins.\n\t\treturn ips == IPFSPinStatusRecursive', 'case maxDepth > 0:\n\t\treturn ips == IPFSPinStatusDirect')
    elif m == 'Q5':  # IPFSPinStatusFromString: prefix match for direct too, tested first ("direct" is no prefix of "indirect": harmless) 
        rep(T, 'case t == "direct":', 'case strings.HasPrefix(t, "direct"):')
    elif m == 'P5':  # plain deadline instead of the progress watchdog
        rep(F, 'ctx, cancelRequest := context.WithCancel(ctx)', 'ctx, cancelRequest := context.WithTimeout(ctx, ipfs.config.PinTimeout)')
    elif m == 'P7':  # RepoGC without its timeout
        rep(F, '\tctx, cancel := context.WithTimeout(ctx, ipfs.config.RepoGCTimeout)\n\tdefer cancel()\n', '')
    else:
        sys.exit('unknown mutant ' + m)
