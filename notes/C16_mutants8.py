#!/usr/bin/env python3
"""Round-8 mutants for C16 (context governance). Usage: cp -a /repo /tmp/repo-C16 && python3 notes/C16_mutants8.py P1"""
import sys
F = '/tmp/repo-C16/ipfsconn/ipfshttp/ipfshttp.go'
s = open(F).read()
def rep(a, b, n=1):
    global s
    assert s.count(a) >= 1, a
    s = s.replace(a, b, n)
m = sys.argv[1]
LS = '''	ctx, cancel := context.WithTimeout(ctx, ipfs.config.IPFSRequestTimeout)
	defer cancel()

	pinType := pin.MaxDepth.ToPinMode().String()'''
if m == 'P1':   # PinLsCid without its request timeout
    rep(LS, '''	pinType := pin.MaxDepth.ToPinMode().String()''')
elif m == 'P3': # PinLsCid detaches from the caller's context (same deadline)
    rep(LS, '''	ctx, cancel := context.WithTimeout(context.Background(), ipfs.config.IPFSRequestTimeout)
	defer cancel()

	pinType := pin.MaxDepth.ToPinMode().String()''')
elif m == 'P5': # plain deadline instead of the progress watchdog
    rep('ctx, cancelRequest := context.WithCancel(ctx)', 'ctx, cancelRequest := context.WithTimeout(ctx, ipfs.config.PinTimeout)')
elif m == 'P7': # RepoGC without its timeout
    rep('''	ctx, cancel := context.WithTimeout(ctx, ipfs.config.RepoGCTimeout)
	defer cancel()
''', '')
else:
    sys.exit('unknown mutant')
open(F, 'w').write(s)
