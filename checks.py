"""Per-property configuration of ./check (see DESIGN.md section 4)."""

def suite(name, pkg, quick, thorough, stdin=False, race=False, tiers=None, args=None, timeout=None):
    s = {"name": name, "pkg": pkg, "bin": pkg.replace("/", "_") + ("_race" if race else ""),
         "n": {"quick": quick, "thorough": thorough}, "stdin": stdin, "race": race}
    if tiers: s["tiers"] = tiers
    if args: s["args"] = args
    if timeout: s["timeout"] = timeout
    return s

CHECKS = {}

CHECKS["C03"] = {
    "suites": [suite("allocate", "c03", 6000, 120000, stdin=True)],
    "lean_sources": ["ClusterVerif/Model/C03.lean", "ClusterVerif/Spec/C03.lean", "ClusterVerif/Lemmas/C03.lean"],
    "rule": "cases = (strategy, factor pair, 0-8 peers each in one of 5 metric states, current/exclusion/priority lists) "
            "drawn from one splitmix64 stream per case index; non-trivial = positive factors or everywhere (-1,-1); distinct by case line",
    "trusted_base": ["metrics.Store-backed monitor stands in for pubsubmon (LatestValid is the real code)",
                     "verif_export.go wrappers (VerifNewCluster, VerifAllocate)"],
    "assumptions": ["LatestMetrics returns at most one metric per peer (C09)",
                    "a non-numeric metric makes a peer unusable for new allocations under the shipped strategies"],
}
