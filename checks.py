"""Per-property configuration of ./check: one file checks/Cxx.py per property defining CHECK (and META for the manifest)."""
import importlib.util, os, re

def suite(name, pkg, quick, thorough, stdin=False, race=False, tiers=None, args=None, timeout=None, exit_is_violation=False):
    s = {"name": name, "pkg": pkg, "bin": pkg.replace("/", "_") + ("_race" if race else ""),
         "n": {"quick": quick, "thorough": thorough}, "stdin": stdin, "race": race}
    if tiers: s["tiers"] = tiers
    if args: s["args"] = args
    if timeout: s["timeout"] = timeout
    if exit_is_violation: s["exit_is_violation"] = True
    return s

CHECKS, META = {}, {}
_d = os.path.join(os.path.dirname(os.path.abspath(__file__)), "checks")
for _f in sorted(os.listdir(_d)):
    if re.match(r"C\d\d\.py$", _f):
        _spec = importlib.util.spec_from_file_location("checks_" + _f[:-3], os.path.join(_d, _f))
        _m = importlib.util.module_from_spec(_spec)
        _m.suite = suite
        _spec.loader.exec_module(_m)
        CHECKS[_f[:-3]] = _m.CHECK
        if hasattr(_m, "META"):
            META[_f[:-3]] = _m.META
